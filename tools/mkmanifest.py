#!/usr/bin/env python3
"""Regenerates /verif/MANIFEST.json from budgets.json (what is built) and tools/manifest_texts.json."""
import json, os
ROOT = os.path.dirname(os.path.dirname(os.path.abspath(__file__)))
import glob
budgets = json.load(open(os.path.join(ROOT, "budgets.json")))
for f in sorted(glob.glob(os.path.join(ROOT, "budgets.d", "*.json"))):
    budgets.update(json.load(open(f)))
texts = json.load(open(os.path.join(ROOT, "tools", "manifest_texts.json")))
for f in sorted(glob.glob(os.path.join(ROOT, "tools", "manifest_texts.d", "*.json"))):
    texts.update(json.load(open(f)))
props = [json.loads(l) for l in open(os.path.join(ROOT, "properties.jsonl")) if l.strip()]
checks, na = [], []
claimed = set(open(os.path.join(ROOT, "tools", "claimed.txt")).read().split())
for p in props:
    pid = p["id"]
    t = texts.get(pid, {})
    if pid in budgets and pid in claimed and not t.get("not_applicable"):
        checks.append({
            "property_id": pid,
            "quick_cmd": "./check %s quick" % pid,
            "thorough_cmd": "./check %s thorough" % pid,
            "evidence_file": "/verif/evidence/%s.json" % pid,
            "replay_cmd_template": "./check %s --replay {path}" % pid,
            "engine": "pbt",
            "level_claimed": {"category": budgets[pid].get("level", "exploration"), "text": t.get("level_text", ""), "design_ref": t.get("design_ref", "DESIGN.md section 4, " + pid)},
            "level_note": t.get("level_note", ""),
            "technique": t.get("technique", "property-based testing (rapid) against an explicit oracle"),
        })
    else:
        na.append({"property_id": pid, "reason": t.get("not_applicable") or "check not built yet in this session; see DESIGN.md section 6b for the build order"})
m = {
    "version": 1,
    "setup_cmd": "./check --setup",
    "hooks": {"guard": "verif", "enable": "none: no hook commits exist; checks build /repo's working tree through a replace directive (go test -c in /verif/harness)",
              "baseline_off_cmd": "cd /repo && go test -vet=off -count=1 ./...", "source_commits": [], "add_only": True},
    "engines": [{"name": "pbt", "path": "/verif/harness", "serves_properties": [c["property_id"] for c in checks],
                 "kind_free_text": "Go module: rapid v1.3.0 property/state-machine tests, bounded-exhaustive enumerators and native go fuzzing (rapid.MakeFuzz) sharing one runner (internal/pbt); driver /verif/check shards over processes and writes evidence"}],
    "checks": checks,
    "notes": "Every check is generated-input search against an explicit oracle (see DESIGN.md). Exit 2 = inconclusive. Known findings: /verif/known_findings.json.",
    "not_applicable": na,
}
json.dump(m, open(os.path.join(ROOT, "MANIFEST.json"), "w"), indent=1)
print("checks:", len(checks), "not claimed:", len(na))
