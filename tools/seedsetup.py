#!/usr/bin/env python3
"""Prepares one seeding task: seedsetup.py <property-id> <tag>
creates the scratch worktree /tmp/seed-<tag> of /repo and /tmp/seed-<tag>-out/{property.txt,TASK.md}; the task
text is tools/seed-prompt.txt plus the one-line summaries of the changes already kept for that property
(so that the next person looks elsewhere).  Nothing from /verif other than the property text and those
one-liners reaches the task."""
import glob, json, os, subprocess, sys

pid, tag = sys.argv[1], sys.argv[2]
wt, out = "/tmp/seed-%s" % tag, "/tmp/seed-%s-out" % tag
os.makedirs(out, exist_ok=True)
subprocess.run(["git", "-C", "/repo", "worktree", "add", "--detach", wt, "HEAD"], check=True, stdout=subprocess.DEVNULL, stderr=subprocess.DEVNULL)
prop = None
for line in open("/verif/properties.jsonl"):
    d = json.loads(line)
    if d.get("id") == pid:
        prop = d
text = json.dumps(prop, indent=1)
open(os.path.join(out, "property.txt"), "w").write(text)
t = open("/verif/tools/seed-prompt.txt").read().replace("__WT__", wt).replace("__OUT__", out).replace("__PROP__", text)
known = []
for p in sorted(glob.glob("/verif/seeded/%s-*/meta.json" % pid)):
    b = json.load(open(p)).get("breaks")
    if b:
        known.append("- " + b)
if known:
    t += "\n\nAlready known ideas - do NOT repeat these, find different ones (other functions, other clauses, other mechanisms; prefer changes whose effect depends on a configuration option, on the order or repetition of calls on one long-lived object, on a second element in a list, on an optional part of a message that ordinary senders omit, or on two cooperating code sites):\n" + "\n".join(known) + "\n"
open(os.path.join(out, "TASK.md"), "w").write(t)
print(out + "/TASK.md")
