#!/usr/bin/env python3
"""Development aid: apply one textual mutation to a scratch copy of /repo and run a check against it.
usage: mutate.py <ID> <file> <old> <new> [tier]   -> prints the check's summary; scratch copy removed afterwards."""
import os, shutil, subprocess, sys, tempfile
pid, rel, old, new = sys.argv[1:5]
tier = sys.argv[5] if len(sys.argv) > 5 else "quick"
d = tempfile.mkdtemp(prefix="mut-", dir="/tmp")
try:
    subprocess.run(["cp", "-r", "/repo/.", d], check=True)
    p = os.path.join(d, rel)
    s = open(p).read()
    if s.count(old) < 1:
        print("MUTATION DOES NOT APPLY"); sys.exit(3)
    s = s.replace(old, new, 1)
    open(p, "w").write(s)
    env = dict(os.environ, VERIF_REPO=d)
    b = subprocess.run(["go", "build", "./..."], cwd=d, capture_output=True, text=True)
    if b.returncode != 0:
        print("MUTANT DOES NOT BUILD", b.stderr[-500:]); sys.exit(3)
    r = subprocess.run(["/verif/check", pid, tier], env=env, capture_output=True, text=True, cwd="/verif")
    lines = r.stdout.strip().splitlines()
    v = [l for l in lines if l.startswith("VIOLATION property=")]
    det = [l for l in lines if l.startswith("VIOLATION-DETAIL")]
    print("exit=%d violations=%d %s" % (r.returncode, len(v), lines[-1] if lines else ""))
    if det:
        print("  first:", det[0][:400])
finally:
    shutil.rmtree(d, ignore_errors=True)
