#!/usr/bin/env python3
"""Rewrites the 'as built' table between <!-- ASBUILT-BEGIN --> and <!-- ASBUILT-END --> in DESIGN.md from /verif/evidence/*.json (quick tier)."""
import json, glob, os, re
ROOT = os.path.dirname(os.path.dirname(os.path.abspath(__file__)))
rows = []
for f in sorted(glob.glob(os.path.join(ROOT, "evidence", "C*.json"))):
    e = json.load(open(f))
    c = e["coverage"]
    parts = {}
    for p in c.get("exhaustive_parts", []):
        parts[p["name"]] = parts.get(p["name"], 0) + p["size"]
    ptxt = "; ".join("%s (%d)" % (k, v) for k, v in parts.items()) or "-"
    jobs = ", ".join("%s%s" % (j["pkg"] + ":" + j["name"], " -race" if j.get("race") else "") for j in c.get("jobs", []))
    rows.append("| %s | %s | %d | %d | %s | %.0f s |" % (e["property_id"], jobs, c["evaluations"], c["distinct_nontrivial"], ptxt, e["wall_s"]))
table = "| ID | jobs (quick) | evaluations | distinct non-trivial | exhaustive parts (members) | wall |\n|---|---|---|---|---|---|\n" + "\n".join(rows)
p = os.path.join(ROOT, "DESIGN.md")
s = open(p).read()
s = re.sub(r"<!-- ASBUILT-BEGIN -->.*<!-- ASBUILT-END -->", "<!-- ASBUILT-BEGIN -->\n" + table + "\n<!-- ASBUILT-END -->", s, flags=re.S)
open(p, "w").write(s)
print(len(rows), "rows")
