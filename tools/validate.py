#!/usr/bin/env python3
"""Validates MANIFEST.json and every evidence file against the schemas (development aid)."""
import json, sys, glob
sys.path.insert(0, '/opt/veriftools/pyvenv/lib/python3.11/site-packages')
import jsonschema
jsonschema.validate(json.load(open('/verif/MANIFEST.json')), json.load(open('/root/.vp/MANIFEST.schema.json')))
es = json.load(open('/root/.vp/EVIDENCE.schema.json'))
for f in sorted(glob.glob('/verif/evidence/*.json')):
    jsonschema.validate(json.load(open(f)), es)
    print("ok", f)
