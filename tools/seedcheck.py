#!/usr/bin/env python3
"""Confirms a seeded change and runs the check(s) against it.

usage: seedcheck.py <property-id> <dir-with patch.diff, demo_test.go[, notes.md]> [--name NAME] [--tier quick] [--also ID,ID]

Steps (all in scratch copies of /repo under /tmp, removed afterwards; /repo itself is never touched):
  1. patch applies and builds; 2. the full existing suite passes with it; 3. the demonstration fails with the
  change and passes without; 4. ./check <ID> <tier> with VERIF_REPO=<scratch>: caught or missed.
On success of 1-3 the change is kept as /verif/seeded/<NAME>/ {patch.diff, demo_test.go, notes.md, meta.json}.
"""
import json, os, re, shutil, subprocess, sys, tempfile, time

ENV = dict(os.environ, GOFLAGS="-mod=mod", GOPROXY="off", GOSUMDB="off", GOTOOLCHAIN="local")


def run(cmd, cwd, env=ENV, timeout=3600):
    p = subprocess.run(cmd, cwd=cwd, env=env, stdout=subprocess.PIPE, stderr=subprocess.STDOUT, text=True, timeout=timeout)
    return p.returncode, p.stdout


def pkgdir(demo):
    m = re.search(r'^package\s+(\w+)', demo, re.M)
    pkg = m.group(1) if m else "saml"
    return {"saml": ".", "saml_test": ".", "samlsp": "samlsp", "samlsp_test": "samlsp", "samlidp": "samlidp", "samlidp_test": "samlidp", "xmlenc": "xmlenc", "xmlenc_test": "xmlenc"}.get(pkg, ".")


def main():
    pid, src = sys.argv[1], sys.argv[2]
    args = sys.argv[3:]
    name = None
    tier = "quick"
    also = []
    race = []
    check_only = False
    while args:
        a = args.pop(0)
        if a == "--name":
            name = args.pop(0)
        elif a == "--tier":
            tier = args.pop(0)
        elif a == "--also":
            also = args.pop(0).split(",")
        elif a == "--race":
            race = ["-race"]
        elif a == "--check-only":
            check_only = True
    name = name or ("%s-%s" % (pid, os.path.basename(os.path.normpath(src))))
    patch = os.path.join(src, "patch.diff")
    demo = open(os.path.join(src, "demo_test.go")).read()
    sub = pkgdir(demo)
    meta = {"property": pid, "name": name, "checked_at": time.strftime("%Y-%m-%dT%H:%M:%SZ", time.gmtime()), "repo_head": subprocess.run(["git", "-C", "/repo", "rev-parse", "--short", "HEAD"], capture_output=True, text=True).stdout.strip()}
    mut = tempfile.mkdtemp(prefix="seedmut-", dir="/tmp")
    clean = tempfile.mkdtemp(prefix="seedclean-", dir="/tmp")
    try:
        for d in (mut, clean):
            subprocess.run(["cp", "-r", "/repo/.", d], check=True)
        rc, out = run(["git", "apply", "--whitespace=nowarn", os.path.abspath(patch)], mut)
        if rc != 0:
            rc, out = run(["patch", "-p1", "-i", os.path.abspath(patch)], mut)
        meta["applies"] = rc == 0
        if rc != 0:
            print("PATCH DOES NOT APPLY\n" + out[-1500:])
            return 3
        rc, out = run(["go", "build", "./..."], mut)
        meta["builds"] = rc == 0
        if rc != 0:
            print("DOES NOT BUILD\n" + out[-1500:])
            return 3
        if check_only:
            rc, out = 0, ""
            prevp = os.path.join("/verif/seeded", name, "meta.json")
            if os.path.exists(prevp):
                pm = json.load(open(prevp))
                for k in ("suite_passes_with_change", "demo_fails_with_change", "demo_passes_without_change", "demo_cmd"):
                    if k in pm:
                        meta[k] = pm[k]
        else:
            rc, out = run(["go", "test", "-vet=off", "-count=1", "./..."], mut)
            meta["suite_passes_with_change"] = rc == 0
        if rc != 0:
            print("EXISTING SUITE FAILS WITH THE CHANGE\n" + out[-2500:])
            return 3
        for d in (mut, clean):
            if check_only:
                break
            shutil.copy(os.path.join(src, "demo_test.go"), os.path.join(d, sub, "zz_seeded_demo_test.go"))
        runpat = "^(%s)$" % "|".join(re.findall(r'func (Test\w+)\(', demo))
        if check_only:
            rc_m, rc_c, out_m, out_c = 1, 0, "", ""
        else:
            rc_m, out_m = run(["go", "test", "-vet=off", "-count=1"] + race + ["-run", runpat, "./" + sub], mut)
            rc_c, out_c = run(["go", "test", "-vet=off", "-count=1"] + race + ["-run", runpat, "./" + sub], clean)
            meta["demo_fails_with_change"] = rc_m != 0
            meta["demo_passes_without_change"] = rc_c == 0
            meta["demo_cmd"] = "go test -vet=off -count=1 %s-run '%s' ./%s" % ("-race " if race else "", runpat, sub)
        if rc_m == 0 or rc_c != 0:
            print("DEMONSTRATION NOT CONFIRMED: with change rc=%d, without rc=%d\n%s\n----\n%s" % (rc_m, rc_c, out_m[-1500:], out_c[-1500:]))
            return 3
        if not check_only:
            os.remove(os.path.join(mut, sub, "zz_seeded_demo_test.go"))
        results = {}
        for cid in [pid] + also:
            t0 = time.time()
            rc, out = run(["/verif/check", cid, tier], "/verif", env=dict(ENV, VERIF_REPO=mut))
            lines = out.strip().splitlines()
            det = [l for l in lines if l.startswith("VIOLATION-DETAIL")]
            results[cid] = {"exit": rc, "caught": rc == 1, "tier": tier, "wall_s": round(time.time() - t0, 1),
                            "first_violation": (det[0][:600] if det else ""), "summary": (lines[-1] if lines else "")}
            print("%s %s: exit=%d %s" % (cid, tier, rc, "CAUGHT" if rc == 1 else ("MISSED" if rc == 0 else "INCONCLUSIVE")))
            if det:
                print("   ", det[0][:300])
        meta["checks"] = results
        dst = os.path.join("/verif/seeded", name)
        os.makedirs(dst, exist_ok=True)
        if os.path.realpath(src) != os.path.realpath(dst):
            shutil.copy(patch, os.path.join(dst, "patch.diff"))
            shutil.copy(os.path.join(src, "demo_test.go"), os.path.join(dst, "demo_test.go"))
            if os.path.exists(os.path.join(src, "notes.md")):
                shutil.copy(os.path.join(src, "notes.md"), os.path.join(dst, "notes.md"))
        prev = {}
        mp = os.path.join(dst, "meta.json")
        if os.path.exists(mp):
            prev = json.load(open(mp))
        for k in ("breaks", "needs_to_manifest", "history", "ran"):
            if k in prev:
                meta[k] = prev[k]
        # verdicts of checks not run this time are kept
        for cid, r in (prev.get("checks") or {}).items():
            meta["checks"].setdefault(cid, r)
        json.dump(meta, open(mp, "w"), indent=1)
        return 0
    finally:
        shutil.rmtree(mut, ignore_errors=True)
        shutil.rmtree(clean, ignore_errors=True)


if __name__ == "__main__":
    sys.exit(main())
