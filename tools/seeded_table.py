#!/usr/bin/env python3
"""Rewrites the table between <!-- SEEDED-BEGIN --> and <!-- SEEDED-END --> in DESIGN.md from /verif/seeded/*/meta.json."""
import json, glob, os, re
ROOT = os.path.dirname(os.path.dirname(os.path.abspath(__file__)))
rows = []
for mp in sorted(glob.glob(os.path.join(ROOT, "seeded", "*", "meta.json"))):
    m = json.load(open(mp))
    checks = m.get("checks", {})
    caught = [k for k, v in checks.items() if v.get("caught")]
    missed = [k for k, v in checks.items() if not v.get("caught")]
    verdict = "caught by " + ", ".join(caught) if caught else "MISSED"
    if caught and missed:
        verdict += " (not by " + ", ".join(missed) + ")"
    hist = m.get("history", "")
    first = "missed at first" in hist or "inconclusive at first" in hist
    rows.append("| %s | %s | %s | %s | %s |" % (m["name"], m.get("breaks", "").replace("|", "/"), m.get("needs_to_manifest", "").replace("|", "/"), verdict, "strengthened after a first miss" if first else ""))
table = "| Change | What it breaks | What it needs to manifest | Quick tier | Note |\n|---|---|---|---|---|\n" + "\n".join(rows)
p = os.path.join(ROOT, "DESIGN.md")
s = open(p).read()
s = re.sub(r"<!-- SEEDED-BEGIN -->.*<!-- SEEDED-END -->", "<!-- SEEDED-BEGIN -->\n" + table + "\n<!-- SEEDED-END -->", s, flags=re.S)
open(p, "w").write(s)
n = len(rows); c = sum(1 for r in rows if "| caught" in r); f = sum(1 for r in rows if "strengthened" in r)
print("seeded changes: %d, caught now: %d, of which first missed: %d" % (n, c, f))
