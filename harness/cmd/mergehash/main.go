// mergehash prints the number of distinct uint64 values (little endian) in the given files.
package main

import (
	"encoding/binary"
	"fmt"
	"os"
	"sort"
)

func main() {
	var all []uint64
	for _, f := range os.Args[1:] {
		buf, err := os.ReadFile(f)
		if err != nil {
			continue
		}
		for i := 0; i+8 <= len(buf); i += 8 {
			all = append(all, binary.LittleEndian.Uint64(buf[i:]))
		}
	}
	sort.Slice(all, func(i, j int) bool { return all[i] < all[j] })
	n := 0
	for i, v := range all {
		if i == 0 || v != all[i-1] {
			n++
		}
	}
	fmt.Println(n)
}
