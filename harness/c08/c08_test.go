// Package c08: assertions for SPs that publish an encryption key never leave the IdP in clear;
// on the SP side a decrypted assertion gets exactly the checks a plaintext one gets.
package c08

import (
	"bytes"
	"compress/flate"
	"crypto"
	"crypto/x509"
	"encoding/base64"
	"encoding/hex"
	"encoding/xml"
	"errors"
	"fmt"
	"io"
	"net/http"
	"net/http/httptest"
	"net/url"
	"os"
	"os/exec"
	"runtime/debug"
	"strings"
	"testing"
	"time"

	"github.com/beevik/etree"
	"github.com/crewjam/saml"
	"github.com/crewjam/saml/xmlenc"
	"golang.org/x/net/html"
	"pgregory.net/rapid"

	"verif/harness/internal/fix"
	"verif/harness/internal/forge"
	"verif/harness/internal/pbt"
	"verif/harness/internal/refenc"
	"verif/harness/internal/spkit"
	"verif/harness/internal/xgen"
)

// KD is one KeyDescriptor of the registered SP metadata.
type KD struct {
	Use  string `json:"use"`  // encryption | signing | "" (omitted)
	Cert string `json:"cert"` // rsa | rsa2 | rsachain (SP certificate followed by a second one in the same X509Data) | rsaconcat (SP certificate and a second one concatenated inside ONE X509Certificate element) | ec | empty | blank | notb64 | garbage | none (zero X509Certificate elements)
	// Methods: EncryptionMethod elements listed beside the key (short names, see methodURIs).  Whatever
	// the SP says it prefers, an advertised key means the assertion does not travel in clear.
	Methods []string `json:"methods,omitempty"`
}

var methodURIs = map[string]string{
	"aes128-cbc":     "http://www.w3.org/2001/04/xmlenc#aes128-cbc",
	"aes192-cbc":     "http://www.w3.org/2001/04/xmlenc#aes192-cbc",
	"aes256-cbc":     "http://www.w3.org/2001/04/xmlenc#aes256-cbc",
	"tripledes-cbc":  "http://www.w3.org/2001/04/xmlenc#tripledes-cbc",
	"aes128-gcm":     "http://www.w3.org/2009/xmlenc11#aes128-gcm",
	"aes256-gcm":     "http://www.w3.org/2009/xmlenc11#aes256-gcm",
	"rsa-oaep-mgf1p": "http://www.w3.org/2001/04/xmlenc#rsa-oaep-mgf1p",
	"rsa-oaep":       "http://www.w3.org/2009/xmlenc11#rsa-oaep",
	"rsa-1_5":        "http://www.w3.org/2001/04/xmlenc#rsa-1_5",
	"unknown":        "urn:example:some-future-algorithm",
	"blank":          "",
}

var methodNames = []string{"aes128-cbc", "aes192-cbc", "aes256-cbc", "tripledes-cbc", "aes128-gcm", "aes256-gcm", "rsa-oaep-mgf1p", "rsa-oaep", "rsa-1_5", "unknown", "blank"}

// Session strings (each carries a marker).
type Session struct {
	NameID string   `json:"name_id"`
	Email  string   `json:"email"`
	Name   string   `json:"name"`
	Groups []string `json:"groups"`
	Index  string   `json:"index"`
	Custom string   `json:"custom"`
}

// Case is a tagged union.
type Case struct {
	Kind string `json:"kind"` // idp | fresh | spmeta | tamper

	KDs     []KD    `json:"kds,omitempty"`
	Lead    int     `json:"lead,omitempty"` // number of SPSSODescriptors without POST ACS and without keys placed before the one that holds the ACS and the keys
	// LeadRole: a further SPSSODescriptor of the same entity placed FIRST, with a POST consumer service of its own
	// (another location, index 7) and "" = none | "nokey" | "otherkey" (an encryption key of its own: fixture sp2).
	// ReqBy: how the request names its consumer service: "" = by URL | "index" (AssertionConsumerServiceIndex=1, the real one)
	LeadRole string `json:"lead_role,omitempty"`
	ReqBy    string `json:"req_by,omitempty"`
	Session Session `json:"session,omitempty"`
	Method  string  `json:"method,omitempty"` // POST | GET | initiated
	// IDPNoise: IdentityProvider options and optional session fields (see curIDPNoise); idp, rekey and fresh kinds
	IDPNoise uint64 `json:"idp_noise,omitempty"`
	// Validity: validUntil / cacheDuration statements of the registered metadata (see validities); idp and rekey kinds
	Validity string `json:"validity,omitempty"`

	// rekey: a sequence of responses served by ONE IdentityProvider value while the registration of
	// the same entity ID changes its key descriptors in between (Seq: one KD list per response)
	Seq [][]KD `json:"seq,omitempty"`

	// fresh: a sequence of responses; Rand non-empty = bytes fed to xmlenc.RandReader
	N int `json:"n,omitempty"`
	// CrossProcess (fresh, default source): also compare with the first responses of two freshly started processes
	CrossProcess bool   `json:"cross_process,omitempty"`
	Rand         []byte `json:"rand,omitempty"`

	// spmeta: one defect class, judged as plaintext and as ciphertext
	Defect string `json:"defect,omitempty"`
	SPOpt  string `json:"sp_opt,omitempty"` // spmeta: see spOpts
	Layout string `json:"layout,omitempty"` // assert | resp | both
	Seed   uint64 `json:"seed,omitempty"`
	EncLay string `json:"enc_layout,omitempty"`

	// tamper: what an attacker without the IdP key does to / instead of the ciphertext
	Tamper string `json:"tamper,omitempty"`
	Pos    int    `json:"pos,omitempty"`

	// pad: a ciphertext an attacker can always make (encrypted to the SP's public certificate)
	// in block cipher Block, IV plus Blocks blocks, whose LAST decrypted octet is Final
	Block  string `json:"block,omitempty"` // aes128-cbc | aes192-cbc | aes256-cbc | tripledes-cbc
	Blocks int    `json:"blocks,omitempty"`
	Final  int    `json:"final,omitempty"`
	// cvlen: a cipher value of Len octets of filler under any declared block algorithm (Block also takes the GCM names)
	Len int `json:"len,omitempty"`
}

func certText(k KD) (string, bool) {
	switch k.Cert {
	case "rsa", "rsachain":
		return fix.Get("sp").CertB64(), true
	case "rsaconcat":
		// the SP certificate followed by another certificate (its issuing CA, say) in ONE X509Certificate element,
		// which is what ServiceProvider.Metadata() publishes when Intermediates is set
		return base64.StdEncoding.EncodeToString(append(append([]byte{}, fix.Get("sp").Cert.Raw...), fix.Get("idp2").Cert.Raw...)), true
	case "rsa2":
		return "\n  " + fix.Get("sp2").CertB64() + "\n", true
	case "ec":
		return fix.Get("spec").CertB64(), true
	case "empty":
		return "", true
	case "blank":
		return " \n\t ", true
	case "notb64":
		return "@@@ this is not base64 @@@", true
	case "garbage":
		return base64.StdEncoding.EncodeToString([]byte("certainly not a DER certificate, just bytes")), true
	}
	return "", false // none
}

// validity: what the registered metadata says about its own validity ("" = nothing).  A registration that has
// lapsed may be refused; it is no reason to send the user's data in clear.
var validities = []string{"", "role-past", "role-future", "entity-past", "entity-future", "both-past", "cache-1s"}

var curValidity string // set by check() for the case being judged (cases are judged one at a time)
var curLeadRole, curReqBy string

func metadata(kds []KD, lead ...int) *saml.EntityDescriptor {
	var leading []saml.SPSSODescriptor
	if len(lead) > 0 {
		for i := 0; i < lead[0]; i++ {
			// a role descriptor that cannot receive the response: artifact binding only, no keys
			leading = append(leading, saml.SPSSODescriptor{AssertionConsumerServices: []saml.IndexedEndpoint{{Binding: saml.HTTPArtifactBinding, Location: spkit.SPACS + "/artifact", Index: 7 + i}}})
		}
	}
	d := saml.SPSSODescriptor{AssertionConsumerServices: []saml.IndexedEndpoint{{Binding: saml.HTTPPostBinding, Location: spkit.SPACS, Index: 1}}}
	for _, k := range kds {
		kd := saml.KeyDescriptor{Use: k.Use}
		if txt, ok := certText(k); ok {
			kd.KeyInfo.X509Data.X509Certificates = []saml.X509Certificate{{Data: txt}}
			if k.Cert == "rsachain" {
				kd.KeyInfo.X509Data.X509Certificates = append(kd.KeyInfo.X509Data.X509Certificates, saml.X509Certificate{Data: fix.Get("idp2").CertB64()})
			}
		}
		for _, m := range k.Methods {
			uri, ok := methodURIs[m]
			if !ok {
				uri = m
			}
			kd.EncryptionMethods = append(kd.EncryptionMethods, saml.EncryptionMethod{Algorithm: uri})
		}
		d.KeyDescriptors = append(d.KeyDescriptors, kd)
	}
	past, future := fix.Epoch.Add(-72*time.Hour), fix.Epoch.Add(72*time.Hour)
	switch curValidity {
	case "role-past", "both-past":
		d.ValidUntil = &past
	case "role-future":
		d.ValidUntil = &future
	case "cache-1s":
		d.CacheDuration = time.Second
	}
	if curLeadRole != "" {
		other := saml.SPSSODescriptor{AssertionConsumerServices: []saml.IndexedEndpoint{{Binding: saml.HTTPPostBinding, Location: spkit.SPACS + "/other-role", Index: 7}}}
		if curLeadRole == "otherkey" {
			kd := saml.KeyDescriptor{Use: "encryption"}
			kd.KeyInfo.X509Data.X509Certificates = []saml.X509Certificate{{Data: fix.Get("sp2").CertB64()}}
			other.KeyDescriptors = []saml.KeyDescriptor{kd}
		}
		leading = append([]saml.SPSSODescriptor{other}, leading...)
	}
	md := &saml.EntityDescriptor{EntityID: spkit.SPEntity, SPSSODescriptors: append(leading, d)}
	switch curValidity {
	case "entity-past", "both-past":
		md.ValidUntil = past
	case "entity-future":
		md.ValidUntil = future
	case "cache-1s":
		md.CacheDuration = time.Second
	}
	// the IdP sees what an XML round trip leaves of it, as a real registration would
	buf, err := xml.Marshal(md)
	if err != nil {
		return md
	}
	var back saml.EntityDescriptor
	if err := xml.Unmarshal(buf, &back); err != nil {
		return md
	}
	return &back
}

// advertised: some descriptor usable for encryption (use = encryption or omitted) carries
// non-blank certificate text.  firstUsable is the first such descriptor's certificate class.
func advertised(kds []KD) (bool, string) {
	// descriptors explicitly labelled for encryption take precedence over unlabelled ones
	for _, pass := range []string{"encryption", ""} {
		for _, k := range kds {
			if k.Use != pass {
				continue
			}
			if txt, ok := certText(k); ok && strings.TrimSpace(txt) != "" {
				return true, k.Cert
			}
		}
	}
	return false, ""
}

type spProvider struct{ md *saml.EntityDescriptor }

// swapProvider is a registry whose entry can be replaced between requests.
type swapProvider struct{ md *saml.EntityDescriptor }

func (p *swapProvider) GetServiceProvider(_ *http.Request, id string) (*saml.EntityDescriptor, error) {
	if p.md == nil || id != p.md.EntityID {
		return nil, os.ErrNotExist
	}
	return p.md, nil
}

func checkRekey(c Case) pbt.Result {
	res := pbt.Result{NonTrivial: true, Classes: []string{"rekey"}}
	reg := &swapProvider{}
	idp := newIDP(metadata(nil), c.Session)
	idp.ServiceProviderProvider = reg
	for i, kds := range c.Seq {
		reg.md = metadata(kds)
		adv, first := advertised(kds)
		s := c.Session
		r := emit(idp, c.Method)
		fail, _, _ := inspect(r, s, adv, first)
		if fail != "" {
			res.Err = fmt.Sprintf("response %d of a sequence on one IdentityProvider, after the registration changed to %+v (sequence %+v): %s", i, kds, c.Seq, fail)
			return res
		}
		if !adv && r.xml != nil && i > 0 {
			res.Classes = append(res.Classes, "rekey:encryption-withdrawn")
		}
	}
	return res
}

func (p spProvider) GetServiceProvider(_ *http.Request, id string) (*saml.EntityDescriptor, error) {
	if id != p.md.EntityID {
		return nil, os.ErrNotExist
	}
	return p.md, nil
}

type sessProvider struct{ s *saml.Session }

func (p sessProvider) GetSession(http.ResponseWriter, *http.Request, *saml.IdpAuthnRequest) *saml.Session {
	return p.s
}

type discard struct{}

func (discard) Printf(string, ...interface{}) {}
func (discard) Print(...interface{})          {}
func (discard) Println(...interface{})        {}
func (discard) Fatal(...interface{})          {}
func (discard) Fatalf(string, ...interface{}) {}
func (discard) Fatalln(...interface{})        {}
func (discard) Panic(...interface{})          {}
func (discard) Panicf(string, ...interface{}) {}
func (discard) Panicln(...interface{})        {}

// curIDPNoise: options of the IdentityProvider that have no bearing on whether the assertion is encrypted
// (set by check() for the case being judged): bit 0 Signer instead of Key, 1 SignatureMethod rsa-sha256,
// 2 Intermediates, 3 ValidDuration, 4 Login/Logout URLs, 5 ECDSA IdP key, 6 the optional session fields
// (SubjectID, NameIDFormat, surname, given name, scoped affiliation) filled with values derived from the markers.
var curIDPNoise uint64

func mkSession(s Session) *saml.Session {
	sess := &saml.Session{ID: "sid", CreateTime: fix.Epoch, ExpireTime: fix.Epoch.Add(time.Hour), Index: s.Index, NameID: s.NameID,
		UserEmail: s.Email, UserCommonName: s.Name, UserName: s.Name, Groups: s.Groups,
		CustomAttributes: []saml.Attribute{{Name: "custom", Values: []saml.AttributeValue{{Type: "xs:string", Value: s.Custom}}}}}
	if curIDPNoise&64 != 0 {
		for _, x := range extraMarkers(s) {
			switch {
			case sess.SubjectID == "":
				sess.SubjectID = x
			case sess.UserSurname == "":
				sess.UserSurname = x
			case sess.UserGivenName == "":
				sess.UserGivenName = x
			case sess.UserScopedAffiliation == "":
				sess.UserScopedAffiliation = x
			}
		}
		sess.NameIDFormat = "urn:oasis:names:tc:SAML:2.0:nameid-format:persistent"
	}
	return sess
}

// extraMarkers: values for the optional session fields, derived from the name identifier's marker.
func extraMarkers(s Session) []string {
	m := markersOf(Session{NameID: s.NameID})
	if len(m) == 0 {
		return nil
	}
	return []string{"sub0" + m[0], "sur0" + m[0], "giv0" + m[0], "aff0" + m[0]}
}

func newIDP(md *saml.EntityDescriptor, s Session) *saml.IdentityProvider {
	mu, _ := url.Parse(spkit.IDPEntity)
	su, _ := url.Parse(spkit.IDPSSO)
	kp := fix.Get("idp")
	if curIDPNoise&32 != 0 {
		kp = fix.Get("idpec")
	}
	idp := &saml.IdentityProvider{Key: kp.Key, Certificate: kp.Cert, Logger: discard{}, MetadataURL: *mu, SSOURL: *su,
		ServiceProviderProvider: spProvider{md}, SessionProvider: sessProvider{mkSession(s)}}
	if curIDPNoise&(1|32) != 0 { // (the library takes an ECDSA IdP key only as crypto.Signer)
		if sg, ok := kp.Key.(crypto.Signer); ok {
			idp.Key, idp.Signer = nil, sg
		}
	}
	if curIDPNoise&2 != 0 && curIDPNoise&32 == 0 {
		idp.SignatureMethod = "http://www.w3.org/2001/04/xmldsig-more#rsa-sha256"
	}
	if curIDPNoise&32 != 0 {
		// an ECDSA key needs an ECDSA method (the default method is an RSA one)
		idp.SignatureMethod = "http://www.w3.org/2001/04/xmldsig-more#ecdsa-sha256"
	}
	if curIDPNoise&4 != 0 {
		idp.Intermediates = []*x509.Certificate{fix.Get("idp2").Cert}
	}
	if curIDPNoise&8 != 0 {
		d := time.Hour
		idp.ValidDuration = &d
	}
	if curIDPNoise&16 != 0 {
		lu, _ := url.Parse("https://idp.example.com/login")
		lo, _ := url.Parse("https://idp.example.com/logout")
		idp.LoginURL, idp.LogoutURL = *lu, *lo
	}
	return idp
}

func authnRequest() []byte {
	if curReqBy == "index" {
		return []byte(`<samlp:AuthnRequest xmlns:saml="urn:oasis:names:tc:SAML:2.0:assertion" xmlns:samlp="urn:oasis:names:tc:SAML:2.0:protocol" ID="id-req" Version="2.0" IssueInstant="` +
			forge.T(fix.Epoch.Add(-time.Second)) + `" Destination="` + spkit.IDPSSO + `" AssertionConsumerServiceIndex="1">` +
			`<saml:Issuer Format="urn:oasis:names:tc:SAML:2.0:nameid-format:entity">` + spkit.SPEntity + `</saml:Issuer></samlp:AuthnRequest>`)
	}
	return []byte(`<samlp:AuthnRequest xmlns:saml="urn:oasis:names:tc:SAML:2.0:assertion" xmlns:samlp="urn:oasis:names:tc:SAML:2.0:protocol" ID="id-req" Version="2.0" IssueInstant="` +
		forge.T(fix.Epoch.Add(-time.Second)) + `" Destination="` + spkit.IDPSSO + `" AssertionConsumerServiceURL="` + spkit.SPACS + `" ProtocolBinding="urn:oasis:names:tc:SAML:2.0:bindings:HTTP-POST">` +
		`<saml:Issuer Format="urn:oasis:names:tc:SAML:2.0:nameid-format:entity">` + spkit.SPEntity + `</saml:Issuer></samlp:AuthnRequest>`)
}

type reply struct {
	status int
	body   string
	xml    []byte // decoded SAMLResponse, nil when no form
	panic  string
}

func emit(idp *saml.IdentityProvider, method string) (r reply) {
	defer func() {
		if e := recover(); e != nil {
			r.panic = fmt.Sprintf("%v\n%s", e, debug.Stack())
		}
	}()
	w := httptest.NewRecorder()
	switch method {
	case "GET":
		var buf bytes.Buffer
		fw, _ := newFlate(&buf)
		_, _ = fw.Write(authnRequest())
		_ = fw.Close()
		q := url.Values{"SAMLRequest": {base64.StdEncoding.EncodeToString(buf.Bytes())}, "RelayState": {"rs"}}
		idp.ServeSSO(w, httptest.NewRequest("GET", spkit.IDPSSO+"?"+q.Encode(), nil))
	case "initiated":
		idp.ServeIDPInitiated(w, httptest.NewRequest("GET", "https://idp.example.com/login/x", nil), spkit.SPEntity, "rs")
	default:
		form := url.Values{"SAMLRequest": {base64.StdEncoding.EncodeToString(authnRequest())}, "RelayState": {"rs"}}
		req := httptest.NewRequest("POST", spkit.IDPSSO, strings.NewReader(form.Encode()))
		req.Header.Set("Content-Type", "application/x-www-form-urlencoded")
		idp.ServeSSO(w, req)
	}
	r.status = w.Code
	r.body = w.Body.String()
	doc, err := html.Parse(strings.NewReader(r.body))
	if err != nil {
		return r
	}
	var walk func(n *html.Node)
	walk = func(n *html.Node) {
		if n.Type == html.ElementNode && n.Data == "input" {
			name, val := "", ""
			for _, a := range n.Attr {
				if a.Key == "name" {
					name = a.Val
				}
				if a.Key == "value" {
					val = a.Val
				}
			}
			if name == "SAMLResponse" {
				if dec, err := base64.StdEncoding.DecodeString(val); err == nil {
					r.xml = dec
				}
			}
		}
		for c := n.FirstChild; c != nil; c = c.NextSibling {
			walk(c)
		}
	}
	walk(doc)
	return r
}

// markersOf returns the alphanumeric marker prefix of every session string (immune to escaping).
func markersOf(s Session) []string {
	var out []string
	all := append([]string{s.NameID, s.Email, s.Name, s.Index, s.Custom}, s.Groups...)
	if curIDPNoise&64 != 0 && s.Email+s.Name+s.Index+s.Custom != "" { // (not for the inner call of extraMarkers)
		all = append(all, extraMarkers(s)...)
	}
	for _, x := range all {
		i := 0
		for i < len(x) && (x[i] >= 'a' && x[i] <= 'z' || x[i] >= '0' && x[i] <= '9') {
			i++
		}
		if i >= 8 {
			out = append(out, x[:i])
		}
	}
	return out
}

func newFlate(w io.Writer) (*flate.Writer, error) { return flate.NewWriter(w, 9) }

// inspect applies the IdP-side clauses to one reply; it returns the failure text, the
// recovered content key and IV (when decryptable with the SP key).
func inspect(r reply, s Session, adv bool, first string) (fail string, key, iv []byte) {
	if r.panic != "" {
		return "panic: " + r.panic, nil, nil
	}
	if !adv {
		return "", nil, nil
	}
	clearText := r.body + "\n" + string(r.xml)
	for _, m := range markersOf(s) {
		if m != "" && strings.Contains(clearText, m) {
			return fmt.Sprintf("the SP advertises an encryption key, yet the session value %q appears in clear in the emitted reply (status %d)", m, r.status), nil, nil
		}
	}
	if r.xml == nil {
		if r.status >= 200 && r.status < 300 {
			return fmt.Sprintf("status %d without a SAMLResponse form", r.status), nil, nil
		}
		if first == "rsa" || first == "rsa2" || first == "rsachain" {
			return fmt.Sprintf("the first usable encryption certificate is a valid RSA one, yet the IdP answered %d instead of an encrypted response", r.status), nil, nil
		}
		return "", nil, nil // an error status is an acceptable outcome for an unusable certificate
	}
	doc := etree.NewDocument()
	if err := doc.ReadFromBytes(r.xml); err != nil || doc.Root() == nil {
		return fmt.Sprintf("emitted SAMLResponse is not well-formed XML: %v", err), nil, nil
	}
	var clear, enc []*etree.Element
	for _, el := range doc.Root().FindElements("//*") {
		switch el.Tag {
		case "Assertion":
			clear = append(clear, el)
		case "EncryptedAssertion":
			enc = append(enc, el)
		}
	}
	if len(clear) > 0 {
		return "the SP advertises an encryption key, yet the emitted response contains an Assertion element in clear", nil, nil
	}
	if len(enc) != 1 {
		return fmt.Sprintf("expected exactly one EncryptedAssertion, found %d", len(enc)), nil, nil
	}
	want := fix.Get("sp")
	if first == "rsa2" {
		want = fix.Get("sp2")
	}
	if first == "rsachain" {
		first = "rsa" // the first certificate of the chain is the SP's
	}
	if first == "rsaconcat" {
		// refusing this layout is fine; if a response is emitted, it is for the SP (first certificate) and nobody else
		first = "rsa"
	}
	if first != "rsa" && first != "rsa2" {
		// whatever was emitted, no key of another party opens it
		for _, other := range []string{"idp", "idp2", "attacker", "idpenc"} {
			if _, _, _, err := forge.DecryptAssertion(enc[0], fix.Get(other).RSA()); err == nil {
				return fmt.Sprintf("private key %q, which is not the SP's, recovers the content", other), nil, nil
			}
		}
		return "", nil, nil
	}
	plain, key, iv, err := forge.DecryptAssertion(enc[0], want.RSA())
	if err != nil {
		return fmt.Sprintf("the SP's private key does not recover the content with an independent decryptor: %v", err), nil, nil
	}
	for _, m := range markersOf(s) {
		if m != "" && !strings.Contains(string(plain), m) {
			return fmt.Sprintf("decrypted assertion lacks the session value %q", m), key, iv
		}
	}
	if !strings.Contains(string(plain), "SignatureValue") {
		return "decrypted assertion is not signed", key, iv
	}
	for _, other := range []string{"sp", "sp2", "idp", "idp2", "attacker"} {
		if other == want.Name {
			continue
		}
		if _, _, _, err := forge.DecryptAssertion(enc[0], fix.Get(other).RSA()); err == nil {
			return fmt.Sprintf("private key %q, which is not the SP's, recovers the content", other), key, iv
		}
	}
	return "", key, iv
}

func checkIDP(c Case) pbt.Result {
	adv, first := advertised(c.KDs)
	res := pbt.Result{Classes: []string{"idp", "idp:" + c.Method}}
	defective := false
	for _, k := range c.KDs {
		if k.Cert != "rsa" && k.Cert != "rsa2" && k.Cert != "rsachain" {
			defective = true
		}
	}
	withMethods := false
	for _, k := range c.KDs {
		withMethods = withMethods || len(k.Methods) > 0
	}
	res.NonTrivial = len(c.KDs) >= 2 || defective || withMethods
	if withMethods {
		res.Classes = append(res.Classes, "idp:encryption-method-list")
	}
	if adv {
		res.Classes = append(res.Classes, "advertised", "first-usable:"+first)
	} else {
		res.Classes = append(res.Classes, "not-advertised")
	}
	r := emit(newIDP(metadata(c.KDs, c.Lead), c.Session), c.Method)
	if c.Lead > 0 {
		res.Classes = append(res.Classes, "idp:several-role-descriptors")
		res.NonTrivial = true
	}
	fail, _, _ := inspect(r, c.Session, adv, first)
	if fail != "" {
		res.Err = fmt.Sprintf("key descriptors %+v: %s", c.KDs, fail)
	}
	if r.xml != nil {
		res.Classes = append(res.Classes, "idp:responded")
	} else {
		res.Classes = append(res.Classes, fmt.Sprintf("idp:status:%d", r.status))
	}
	return res
}

// recorder feeds chosen bytes to xmlenc.RandReader and records every read.
type recorder struct {
	src   []byte
	pos   int
	reads [][]byte
}

func (r *recorder) Read(p []byte) (int, error) {
	for i := range p {
		if r.pos < len(r.src) {
			p[i] = r.src[r.pos]
		} else {
			// deterministic continuation once the drawn bytes are used up
			p[i] = byte(r.pos*131 + 17)
		}
		r.pos++
	}
	r.reads = append(r.reads, append([]byte{}, p...))
	return len(p), nil
}

func checkFresh(c Case) pbt.Result {
	res := pbt.Result{NonTrivial: true, Classes: []string{"fresh"}}
	kds := []KD{{Use: "encryption", Cert: "rsa"}}
	var rec *recorder
	if len(c.Rand) > 0 {
		rec = &recorder{src: c.Rand}
		xmlenc.RandReader = rec
		res.Classes = append(res.Classes, "fresh:recorded-source")
		defer func() { xmlenc.RandReader = fix.LibXMLEncRand }()
	} else {
		res.Classes = append(res.Classes, "fresh:default-source")
	}
	type kv struct{ key, iv []byte }
	var seen []kv
	// one long-lived IdentityProvider serves the whole sequence (a key or IV kept from one response to
	// the next would be reuse); odd cases build a fresh one per response as well
	shared := newIDP(metadata(kds), c.Session)
	for i := 0; i < c.N; i++ {
		s := c.Session
		s.NameID = fmt.Sprintf("%s-%d", s.NameID, i)
		start := 0
		if rec != nil {
			start = len(rec.reads)
		}
		idp := shared
		if c.N%2 == 1 && i%3 == 2 {
			idp = newIDP(metadata(kds), s)
		} else {
			idp.SessionProvider = sessProvider{mkSession(s)}
		}
		r := emit(idp, "POST")
		fail, key, iv := inspect(r, s, true, "rsa")
		if fail != "" {
			res.Err = fmt.Sprintf("response %d of the sequence: %s", i, fail)
			return res
		}
		if key == nil {
			res.Err = fmt.Sprintf("response %d of the sequence could not be opened", i)
			return res
		}
		if rec != nil {
			mine := rec.reads[start:]
			total, hasKey, hasIV := 0, false, false
			for _, rd := range mine {
				total += len(rd)
				if bytes.Equal(rd, key) {
					hasKey = true
				}
				if bytes.Equal(rd, iv) {
					hasIV = true
				}
			}
			if total < 32 {
				res.Err = fmt.Sprintf("response %d drew only %d bytes from the configured random source (content key + IV need 32)", i, total)
				return res
			}
			if !hasKey {
				res.Err = fmt.Sprintf("response %d: the content key %x is not among the values drawn from the configured random source for this response", i, key)
				return res
			}
			if !hasIV {
				res.Err = fmt.Sprintf("response %d: the IV %x is not among the values drawn from the configured random source for this response", i, iv)
				return res
			}
		} else {
			for j, p := range seen {
				if bytes.Equal(p.key, key) {
					res.Err = fmt.Sprintf("responses %d and %d use the same content-encryption key %x", j, i, key)
					return res
				}
				if bytes.Equal(p.iv, iv) {
					res.Err = fmt.Sprintf("responses %d and %d use the same IV %x", j, i, iv)
					return res
				}
			}
		}
		seen = append(seen, kv{key, iv})
	}
	if c.CrossProcess && rec == nil {
		// other processes (a restarted IdP, a second replica) draw their keys and IVs independently: two fresh
		// processes of this very binary report what their first responses used
		res.Classes = append(res.Classes, "fresh:across-processes")
		for p := 0; p < 2; p++ {
			pairs, err := childKeys()
			if err != nil {
				return pbt.Result{Skip: true} // the binary cannot re-execute itself here: not a verdict
			}
			for ci, cp := range pairs {
				for j, sp := range seen {
					if bytes.Equal(sp.key, cp.key) {
						res.Err = fmt.Sprintf("response %d of a fresh process (#%d) uses the same content-encryption key %x as an earlier response (%d) of another process", ci, p, cp.key, j)
						return res
					}
					if bytes.Equal(sp.iv, cp.iv) {
						res.Err = fmt.Sprintf("response %d of a fresh process (#%d) uses the same IV %x as an earlier response (%d) of another process", ci, p, cp.iv, j)
						return res
					}
				}
			}
			for _, cp := range pairs {
				seen = append(seen, kv{cp.key, cp.iv})
			}
		}
	}
	return res
}

type keyIV struct{ key, iv []byte }

var childSession = Session{NameID: "mnameid0123456789", Email: "memail0123456789@example.com", Name: "mname0123456789", Index: "idx0123456789", Custom: "mcustom0123456789"}

// childKeys runs this test binary again (TestChildKeys only) and returns the content keys and IVs of its responses.
func childKeys() ([]keyIV, error) {
	exe, err := os.Executable()
	if err != nil {
		return nil, err
	}
	cmd := exec.Command(exe, "-test.run", "^TestChildKeys$", "-test.count=1")
	cmd.Env = append(os.Environ(), "VERIF_C08_CHILD=1", "VERIF_REPLAY=", "VERIF_OUT=")
	out, err := cmd.Output()
	if err != nil {
		return nil, err
	}
	var pairs []keyIV
	for _, line := range strings.Split(string(out), "\n") {
		f := strings.Fields(line)
		if len(f) == 3 && f[0] == "KEYIV" {
			k, e1 := hex.DecodeString(f[1])
			v, e2 := hex.DecodeString(f[2])
			if e1 == nil && e2 == nil {
				pairs = append(pairs, keyIV{k, v})
			}
		}
	}
	if len(pairs) == 0 {
		return nil, errors.New("child reported nothing")
	}
	return pairs, nil
}

// TestChildKeys is the child side of childKeys: three responses with the library's default random source.
func TestChildKeys(t *testing.T) {
	if os.Getenv("VERIF_C08_CHILD") != "1" {
		t.Skip("only as a child of the cross-process freshness case")
	}
	fix.Reset()
	curIDPNoise, curValidity = 0, ""
	idp := newIDP(metadata([]KD{{Use: "encryption", Cert: "rsa"}}), childSession)
	for i := 0; i < 3; i++ {
		s := childSession
		s.NameID = fmt.Sprintf("%s-%d", s.NameID, i)
		idp.SessionProvider = sessProvider{mkSession(s)}
		_, key, iv := inspect(emit(idp, "POST"), s, true, "rsa")
		fmt.Printf("KEYIV %x %x\n", key, iv)
	}
}

// ---- SP side

var defects = []string{"none", "none", "wrong-audience", "wrong-recipient", "expired", "not-yet-valid", "stale-issue", "unknown-request", "wrong-issuer", "untrusted-signer", "encryption-key-signer", "unsigned", "no-conditions", "no-subject", "bad-status", "wrong-destination", "foreign-request"}

// spOpts (spmeta): options of the SP under which the same assertion is judged in clear and encrypted; with any of them
// only the agreement of the two verdicts is judged
var spOpts = []string{"reqhook", "audhook", "allowidp", "bothhooks"}

func specFor(c Case) (forge.ResponseSpec, bool) {
	now := fix.Epoch
	r := spkit.Baseline(now, "id-req", "")
	a := &r.Assertions[0]
	signer := "idp"
	valid := true
	switch c.Defect {
	case "wrong-audience":
		a.Audiences = [][]string{{"https://other.example.org/"}}
		valid = false
	case "wrong-recipient":
		a.Confirmations[0].Recipient = forge.S(spkit.SPACS + "/")
		valid = false
	case "expired":
		a.NotOnOrAfter = forge.TP(now.Add(-time.Hour))
		valid = false
	case "not-yet-valid":
		a.NotBefore = forge.TP(now.Add(time.Hour))
		valid = false
	case "stale-issue":
		a.IssueInstant = forge.T(now.Add(-time.Hour))
		valid = false
	case "unknown-request":
		a.Confirmations[0].InResponseTo = forge.S("id-other")
		valid = false
	case "foreign-request":
		// a genuine message that answers a request this SP never issued, consistently at both levels
		r.InResponseTo = forge.S("id-other")
		a.Confirmations[0].InResponseTo = forge.S("id-other")
		valid = false
	case "wrong-issuer":
		a.Issuer = forge.S("https://evil.example.org/idp")
		valid = false
	case "untrusted-signer":
		signer = "attacker"
		valid = false
	case "encryption-key-signer":
		signer = "idpenc"
		valid = false
	case "unsigned":
		signer = ""
		valid = false
	case "no-conditions":
		a.NoConditions = true
		valid = false
	case "no-subject":
		a.NoSubject = true
		valid = false
	case "bad-status":
		r.Status = []string{"urn:oasis:names:tc:SAML:2.0:status:Responder"}
		valid = false
	case "wrong-destination":
		r.Destination = forge.S("https://other.example.org/acs")
		valid = false
	}
	if signer != "" {
		s := &forge.SignSpec{Key: signer}
		if c.Layout == "assert" || c.Layout == "both" {
			a.Sign = s
		}
		if c.Layout == "resp" || c.Layout == "both" {
			r.Sign = s
		}
	}
	return r, valid
}

func checkSPMeta(c Case) pbt.Result {
	res := pbt.Result{Classes: []string{"spmeta", "defect:" + c.Defect, "layout:" + c.Layout}}
	plainSpec, valid := specFor(c)
	encSpec, _ := specFor(c)
	encSpec.Assertions[0].Encrypt = &forge.EncSpec{To: "sp", Seed: c.Seed, Layout: c.EncLay, EmbedCert: c.Seed%2 == 0}
	pd, err := forge.ResponseBytes(&plainSpec)
	if err != nil {
		return pbt.Result{Err: "harness: " + err.Error()}
	}
	ed, err := forge.ResponseBytes(&encSpec)
	if err != nil {
		return pbt.Result{Err: "harness: " + err.Error()}
	}
	sp := spkit.NewSP(spkit.Config{Trust: "meta2enc", AllowIDPInit: c.SPOpt == "allowidp"})
	if c.SPOpt == "reqhook" || c.SPOpt == "bothhooks" {
		sp.ValidateRequestID = func(saml.Response, []string) error { return nil }
	}
	if c.SPOpt == "audhook" || c.SPOpt == "bothhooks" {
		sp.ValidateAudienceRestriction = func(*saml.Assertion) error { return nil }
	}
	po := spkit.ParseXML(sp, pd, []string{"id-req"}, spkit.SPACS)
	eo := spkit.ParseXML(sp, ed, []string{"id-req"}, spkit.SPACS)
	res.NonTrivial = !valid
	if c.SPOpt != "" {
		res.Classes = append(res.Classes, "spmeta:sp-option:"+c.SPOpt)
	}
	if po.Panic != "" || eo.Panic != "" {
		res.Err = "panic: " + po.Panic + eo.Panic
		return res
	}
	if po.Accepted() != eo.Accepted() {
		res.Err = fmt.Sprintf("the same assertion (defect %q, layout %s) is judged differently in clear and encrypted: plaintext: %s; encrypted: %s", c.Defect, c.Layout, po.Describe(), eo.Describe())
		return res
	}
	if c.SPOpt != "" {
		return res // the option changes which defects count; the agreement above is what is judged
	}
	if valid && !eo.Accepted() {
		res.Err = fmt.Sprintf("valid encrypted assertion rejected: %s", eo.Describe())
	}
	if !valid && eo.Accepted() {
		res.Err = fmt.Sprintf("encrypted assertion with defect %q accepted: %s", c.Defect, eo.Describe())
	}
	return res
}

func checkTamper(c Case) pbt.Result {
	res := pbt.Result{NonTrivial: true, Classes: []string{"tamper", "tamper:" + c.Tamper}}
	now := fix.Epoch
	r := spkit.Baseline(now, "id-req", "")
	a := &r.Assertions[0]
	a.Sign = &forge.SignSpec{Key: "idp"}
	a.Encrypt = &forge.EncSpec{To: "sp", Seed: c.Seed, Layout: c.EncLay}
	if c.Layout == "both" {
		r.Sign = &forge.SignSpec{Key: "idp"}
	}
	switch c.Tamper {
	case "encrypted-to-other-key":
		a.Encrypt.To = "sp2"
	case "attacker-encrypts-unsigned":
		a.Sign = nil
		r.Sign = nil
	case "attacker-encrypts-own-signed":
		a.Sign = &forge.SignSpec{Key: "attacker"}
		r.Sign = nil
	case "attacker-encrypts-own-signed-claims-cert":
		a.Sign = &forge.SignSpec{Key: "attacker", KeyInfo: "cert:idp"}
		r.Sign = nil
	case "attacker-encrypts-unsigned-fake-signature-foreign-ns", "attacker-encrypts-unsigned-fake-signature-no-ns", "attacker-encrypts-unsigned-empty-dsig-signature":
		a.Sign = nil
		r.Sign = nil
	}
	el, err := forge.ResponseElement(&r)
	if err != nil {
		return pbt.Result{Err: "harness: " + err.Error()}
	}
	switch c.Tamper {
	case "attacker-encrypts-unsigned-fake-signature-foreign-ns":
		f := etree.NewElement("ev:Signature")
		f.CreateAttr("xmlns:ev", "urn:evil:namespace")
		forge.PlaceSignature(el, f, c.Pos%2 == 1)
	case "attacker-encrypts-unsigned-fake-signature-no-ns":
		forge.PlaceSignature(el, etree.NewElement("Signature"), c.Pos%2 == 1)
	case "attacker-encrypts-unsigned-empty-dsig-signature":
		f := etree.NewElement("ds:Signature")
		f.CreateAttr("xmlns:ds", forge.NSDsig)
		forge.PlaceSignature(el, f, c.Pos%2 == 1)
	}
	edit := func(path string, f func(b []byte) []byte) {
		if cv := el.FindElement(path); cv != nil {
			raw, err := base64.StdEncoding.DecodeString(cv.Text())
			if err == nil {
				cv.SetText(base64.StdEncoding.EncodeToString(f(raw)))
			}
		}
	}
	dataPath := "./EncryptedAssertion/EncryptedData/CipherData/CipherValue"
	keyPath := "./EncryptedAssertion/EncryptedData/KeyInfo/EncryptedKey/CipherData/CipherValue"
	if c.EncLay == "sibling" {
		keyPath = "./EncryptedAssertion/EncryptedKey/CipherData/CipherValue"
	}
	switch c.Tamper {
	case "flip-data-byte":
		edit(dataPath, func(b []byte) []byte { b[(c.Pos%len(b)+len(b))%len(b)] ^= 0x5a; return b })
	case "truncate-data":
		edit(dataPath, func(b []byte) []byte { return b[:(c.Pos%len(b)+len(b))%len(b)] })
	case "flip-key-byte":
		edit(keyPath, func(b []byte) []byte { b[(c.Pos%len(b)+len(b))%len(b)] ^= 0x5a; return b })
	case "empty-data":
		edit(dataPath, func([]byte) []byte { return nil })
	case "swap-blocks":
		edit(dataPath, func(b []byte) []byte {
			if len(b) >= 64 {
				x := append([]byte{}, b[16:32]...)
				copy(b[16:32], b[32:48])
				copy(b[32:48], x)
			}
			return b
		})
	}
	if r.Sign != nil {
		if _, err := forge.Sign(el, r.Sign, false); err != nil {
			return pbt.Result{Err: "harness: " + err.Error()}
		}
	}
	sp := spkit.NewSP(spkit.Config{Trust: "meta2enc"})
	o := spkit.ParseXML(sp, forge.Bytes(el), []string{"id-req"}, spkit.SPACS)
	if o.Panic != "" {
		res.Err = "panic: " + o.Panic
		return res
	}
	switch c.Tamper {
	case "none":
		if !o.Accepted() {
			res.Err = "harness sanity: untampered encrypted assertion rejected: " + o.Describe()
		}
	case "flip-data-byte":
		// CBC is malleable: a flipped byte garbles one block and flips one byte of the next; the
		// assertion's own signature must then fail unless only padding filler was hit.  When the
		// Response is signed too, any change must be refused.
		if o.Accepted() && c.Layout == "both" {
			res.Err = "ciphertext modified under a signed Response, yet accepted: " + o.Describe()
		}
		if o.Accepted() {
			res.Classes = append(res.Classes, "tamper:harmless-flip")
		}
	default:
		if o.Accepted() {
			res.Err = fmt.Sprintf("tampering %q yielded an assertion: %s", c.Tamper, o.Describe())
		}
	}
	return res
}

var blockURIs = map[string]string{"aes128-cbc": refenc.AES128CBC, "aes192-cbc": refenc.AES192CBC, "aes256-cbc": refenc.AES256CBC, "tripledes-cbc": refenc.TripleDESCBC,
	"aes128-gcm": refenc.AES128GCM, "aes192-gcm": refenc.AES192GCM, "aes256-gcm": refenc.AES256GCM}

var blockNames = []string{"aes128-cbc", "aes192-cbc", "aes256-cbc", "tripledes-cbc", "aes128-gcm", "aes192-gcm", "aes256-gcm"}

// checkLen: an EncryptedAssertion anybody can make (key wrapped to the SP's public certificate) that declares any of
// the seven block algorithms and whose cipher value is Len octets of filler - shorter than an IV or nonce, not a
// multiple of the block size, shorter than a GCM tag, empty: a validation failure, never a panic, never accepted.
func checkLen(c Case) pbt.Result {
	res := pbt.Result{NonTrivial: true, Classes: []string{"cvlen", "cvlen:" + c.Block}}
	uri := blockURIs[c.Block]
	spec, ok := refenc.Spec(uri)
	if !ok || c.Len < 0 || c.Len > 4096 {
		return pbt.Result{Skip: true}
	}
	st := &stream{x: c.Seed ^ 0xdef}
	key, iv := st.bytes(spec.KeyLen), st.bytes(16)
	cbc := refenc.AES128CBC
	if spec.KeyLen == 24 {
		cbc = refenc.AES192CBC
	} else if spec.KeyLen == 32 {
		cbc = refenc.AES256CBC
	}
	if c.Block == "tripledes-cbc" {
		cbc = refenc.TripleDESCBC
	}
	// built with the CBC algorithm of the same key size, then relabelled: only the declared algorithm and the
	// cipher value matter to the receiver
	ea, err := refenc.EncryptedAssertion([]byte("<x/>"), fix.Get("sp").Cert, refenc.Options{BlockAlg: cbc, KeyTransport: refenc.RSAOAEPMGF1P, Digest: refenc.DigestSHA1, IV: iv[:map[bool]int{true: 8, false: 16}[c.Block == "tripledes-cbc"]], ContentKey: key, Rand: st, Sibling: c.EncLay == "sibling"})
	if err != nil {
		return pbt.Result{Err: "harness: " + err.Error()}
	}
	if em := ea.FindElement("./EncryptedData/EncryptionMethod"); em != nil {
		em.CreateAttr("Algorithm", uri)
	}
	cv := ea.FindElement("./EncryptedData/CipherData/CipherValue")
	if cv == nil {
		return pbt.Result{Err: "harness: no CipherValue"}
	}
	cv.SetText(base64.StdEncoding.EncodeToString(st.bytes(c.Len)))
	r := spkit.Baseline(fix.Epoch, "id-req", "")
	r.Assertions = nil
	el, err := forge.ResponseElement(&r)
	if err != nil {
		return pbt.Result{Err: "harness: " + err.Error()}
	}
	el.AddChild(ea)
	o := spkit.ParseXML(spkit.NewSP(spkit.Config{Trust: "meta1"}), forge.Bytes(el), []string{"id-req"}, spkit.SPACS)
	if o.Panic != "" {
		res.Err = fmt.Sprintf("EncryptedAssertion declaring %s with a cipher value of %d octets: panic: %s", c.Block, c.Len, o.Panic)
		return res
	}
	if o.Accepted() {
		res.Err = fmt.Sprintf("EncryptedAssertion declaring %s with %d octets of filler was accepted: %s", c.Block, c.Len, o.Describe())
	}
	return res
}

// checkPad: malformed (or accidentally well-formed) padding in every CBC cipher must be a
// validation failure through the SP, never a panic and never an accepted assertion: the
// plaintext is filler, not a signed assertion.
func checkPad(c Case) pbt.Result {
	res := pbt.Result{NonTrivial: true, Classes: []string{"pad", "pad:" + c.Block}}
	uri := blockURIs[c.Block]
	spec, ok := refenc.Spec(uri)
	if !ok || c.Blocks < 1 || c.Blocks > 4 {
		return pbt.Result{Skip: true}
	}
	st := &stream{x: c.Seed ^ 0xabc}
	key, iv := st.bytes(spec.KeyLen), st.bytes(spec.IVLen)
	plain := st.bytes(spec.Block * c.Blocks)
	plain[len(plain)-1] = byte(c.Final)
	value, err := refenc.EncryptBlockRaw(uri, key, iv, plain)
	if err != nil {
		return pbt.Result{Err: "harness: " + err.Error()}
	}
	// a well-formed EncryptedAssertion for other content, whose cipher value is then replaced
	ea, err := refenc.EncryptedAssertion([]byte("<x/>"), fix.Get("sp").Cert, refenc.Options{BlockAlg: uri, KeyTransport: refenc.RSAOAEPMGF1P, Digest: refenc.DigestSHA1, IV: iv, ContentKey: key, Rand: st, Sibling: c.EncLay == "sibling"})
	if err != nil {
		return pbt.Result{Err: "harness: " + err.Error()}
	}
	cv := ea.FindElement("./EncryptedData/CipherData/CipherValue")
	if cv == nil {
		return pbt.Result{Err: "harness: no CipherValue"}
	}
	cv.SetText(base64.StdEncoding.EncodeToString(value))
	r := spkit.Baseline(fix.Epoch, "id-req", "")
	r.Assertions = nil
	el, err := forge.ResponseElement(&r)
	if err != nil {
		return pbt.Result{Err: "harness: " + err.Error()}
	}
	el.AddChild(ea)
	o := spkit.ParseXML(spkit.NewSP(spkit.Config{Trust: "meta1"}), forge.Bytes(el), []string{"id-req"}, spkit.SPACS)
	if o.Panic != "" {
		res.Err = fmt.Sprintf("%s ciphertext of IV + %d block(s) with final decrypted octet %d: panic: %s", c.Block, c.Blocks, c.Final, o.Panic)
		return res
	}
	if o.Accepted() {
		res.Err = fmt.Sprintf("%s ciphertext of random filler was accepted: %s", c.Block, o.Describe())
	}
	return res
}

type stream struct{ x uint64 }

func (s *stream) bytes(n int) []byte {
	b := make([]byte, n)
	_, _ = s.Read(b)
	return b
}

func (s *stream) Read(p []byte) (int, error) {
	for i := range p {
		s.x += 0x9e3779b97f4a7c15
		z := s.x
		z = (z ^ (z >> 30)) * 0xbf58476d1ce4e5b9
		z = (z ^ (z >> 27)) * 0x94d049bb133111eb
		p[i] = byte((z ^ (z >> 31)) >> 16)
	}
	return len(p), nil
}

func check(c Case) pbt.Result {
	curIDPNoise = c.IDPNoise & 127
	curLeadRole, curReqBy = "", ""
	if c.Kind == "idp" {
		// (SP-initiated flows only: there the request names the role's consumer service, so the role that receives the
		// response - and whose key counts - is determined; an IdP-initiated launch goes to the entity's first role)
		if (c.LeadRole == "nokey" || c.LeadRole == "otherkey") && c.Method != "initiated" {
			curLeadRole = c.LeadRole
		}
		if c.ReqBy == "index" {
			curReqBy = "index"
		}
	}
	curValidity = ""
	for _, v := range validities {
		if v == c.Validity {
			curValidity = v
		}
	}
	res := check1(c)
	if curIDPNoise != 0 && !res.Skip && (c.Kind == "idp" || c.Kind == "rekey" || c.Kind == "fresh") {
		res.Classes = append(res.Classes, "idp-options-and-optional-session-fields-set")
	}
	if curValidity != "" && !res.Skip {
		res.Classes = append(res.Classes, "metadata-validity:"+curValidity)
		if c.Kind == "idp" {
			res.NonTrivial = true
		}
	}
	return res
}

func check1(c Case) pbt.Result {
	switch c.Kind {
	case "pad":
		return checkPad(c)
	case "cvlen":
		return checkLen(c)
	case "idp":
		return checkIDP(c)
	case "fresh":
		return checkFresh(c)
	case "rekey":
		return checkRekey(c)
	case "spmeta":
		return checkSPMeta(c)
	case "tamper":
		return checkTamper(c)
	}
	return pbt.Result{Skip: true}
}

// ---------------------------------------------------------------- generators

var certClasses = []string{"rsa", "rsa", "rsa2", "rsachain", "rsaconcat", "ec", "empty", "blank", "notb64", "garbage", "none"}
var tampers = []string{"none", "encrypted-to-other-key", "attacker-encrypts-unsigned", "attacker-encrypts-unsigned-fake-signature-foreign-ns", "attacker-encrypts-unsigned-fake-signature-no-ns", "attacker-encrypts-unsigned-empty-dsig-signature", "attacker-encrypts-own-signed", "attacker-encrypts-own-signed-claims-cert", "flip-data-byte", "flip-data-byte", "truncate-data", "flip-key-byte", "empty-data", "swap-blocks"}

func genSession(t *rapid.T) Session {
	txt := func(label string) string {
		return xgen.Marker("m").Draw(t, label+"marker") + xgen.Text().Draw(t, label)
	}
	s := Session{NameID: txt("nameid"), Email: txt("email"), Name: txt("name"), Index: xgen.Marker("idx").Draw(t, "index"), Custom: txt("custom")}
	n := rapid.IntRange(0, 2).Draw(t, "ngroups")
	for i := 0; i < n; i++ {
		s.Groups = append(s.Groups, txt("group"))
	}
	return s
}

// markers must survive XML/HTML escaping unchanged: they are alphanumeric, the rest of each
// string is arbitrary XML text (CR excluded: it does not survive canonicalisation, see C07).
func sanitize(s Session) Session {
	f := func(x string) string { return strings.ReplaceAll(x, "\r", "") }
	s.NameID, s.Email, s.Name, s.Custom = f(s.NameID), f(s.Email), f(s.Name), f(s.Custom)
	for i := range s.Groups {
		s.Groups[i] = f(s.Groups[i])
	}
	return s
}

func genMethods(t *rapid.T) []string {
	if rapid.IntRange(0, 2).Draw(t, "methods?") != 0 {
		return nil
	}
	return rapid.SliceOfN(rapid.SampledFrom(methodNames), 1, 4).Draw(t, "methods")
}

func gen(t *rapid.T) Case {
	c := gen0(t)
	if (c.Kind == "idp" || c.Kind == "rekey" || c.Kind == "fresh") && rapid.IntRange(0, 2).Draw(t, "idpnoise?") == 0 {
		c.IDPNoise = rapid.Uint64Range(1, 127).Draw(t, "idpnoise")
	}
	return c
}

func gen0(t *rapid.T) Case {
	switch rapid.IntRange(0, 12).Draw(t, "kind") {
	case 12:
		return Case{Kind: "cvlen", Block: rapid.SampledFrom(blockNames).Draw(t, "block"), Len: rapid.SampledFrom([]int{0, 1, 7, 8, 11, 12, 15, 16, 17, 27, 28, 29, 31, 32, 33, 47, 48, 64, 100, 1000}).Draw(t, "len") + rapid.IntRange(0, 1).Draw(t, "lenplus"),
			Seed: rapid.Uint64Range(0, 1<<40).Draw(t, "seed"), EncLay: rapid.SampledFrom([]string{"", "sibling"}).Draw(t, "enclay")}
	case 11:
		return Case{Kind: "pad", Block: rapid.SampledFrom([]string{"aes128-cbc", "aes192-cbc", "aes256-cbc", "tripledes-cbc"}).Draw(t, "block"), Blocks: rapid.IntRange(1, 4).Draw(t, "blocks"),
			Final: rapid.IntRange(0, 255).Draw(t, "final"), Seed: rapid.Uint64Range(0, 1<<40).Draw(t, "seed"), EncLay: rapid.SampledFrom([]string{"", "sibling"}).Draw(t, "enclay")}
	case 10:
		c := Case{Kind: "rekey", Session: sanitize(genSession(t)), Method: rapid.SampledFrom([]string{"POST", "GET", "initiated"}).Draw(t, "method")}
		n := rapid.IntRange(2, 4).Draw(t, "nseq")
		for i := 0; i < n; i++ {
			var kds []KD
			for j := rapid.IntRange(0, 2).Draw(t, "nkd"); j > 0; j-- {
				kds = append(kds, KD{Use: rapid.SampledFrom([]string{"encryption", "encryption", ""}).Draw(t, "use"), Cert: rapid.SampledFrom([]string{"rsa", "rsa2", "rsachain", "ec", "empty"}).Draw(t, "cert"), Methods: genMethods(t)})
			}
			c.Seq = append(c.Seq, kds)
		}
		return c
	case 0, 1, 2, 3:
		n := rapid.IntRange(0, 4).Draw(t, "nkd")
		c := Case{Kind: "idp", Session: sanitize(genSession(t)), Method: rapid.SampledFrom([]string{"POST", "GET", "initiated"}).Draw(t, "method"), Lead: rapid.SampledFrom([]int{0, 0, 1, 2}).Draw(t, "lead")}
		if rapid.IntRange(0, 3).Draw(t, "validity?") == 0 {
			c.Validity = rapid.SampledFrom(validities[1:]).Draw(t, "validity")
		}
		c.LeadRole = rapid.SampledFrom([]string{"", "", "", "nokey", "otherkey"}).Draw(t, "leadrole")
		c.ReqBy = rapid.SampledFrom([]string{"", "", "index"}).Draw(t, "reqby")
		for i := 0; i < n; i++ {
			c.KDs = append(c.KDs, KD{Use: rapid.SampledFrom([]string{"encryption", "encryption", "", "signing"}).Draw(t, "use"), Cert: rapid.SampledFrom(certClasses).Draw(t, "cert"), Methods: genMethods(t)})
		}
		return c
	case 4:
		c := Case{Kind: "fresh", Session: sanitize(genSession(t)), N: rapid.IntRange(8, 12).Draw(t, "n")}
		if rapid.Bool().Draw(t, "recorded") {
			c.Rand = rapid.SliceOfN(rapid.Byte(), 64, 1200).Draw(t, "rand")
		}
		return c
	case 5, 6, 7:
		return Case{Kind: "spmeta", Defect: rapid.SampledFrom(defects).Draw(t, "defect"), Layout: rapid.SampledFrom([]string{"assert", "resp", "both"}).Draw(t, "layout"), SPOpt: rapid.SampledFrom(append([]string{"", "", ""}, spOpts...)).Draw(t, "spopt"),
			Seed: rapid.Uint64Range(0, 1<<40).Draw(t, "seed"), EncLay: rapid.SampledFrom([]string{"", "sibling"}).Draw(t, "enclay")}
	default:
		return Case{Kind: "tamper", Tamper: rapid.SampledFrom(tampers).Draw(t, "tamper"), Pos: rapid.IntRange(0, 100000).Draw(t, "pos"), Layout: rapid.SampledFrom([]string{"assert", "both"}).Draw(t, "layout"),
			Seed: rapid.Uint64Range(0, 1<<40).Draw(t, "seed"), EncLay: rapid.SampledFrom([]string{"", "sibling"}).Draw(t, "enclay")}
	}
}

// enumLayouts: every sequence of up to 3 key descriptors over (use x certificate class)
// restricted to 2 in quick, with a fixed marker session, through POST.
func enumLayouts(tier string, emit func(Case)) {
	uses := []string{"encryption", "", "signing"}
	certs := []string{"rsa", "rsachain", "rsaconcat", "ec", "empty", "blank", "notb64", "garbage", "none"}
	var all []KD
	for _, u := range uses {
		for _, c := range certs {
			all = append(all, KD{Use: u, Cert: c})
		}
	}
	s := Session{NameID: "mnameid0123456789", Email: "memail0123456789@example.com", Name: "mname0123456789", Index: "idx0123456789", Custom: "mcustom0123456789", Groups: []string{"mgroup0123456789"}}
	emit(Case{Kind: "idp", Session: s, Method: "POST"})
	for _, a := range all {
		emit(Case{Kind: "idp", Session: s, Method: "POST", KDs: []KD{a}})
		emit(Case{Kind: "idp", Session: s, Method: "initiated", KDs: []KD{a}})
		for _, m := range []string{"POST", "GET", "initiated"} {
			emit(Case{Kind: "idp", Session: s, Method: m, KDs: []KD{a}, Lead: 1})
		}
		for _, b := range all {
			emit(Case{Kind: "idp", Session: s, Method: "POST", KDs: []KD{a, b}})
			if tier == "thorough" {
				for _, c := range all {
					emit(Case{Kind: "idp", Session: s, Method: "GET", KDs: []KD{a, b, c}})
				}
			}
		}
	}
}

// enumValidity: every validity statement x key layout {labelled key, unlabelled key, signing + unlabelled} x flow.
func enumValidity(_ string, emit func(Case)) {
	s := Session{NameID: "mnameid0123456789", Email: "memail0123456789@example.com", Name: "mname0123456789", Index: "idx0123456789", Custom: "mcustom0123456789", Groups: []string{"mgroup0123456789"}}
	for _, v := range validities[1:] {
		for _, kds := range [][]KD{{{Use: "encryption", Cert: "rsa"}}, {{Use: "", Cert: "rsa"}}, {{Use: "signing", Cert: "rsa"}, {Use: "", Cert: "rsa2"}}, {}} {
			for _, m := range []string{"POST", "GET", "initiated"} {
				emit(Case{Kind: "idp", Session: s, Method: m, KDs: kds, Validity: v})
			}
		}
	}
}

// enumIDPOptions: every single IdentityProvider option / the optional session fields, and all together, x key
// layouts x flows.
func enumIDPOptions(_ string, emit func(Case)) {
	s := Session{NameID: "mnameid0123456789", Email: "memail0123456789@example.com", Name: "mname0123456789", Index: "idx0123456789", Custom: "mcustom0123456789", Groups: []string{"mgroup0123456789"}}
	for _, n := range []uint64{1, 2, 4, 8, 16, 32, 64, 127, 95} {
		for _, kds := range [][]KD{{{Use: "encryption", Cert: "rsa"}}, {{Use: "", Cert: "rsa"}}, {{Use: "signing", Cert: "rsa"}, {Use: "", Cert: "rsa2"}}, {{Use: "encryption", Cert: "garbage"}}, {}} {
			for _, m := range []string{"POST", "GET", "initiated"} {
				emit(Case{Kind: "idp", Session: s, Method: m, KDs: kds, IDPNoise: n})
			}
		}
		emit(Case{Kind: "fresh", Session: s, N: 8, IDPNoise: n})
	}
	emit(Case{Kind: "fresh", Session: s, N: 8, CrossProcess: true})
	emit(Case{Kind: "fresh", Session: s, N: 9, CrossProcess: true})
}

// enumRoles: the entity publishes another SPSSODescriptor first (with or without a key of its own); the request names
// the real consumer service by URL or by index; every key layout of the real role x flows.
func enumRoles(_ string, emit func(Case)) {
	s := Session{NameID: "mnameid0123456789", Email: "memail0123456789@example.com", Name: "mname0123456789", Index: "idx0123456789", Custom: "mcustom0123456789", Groups: []string{"mgroup0123456789"}}
	for _, lr := range []string{"nokey", "otherkey"} {
		for _, by := range []string{"", "index"} {
			for _, kds := range [][]KD{{{Use: "encryption", Cert: "rsa"}}, {{Use: "", Cert: "rsa"}}, {{Use: "signing", Cert: "rsa"}, {Use: "", Cert: "rsa"}}, {}} {
				for _, m := range []string{"POST", "GET"} {
					emit(Case{Kind: "idp", Session: s, Method: m, KDs: kds, LeadRole: lr, ReqBy: by})
				}
			}
		}
	}
}

// enumMethods: a usable key whose descriptor lists EncryptionMethod elements - every single algorithm,
// every pair of a block cipher and a key transport, alone or beside a second descriptor of each use.
func enumMethods(_ string, emit func(Case)) {
	s := Session{NameID: "mnameid0123456789", Email: "memail0123456789@example.com", Name: "mname0123456789", Index: "idx0123456789", Custom: "mcustom0123456789", Groups: []string{"mgroup0123456789"}}
	var lists [][]string
	for _, m := range methodNames {
		lists = append(lists, []string{m})
	}
	for _, b := range []string{"aes128-cbc", "aes256-cbc", "aes128-gcm", "aes256-gcm", "tripledes-cbc", "unknown"} {
		for _, k := range []string{"rsa-oaep-mgf1p", "rsa-oaep", "rsa-1_5"} {
			lists = append(lists, []string{b, k}, []string{k, b})
		}
	}
	lists = append(lists, []string{"aes256-gcm", "aes256-cbc"}, []string{"aes256-cbc", "aes128-cbc"})
	for _, use := range []string{"encryption", ""} {
		for _, cert := range []string{"rsa", "rsachain"} {
			for _, l := range lists {
				k := KD{Use: use, Cert: cert, Methods: l}
				for _, m := range []string{"POST", "initiated"} {
					emit(Case{Kind: "idp", Session: s, Method: m, KDs: []KD{k}})
				}
				for _, other := range []KD{{Use: "signing", Cert: "rsa"}, {Use: "", Cert: "rsa"}, {Use: "encryption", Cert: "empty"}, {Use: "encryption", Cert: "rsa", Methods: []string{"aes128-cbc", "rsa-oaep-mgf1p"}}} {
					emit(Case{Kind: "idp", Session: s, Method: "POST", KDs: []KD{k, other}})
					emit(Case{Kind: "idp", Session: s, Method: "POST", KDs: []KD{other, k}})
				}
			}
		}
	}
}

// enumRekey: every ordered pair / triple of registrations {RSA key A, RSA key B, no key} of one entity ID
// served by one IdentityProvider value, through each flow.
func enumRekey(_ string, emit func(Case)) {
	s := Session{NameID: "mnameid0123456789", Email: "memail0123456789@example.com", Name: "mname0123456789", Index: "idx0123456789", Custom: "mcustom0123456789"}
	regs := [][]KD{{{Use: "encryption", Cert: "rsa"}}, {{Use: "encryption", Cert: "rsa2"}}, {}, {{Use: "", Cert: "rsa2"}}}
	for _, m := range []string{"POST", "initiated"} {
		for _, a := range regs {
			for _, b := range regs {
				emit(Case{Kind: "rekey", Session: s, Method: m, Seq: [][]KD{a, b}})
				for _, c := range regs {
					emit(Case{Kind: "rekey", Session: s, Method: m, Seq: [][]KD{a, b, c}})
				}
			}
		}
	}
}

// enumLen: every declared block algorithm x every cipher value length 0..66 octets, nested and sibling key.
func enumLen(_ string, emit func(Case)) {
	for _, b := range blockNames {
		for n := 0; n <= 66; n++ {
			emit(Case{Kind: "cvlen", Block: b, Len: n, Seed: 5})
			if n%5 == 0 {
				emit(Case{Kind: "cvlen", Block: b, Len: n, Seed: 6, EncLay: "sibling"})
			}
		}
	}
}

// enumPad: every CBC cipher x IV + 1..2 blocks x final decrypted octet 0..40 and the high ones.
func enumPad(_ string, emit func(Case)) {
	for _, b := range []string{"aes128-cbc", "aes192-cbc", "aes256-cbc", "tripledes-cbc"} {
		for blocks := 1; blocks <= 2; blocks++ {
			finals := []int{128, 200, 254, 255}
			for f := 0; f <= 40; f++ {
				finals = append(finals, f)
			}
			for _, f := range finals {
				emit(Case{Kind: "pad", Block: b, Blocks: blocks, Final: f, Seed: 9})
			}
		}
	}
}

func enumSP(_ string, emit func(Case)) {
	seen := map[string]bool{}
	for _, d := range defects {
		if seen[d] {
			continue
		}
		seen[d] = true
		for _, l := range []string{"assert", "resp", "both"} {
			for _, el := range []string{"", "sibling"} {
				emit(Case{Kind: "spmeta", Defect: d, Layout: l, Seed: 4, EncLay: el})
			}
			for _, o := range spOpts {
				emit(Case{Kind: "spmeta", Defect: d, Layout: l, Seed: 4, SPOpt: o})
			}
		}
	}
	seenT := map[string]bool{}
	for _, tmp := range tampers {
		if seenT[tmp] {
			continue
		}
		seenT[tmp] = true
		for _, l := range []string{"assert", "both"} {
			for _, el := range []string{"", "sibling"} {
				for _, pos := range []int{0, 15, 16, 17, 31, 32, 200, 100000} {
					emit(Case{Kind: "tamper", Tamper: tmp, Layout: l, Seed: 6, EncLay: el, Pos: pos})
				}
			}
		}
	}
}

var prop = &pbt.Prop[Case]{
	ID: "C08",
	Rule: "cases: (idp) sessions whose strings carry unique alphanumeric markers x registered SP metadata whose KeyDescriptor list is any sequence over use in {encryption, omitted, signing} x certificate in {valid RSA, second valid RSA, valid EC, empty, white space, not base64, base64 of garbage, no X509Certificate element} x optional EncryptionMethod lists beside the key (block ciphers, key transports, unknown and blank algorithms) x validUntil / cacheDuration statements of the registered metadata (lapsed or not, on the role descriptor or the entity) x IdentityProvider options (Signer instead of Key, signature method, intermediates, ValidDuration, login/logout URLs, ECDSA key) and the optional session fields (subject id, surname, given name, scoped affiliation, name ID format) through ServeSSO (POST, GET) and ServeIDPInitiated " +
		"(all sequences of length <= 2 enumerated, <= 3 in thorough); (fresh) sequences of 8-12 responses served by one long-lived IdentityProvider with the default random source (pairwise distinct content keys and IVs, also against the first responses of two freshly started processes of the same binary) and with a recording xmlenc.RandReader fed generated bytes (key and IV are values drawn for that response, >= 32 bytes consumed); " +
		"(spmeta) one assertion with a chosen defect presented in clear and encrypted to the SP: the verdicts must agree and match the defect; (tamper) ciphertext encrypted to another key, assertions encrypted by a party without the IdP key, flipped / truncated / reordered cipher values; (cvlen) cipher values of every length 0..66 of filler under each of the seven declared block algorithms (CBC and GCM), key wrapped to the SP's certificate. " +
		"oracle: advertises = some descriptor usable for encryption has non-blank certificate text => reply is an error status or a form with exactly one EncryptedAssertion, no clear Assertion and no session marker anywhere in the HTML or decoded XML; with a valid RSA certificate first the reply must succeed, an independent stdlib decryptor with the SP key recovers a signed assertion carrying all markers and no other private key does. " +
		"non-trivial: (idp) >= 2 descriptors, a defective certificate or an EncryptionMethod list; fresh and tamper always; (spmeta) the defect is not 'none'. distinct: sha256 of the JSON case.",
	Gen:   gen,
	Check: check,
	Reset: fix.Reset,
	Enums: []pbt.Enum[Case]{{Name: "key-descriptor-layouts", Each: enumLayouts}, {Name: "sp-defects-and-tampering", Each: enumSP}, {Name: "re-registration-sequences", Each: enumRekey}, {Name: "cbc-padding-through-the-sp", Each: enumPad}, {Name: "cipher-value-lengths-through-the-sp", Each: enumLen}, {Name: "encryption-method-lists", Each: enumMethods}, {Name: "metadata-validity-statements", Each: enumValidity}, {Name: "second-role-descriptor-x-selection-by-index", Each: enumRoles}, {Name: "idp-options-and-optional-session-fields", Each: enumIDPOptions}},
	Assumptions: []string{
		"CR is kept out of session strings (separate finding of C07)",
		"RSA-OAEP randomness drawn from the recording source may include extra bytes (Go's MaybeReadByte); membership of key and IV among the recorded reads is what is checked",
	},
}

func TestCheck(t *testing.T) { pbt.Run(t, prop) }

func FuzzCheck(f *testing.F) { pbt.Fuzz(f, prop) }
