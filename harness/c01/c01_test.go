// Package c01: the SP returns an assertion only if a trusted IdP key signed its content.
package c01

import (
	"crypto/rsa"
	"encoding/base64"
	"fmt"
	"math/big"
	"sort"
	"strings"
	"testing"
	"time"

	"github.com/beevik/etree"
	"github.com/crewjam/saml"
	"pgregory.net/rapid"

	"verif/harness/internal/fix"
	"verif/harness/internal/forge"
	"verif/harness/internal/pbt"
	"verif/harness/internal/spkit"
)

// Genuine describes one message as the IdP-side (or an impostor) produced it.
type Genuine struct {
	NAssert    int      `json:"n_assert"`    // 1..2
	RespSigner string   `json:"resp_signer"` // "" | idp | idp2 | idpenc | attacker
	AsrtSigner []string `json:"asrt_signer"` // per assertion: "" | key
	Encrypted  []bool   `json:"encrypted"`   // per assertion
	Method     string   `json:"method,omitempty"`
	Canon      string   `json:"canon,omitempty"`
	KeyInfo    string   `json:"key_info,omitempty"`
	ArtSigner  string   `json:"art_signer,omitempty"` // artifact entry only
	// Stale, per assertion: "" or one of staleKinds - the assertion is genuine (and signed as the layout
	// says) but one of its conditions does not hold for this SP at this time, as with an old message
	// any user of the IdP can have captured.  It stays in the trusted set: whether it may be returned
	// is for C02-C04; what C01 asks is that its signature vouches for nothing but itself.
	Stale []string `json:"stale,omitempty"`
	// Spice: characters that are delicate in XML text, appended to the name identifier, the attribute values
	// and the session index of every genuine assertion (see spices).  What is returned must be, exactly, what
	// was signed.
	Spice string `json:"spice,omitempty"`
}

var spices = map[string]string{
	"cr":      " line1\rline2",
	"crlf":    " a\r\nb\r",
	"tab-lf":  "\ta\n\nb\t",
	"markup":  ` <b>&amp;"'</b> ]]> &#13;`,
	"space":   "   ",
	"unicode": " \u00fc\u2713\U0001d11e\u0085\u2028",
}

var spiceNames = []string{"cr", "crlf", "tab-lf", "markup", "space", "unicode"}

var staleKinds = []string{"expired", "not-yet", "audience", "recipient", "inresponseto", "issuer", "confirmation-expired"}

func makeStale(a *forge.AssertionSpec, kind string) {
	now := fix.Epoch
	switch kind {
	case "expired":
		a.NotOnOrAfter = forge.TP(now.Add(-time.Hour))
		a.NotBefore = forge.TP(now.Add(-2 * time.Hour))
	case "not-yet":
		a.NotBefore = forge.TP(now.Add(time.Hour))
		a.NotOnOrAfter = forge.TP(now.Add(2 * time.Hour))
	case "audience":
		a.Audiences = [][]string{{"https://other-sp.example.com/metadata"}}
	case "recipient":
		a.Confirmations[0].Recipient = forge.S("https://other-sp.example.com/acs")
	case "inresponseto":
		a.Confirmations[0].InResponseTo = forge.S("id-somebody-elses-request")
	case "issuer":
		a.Issuer = forge.S("https://other-idp.example.com/metadata")
	case "confirmation-expired":
		a.Confirmations[0].NotOnOrAfter = forge.TP(now.Add(-time.Hour))
	}
}

// Op is one step of the attacker program.  I and J select elements (modulo the
// number of candidates); the other fields are interpreted per kind.
type Op struct {
	Kind  string `json:"kind"`
	I     int    `json:"i,omitempty"`
	J     int    `json:"j,omitempty"`
	Mode  string `json:"mode,omitempty"`
	Where string `json:"where,omitempty"`
	Sig   string `json:"sig,omitempty"`
	Key   string `json:"key,omitempty"`
	Raw   string `json:"raw,omitempty"` // encrypt/raw-splice: arbitrary bytes placed around the serialised assertion inside the plaintext
}

// Case is: trust configuration x genuine message(s) x attacker program x entry point.
type Case struct {
	Trust string  `json:"trust"`
	Entry string  `json:"entry"` // xml | post | artifact
	G     Genuine `json:"g"`
	G2    bool    `json:"g2,omitempty"` // a second captured genuine message is available for splicing
	// Warm: the SAME ServiceProvider value first processes the untransformed genuine message(s)
	// (as a long-running SP would have), then the attacker's document - nothing remembered from
	// an earlier, valid message may make a later one acceptable.
	Warm bool `json:"warm,omitempty"`
	// Prior: the same ServiceProvider value was configured with this trust configuration while it
	// processed the genuine message(s) (Warm), and was then reconfigured to Trust (refreshed metadata with
	// the same entityID after a key rotation, a changed pin).  What counts is the configuration in force
	// when the document is presented.
	Prior string `json:"prior,omitempty"`
	// InPlace: the reconfiguration overwrites the EntityDescriptor the SP points to instead of replacing the pointer
	InPlace bool `json:"in_place,omitempty"`
	// Noise: options of the SP that concern only what it sends (see spkit.Noise); the verdict must not depend on them
	Noise uint64 `json:"noise,omitempty"`
	Ops   []Op   `json:"ops"`
}

const evil = "EVIL"

// ---------------------------------------------------------------- identity fingerprints

func fpSpec(a *forge.AssertionSpec) string {
	var b strings.Builder
	str := func(p *string) string {
		if p == nil {
			return ""
		}
		return *p
	}
	fmt.Fprintf(&b, "issuer=%q|nameid=%q|", str(a.Issuer), str(a.NameID))
	for _, c := range a.Confirmations {
		fmt.Fprintf(&b, "conf=%q,%q,%q|", str(c.Recipient), str(c.InResponseTo), str(c.NotOnOrAfter))
	}
	fmt.Fprintf(&b, "nb=%q|noa=%q|", str(a.NotBefore), str(a.NotOnOrAfter))
	for _, ar := range a.Audiences {
		fmt.Fprintf(&b, "aud=%q|", ar)
	}
	for _, as := range a.Authn {
		fmt.Fprintf(&b, "authn=%q,%q|", as.AuthnInstant, str(as.SessionIndex))
	}
	for _, st := range a.Statements {
		for _, at := range st {
			fmt.Fprintf(&b, "attr=%q,%q|", at.Name, at.Values)
		}
	}
	return b.String()
}

func fpParsed(a *saml.Assertion) string {
	var b strings.Builder
	nameID := ""
	if a.Subject != nil && a.Subject.NameID != nil {
		nameID = a.Subject.NameID.Value
	}
	fmt.Fprintf(&b, "issuer=%q|nameid=%q|", a.Issuer.Value, nameID)
	if a.Subject != nil {
		for _, c := range a.Subject.SubjectConfirmations {
			if c.SubjectConfirmationData != nil {
				fmt.Fprintf(&b, "conf=%q,%q,%q|", c.SubjectConfirmationData.Recipient, c.SubjectConfirmationData.InResponseTo, forge.T(c.SubjectConfirmationData.NotOnOrAfter))
			} else {
				fmt.Fprintf(&b, "conf=nodata|")
			}
		}
	}
	if a.Conditions != nil {
		fmt.Fprintf(&b, "nb=%q|noa=%q|", forge.T(a.Conditions.NotBefore), forge.T(a.Conditions.NotOnOrAfter))
		for _, ar := range a.Conditions.AudienceRestrictions {
			fmt.Fprintf(&b, "aud=%q|", []string{ar.Audience.Value})
		}
	}
	for _, as := range a.AuthnStatements {
		fmt.Fprintf(&b, "authn=%q,%q|", forge.T(as.AuthnInstant), as.SessionIndex)
	}
	for _, st := range a.AttributeStatements {
		for _, at := range st.Attributes {
			var vals []string
			for _, v := range at.Values {
				vals = append(vals, v.Value)
			}
			fmt.Fprintf(&b, "attr=%q,%q|", at.Name, vals)
		}
	}
	return b.String()
}

// ---------------------------------------------------------------- genuine messages

func trusted(trust, key string) bool {
	for _, k := range spkit.TrustedKeys(trust) {
		if k == key {
			return true
		}
	}
	return false
}

func signSpec(g *Genuine, key string) *forge.SignSpec {
	if key == "" {
		return nil
	}
	s := &forge.SignSpec{Key: key, Method: g.Method, Canon: g.Canon, KeyInfo: g.KeyInfo}
	if fix.Get(key).RSA() == nil {
		s.Method = "" // method URIs in Genuine are RSA ones
	}
	return s
}

// buildGenuine returns the response spec for message number msg (0 = main, 1 = second capture).
func buildGenuine(g *Genuine, msg int) forge.ResponseSpec {
	now := fix.Epoch
	r := spkit.Baseline(now, "id-req", "")
	r.ID = fmt.Sprintf("id-resp-m%d", msg)
	r.Assertions = nil
	for i := 0; i < g.NAssert; i++ {
		a := spkit.BaselineAssertion(now, "id-req", "", fmt.Sprintf("id-assert-m%d-%d", msg, i), fmt.Sprintf("genuine-m%d-%d@idp.example.com", msg, i))
		a.Statements = [][]forge.Attr{{{Name: "uid", Values: []string{fmt.Sprintf("genuine-uid-m%d-%d", msg, i)}}, {Name: "role", Values: []string{"reader", fmt.Sprintf("tenant-m%d-%d", msg, i)}}}}
		if sp, ok := spices[g.Spice]; ok {
			a.NameID = forge.S(*a.NameID + sp)
			for si := range a.Statements {
				for ai := range a.Statements[si] {
					for vi := range a.Statements[si][ai].Values {
						a.Statements[si][ai].Values[vi] += sp
					}
				}
			}
			for ai := range a.Authn {
				if a.Authn[ai].SessionIndex != nil {
					a.Authn[ai].SessionIndex = forge.S(*a.Authn[ai].SessionIndex + sp)
				}
			}
		}
		if i < len(g.Stale) && g.Stale[i] != "" {
			makeStale(&a, g.Stale[i])
		}
		if i < len(g.AsrtSigner) {
			a.Sign = signSpec(g, g.AsrtSigner[i])
		}
		if i < len(g.Encrypted) && g.Encrypted[i] {
			a.Encrypt = &forge.EncSpec{To: "sp", Seed: uint64(10*msg + i + 1)}
		}
		r.Assertions = append(r.Assertions, a)
	}
	r.Sign = signSpec(g, g.RespSigner)
	return r
}

// truthSet: fingerprints of assertions that were inside the scope of a signature made
// with a key the configured trust accepts, in some genuine message.
func truthSet(c *Case, specs []forge.ResponseSpec) map[string]bool {
	s := map[string]bool{}
	for _, r := range specs {
		respTrusted := r.Sign != nil && trusted(c.Trust, r.Sign.Key)
		artTrusted := c.Entry == "artifact" && c.G.ArtSigner != "" && trusted(c.Trust, c.G.ArtSigner)
		for i := range r.Assertions {
			a := &r.Assertions[i]
			if respTrusted || artTrusted || (a.Sign != nil && trusted(c.Trust, a.Sign.Key)) {
				s[fpSpec(a)] = true
			}
		}
	}
	return s
}

// ---------------------------------------------------------------- attacker algebra

func allElements(root *etree.Element) []*etree.Element {
	out := []*etree.Element{root}
	for _, ch := range root.ChildElements() {
		out = append(out, allElements(ch)...)
	}
	return out
}

func byTag(root *etree.Element, tags ...string) []*etree.Element {
	var out []*etree.Element
	for _, el := range allElements(root) {
		for _, t := range tags {
			if el.Tag == t {
				out = append(out, el)
			}
		}
	}
	return out
}

func pick(els []*etree.Element, i int) *etree.Element {
	if len(els) == 0 {
		return nil
	}
	if i < 0 {
		i = -i
	}
	return els[i%len(els)]
}

// evilize rewrites the identity-bearing text of el's own assertion content (not
// descending into nested Assertion elements other than direct Response children).
func evilize(el *etree.Element) {
	var walk func(e *etree.Element, depth int)
	walk = func(e *etree.Element, depth int) {
		switch e.Tag {
		case "NameID":
			e.SetText(evil + "-" + e.Text())
		case "AttributeValue":
			e.SetText(evil + "-" + e.Text())
		case "AuthnStatement":
			if a := e.SelectAttr("SessionIndex"); a != nil {
				a.Value = evil + "-" + a.Value
			}
		}
		for _, ch := range e.ChildElements() {
			if ch.Tag == "Signature" || ch.Tag == "EncryptedAssertion" {
				continue
			}
			if ch.Tag == "Assertion" && !(e.Tag == "Response" || e.Tag == "ArtifactResponse" || e.Tag == "Body" || e.Tag == "Envelope") {
				continue // a nested assertion carried along as payload keeps its content
			}
			walk(ch, depth+1)
		}
	}
	walk(el, 0)
}

func removeSelf(el *etree.Element) {
	if p := el.Parent(); p != nil {
		p.RemoveChild(el)
	}
}

func insertRelative(ref, el *etree.Element, before bool) {
	p := ref.Parent()
	if p == nil {
		return
	}
	idx := ref.Index()
	if !before {
		idx++
	}
	p.InsertChildAt(idx, el)
}

func ensureChild(parent *etree.Element, qname string, first bool) *etree.Element {
	local := qname
	if i := strings.Index(qname, ":"); i >= 0 {
		local = qname[i+1:]
	}
	for _, ch := range parent.ChildElements() {
		if ch.Tag == local {
			return ch
		}
	}
	el := etree.NewElement(qname)
	if strings.HasPrefix(qname, "ds:") {
		el.CreateAttr("xmlns:ds", forge.NSDsig)
	}
	if strings.HasPrefix(qname, "saml:") {
		el.CreateAttr("xmlns:saml", forge.NSAssertion)
	}
	if strings.HasPrefix(qname, "samlp:") {
		el.CreateAttr("xmlns:samlp", forge.NSProtocol)
	}
	if first && len(parent.Child) > 0 {
		parent.InsertChildAt(0, el)
	} else {
		parent.AddChild(el)
	}
	return el
}

func rsaKeyValue(pub *rsa.PublicKey) *etree.Element {
	kv := etree.NewElement("ds:KeyValue")
	r := kv.CreateElement("ds:RSAKeyValue")
	r.CreateElement("ds:Modulus").SetText(base64.StdEncoding.EncodeToString(pub.N.Bytes()))
	r.CreateElement("ds:Exponent").SetText(base64.StdEncoding.EncodeToString(big.NewInt(int64(pub.E)).Bytes()))
	return kv
}

// state of the attack: the working document root (may be replaced) and a second capture.
type attack struct {
	root   *etree.Element
	second *etree.Element
	forged bool
	log    []string
}

func (a *attack) note(f string, args ...any) { a.log = append(a.log, fmt.Sprintf(f, args...)) }

// xsw: the signature-wrapping macro generalised to a placement grid.
func (a *attack) xsw(op Op) {
	var targets []*etree.Element
	if op.Mode == "response" {
		targets = byTag(a.root, "Response")
	} else {
		targets = byTag(a.root, "Assertion")
	}
	g := pick(targets, op.I)
	if g == nil {
		return
	}
	e := g.Copy()
	// the evil copy never keeps nested signatures unless asked to carry a copy
	for _, s := range e.ChildElements() {
		if s.Tag == "Signature" {
			e.RemoveChild(s)
		}
	}
	evilize(e)
	a.forged = true
	if op.Key != "same-id" {
		e.CreateAttr("ID", "id-evil-"+fmt.Sprint(len(a.log)))
	}
	var gsig *etree.Element
	for _, s := range g.ChildElements() {
		if s.Tag == "Signature" {
			gsig = s
		}
	}
	switch op.Sig {
	case "copy-to-evil":
		if gsig != nil {
			forge.PlaceSignature(e, gsig.Copy(), false)
		}
	case "move-to-evil":
		if gsig != nil {
			g.RemoveChild(gsig)
			forge.PlaceSignature(e, gsig, false)
		}
	}
	isRoot := g == a.root
	switch op.Where {
	case "sibling-before", "sibling-after":
		if isRoot {
			// siblings of the root need a new common parent: evil becomes root, genuine is appended
			e.AddChild(g)
			a.root = e
		} else {
			insertRelative(g, e, op.Where == "sibling-before")
		}
	default:
		// evil takes the genuine element's place and carries it inside
		if !isRoot {
			insertRelative(g, e, true)
			removeSelf(g)
		} else {
			a.root = e
		}
		var host *etree.Element
		switch op.Where {
		case "child-last":
			host = e
		case "child-first":
			e.InsertChildAt(0, g)
		case "in-signature-object":
			var esig *etree.Element
			for _, s := range e.ChildElements() {
				if s.Tag == "Signature" {
					esig = s
				}
			}
			if esig == nil {
				host = ensureChild(e, "ds:Object", false)
			} else {
				host = ensureChild(esig, "ds:Object", false)
			}
		case "in-extensions":
			host = ensureChild(e, "samlp:Extensions", true)
		case "in-advice":
			host = ensureChild(e, "saml:Advice", false)
		case "in-subject":
			host = ensureChild(e, "saml:Subject", false)
		case "in-conditions":
			host = ensureChild(e, "saml:Conditions", false)
		case "in-status":
			host = ensureChild(e, "samlp:Status", false)
		default:
			host = e
		}
		if host != nil {
			host.AddChild(g)
		}
	}
	a.note("xsw target=%s where=%s sig=%s id=%s", op.Mode, op.Where, op.Sig, op.Key)
}

func (a *attack) apply(op Op) {
	els := allElements(a.root)
	switch op.Kind {
	case "xsw":
		a.xsw(op)
	case "evilize":
		t := pick(byTag(a.root, "Assertion", "Response"), op.I)
		if t != nil {
			evilize(t)
			a.forged = true
			a.note("evilize %s[%s]", t.Tag, t.SelectAttrValue("ID", ""))
		}
	case "copy", "move":
		src, dst := pick(els[1:], op.I), pick(els, op.J)
		if src == nil || dst == nil {
			return
		}
		for p := dst; p != nil; p = p.Parent() {
			if p == src {
				return // cannot put an element inside itself
			}
		}
		n := src
		if op.Kind == "copy" {
			n = src.Copy()
		} else {
			removeSelf(src)
		}
		if op.Where == "first" && len(dst.Child) > 0 {
			dst.InsertChildAt(0, n)
		} else {
			dst.AddChild(n)
		}
		a.note("%s %s -> %s (%s)", op.Kind, src.Tag, dst.Tag, op.Where)
	case "remove":
		var cands []*etree.Element
		if op.Mode == "sigpart" {
			cands = byTag(a.root, "Signature", "SignedInfo", "DigestValue", "SignatureValue", "Reference", "Transforms", "KeyInfo", "DigestMethod", "CanonicalizationMethod", "Transform")
		} else {
			cands = els[1:]
		}
		t := pick(cands, op.I)
		if t != nil {
			removeSelf(t)
			a.note("remove %s", t.Tag)
		}
	case "splice":
		// bring a genuinely signed element of the second captured message into this document
		if a.second == nil {
			return
		}
		src := pick(byTag(a.second, "Assertion", "Signature", "Response", "EncryptedAssertion"), op.I)
		dst := pick(byTag(a.root, "Response", "Assertion", "Extensions", "Advice", "Object", "Subject"), op.J)
		if src == nil || dst == nil {
			return
		}
		n := src.Copy()
		if op.Where == "first" && len(dst.Child) > 0 {
			dst.InsertChildAt(0, n)
		} else {
			dst.AddChild(n)
		}
		a.note("splice %s of second capture into %s", src.Tag, dst.Tag)
	case "setid":
		t := pick(byTag(a.root, "Assertion", "Response", "ArtifactResponse"), op.I)
		o := pick(byTag(a.root, "Assertion", "Response", "ArtifactResponse"), op.J)
		if t == nil {
			return
		}
		switch op.Mode {
		case "same-as-other":
			if o != nil {
				t.CreateAttr("ID", o.SelectAttrValue("ID", ""))
			}
		case "empty":
			t.CreateAttr("ID", "")
		case "remove":
			t.RemoveAttr("ID")
		default:
			t.CreateAttr("ID", "id-renamed")
		}
		a.note("setid %s mode=%s", t.Tag, op.Mode)
	case "refuri":
		ref := pick(byTag(a.root, "Reference"), op.I)
		o := pick(byTag(a.root, "Assertion", "Response"), op.J)
		if ref == nil {
			return
		}
		switch op.Mode {
		case "empty":
			ref.CreateAttr("URI", "")
		case "remove":
			ref.RemoveAttr("URI")
		case "root":
			ref.CreateAttr("URI", "#"+a.root.SelectAttrValue("ID", ""))
		default:
			if o != nil {
				ref.CreateAttr("URI", "#"+o.SelectAttrValue("ID", ""))
			}
		}
		a.note("refuri mode=%s", op.Mode)
	case "keyinfo":
		sig := pick(byTag(a.root, "Signature"), op.I)
		if sig == nil {
			return
		}
		var ki *etree.Element
		for _, ch := range sig.ChildElements() {
			if ch.Tag == "KeyInfo" {
				ki = ch
			}
		}
		att := fix.Get("attacker")
		switch op.Mode {
		case "remove":
			if ki != nil {
				sig.RemoveChild(ki)
			}
		case "attacker-cert":
			if ki != nil {
				if c := ki.FindElement("./X509Data/X509Certificate"); c != nil {
					c.SetText(att.CertB64())
				}
			}
		case "add-attacker-first", "add-attacker-last":
			if ki != nil {
				if xd := ki.FindElement("./X509Data"); xd != nil {
					n := etree.NewElement("ds:X509Certificate")
					n.SetText(att.CertB64())
					if op.Mode == "add-attacker-first" && len(xd.Child) > 0 {
						xd.InsertChildAt(0, n)
					} else {
						xd.AddChild(n)
					}
				}
			}
		case "add-trusted-first", "add-trusted-last":
			if ki != nil {
				if xd := ki.FindElement("./X509Data"); xd != nil {
					n := etree.NewElement("ds:X509Certificate")
					n.SetText(fix.Get("idp").CertB64())
					if op.Mode == "add-trusted-first" && len(xd.Child) > 0 {
						xd.InsertChildAt(0, n)
					} else {
						xd.AddChild(n)
					}
				}
			}
		case "rsakeyvalue":
			if ki == nil {
				ki = sig.CreateElement("ds:KeyInfo")
			}
			for _, ch := range ki.ChildElements() {
				ki.RemoveChild(ch)
			}
			ki.AddChild(rsaKeyValue(&att.RSA().PublicKey))
		case "encryption-cert":
			if ki != nil {
				if c := ki.FindElement("./X509Data/X509Certificate"); c != nil {
					c.SetText(fix.Get("idpenc").CertB64())
				}
			}
		}
		a.note("keyinfo mode=%s", op.Mode)
	case "resign":
		t := pick(byTag(a.root, "Assertion", "Response", "ArtifactResponse"), op.I)
		if t == nil {
			return
		}
		for _, s := range t.ChildElements() {
			if s.Tag == "Signature" {
				t.RemoveChild(s)
			}
		}
		key := op.Key
		if key != "idpenc" && key != "idpec" && key != "lookalike" {
			key = "attacker"
		}
		spec := &forge.SignSpec{Key: key}
		switch op.Mode {
		case "claim-trusted-cert":
			spec.KeyInfo = "cert:idp"
		case "no-keyinfo":
			spec.KeyInfo = "none"
		case "chain-own-then-trusted":
			spec.KeyInfo = "chain:" + key + ",idp"
		case "chain-trusted-then-own":
			spec.KeyInfo = "chain:idp," + key
		}
		// sign a detached copy context-free: the element stays in place, Sign works on it directly
		if _, err := forge.Sign(t, spec, false); err == nil {
			if op.Mode == "rsakeyvalue" {
				if sig := t.FindElement("./Signature"); sig != nil {
					if ki := sig.FindElement("./KeyInfo"); ki != nil {
						for _, ch := range ki.ChildElements() {
							ki.RemoveChild(ch)
						}
						ki.AddChild(rsaKeyValue(&fix.Get("attacker").RSA().PublicKey))
					}
				}
			}
			a.note("resign %s with %s (%s)", t.Tag, key, op.Mode)
		}
	case "comment":
		t := pick(byTag(a.root, "NameID", "AttributeValue", "Audience", "Issuer"), op.I)
		if t == nil {
			return
		}
		txt := t.Text()
		if len(txt) < 2 {
			return
		}
		k := 1 + op.J%(len(txt)-1)
		if k < 1 {
			k = 1
		}
		for _, ch := range append([]etree.Token{}, t.Child...) {
			t.RemoveChild(ch)
		}
		t.CreateText(txt[:k])
		switch op.Mode {
		case "pi":
			t.CreateProcInst("x", "y")
		case "cdata":
			cd := t.CreateCData(txt[k:])
			_ = cd
			a.note("cdata split in %s", t.Tag)
			return
		default:
			t.CreateComment("x")
		}
		t.CreateText(txt[k:])
		a.note("%s split in %s at %d", op.Mode, t.Tag, k)
	case "foreignns":
		t := pick(byTag(a.root, "Assertion", "Signature", "EncryptedAssertion", "Response", "Subject", "Conditions", "NameID"), op.I)
		if t == nil {
			return
		}
		switch op.Mode {
		case "evil-ns":
			t.Space = "ev"
			t.CreateAttr("xmlns:ev", "urn:evil:namespace")
		case "no-ns":
			t.Space = ""
		case "rebind-prefix":
			// re-declare the element's own prefix to a foreign namespace on this element
			if t.Space != "" {
				t.CreateAttr("xmlns:"+t.Space, "urn:evil:namespace")
			}
		case "default-ns":
			ns := t.NamespaceURI()
			t.Space = ""
			t.CreateAttr("xmlns", ns)
		}
		a.note("foreignns %s mode=%s", t.Tag, op.Mode)
	case "smuggle":
		// an evil copy of an assertion (in clear or encrypted to the SP) hidden as a DESCENDANT in a
		// region the enveloped-signature transform leaves uncovered (inside ds:Signature) or that a
		// lenient reader might search (Status, Extensions, Advice, Subject, Object)
		src := pick(byTag(a.root, "Assertion"), op.I)
		if src == nil && a.second != nil {
			src = pick(byTag(a.second, "Assertion"), op.I)
		}
		hosts := byTag(a.root, "Signature", "KeyInfo", "X509Data", "SignedInfo", "Object", "Status", "Extensions", "Advice", "Subject", "Issuer", "Response")
		host := pick(hosts, op.J)
		if src == nil || host == nil {
			return
		}
		e := src.Copy()
		for _, sg := range e.ChildElements() {
			if sg.Tag == "Signature" {
				e.RemoveChild(sg)
			}
		}
		evilize(e)
		e.CreateAttr("ID", "id-smuggled-"+fmt.Sprint(len(a.log)))
		a.forged = true
		var n *etree.Element = e
		if op.Mode != "clear" {
			if e.SelectAttr("xmlns:saml") == nil && e.Space == "saml" {
				e.CreateAttr("xmlns:saml", forge.NSAssertion)
			}
			ea, err := forge.EncryptAssertion(forge.Bytes(e), &forge.EncSpec{To: "sp", Seed: uint64(op.J) + 191, Layout: op.Where})
			if err != nil {
				return
			}
			n = ea
		}
		if op.Key == "in-object" {
			host = ensureChild(host, "ds:Object", false)
		}
		if op.Sig == "first" && len(host.Child) > 0 {
			host.InsertChildAt(0, n)
		} else {
			host.AddChild(n)
		}
		a.note("smuggle %s evil assertion into %s", op.Mode, host.Tag)
	case "fakeresp":
		// a forged, unsigned copy of the Response (content evilised, signatures stripped, own ID) placed somewhere else in
		// the document than where the binding puts the protocol message: in a soap:Header, as first child of the Body
		// or of the Envelope, inside the ArtifactResponse before the genuine one / in its Status / in Extensions, or
		// (non-artifact entries) inside the genuine Response's Status or Extensions
		src := pick(byTag(a.root, "Response"), 0)
		if src == nil {
			return
		}
		e := src.Copy()
		var strip func(x *etree.Element)
		strip = func(x *etree.Element) {
			for _, ch := range x.ChildElements() {
				if ch.Tag == "Signature" {
					x.RemoveChild(ch)
				} else {
					strip(ch)
				}
			}
		}
		strip(e)
		evilize(e)
		e.CreateAttr("ID", "id-forged-response-"+fmt.Sprint(len(a.log)))
		if e.SelectAttr("xmlns:saml") == nil {
			e.CreateAttr("xmlns:saml", forge.NSAssertion)
		}
		if e.SelectAttr("xmlns:samlp") == nil {
			e.CreateAttr("xmlns:samlp", forge.NSProtocol)
		}
		var host *etree.Element
		first := true
		switch op.Where {
		case "soap-header":
			if a.root.Tag == "Envelope" {
				host = etree.NewElement(a.root.Space + ":Header")
				a.root.InsertChildAt(0, host)
			}
		case "envelope-first":
			if a.root.Tag == "Envelope" {
				host = a.root
			}
		case "body-first":
			host = pick(byTag(a.root, "Body"), 0)
		case "body-last":
			host, first = pick(byTag(a.root, "Body"), 0), false
		case "art-first":
			host = pick(byTag(a.root, "ArtifactResponse"), 0)
		case "in-status":
			host = pick(byTag(a.root, "Status"), op.J)
		case "in-extensions":
			if t := pick(byTag(a.root, "ArtifactResponse", "Response"), op.J); t != nil {
				host = ensureChild(t, "samlp:Extensions", false)
			}
		}
		if host == nil {
			return
		}
		a.forged = true
		if first && len(host.Child) > 0 {
			host.InsertChildAt(0, e)
		} else {
			host.AddChild(e)
		}
		a.note("forged unsigned Response placed %s", op.Where)
	case "fakesig":
		// an element merely *named* Signature (foreign / no / right namespace, empty or copied content)
		t := pick(byTag(a.root, "Response", "Assertion", "ArtifactResponse"), op.I)
		if t == nil {
			return
		}
		var f *etree.Element
		switch op.Mode {
		case "evil-ns":
			f = etree.NewElement("ev:Signature")
			f.CreateAttr("xmlns:ev", "urn:evil:namespace")
		case "no-ns":
			f = etree.NewElement("Signature")
		case "dsig-empty":
			f = etree.NewElement("ds:Signature")
			f.CreateAttr("xmlns:ds", forge.NSDsig)
		default: // copy of a real signature under a foreign namespace
			src := pick(byTag(a.root, "Signature"), op.J)
			if src == nil {
				f = etree.NewElement("ev:Signature")
				f.CreateAttr("xmlns:ev", "urn:evil:namespace")
			} else {
				f = src.Copy()
				f.Space = "ev"
				f.CreateAttr("xmlns:ev", "urn:evil:namespace")
			}
		}
		forge.PlaceSignature(t, f, op.Where == "last")
		a.note("fakesig on %s mode=%s", t.Tag, op.Mode)
	case "encrypt":
		t := pick(byTag(a.root, "Assertion"), op.I)
		if t == nil || t == a.root {
			return
		}
		cp := t.Copy()
		if cp.SelectAttr("xmlns:saml") == nil && cp.Space == "saml" {
			cp.CreateAttr("xmlns:saml", forge.NSAssertion)
		}
		plain := forge.Bytes(cp)
		switch op.Mode {
		case "hazard-prefix":
			plain = append([]byte(hazards[op.J%len(hazards)]), plain...)
		case "hazard-suffix":
			plain = append(plain, []byte(hazards[op.J%len(hazards)])...)
		case "hazard-inside":
			s := string(plain)
			if i := strings.Index(s, ">"); i > 0 {
				plain = []byte(s[:i+1] + hazards[op.J%len(hazards)] + s[i+1:])
			}
		case "raw-splice":
			k := 0
			if len(op.Raw) > 0 {
				k = op.J % (len(op.Raw) + 1)
			}
			plain = append(append([]byte(op.Raw[:k]), plain...), op.Raw[k:]...)
		}
		ea, err := forge.EncryptAssertion(plain, &forge.EncSpec{To: "sp", Seed: uint64(op.J) + 77, Layout: op.Where})
		if err != nil {
			return
		}
		insertRelative(t, ea, true)
		if op.Key != "keep-plain" {
			removeSelf(t)
		}
		a.note("encrypt Assertion[%s] to the SP (%s)", t.SelectAttrValue("ID", ""), op.Mode)
	}
}

// hazards: tokens known to be treated differently by XML readers / round-trip hazards.
var hazards = []string{
	"<!-- c -->", "<?pi x?>", "<!DOCTYPE x>", "<![CDATA[x]]>", "\n", " ", "\ufeff",
	`<x:y xmlns:x="urn:x"/>`, `<a:b:c xmlns:a="urn:a"/>`, `<x xmlns:xmlns="urn:x"/>`, `<:x/>`, `<x xmlns:="urn:x"/>`,
	`<!x ">`, `<! '>`, `<!-->-->`, `<?xml version="1.0"?>`, "&#x41;", "&amp;",
}

// ---------------------------------------------------------------- check

func check(c Case) pbt.Result {
	specs := []forge.ResponseSpec{buildGenuine(&c.G, 0)}
	el, err := forge.BuildResponse(&specs[0])
	if err != nil {
		return pbt.Result{Err: "harness: " + err.Error()}
	}
	root := el
	if c.Entry == "artifact" {
		as := &forge.ArtifactSpec{ID: "id-art", InResponseTo: forge.S("id-artreq"), IssueInstant: forge.T(fix.Epoch), Issuer: forge.S(spkit.IDPEntity), Status: []string{forge.StatusOK}, Sign: signSpec(&c.G, c.G.ArtSigner)}
		root, err = forge.BuildArtifact(as, el)
		if err != nil {
			return pbt.Result{Err: "harness: " + err.Error()}
		}
	}
	at := &attack{root: root}
	if c.G2 {
		g2 := c.G
		// the second capture is always fully signed by the trusted key: the attacker observed it on the wire
		g2.RespSigner = "idp"
		g2.AsrtSigner = []string{"idp", "idp"}
		g2.Encrypted = []bool{false, false}
		s2 := buildGenuine(&g2, 1)
		specs = append(specs, s2)
		at.second, err = forge.BuildResponse(&s2)
		if err != nil {
			return pbt.Result{Err: "harness: " + err.Error()}
		}
	}
	truth := truthSet(&c, specs)
	var warmDocs [][]byte
	if c.Warm {
		// serialise the untouched genuine documents before the attack mutates the trees
		warmDocs = append(warmDocs, forge.Bytes(root.Copy()))
		if at.second != nil {
			warmDocs = append(warmDocs, forge.Bytes(at.second.Copy()))
		}
	}
	for _, op := range c.Ops {
		func() {
			defer func() {
				if e := recover(); e != nil {
					at.note("op %s skipped (harness could not apply it: %v)", op.Kind, e)
				}
			}()
			at.apply(op)
		}()
	}
	doc := forge.Bytes(at.root)

	first := c.Trust
	if c.Prior != "" {
		first = c.Prior
	}
	sp := spkit.NewSP(spkit.Config{Trust: first})
	spkit.Noise(sp, c.Noise)
	for i, wd := range warmDocs {
		if i == 0 && c.Entry == "artifact" {
			_ = spkit.ParseArtifactXML(sp, wd, []string{"id-req"}, "id-artreq", spkit.SPACS)
		} else {
			_ = spkit.ParseXML(sp, wd, []string{"id-req"}, spkit.SPACS)
		}
	}
	if c.Prior != "" {
		spkit.Retrust(sp, c.Trust, c.InPlace)
	}
	var o spkit.Outcome
	switch c.Entry {
	case "post":
		o = spkit.ParsePOST(sp, doc, []string{"id-req"}, spkit.SPACS)
	case "artifact":
		o = spkit.ParseArtifactXML(sp, doc, []string{"id-req"}, "id-artreq", spkit.SPACS)
	default:
		o = spkit.ParseXML(sp, doc, []string{"id-req"}, spkit.SPACS)
	}

	res := pbt.Result{Classes: []string{"trust:" + c.Trust, "entry:" + c.Entry}}
	if c.Noise != 0 {
		res.Classes = append(res.Classes, "sp-unrelated-options-set")
	}
	if c.Prior != "" && c.Warm {
		res.Classes = append(res.Classes, "reconfigured-after-warm-up")
	}
	for _, st := range c.G.Stale {
		if st != "" {
			res.Classes = append(res.Classes, "stale-genuine-assertion")
			break
		}
	}
	if c.G.Spice != "" {
		res.Classes = append(res.Classes, "delicate-characters-in-signed-values")
	}
	kinds := map[string]bool{}
	for _, op := range c.Ops {
		kinds[op.Kind] = true
	}
	var ks []string
	for k := range kinds {
		ks = append(ks, "op:"+k)
	}
	sort.Strings(ks)
	res.Classes = append(res.Classes, ks...)
	hasSig := strings.Contains(string(doc), "SignatureValue")
	res.NonTrivial = hasSig && (at.forged || len(truth) == 0) && len(c.Ops) > 0
	nAll := 0
	for _, r := range specs {
		nAll += len(r.Assertions)
	}
	if len(truth) == 0 {
		res.Classes = append(res.Classes, "truth:empty")
		res.NonTrivial = hasSig
	} else if len(truth) < nAll && hasSig {
		// the genuine material itself mixes covered and uncovered assertions
		res.Classes = append(res.Classes, "truth:partial")
		res.NonTrivial = true
	}
	if o.Panic != "" {
		res.Err = "panic: " + o.Panic
		return res
	}
	if len(c.Ops) == 0 {
		res.Classes = append(res.Classes, "untransformed")
		// non-vacuity: the untransformed genuine message is accepted iff every... at least one
		// assertion is covered by a trusted signature (all conditions are valid by construction)
		anyStale := false
		for _, st := range c.G.Stale {
			anyStale = anyStale || st != ""
		}
		allCovered := len(truth) == c.G.NAssert && !c.G2 && !anyStale && (c.Entry != "artifact" || c.G.ArtSigner == "" || trusted(c.Trust, c.G.ArtSigner))
		if allCovered && c.G.KeyInfo == "" && !o.Accepted() {
			res.Err = fmt.Sprintf("harness sanity: untransformed genuinely signed message rejected: %s", o.Describe())
			return res
		}
	}
	if o.Accepted() {
		if c.G.Spice != "" {
			res.NonTrivial = true // the exact-content comparison below is exercised on delicate characters
		}
		res.Classes = append(res.Classes, "accepted")
		fp := fpParsed(o.Assertion)
		if !truth[fp] {
			var ts []string
			for t := range truth {
				ts = append(ts, t)
			}
			sort.Strings(ts)
			res.Err = fmt.Sprintf("returned an assertion whose identity content was never covered by a trusted signature.\n returned: %s\n trusted set (%d): %s\n attacker program: %s\n document: %s",
				fp, len(ts), strings.Join(ts, "\n              "), strings.Join(at.log, "; "), truncate(string(doc), 3000))
		}
	} else {
		res.Classes = append(res.Classes, "rejected")
	}
	return res
}

func truncate(s string, n int) string {
	if len(s) > n {
		return s[:n] + "…"
	}
	return s
}

// ---------------------------------------------------------------- generators

var whereGrid = []string{"child-last", "child-first", "in-signature-object", "in-extensions", "in-advice", "in-subject", "in-conditions", "in-status", "sibling-before", "sibling-after"}
var sigGrid = []string{"keep-in-genuine", "copy-to-evil", "move-to-evil"}

func genOp(t *rapid.T) Op {
	kind := rapid.SampledFrom([]string{"xsw", "xsw", "xsw", "evilize", "evilize", "copy", "move", "remove", "remove", "splice", "setid", "refuri", "keyinfo", "resign", "resign", "comment", "foreignns", "fakesig", "fakeresp", "smuggle", "smuggle", "encrypt", "encrypt"}).Draw(t, "kind")
	op := Op{Kind: kind, I: rapid.IntRange(0, 11).Draw(t, "i"), J: rapid.IntRange(0, 23).Draw(t, "j")}
	switch kind {
	case "xsw":
		op.Mode = rapid.SampledFrom([]string{"assertion", "assertion", "response"}).Draw(t, "target")
		op.Where = rapid.SampledFrom(whereGrid).Draw(t, "where")
		op.Sig = rapid.SampledFrom(sigGrid).Draw(t, "sig")
		op.Key = rapid.SampledFrom([]string{"same-id", "new-id"}).Draw(t, "id")
	case "copy", "move", "splice":
		op.Where = rapid.SampledFrom([]string{"last", "first"}).Draw(t, "pos")
	case "remove":
		op.Mode = rapid.SampledFrom([]string{"any", "sigpart", "sigpart"}).Draw(t, "mode")
	case "setid":
		op.Mode = rapid.SampledFrom([]string{"same-as-other", "fresh", "empty", "remove"}).Draw(t, "mode")
	case "refuri":
		op.Mode = rapid.SampledFrom([]string{"other", "empty", "remove", "root"}).Draw(t, "mode")
	case "keyinfo":
		op.Mode = rapid.SampledFrom([]string{"remove", "attacker-cert", "add-attacker-first", "add-attacker-last", "add-trusted-first", "add-trusted-last", "rsakeyvalue", "encryption-cert"}).Draw(t, "mode")
	case "resign":
		op.Key = rapid.SampledFrom([]string{"attacker", "attacker", "idpenc", "idpec", "lookalike"}).Draw(t, "key")
		op.Mode = rapid.SampledFrom([]string{"own-cert", "claim-trusted-cert", "no-keyinfo", "rsakeyvalue", "chain-own-then-trusted", "chain-trusted-then-own"}).Draw(t, "mode")
	case "comment":
		op.Mode = rapid.SampledFrom([]string{"comment", "comment", "pi", "cdata"}).Draw(t, "mode")
	case "foreignns":
		op.Mode = rapid.SampledFrom([]string{"evil-ns", "no-ns", "rebind-prefix", "default-ns"}).Draw(t, "mode")
	case "smuggle":
		op.Mode = rapid.SampledFrom([]string{"clear", "encrypted", "encrypted"}).Draw(t, "mode")
		op.Where = rapid.SampledFrom([]string{"", "sibling"}).Draw(t, "layout")
		op.Key = rapid.SampledFrom([]string{"direct", "in-object"}).Draw(t, "wrap")
		op.Sig = rapid.SampledFrom([]string{"last", "first"}).Draw(t, "pos")
	case "fakeresp":
		op.Where = rapid.SampledFrom(fakeRespPlaces).Draw(t, "place")
	case "fakesig":
		op.Mode = rapid.SampledFrom([]string{"evil-ns", "no-ns", "dsig-empty", "copy-foreign"}).Draw(t, "mode")
		op.Where = rapid.SampledFrom([]string{"after-issuer", "last"}).Draw(t, "pos")
	case "encrypt":
		op.Mode = rapid.SampledFrom([]string{"plain", "plain", "hazard-prefix", "hazard-suffix", "hazard-inside", "raw-splice"}).Draw(t, "mode")
		if op.Mode == "raw-splice" {
			if rapid.Bool().Draw(t, "rawdict") {
				op.Raw = strings.Join(rapid.SliceOfN(rapid.SampledFrom(hazards), 1, 4).Draw(t, "rawtoks"), "")
			} else {
				op.Raw = string(rapid.SliceOfN(rapid.Byte(), 0, 24).Draw(t, "rawbytes"))
			}
		}
		op.Where = rapid.SampledFrom([]string{"", "sibling"}).Draw(t, "layout")
		op.Key = rapid.SampledFrom([]string{"replace", "replace", "keep-plain"}).Draw(t, "keep")
	}
	return op
}

func genGenuine(t *rapid.T, entry string) Genuine {
	g := Genuine{NAssert: rapid.SampledFrom([]int{1, 1, 2}).Draw(t, "nassert")}
	signer := rapid.SampledFrom([]string{"idp", "idp", "idp", "idp", "idp2", "idpenc", "attacker", "idpski", "lookalike"}).Draw(t, "signer")
	layout := rapid.SampledFrom([]string{"resp", "assert", "both", "both", "neither", "first-only"}).Draw(t, "layout")
	if layout == "resp" || layout == "both" {
		g.RespSigner = signer
	}
	for i := 0; i < g.NAssert; i++ {
		s := ""
		if layout == "assert" || layout == "both" || (layout == "first-only" && i == 0) {
			s = signer
		}
		g.AsrtSigner = append(g.AsrtSigner, s)
		g.Encrypted = append(g.Encrypted, rapid.IntRange(0, 3).Draw(t, "enc") == 0)
		st := ""
		if rapid.IntRange(0, 4).Draw(t, "stale?") == 0 {
			st = rapid.SampledFrom(staleKinds).Draw(t, "stale")
		}
		g.Stale = append(g.Stale, st)
	}
	if rapid.IntRange(0, 3).Draw(t, "spice?") == 0 {
		g.Spice = rapid.SampledFrom(spiceNames).Draw(t, "spice")
	}
	g.Method = rapid.SampledFrom([]string{"", "", "http://www.w3.org/2000/09/xmldsig#rsa-sha1", "http://www.w3.org/2001/04/xmldsig-more#rsa-sha512"}).Draw(t, "method")
	g.Canon = rapid.SampledFrom([]string{"", "", "", "exc-comments"}).Draw(t, "canon")
	g.KeyInfo = rapid.SampledFrom([]string{"", "", "", "none"}).Draw(t, "keyinfo")
	if entry == "artifact" {
		g.ArtSigner = rapid.SampledFrom([]string{"", "", signer, "idp", "attacker"}).Draw(t, "artsigner")
	}
	return g
}

func gen(t *rapid.T) Case {
	c := Case{
		Trust: rapid.SampledFrom(spkit.Trusts).Draw(t, "trust"),
		Entry: rapid.SampledFrom([]string{"xml", "xml", "post", "artifact"}).Draw(t, "entry"),
		G2:    rapid.IntRange(0, 2).Draw(t, "g2") == 0,
		Warm:  rapid.IntRange(0, 2).Draw(t, "warm") == 0,
	}
	if rapid.IntRange(0, 3).Draw(t, "reconfigured") == 0 {
		c.Prior = rapid.SampledFrom(spkit.Trusts).Draw(t, "prior")
		c.InPlace = rapid.Bool().Draw(t, "inplace")
	}
	if rapid.IntRange(0, 2).Draw(t, "noise?") == 0 {
		c.Noise = rapid.Uint64Range(1, 1023).Draw(t, "noise")
	}
	c.G = genGenuine(t, c.Entry)
	if (c.Trust == "fp256" || c.Trust == "fp512") && c.G.KeyInfo == "none" {
		c.G.KeyInfo = "" // fingerprint trust needs the certificate in the message
	}
	n := rapid.SampledFrom([]int{0, 1, 1, 1, 2, 2, 3, 4, 6}).Draw(t, "nops")
	for i := 0; i < n; i++ {
		c.Ops = append(c.Ops, genOp(t))
	}
	return c
}

// enumXSWGrid: the complete placement grid of the wrapping macro (target x where x
// signature placement x id mode) for every signed layout, entry point and trust
// configuration, optionally followed by encryption of the forged assertion to the SP.
func enumXSWGrid(tier string, emit func(Case)) {
	layouts := []Genuine{
		{NAssert: 1, RespSigner: "idp", AsrtSigner: []string{""}, Encrypted: []bool{false}},
		{NAssert: 1, RespSigner: "", AsrtSigner: []string{"idp"}, Encrypted: []bool{false}},
		{NAssert: 1, RespSigner: "idp", AsrtSigner: []string{"idp"}, Encrypted: []bool{false}},
		{NAssert: 2, RespSigner: "", AsrtSigner: []string{"idp", "idp"}, Encrypted: []bool{false, false}},
		{NAssert: 2, RespSigner: "", AsrtSigner: []string{"idp", ""}, Encrypted: []bool{false, false}},
		{NAssert: 1, RespSigner: "", AsrtSigner: []string{"idp"}, Encrypted: []bool{true}},
	}
	trusts := []string{"meta1"}
	if tier == "thorough" {
		trusts = spkit.Trusts
	}
	for _, trust := range trusts {
		for _, entry := range []string{"xml", "artifact"} {
			for _, g := range layouts {
				for _, target := range []string{"assertion", "response"} {
					for _, where := range whereGrid {
						for _, sig := range sigGrid {
							for _, id := range []string{"same-id", "new-id"} {
								for idx := 0; idx < g.NAssert; idx++ {
									for _, tail := range []string{"", "encrypt", "evilize-all"} {
										c := Case{Trust: trust, Entry: entry, G: g, Warm: id == "same-id" && tail == ""}
										c.G.AsrtSigner = append([]string{}, g.AsrtSigner...)
										c.G.Encrypted = append([]bool{}, g.Encrypted...)
										c.Ops = []Op{{Kind: "xsw", I: idx, Mode: target, Where: where, Sig: sig, Key: id}}
										switch tail {
										case "encrypt":
											c.Ops = append(c.Ops, Op{Kind: "encrypt", I: 0, Mode: "plain", Key: "replace"})
										case "evilize-all":
											c.Ops = append(c.Ops, Op{Kind: "evilize", I: 0}, Op{Kind: "evilize", I: 1})
										}
										emit(c)
									}
								}
							}
						}
					}
				}
			}
		}
	}
}

// enumUntrusted: every layout signed by keys no configuration trusts, untransformed
// and with the trusted certificate claimed in KeyInfo, under every trust configuration.
func enumUntrusted(_ string, emit func(Case)) {
	for _, trust := range spkit.Trusts {
		for _, entry := range []string{"xml", "post", "artifact"} {
			for _, key := range []string{"attacker", "idpenc", "idp2", "idpec"} {
				for _, layout := range []string{"resp", "assert", "both", "neither"} {
					for _, enc := range []bool{false, true} {
						for _, ki := range []string{"", "none", "cert:idp", "chain:" + key + ",idp", "chain:idp," + key} {
							if (trust == "fp256" || trust == "fp512") && ki == "none" {
								continue
							}
							g := Genuine{NAssert: 1, AsrtSigner: []string{""}, Encrypted: []bool{enc}, KeyInfo: ki}
							if layout == "resp" || layout == "both" {
								g.RespSigner = key
							}
							if layout == "assert" || layout == "both" {
								g.AsrtSigner[0] = key
							}
							if entry == "artifact" && layout != "neither" {
								g.ArtSigner = key
							}
							emit(Case{Trust: trust, Entry: entry, G: g})
						}
					}
				}
			}
		}
	}
}

// enumFakeSignatures: unsigned (or attacker-signed) messages carrying elements merely named
// Signature in foreign / no / the right namespace on the Response and/or the Assertion,
// with the forged assertion in clear or encrypted to the SP.
func enumFakeSignatures(_ string, emit func(Case)) {
	modes := []string{"evil-ns", "no-ns", "dsig-empty", "copy-foreign"}
	for _, trust := range []string{"meta1", "pinned", "fp256"} {
		for _, entry := range []string{"xml", "artifact"} {
			for _, signer := range []string{"", "attacker"} {
				for _, target := range []int{0, 1} { // Response, Assertion (document order of the candidates)
					for _, m := range modes {
						for _, pos := range []string{"after-issuer", "last"} {
							for _, enc := range []string{"", "plain", "sibling"} {
								g := Genuine{NAssert: 1, AsrtSigner: []string{signer}, Encrypted: []bool{false}}
								c := Case{Trust: trust, Entry: entry, G: g, G2: m == "copy-foreign"}
								ti := target
								if entry == "artifact" {
									ti = target + 1 // ArtifactResponse comes first
								}
								c.Ops = []Op{{Kind: "evilize", I: 0}, {Kind: "fakesig", I: ti, Mode: m, Where: pos}}
								if m == "copy-foreign" {
									c.Ops = append([]Op{{Kind: "splice", I: 1, J: 0}}, c.Ops...)
								}
								if enc != "" {
									o := Op{Kind: "encrypt", I: 0, Mode: "plain", Key: "replace"}
									if enc == "sibling" {
										o.Where = "sibling"
									}
									c.Ops = append(c.Ops, o)
								}
								emit(c)
							}
						}
					}
				}
			}
		}
	}
}

// enumSmuggle: an evil assertion (clear / encrypted, nested or sibling key) hidden in every
// candidate host element of genuinely signed messages, directly or inside a ds:Object.
func enumSmuggle(_ string, emit func(Case)) {
	layouts := []Genuine{
		{NAssert: 1, RespSigner: "idp", AsrtSigner: []string{""}, Encrypted: []bool{false}},
		{NAssert: 1, RespSigner: "", AsrtSigner: []string{"idp"}, Encrypted: []bool{false}},
		{NAssert: 1, RespSigner: "idp", AsrtSigner: []string{"idp"}, Encrypted: []bool{false}},
		{NAssert: 1, RespSigner: "idp", AsrtSigner: []string{""}, Encrypted: []bool{true}},
	}
	for _, entry := range []string{"xml", "artifact"} {
		for _, g := range layouts {
			for host := 0; host < 14; host++ {
				for _, mode := range []string{"clear", "encrypted"} {
					for _, lay := range []string{"", "sibling"} {
						if mode == "clear" && lay != "" {
							continue
						}
						for _, wrap := range []string{"direct", "in-object"} {
							for _, pos := range []string{"last", "first"} {
								c := Case{Trust: "meta1", Entry: entry, G: g, G2: g.Encrypted[0]}
								c.G.AsrtSigner = append([]string{}, g.AsrtSigner...)
								c.G.Encrypted = append([]bool{}, g.Encrypted...)
								c.Ops = []Op{{Kind: "smuggle", I: 0, J: host, Mode: mode, Where: lay, Key: wrap, Sig: pos}}
								emit(c)
							}
						}
					}
				}
			}
		}
	}
}

var fakeRespPlaces = []string{"soap-header", "envelope-first", "body-first", "body-last", "art-first", "in-status", "in-extensions"}

// enumFakeResponse: a forged unsigned Response in every other place of the document x every signed layout x entry x a
// metadata, a pinned and a fingerprint trust configuration.
func enumFakeResponse(_ string, emit func(Case)) {
	for _, trust := range []string{"meta1", "pinned", "fp256"} {
		for _, entry := range []string{"artifact", "xml", "post"} {
			for _, layout := range []string{"resp", "assert", "both", "art", "art+resp"} {
				g := Genuine{NAssert: 1, AsrtSigner: []string{""}, Encrypted: []bool{false}}
				switch layout {
				case "resp":
					g.RespSigner = "idp"
				case "assert":
					g.AsrtSigner[0] = "idp"
				case "both":
					g.RespSigner, g.AsrtSigner[0] = "idp", "idp"
				case "art":
					g.ArtSigner = "idp"
				case "art+resp":
					g.ArtSigner, g.RespSigner = "idp", "idp"
				}
				if entry != "artifact" && g.ArtSigner != "" {
					continue
				}
				for _, place := range fakeRespPlaces {
					for j := 0; j < 2; j++ {
						emit(Case{Trust: trust, Entry: entry, G: g, Ops: []Op{{Kind: "fakeresp", Where: place, J: j}}})
					}
				}
			}
		}
	}
}

// enumReconfigured: one ServiceProvider value accepts genuine traffic under one trust configuration
// and is then reconfigured to every other one; the same (untransformed) message is presented again.
func enumReconfigured(_ string, emit func(Case)) {
	for _, prior := range spkit.Trusts {
		for _, trust := range spkit.Trusts {
			if prior == trust {
				continue
			}
			for _, signer := range []string{"idp", "idp2"} {
				for _, entry := range []string{"xml", "post", "artifact"} {
					for _, layout := range []string{"resp", "assert", "both"} {
						g := Genuine{NAssert: 1, AsrtSigner: []string{""}, Encrypted: []bool{false}}
						if layout != "assert" {
							g.RespSigner = signer
						}
						if layout != "resp" {
							g.AsrtSigner[0] = signer
						}
						if entry == "artifact" && layout == "both" {
							g.ArtSigner = signer
						}
						emit(Case{Trust: trust, Prior: prior, Warm: true, Entry: entry, G: g})
						emit(Case{Trust: trust, Prior: prior, Warm: true, InPlace: true, Entry: entry, G: g})
					}
				}
			}
		}
	}
}

// enumSpice: every class of delicate characters in the signed values x signing layout x encryption x entry x
// a metadata, a pinned and a fingerprint trust configuration, untransformed: accepted, and returned exactly.
func enumSpice(_ string, emit func(Case)) {
	for _, trust := range []string{"meta1", "pinned", "fp256"} {
		for _, entry := range []string{"xml", "post", "artifact"} {
			for _, sp := range spiceNames {
				for _, layout := range []string{"resp", "assert", "both"} {
					for _, enc := range []bool{false, true} {
						g := Genuine{NAssert: 1, AsrtSigner: []string{""}, Encrypted: []bool{enc}, Spice: sp}
						if layout != "assert" {
							g.RespSigner = "idp"
						}
						if layout != "resp" {
							g.AsrtSigner[0] = "idp"
						}
						emit(Case{Trust: trust, Entry: entry, G: g})
					}
				}
			}
		}
	}
}

// enumStaleSibling: two assertions in an unsigned Response; one is genuine and signed but not valid
// for this SP now (every kind of staleness), the other is unsigned or signed by an untrusted key, in
// both document orders, the signed one plain or encrypted (encrypted assertions are processed first).
func enumStaleSibling(_ string, emit func(Case)) {
	for _, trust := range []string{"meta1", "pinned", "fp256"} {
		for _, entry := range []string{"xml", "post", "artifact"} {
			for _, st := range staleKinds {
				for _, signedFirst := range []bool{true, false} {
					for _, enc := range []int{0, 1, 2, 3} {
						for _, other := range []string{"", "attacker"} {
							g := Genuine{NAssert: 2, AsrtSigner: []string{"idp", other}, Stale: []string{st, ""}, Encrypted: []bool{enc&1 != 0, enc&2 != 0}}
							if !signedFirst {
								g.AsrtSigner = []string{other, "idp"}
								g.Stale = []string{"", st}
							}
							emit(Case{Trust: trust, Entry: entry, G: g})
						}
					}
				}
			}
		}
	}
}

var prop = &pbt.Prop[Case]{
	ID: "C01",
	Rule: "cases: a message built and signed by the harness (layouts Response/Assertion/both/neither/first-only signed, 1-2 assertions, plain or encrypted to the SP, signer in {trusted, second trusted, IdP encryption-only key, untrusted key with the same subject DN}, several signature methods, canonicalisers and KeyInfo styles, optionally inside a signed/unsigned ArtifactResponse) " +
		"x trust configuration {metadata one cert, two certs + encryption cert, use omitted, pinned certificate, fingerprint sha256/sha512, second descriptor, two certificates in one descriptor, other roles of the entity with their own keys, truncated / empty fingerprint (trusts nothing)} x entry point {XML, POST, artifact} x attacker program of 0-6 operations " +
		"(wrapping macro over the full placement grid, evil copies, a forged unsigned Response elsewhere in the document (soap:Header, Body, Status, Extensions), move/copy/remove of any element, splicing from a second captured genuine message, ID and Reference URI edits, KeyInfo substitution incl. RSAKeyValue, re-signing with untrusted keys, comment/PI/CDATA splits, namespace tricks, encryption of forged or rearranged assertions to the SP with round-trip hazard tokens). " +
		"Conditions of genuine and forged assertions are valid for the SP, except that a genuine assertion may be stale (expired, not yet valid, other audience/recipient/request/issuer) beside its siblings; the ServiceProvider value may have served genuine traffic under ANOTHER trust configuration before being reconfigured to the one in force. oracle: whenever an assertion is returned, its identity fingerprint (issuer, name ID, confirmations, conditions, authn and attribute statements) must equal that of an assertion that the harness itself placed under a signature of a key the configured trust accepts. " +
		"non-trivial: at least one operation, the presented document still carries a signature value, and it contains forged identity content (or no content at all was ever trusted, or the message as built mixes assertions that are covered by a trusted signature with ones that are not, or an accepted message carries delicate characters (CR, CRLF, tab/LF, markup, blanks, non-ASCII) in its signed values, which must come back exactly). distinct: sha256 of the JSON case.",
	Gen:   gen,
	Check: check,
	Reset: fix.Reset,
	Enums: []pbt.Enum[Case]{{Name: "xsw-placement-grid", Each: enumXSWGrid}, {Name: "untrusted-signers", Each: enumUntrusted}, {Name: "fake-signature-elements", Each: enumFakeSignatures}, {Name: "smuggled-descendant-assertions", Each: enumSmuggle}, {Name: "reconfigured-trust", Each: enumReconfigured}, {Name: "forged-response-elsewhere-in-the-document", Each: enumFakeResponse}, {Name: "stale-signed-sibling", Each: enumStaleSibling}, {Name: "delicate-characters-in-signed-values", Each: enumSpice}},
	Assumptions: []string{
		"absence of an accepting forgery is shown only for the generated program space",
		"the dsig clock is pinned inside the fixtures' certificate validity",
	},
}

var _ = time.Second

func TestCheck(t *testing.T) { pbt.Run(t, prop) }

func FuzzCheck(f *testing.F) { pbt.Fuzz(f, prop) }
