// Package c15: durations, instants and metadata round-trip through their XML text forms.
package c15

import (
	"bytes"
	"crypto/x509"
	"encoding/json"
	"encoding/xml"
	"fmt"
	"math"
	"math/big"
	"net/url"
	"reflect"
	"regexp"
	"strings"
	"testing"
	"time"

	"github.com/crewjam/saml"
	"pgregory.net/rapid"

	"verif/harness/internal/fix"
	"verif/harness/internal/pbt"
	"verif/harness/internal/xgen"
)

// Case is a tagged union over the sub-domains of C15.
type Case struct {
	Kind string `json:"kind"` // dur | durstr | instant | lex | spmeta | idpmeta | entity | entities

	Dur int64 `json:"dur,omitempty"` // dur: nanoseconds

	Str string `json:"str,omitempty"` // durstr, lex: the text

	// instant: seconds since the Unix epoch, nanoseconds, zone offset in minutes.
	Sec    int64 `json:"sec,omitempty"`
	Nsec   int64 `json:"nsec,omitempty"`
	ZoneMn int   `json:"zone_min,omitempty"`

	// lex: expectation (accept | reject | dontcare) and, for accept, the instant meant.
	Expect  string `json:"expect,omitempty"`
	LexKind string `json:"lex_kind,omitempty"`

	SP  *SPConf  `json:"sp,omitempty"`
	IDP *IDPConf `json:"idp,omitempty"`

	// LocalMin: the process's local zone (time.Local) is UTC+LocalMin minutes while the case is judged: text forms
	// mean the same instant wherever the process runs (zone-less dateTime is UTC)
	LocalMin int `json:"local_min,omitempty"`

	Entity   *saml.EntityDescriptor   `json:"entity,omitempty"`
	Entities *saml.EntitiesDescriptor `json:"entities,omitempty"`
}

// SPConf is a generated service-provider configuration.
type SPConf struct {
	EntityID       string   `json:"entity_id"`
	MetadataURL    string   `json:"metadata_url"`
	AcsURL         string   `json:"acs_url"`
	SloURL         string   `json:"slo_url"`
	Cert           string   `json:"cert"` // fixture name or ""
	Intermediate   bool     `json:"intermediate"`
	SigMethod      string   `json:"sig_method"`
	LogoutBindings []string `json:"logout_bindings"`
	NameIDFormat   string   `json:"nameid_format"`
	ValidNs        int64    `json:"valid_ns"`
	NowSec         int64    `json:"now_sec"`
	NowNsec        int64    `json:"now_nsec"`
	ZoneMn         int      `json:"zone_min"`
}

// IDPConf is a generated identity-provider configuration.
type IDPConf struct {
	MetadataURL string `json:"metadata_url"`
	SSOURL      string `json:"sso_url"`
	LogoutURL   string `json:"logout_url"`
	Cert        string `json:"cert"`
	HasValid    bool   `json:"has_valid"`
	ValidNs     int64  `json:"valid_ns"`
	NowSec      int64  `json:"now_sec"`
	NowNsec     int64  `json:"now_nsec"`
}

const (
	minSec = -62135596800 // 0001-01-01T00:00:00Z
	maxSec = 253402300799 // 9999-12-31T23:59:59Z
)

func inYears(t time.Time) bool {
	u := t.Round(time.Millisecond).UTC()
	return u.Year() >= 1 && u.Year() <= 9999
}

// ---------------------------------------------------------------- generators

func genDur(t *rapid.T) int64 {
	switch rapid.IntRange(0, 8).Draw(t, "durclass") {
	case 8: // a whole number of hours / minutes / seconds of any magnitude, a few nanoseconds off (carries far from zero)
		unit := rapid.SampledFrom([]int64{int64(time.Hour), int64(time.Minute), int64(time.Second)}).Draw(t, "unit")
		k := rapid.Int64Range(1, math.MaxInt64/unit-1).Draw(t, "k")
		d := k*unit + rapid.Int64Range(-3, 3).Draw(t, "off")
		if rapid.Bool().Draw(t, "negbig") {
			d = -d
		}
		return d
	case 0:
		return rapid.Int64().Draw(t, "any")
	case 1: // sub-second digit patterns
		return rapid.Int64Range(0, 999_999_999).Draw(t, "subsec")
	case 2: // seconds + fraction with few significant digits (the float-sensitive region)
		digits := rapid.IntRange(1, 9).Draw(t, "digits")
		frac := rapid.Int64Range(1, pow10(digits)-1).Draw(t, "frac") * pow10(9-digits)
		return rapid.Int64Range(0, 100_000).Draw(t, "s")*1e9 + frac
	case 3: // carries
		base := rapid.SampledFrom([]int64{59, 60, 61, 3599, 3600, 3601, 86399, 86400}).Draw(t, "base")
		return base*1e9 + rapid.Int64Range(-2, 2).Draw(t, "d")*rapid.SampledFrom([]int64{1, 1000, 1e6, 1e9}).Draw(t, "unit")
	case 4: // extremes
		return rapid.SampledFrom([]int64{math.MaxInt64, math.MinInt64, math.MaxInt64 - 1, math.MinInt64 + 1, 1 << 62, -(1 << 62), 1<<62 + 1, 1<<53 + 1, -(1<<53 + 1)}).Draw(t, "ext")
	case 5: // negatives
		return -rapid.Int64Range(0, 1e15).Draw(t, "neg")
	case 6: // powers of ten +- 1
		return pow10(rapid.IntRange(0, 18).Draw(t, "p")) + rapid.Int64Range(-1, 1).Draw(t, "d")
	default: // hours with big second counts (float precision: > 2^53 ns)
		return rapid.Int64Range(1<<53, 1<<62).Draw(t, "big")
	}
}

func pow10(n int) int64 {
	r := int64(1)
	for i := 0; i < n; i++ {
		r *= 10
	}
	return r
}

func genDurStr(t *rapid.T) string {
	var b strings.Builder
	if rapid.IntRange(0, 4).Draw(t, "neg") == 0 {
		b.WriteString("-")
	}
	b.WriteString("P")
	n := 0
	num := func(label string, max int64) string {
		n++
		v := fmt.Sprintf("%d", rapid.Int64Range(0, max).Draw(t, label))
		// leading zeros are part of the xsd:duration lexical space (decimal, never octal)
		return strings.Repeat("0", rapid.SampledFrom([]int{0, 0, 0, 1, 2}).Draw(t, label+"lz")) + v
	}
	if rapid.Bool().Draw(t, "hasY") {
		b.WriteString(num("y", 200) + "Y")
	}
	if rapid.Bool().Draw(t, "hasMo") {
		b.WriteString(num("mo", 500) + "M")
	}
	if rapid.Bool().Draw(t, "hasD") {
		b.WriteString(num("d", 5000) + "D")
	}
	hasH, hasM, hasS := rapid.Bool().Draw(t, "hasH"), rapid.Bool().Draw(t, "hasMi"), rapid.Bool().Draw(t, "hasS")
	if n == 0 && !hasH && !hasM && !hasS {
		hasS = true
	}
	if hasH || hasM || hasS {
		b.WriteString("T")
		if hasH {
			b.WriteString(num("h", 100000) + "H")
		}
		if hasM {
			b.WriteString(num("mi", 100000) + "M")
		}
		if hasS {
			b.WriteString(num("s", 100000))
			if rapid.Bool().Draw(t, "hasFrac") {
				// any number of fraction digits is in the lexical space; digits beyond the ninth are below the resolution
				nd := rapid.SampledFrom([]int{1, 2, 3, 6, 9, 10, 12, 18, 19, 20, 21, 30, 45}).Draw(t, "fraclen")
				b.WriteString("." + rapid.StringMatching(fmt.Sprintf(`[0-9]{%d}`, nd)).Draw(t, "frac"))
			}
			b.WriteString("S")
		}
	}
	return b.String()
}

func genInstant(t *rapid.T) (int64, int64, int) {
	var sec int64
	switch rapid.IntRange(0, 3).Draw(t, "instclass") {
	case 0:
		sec = rapid.Int64Range(minSec, maxSec).Draw(t, "sec")
	case 1:
		sec = rapid.Int64Range(0, 4102444800).Draw(t, "sec") // 1970..2100
	case 2:
		sec = rapid.SampledFrom([]int64{minSec, minSec + 1, maxSec, maxSec - 1, 0, -1, 951782400 /*2000-02-29*/, 1483228799}).Draw(t, "edge")
	default:
		sec = rapid.Int64Range(1577836800, 1609459200).Draw(t, "sec") // 2020
	}
	var nsec int64
	switch rapid.IntRange(0, 3).Draw(t, "nsclass") {
	case 0:
		nsec = 0
	case 1:
		nsec = rapid.Int64Range(0, 999).Draw(t, "ms") * 1e6
	case 2:
		nsec = rapid.Int64Range(0, 999).Draw(t, "ms")*1e6 + rapid.SampledFrom([]int64{499_999, 500_000, 500_001, 1, 999_999}).Draw(t, "sub")
	default:
		nsec = rapid.Int64Range(0, 999_999_999).Draw(t, "ns")
	}
	zone := rapid.SampledFrom([]int{0, 0, 60, -60, 330, -570, 840, -840, 1, -1, 765}).Draw(t, "zone")
	return sec, nsec, zone
}

var lexGrammar = regexp.MustCompile(`^\d{4}-\d{2}-\d{2}T\d{2}:\d{2}:\d{2}(\.\d+)?(Z|[+-]\d{2}:\d{2})?$`)

type lexCase struct {
	text, expect, kind string
}

func genLex(t *rapid.T) lexCase {
	sec := rapid.Int64Range(minSec+86400, maxSec-86400).Draw(t, "sec")
	base := time.Unix(sec, 0).UTC()
	date := base.Format("2006-01-02")
	clock := base.Format("15:04:05")
	frac := ""
	if rapid.Bool().Draw(t, "hasFrac") {
		frac = "." + rapid.StringMatching(`[0-9]{1,9}`).Draw(t, "frac")
	}
	zone := rapid.SampledFrom([]string{"Z", "Z", "+00:00", "-00:00", "+01:00", "-08:00", "+05:30", "+14:00", "-12:00", "+13:45", ""}).Draw(t, "zone")
	good := date + "T" + clock + frac + zone
	switch rapid.IntRange(0, 3).Draw(t, "lexclass") {
	case 0, 1:
		k := "rfc3339"
		if zone == "" {
			k = "zoneless"
		}
		if frac != "" {
			k += "+frac"
		}
		return lexCase{good, "accept", k}
	default:
		type mut struct {
			name string
			f    func() string
		}
		muts := []mut{
			{"missing-T", func() string { return date + " " + clock + frac + zone }},
			{"no-sep", func() string { return date + clock + frac + zone }},
			{"date-only", func() string { return date }},
			{"time-only", func() string { return clock + zone }},
			{"month-13", func() string { return date[:5] + "13" + date[7:] + "T" + clock + frac + zone }},
			{"month-00", func() string { return date[:5] + "00" + date[7:] + "T" + clock + frac + zone }},
			{"day-32", func() string { return date[:8] + "32" + "T" + clock + frac + zone }},
			{"day-00", func() string { return date[:8] + "00" + "T" + clock + frac + zone }},
			{"day-not-in-month", func() string {
				// a day the named month does not have (the year 2023 is not a leap year, 2024 is)
				return rapid.SampledFrom([]string{"2023-02-29", "2024-02-30", "2023-02-30", "2023-04-31", "2023-06-31", "2023-09-31", "2023-11-31", "1900-02-29", "2100-02-29"}).Draw(t, "badday") + "T" + clock + frac + zone
			}},
			{"hour-25", func() string { return date + "T25" + clock[2:] + frac + zone }},
			{"minute-60", func() string { return date + "T" + clock[:3] + "60" + clock[5:] + frac + zone }},
			{"trailing-garbage", func() string {
				return good + rapid.SampledFrom([]string{"x", " ", "Z", "+", "0", "\n", "T00"}).Draw(t, "garb")
			}},
			{"leading-garbage", func() string { return rapid.SampledFrom([]string{"x", " ", "+", "\t"}).Draw(t, "garb") + good }},
			{"non-digit", func() string {
				i := rapid.SampledFrom([]int{0, 3, 5, 8, 11, 14, 17}).Draw(t, "pos")
				return good[:i] + "a" + good[i+1:]
			}},
			{"short-year", func() string { return date[1:] + "T" + clock + frac + zone }},
			{"empty-frac", func() string { return date + "T" + clock + "." + zone }},
			{"bad-zone", func() string {
				return date + "T" + clock + frac + rapid.SampledFrom([]string{"+1", "+0100", "UTC", "z ", "+25:00x", "GMT", "+01:0"}).Draw(t, "bz")
			}},
			{"slashes", func() string { return strings.ReplaceAll(date, "-", "/") + "T" + clock + frac + zone }},
			{"unix", func() string { return fmt.Sprintf("%d", sec) }},
			{"words", func() string {
				return rapid.SampledFrom([]string{"now", "yesterday", "T", "Z", "-", "0", "null"}).Draw(t, "w")
			}},
		}
		m := muts[rapid.IntRange(0, len(muts)-1).Draw(t, "mut")]
		text := m.f()
		expect := "reject"
		if lexGrammar.MatchString(text) {
			// the mutation happened to produce another documented form (e.g. zone-less + "Z")
			expect = "dontcare"
		}
		switch m.name {
		case "month-13", "month-00", "day-32", "day-00", "hour-25", "minute-60", "day-not-in-month":
			expect = "reject"
		}
		return lexCase{text, expect, m.name}
	}
}

var stdBindings = []string{saml.HTTPPostBinding, saml.HTTPRedirectBinding, saml.HTTPArtifactBinding, saml.SOAPBinding}

func genURLWithQuery(t *rapid.T, label string) string {
	u := xgen.HTTPURL().Draw(t, label)
	if rapid.IntRange(0, 3).Draw(t, label+"q") == 0 {
		u += "?" + rapid.StringMatching(`[a-z]{1,4}=[a-zA-Z0-9%&=+]{0,8}`).Draw(t, label+"query")
	}
	return u
}

// genEndpointURL: http(s) locations as metadata in the wild spells them - including spellings a
// URL library would write differently (upper-case scheme or host, template braces, spaces,
// non-ASCII, an empty query or fragment): they are http(s) endpoints and must come back verbatim.
func genEndpointURL(t *rapid.T, label string) string {
	u := genURLWithQuery(t, label)
	switch rapid.IntRange(0, 11).Draw(t, label+"spelling") {
	case 0:
		if i := strings.Index(u, "://"); i > 0 {
			u = strings.ToUpper(u[:i]) + u[i:]
		}
	case 1:
		u = strings.ToUpper(u[:strings.Index(u, "://")+3]) + strings.ToUpper(u[strings.Index(u, "://")+3:])
	case 2:
		u += "/{tenant}/acs"
	case 3:
		u += "/a b"
	case 4:
		u += "/caf\u00e9"
	case 5:
		u += "#"
	case 6:
		if !strings.Contains(u, "?") {
			u += "?"
		}
	case 7:
		u += "/%7Euser/%2f"
	case 8:
		u += "/a/../b/./c"
	}
	return u
}

func genSP(t *rapid.T) *SPConf {
	sec, nsec, zone := genInstant(t)
	// keep now+valid within years 1..9999
	if sec > maxSec-400*86400*365 {
		sec = maxSec - 400*86400*365
	}
	c := &SPConf{
		MetadataURL: genURLWithQuery(t, "metadata"),
		AcsURL:      genURLWithQuery(t, "acs"),
		SloURL:      genURLWithQuery(t, "slo"),
		NowSec:      sec, NowNsec: nsec, ZoneMn: zone,
	}
	if rapid.Bool().Draw(t, "hasEntityID") {
		c.EntityID = rapid.OneOf(xgen.HTTPURL(), xgen.TextNonEmpty()).Draw(t, "entityID")
	}
	c.Cert = rapid.SampledFrom([]string{"", "sp", "sp", "spec", "rsa1024", "p521"}).Draw(t, "cert")
	c.Intermediate = c.Cert != "" && rapid.IntRange(0, 3).Draw(t, "interm") == 0
	c.SigMethod = rapid.SampledFrom([]string{"", "", "http://www.w3.org/2001/04/xmldsig-more#rsa-sha256", "http://www.w3.org/2001/04/xmldsig-more#ecdsa-sha256", "bogus"}).Draw(t, "sig")
	c.LogoutBindings = rapid.SliceOfN(rapid.SampledFrom(stdBindings), 0, 3).Draw(t, "slo-bindings")
	c.NameIDFormat = rapid.OneOf(rapid.SampledFrom([]string{"", string(saml.TransientNameIDFormat), string(saml.EmailAddressNameIDFormat), string(saml.UnspecifiedNameIDFormat), string(saml.PersistentNameIDFormat)}), xgen.Text()).Draw(t, "nameid-format")
	c.ValidNs = rapid.OneOf(rapid.Just(int64(0)), rapid.Int64Range(1, int64(100*365*24*time.Hour)), rapid.Int64Range(1, 1e10)).Draw(t, "valid")
	return c
}

func genIDP(t *rapid.T) *IDPConf {
	sec, nsec, _ := genInstant(t)
	if sec > maxSec-400*86400*365 {
		sec = maxSec - 400*86400*365
	}
	if sec < minSec+400*86400*365 {
		sec = minSec + 400*86400*365
	}
	c := &IDPConf{
		MetadataURL: genURLWithQuery(t, "metadata"),
		SSOURL:      genURLWithQuery(t, "sso"),
		Cert:        rapid.SampledFrom([]string{"idp", "idpec", "idp2"}).Draw(t, "cert"),
		NowSec:      sec, NowNsec: nsec,
	}
	if rapid.Bool().Draw(t, "hasLogout") {
		c.LogoutURL = genURLWithQuery(t, "logout")
	}
	if rapid.Bool().Draw(t, "hasValid") {
		c.HasValid = true
		c.ValidNs = rapid.OneOf(
			rapid.Int64Range(1, int64(100*365*24*time.Hour)),
			rapid.Int64Range(0, 1e10),
			rapid.Int64Range(-int64(100*365*24*time.Hour), -1),
			rapid.Custom(func(t *rapid.T) int64 { return genDur(t) % int64(100*365*24*time.Hour) }),
		).Draw(t, "valid")
	}
	return c
}

func (c *SPConf) build() *saml.ServiceProvider {
	mu, _ := url.Parse(c.MetadataURL)
	au, _ := url.Parse(c.AcsURL)
	su, _ := url.Parse(c.SloURL)
	sp := &saml.ServiceProvider{
		EntityID: c.EntityID, MetadataURL: *mu, AcsURL: *au, SloURL: *su,
		SignatureMethod: c.SigMethod, LogoutBindings: c.LogoutBindings,
		AuthnNameIDFormat: saml.NameIDFormat(c.NameIDFormat), MetadataValidDuration: time.Duration(c.ValidNs),
		IDPMetadata: &saml.EntityDescriptor{},
	}
	if c.Cert != "" {
		kp := fix.Get(c.Cert)
		sp.Key, sp.Certificate = kp.Key, kp.Cert
		if c.Intermediate {
			sp.Intermediates = []*x509.Certificate{fix.Get("sp2").Cert}
		}
	}
	return sp
}

// ---- arbitrary EntityDescriptor values

func optStr(t *rapid.T, label string) string {
	if rapid.Bool().Draw(t, label+"?") {
		return xgen.Text().Draw(t, label)
	}
	return ""
}

func genKeyDescriptors(t *rapid.T, label string) []saml.KeyDescriptor {
	n := rapid.IntRange(0, 2).Draw(t, label+"n")
	var out []saml.KeyDescriptor
	for i := 0; i < n; i++ {
		kd := saml.KeyDescriptor{Use: rapid.SampledFrom([]string{"", "signing", "encryption"}).Draw(t, label+"use")}
		nc := rapid.IntRange(0, 2).Draw(t, label+"nc")
		for j := 0; j < nc; j++ {
			kd.KeyInfo.X509Data.X509Certificates = append(kd.KeyInfo.X509Data.X509Certificates,
				saml.X509Certificate{Data: rapid.SampledFrom([]string{fix.Get("sp").CertB64(), "", "  MIIB\n  abc=\n", "AAAA"}).Draw(t, label+"cert")})
		}
		nm := rapid.IntRange(0, 2).Draw(t, label+"nm")
		for j := 0; j < nm; j++ {
			kd.EncryptionMethods = append(kd.EncryptionMethods, saml.EncryptionMethod{Algorithm: rapid.SampledFrom([]string{"http://www.w3.org/2001/04/xmlenc#aes128-cbc", "http://www.w3.org/2001/04/xmlenc#rsa-oaep-mgf1p", ""}).Draw(t, label+"alg")})
		}
		out = append(out, kd)
	}
	return out
}

func genBinding(t *rapid.T, label string) string {
	return rapid.SampledFrom(append([]string{"urn:mace:shibboleth:1.0:profiles:AuthnRequest", saml.SOAPBindingV1}, stdBindings...)).Draw(t, label)
}

func genEndpoints(t *rapid.T, label string) []saml.Endpoint {
	n := rapid.IntRange(0, 2).Draw(t, label+"n")
	var out []saml.Endpoint
	for i := 0; i < n; i++ {
		e := saml.Endpoint{Binding: genBinding(t, label+"b"), Location: genEndpointURL(t, label+"loc")}
		if rapid.Bool().Draw(t, label+"resp?") {
			e.ResponseLocation = genEndpointURL(t, label+"resp")
			// optional attribute coinciding with its sibling: equal values are still two attributes
			if rapid.IntRange(0, 2).Draw(t, label+"resp=loc") == 0 {
				e.ResponseLocation = e.Location
			}
		}
		out = append(out, e)
	}
	return out
}

func genIndexedEndpoints(t *rapid.T, label string) []saml.IndexedEndpoint {
	n := rapid.IntRange(0, 3).Draw(t, label+"n")
	var out []saml.IndexedEndpoint
	for i := 0; i < n; i++ {
		e := saml.IndexedEndpoint{Binding: genBinding(t, label+"b"), Location: genEndpointURL(t, label+"loc"), Index: rapid.IntRange(-2, 70000).Draw(t, label+"idx")}
		if rapid.Bool().Draw(t, label+"resp?") {
			r := genEndpointURL(t, label+"resp")
			if rapid.IntRange(0, 2).Draw(t, label+"resp=loc") == 0 {
				r = e.Location
			}
			e.ResponseLocation = &r
		}
		if rapid.Bool().Draw(t, label+"def?") {
			b := rapid.Bool().Draw(t, label+"def")
			e.IsDefault = &b
		}
		out = append(out, e)
	}
	return out
}

func genRole(t *rapid.T, label string) saml.RoleDescriptor {
	r := saml.RoleDescriptor{
		ID:                         optStr(t, label+"id"),
		ProtocolSupportEnumeration: rapid.SampledFrom([]string{"urn:oasis:names:tc:SAML:2.0:protocol", ""}).Draw(t, label+"pse"),
		ErrorURL:                   optStr(t, label+"err"),
		KeyDescriptors:             genKeyDescriptors(t, label+"kd"),
	}
	if rapid.Bool().Draw(t, label+"vu?") {
		sec, nsec, _ := genInstant(t)
		v := time.Unix(sec, nsec).UTC()
		r.ValidUntil = &v
	}
	if rapid.Bool().Draw(t, label+"cd?") {
		r.CacheDuration = time.Duration(rapid.Int64Range(0, 1e15).Draw(t, label+"cd"))
	}
	if rapid.IntRange(0, 3).Draw(t, label+"org?") == 0 {
		r.Organization = genOrg(t, label+"org")
	}
	if rapid.IntRange(0, 3).Draw(t, label+"cp?") == 0 {
		r.ContactPeople = []saml.ContactPerson{*genContact(t, label+"cp")}
	}
	return r
}

func genOrg(t *rapid.T, label string) *saml.Organization {
	ln := func(l string) []saml.LocalizedName {
		n := rapid.IntRange(0, 2).Draw(t, l+"n")
		var out []saml.LocalizedName
		for i := 0; i < n; i++ {
			out = append(out, saml.LocalizedName{Lang: rapid.SampledFrom([]string{"en", "de", ""}).Draw(t, l+"lang"), Value: xgen.Text().Draw(t, l+"v")})
		}
		return out
	}
	o := &saml.Organization{OrganizationNames: ln(label + "names"), OrganizationDisplayNames: ln(label + "dn")}
	if rapid.Bool().Draw(t, label+"url?") {
		o.OrganizationURLs = []saml.LocalizedURI{{Lang: "en", Value: xgen.HTTPURL().Draw(t, label+"url")}}
	}
	return o
}

func genContact(t *rapid.T, label string) *saml.ContactPerson {
	c := &saml.ContactPerson{ContactType: rapid.SampledFrom([]string{"technical", "support", ""}).Draw(t, label+"type"),
		Company: optStr(t, label+"co"), GivenName: optStr(t, label+"gn"), SurName: optStr(t, label+"sn")}
	c.EmailAddresses = rapid.SliceOfN(xgen.Text(), 0, 2).Draw(t, label+"mail")
	c.TelephoneNumbers = rapid.SliceOfN(xgen.Text(), 0, 2).Draw(t, label+"tel")
	if len(c.EmailAddresses) == 0 {
		c.EmailAddresses = nil
	}
	if len(c.TelephoneNumbers) == 0 {
		c.TelephoneNumbers = nil
	}
	return c
}

func genAttributes(t *rapid.T, label string) []saml.Attribute {
	n := rapid.IntRange(0, 2).Draw(t, label+"n")
	var out []saml.Attribute
	for i := 0; i < n; i++ {
		a := saml.Attribute{FriendlyName: optStr(t, label+"fn"), Name: xgen.Text().Draw(t, label+"name"), NameFormat: optStr(t, label+"nf")}
		nv := rapid.IntRange(0, 2).Draw(t, label+"nv")
		for j := 0; j < nv; j++ {
			a.Values = append(a.Values, saml.AttributeValue{Type: rapid.SampledFrom([]string{"xs:string", ""}).Draw(t, label+"type"), Value: xgen.Text().Draw(t, label+"val")})
		}
		out = append(out, a)
	}
	return out
}

func genFormats(t *rapid.T, label string) []saml.NameIDFormat {
	n := rapid.IntRange(0, 2).Draw(t, label+"n")
	var out []saml.NameIDFormat
	for i := 0; i < n; i++ {
		out = append(out, saml.NameIDFormat(rapid.SampledFrom([]string{string(saml.TransientNameIDFormat), string(saml.EmailAddressNameIDFormat), "", "x y"}).Draw(t, label)))
	}
	return out
}

func genEntity(t *rapid.T) *saml.EntityDescriptor {
	sec, nsec, _ := genInstant(t)
	e := &saml.EntityDescriptor{
		EntityID: rapid.OneOf(xgen.HTTPURL(), xgen.Text()).Draw(t, "entityID"),
		ID:       optStr(t, "id"),
	}
	if rapid.IntRange(0, 3).Draw(t, "vu?") != 0 {
		e.ValidUntil = time.Unix(sec, nsec).UTC()
	}
	if rapid.IntRange(0, 3).Draw(t, "cd?") != 0 {
		e.CacheDuration = time.Duration(genDur(t))
	}
	nIDP := rapid.IntRange(0, 2).Draw(t, "nidp")
	for i := 0; i < nIDP; i++ {
		d := saml.IDPSSODescriptor{}
		d.RoleDescriptor = genRole(t, "idp.role.")
		d.SSODescriptor.ArtifactResolutionServices = genIndexedEndpoints(t, "idp.ars.")
		d.SingleLogoutServices = genEndpoints(t, "idp.slo.")
		d.ManageNameIDServices = genEndpoints(t, "idp.mni.")
		d.NameIDFormats = genFormats(t, "idp.fmt.")
		if rapid.Bool().Draw(t, "idp.wars?") {
			b := rapid.Bool().Draw(t, "idp.wars")
			d.WantAuthnRequestsSigned = &b
		}
		d.SingleSignOnServices = genEndpoints(t, "idp.sso.")
		d.NameIDMappingServices = genEndpoints(t, "idp.nim.")
		d.AssertionIDRequestServices = genEndpoints(t, "idp.air.")
		d.AttributeProfiles = rapid.SliceOfN(xgen.Text(), 0, 2).Draw(t, "idp.ap")
		if len(d.AttributeProfiles) == 0 {
			d.AttributeProfiles = nil
		}
		d.Attributes = genAttributes(t, "idp.attr.")
		e.IDPSSODescriptors = append(e.IDPSSODescriptors, d)
	}
	nSP := rapid.IntRange(0, 2).Draw(t, "nsp")
	for i := 0; i < nSP; i++ {
		d := saml.SPSSODescriptor{}
		d.RoleDescriptor = genRole(t, "sp.role.")
		d.SSODescriptor.ArtifactResolutionServices = genIndexedEndpoints(t, "sp.ars.")
		d.SingleLogoutServices = genEndpoints(t, "sp.slo.")
		d.NameIDFormats = genFormats(t, "sp.fmt.")
		if rapid.Bool().Draw(t, "sp.ars?") {
			b := rapid.Bool().Draw(t, "sp.ars")
			d.AuthnRequestsSigned = &b
		}
		if rapid.Bool().Draw(t, "sp.was?") {
			b := rapid.Bool().Draw(t, "sp.was")
			d.WantAssertionsSigned = &b
		}
		d.AssertionConsumerServices = genIndexedEndpoints(t, "sp.acs.")
		nacs := rapid.IntRange(0, 2).Draw(t, "sp.nattrsvc")
		for j := 0; j < nacs; j++ {
			a := saml.AttributeConsumingService{Index: rapid.IntRange(0, 9).Draw(t, "sp.attrsvc.idx")}
			if rapid.Bool().Draw(t, "sp.attrsvc.def?") {
				b := rapid.Bool().Draw(t, "sp.attrsvc.def")
				a.IsDefault = &b
			}
			for _, at := range genAttributes(t, "sp.attrsvc.ra.") {
				ra := saml.RequestedAttribute{Attribute: at}
				if rapid.Bool().Draw(t, "sp.attrsvc.req?") {
					b := rapid.Bool().Draw(t, "sp.attrsvc.req")
					ra.IsRequired = &b
				}
				a.RequestedAttributes = append(a.RequestedAttributes, ra)
			}
			d.AttributeConsumingServices = append(d.AttributeConsumingServices, a)
		}
		e.SPSSODescriptors = append(e.SPSSODescriptors, d)
	}
	if rapid.IntRange(0, 4).Draw(t, "aa?") == 0 {
		d := saml.AttributeAuthorityDescriptor{RoleDescriptor: genRole(t, "aa.role."), AttributeServices: genEndpoints(t, "aa.svc."), NameIDFormats: genFormats(t, "aa.fmt."), Attributes: genAttributes(t, "aa.attr.")}
		e.AttributeAuthorityDescriptors = append(e.AttributeAuthorityDescriptors, d)
	}
	if rapid.IntRange(0, 4).Draw(t, "authn?") == 0 {
		e.AuthnAuthorityDescriptors = append(e.AuthnAuthorityDescriptors, saml.AuthnAuthorityDescriptor{RoleDescriptor: genRole(t, "an.role."), AuthnQueryServices: genEndpoints(t, "an.q.")})
	}
	if rapid.IntRange(0, 4).Draw(t, "pdp?") == 0 {
		e.PDPDescriptors = append(e.PDPDescriptors, saml.PDPDescriptor{RoleDescriptor: genRole(t, "pdp.role."), AuthzServices: genEndpoints(t, "pdp.z.")})
	}
	if rapid.IntRange(0, 4).Draw(t, "role?") == 0 {
		e.RoleDescriptors = append(e.RoleDescriptors, genRole(t, "role."))
	}
	if rapid.IntRange(0, 4).Draw(t, "aff?") == 0 {
		s2, n2, _ := genInstant(t)
		e.AffiliationDescriptor = &saml.AffiliationDescriptor{AffiliationOwnerID: xgen.Text().Draw(t, "aff.owner"), ID: optStr(t, "aff.id"),
			ValidUntil: time.Unix(s2, n2).UTC(), CacheDuration: time.Duration(rapid.Int64Range(0, 1e15).Draw(t, "aff.cd")),
			AffiliateMembers: []string{xgen.Text().Draw(t, "aff.m")}, KeyDescriptors: genKeyDescriptors(t, "aff.kd")}
	}
	if rapid.IntRange(0, 3).Draw(t, "org?") == 0 {
		e.Organization = genOrg(t, "org.")
	}
	if rapid.IntRange(0, 3).Draw(t, "contact?") == 0 {
		e.ContactPerson = genContact(t, "contact.")
	}
	if rapid.IntRange(0, 4).Draw(t, "aml?") == 0 {
		e.AdditionalMetadataLocations = []string{xgen.HTTPURL().Draw(t, "aml")}
	}
	return e
}

func genEntities(t *rapid.T, depth int) *saml.EntitiesDescriptor {
	es := &saml.EntitiesDescriptor{}
	if rapid.Bool().Draw(t, "es.id?") {
		s := xgen.Text().Draw(t, "es.id")
		es.ID = &s
	}
	if rapid.Bool().Draw(t, "es.name?") {
		s := xgen.Text().Draw(t, "es.name")
		es.Name = &s
	}
	if rapid.Bool().Draw(t, "es.vu?") {
		sec, nsec, _ := genInstant(t)
		v := time.Unix(sec, nsec).UTC()
		es.ValidUntil = &v
	}
	if rapid.Bool().Draw(t, "es.cd?") {
		d := time.Duration(genDur(t))
		es.CacheDuration = &d
	}
	n := rapid.IntRange(0, 2).Draw(t, "es.n")
	for i := 0; i < n; i++ {
		es.EntityDescriptors = append(es.EntityDescriptors, *genEntity(t))
	}
	if depth < 2 && rapid.IntRange(0, 2).Draw(t, "es.nested?") == 0 {
		es.EntitiesDescriptors = append(es.EntitiesDescriptors, *genEntities(t, depth+1))
	}
	return es
}

func gen(t *rapid.T) Case {
	c := gen0(t)
	if c.Kind != "dur" && c.Kind != "durstr" && rapid.IntRange(0, 2).Draw(t, "local?") == 0 {
		c.LocalMin = rapid.SampledFrom([]int{-720, -480, -300, -1, 1, 60, 330, 540, 840}).Draw(t, "localmin")
	}
	return c
}

func gen0(t *rapid.T) Case {
	switch rapid.IntRange(0, 19).Draw(t, "kind") {
	case 0, 1, 2, 3, 4, 5:
		return Case{Kind: "dur", Dur: genDur(t)}
	case 6, 7:
		return Case{Kind: "durstr", Str: genDurStr(t)}
	case 8, 9, 10, 11:
		s, n, z := genInstant(t)
		return Case{Kind: "instant", Sec: s, Nsec: n, ZoneMn: z}
	case 12, 13, 14:
		l := genLex(t)
		return Case{Kind: "lex", Str: l.text, Expect: l.expect, LexKind: l.kind}
	case 15:
		return Case{Kind: "spmeta", SP: genSP(t)}
	case 16:
		return Case{Kind: "idpmeta", IDP: genIDP(t)}
	case 17, 18:
		return Case{Kind: "entity", Entity: genEntity(t)}
	default:
		return Case{Kind: "entities", Entities: genEntities(t, 0)}
	}
}

// ---------------------------------------------------------------- oracle

func fail(f string, a ...any) pbt.Result {
	return pbt.Result{Err: fmt.Sprintf(f, a...), NonTrivial: true}
}

func checkDur(d int64) pbt.Result {
	res := pbt.Result{Classes: []string{"dur"}}
	sub := d % 1e9
	abs := d
	if abs < 0 {
		abs = -abs
	}
	switch {
	case d == math.MinInt64 || abs >= 1<<62:
		res.Classes = append(res.Classes, "dur:huge")
		res.NonTrivial = true
	case sub != 0:
		res.Classes = append(res.Classes, "dur:subsecond")
		res.NonTrivial = true
	case d != 0 && (abs/1e9)%60 == 0:
		res.Classes = append(res.Classes, "dur:carry")
		res.NonTrivial = true
	}
	if d < 0 {
		res.Classes = append(res.Classes, "dur:negative")
	}
	text, err := saml.Duration(d).MarshalText()
	if err != nil {
		res.Err = fmt.Sprintf("Duration(%d).MarshalText: %v", d, err)
		return res
	}
	var back saml.Duration
	if err := back.UnmarshalText(text); err != nil {
		res.Err = fmt.Sprintf("Duration(%d) marshals to %q which does not unmarshal: %v", d, text, err)
		return res
	}
	if int64(back) != d {
		res.Err = fmt.Sprintf("Duration(%d) marshals to %q which unmarshals to %d", d, text, int64(back))
	}
	return res
}

var durRef = regexp.MustCompile(`^(-?)P(?:(\d+)D)?(?:T(?:(\d+)H)?(?:(\d+)M)?(?:(\d+)(?:\.(\d+))?S)?)?$`)

// refDuration is an independent reading of an xsd:duration without year / month
// designators (whose length in seconds is a convention, not a fact): decimal digits,
// 24 h days, fraction truncated to nanoseconds. ok=false when out of scope or overflowing.
func refDuration(s string) (int64, bool) {
	m := durRef.FindStringSubmatch(s)
	if m == nil {
		return 0, false
	}
	total := new(big.Int)
	add := func(digits string, unit int64) {
		if digits == "" {
			return
		}
		v, _ := new(big.Int).SetString(digits, 10)
		total.Add(total, v.Mul(v, big.NewInt(unit)))
	}
	add(m[2], int64(24*time.Hour))
	add(m[3], int64(time.Hour))
	add(m[4], int64(time.Minute))
	add(m[5], int64(time.Second))
	if f := m[6]; f != "" {
		if len(f) > 9 {
			f = f[:9]
		}
		add(f+strings.Repeat("0", 9-len(f)), 1)
	}
	if !total.IsInt64() {
		return 0, false
	}
	v := total.Int64()
	if m[1] == "-" {
		v = -v
	}
	return v, true
}

func checkDurStr(s string) pbt.Result {
	res := pbt.Result{Classes: []string{"durstr"}, NonTrivial: strings.Contains(s, ".") || strings.Contains(s, "Y") || strings.HasPrefix(s, "-")}
	var d saml.Duration
	if err := d.UnmarshalText([]byte(s)); err != nil {
		res.Err = fmt.Sprintf("grammar-valid xsd:duration %q rejected: %v", s, err)
		return res
	}
	if want, ok := refDuration(s); ok {
		res.Classes = append(res.Classes, "durstr:value-checked")
		if int64(d) != want {
			res.Err = fmt.Sprintf("xsd:duration %q unmarshals to %d ns, its decimal reading is %d ns", s, int64(d), want)
			return res
		}
	}
	text, err := d.MarshalText()
	if err != nil {
		res.Err = fmt.Sprintf("%q -> %d -> MarshalText: %v", s, int64(d), err)
		return res
	}
	var back saml.Duration
	if err := back.UnmarshalText(text); err != nil {
		res.Err = fmt.Sprintf("%q -> %d -> %q does not unmarshal: %v", s, int64(d), text, err)
		return res
	}
	if back != d {
		res.Err = fmt.Sprintf("%q -> %d -> %q -> %d: no fixed point", s, int64(d), text, int64(back))
	}
	return res
}

func checkInstant(c Case) pbt.Result {
	loc := time.UTC
	if c.ZoneMn != 0 {
		loc = time.FixedZone("z", c.ZoneMn*60)
	}
	tm := time.Unix(c.Sec, c.Nsec).In(loc)
	if !inYears(tm) {
		return pbt.Result{Skip: true}
	}
	res := pbt.Result{Classes: []string{"instant"}}
	if c.Nsec%1e6 != 0 {
		res.Classes = append(res.Classes, "instant:sub-ms")
		res.NonTrivial = true
	}
	if c.ZoneMn != 0 {
		res.Classes = append(res.Classes, "instant:zone")
		res.NonTrivial = true
	}
	text, err := saml.RelaxedTime(tm).MarshalText()
	if err != nil {
		res.Err = fmt.Sprintf("MarshalText(%v): %v", tm, err)
		return res
	}
	var back saml.RelaxedTime
	if err := back.UnmarshalText(text); err != nil {
		res.Err = fmt.Sprintf("instant %s marshals to %q which does not unmarshal: %v", tm.Format(time.RFC3339Nano), text, err)
		return res
	}
	want := tm.Round(time.Millisecond).UTC()
	got := time.Time(back)
	if !got.Equal(want) {
		res.Err = fmt.Sprintf("instant %s marshals to %q which unmarshals to %s, want %s", tm.Format(time.RFC3339Nano), text, got.Format(time.RFC3339Nano), want.Format(time.RFC3339Nano))
		return res
	}
	if _, off := got.Zone(); off != 0 {
		res.Err = fmt.Sprintf("instant %s -> %q -> %s is not in UTC", tm.Format(time.RFC3339Nano), text, got.Format(time.RFC3339Nano))
	}
	if !strings.HasSuffix(string(text), "Z") {
		res.Err = fmt.Sprintf("instant %s marshals to %q, which is not a UTC xsd:dateTime", tm.Format(time.RFC3339Nano), text)
	}
	return res
}

// refParse is an independent reader of the accepted lexical forms produced by genLex.
func refParse(s string) (time.Time, bool) {
	var y, mo, d, h, mi, sec int
	if len(s) < 19 {
		return time.Time{}, false
	}
	if _, err := fmt.Sscanf(s[:19], "%04d-%02d-%02dT%02d:%02d:%02d", &y, &mo, &d, &h, &mi, &sec); err != nil {
		return time.Time{}, false
	}
	rest := s[19:]
	nsec := 0
	if strings.HasPrefix(rest, ".") {
		i := 1
		for i < len(rest) && rest[i] >= '0' && rest[i] <= '9' {
			i++
		}
		digits := rest[1:i]
		for len(digits) < 9 {
			digits += "0"
		}
		fmt.Sscanf(digits[:9], "%d", &nsec)
		rest = rest[i:]
	}
	off := 0
	switch {
	case rest == "" || rest == "Z":
	case len(rest) == 6 && (rest[0] == '+' || rest[0] == '-'):
		var oh, om int
		fmt.Sscanf(rest[1:], "%02d:%02d", &oh, &om)
		off = oh*3600 + om*60
		if rest[0] == '-' {
			off = -off
		}
	default:
		return time.Time{}, false
	}
	return time.Date(y, time.Month(mo), d, h, mi, sec, nsec, time.UTC).Add(-time.Duration(off) * time.Second), true
}

func checkLex(c Case) pbt.Result {
	res := pbt.Result{Classes: []string{"lex:" + c.Expect, "lex:" + c.LexKind}, NonTrivial: true}
	var m saml.RelaxedTime
	err := m.UnmarshalText([]byte(c.Str))
	switch c.Expect {
	case "accept":
		if err != nil {
			res.Err = fmt.Sprintf("documented lexical form %q (%s) rejected: %v", c.Str, c.LexKind, err)
			return res
		}
		if want, ok := refParse(c.Str); ok && inYears(want) {
			if !time.Time(m).Equal(want.Round(time.Millisecond)) {
				res.Err = fmt.Sprintf("%q parsed as %s, want %s", c.Str, time.Time(m).UTC().Format(time.RFC3339Nano), want.Round(time.Millisecond).Format(time.RFC3339Nano))
				return res
			}
			// fixed point of the parsed value
			text, _ := m.MarshalText()
			var back saml.RelaxedTime
			if err := back.UnmarshalText(text); err != nil || !time.Time(back).Equal(time.Time(m)) {
				res.Err = fmt.Sprintf("%q -> %q -> %v (%v): no fixed point", c.Str, text, time.Time(back), err)
			}
		}
	case "reject":
		if err == nil {
			res.Err = fmt.Sprintf("text %q (%s) is not a documented xsd:dateTime form but was accepted as %s", c.Str, c.LexKind, time.Time(m).Format(time.RFC3339Nano))
		}
	}
	return res
}

// byValue: a document marshals to the same bytes whether the application hands xml.Marshal the value or a
// pointer to it (both are how callers of encoding/xml write it); ptr must be a non-nil pointer.
func byValue(ptr any) string {
	bp, errp := xml.Marshal(ptr)
	bv, errv := xml.Marshal(reflect.ValueOf(ptr).Elem().Interface())
	if (errp == nil) != (errv == nil) {
		return fmt.Sprintf("marshalling by pointer gives error %v, by value %v", errp, errv)
	}
	if errp == nil && !bytes.Equal(bp, bv) {
		return fmt.Sprintf("marshalled by pointer and by value differ:\n pointer=%s\n value  =%s", trunc(bp), trunc(bv))
	}
	return ""
}

func xmlRound(v any, into any) ([]byte, error) {
	b, err := xml.Marshal(v)
	if err != nil {
		return nil, fmt.Errorf("marshal: %w", err)
	}
	if err := xml.Unmarshal(b, into); err != nil {
		return b, fmt.Errorf("unmarshal of %s: %w", trunc(b), err)
	}
	return b, nil
}

func trunc(b []byte) string {
	if len(b) > 1500 {
		return string(b[:1500]) + "…"
	}
	return string(b)
}

type epView struct{ Where, Binding, Location, Response string }

// endpoints lists every endpoint of e in document order, as the property's
// "http(s) endpoints" clause sees them.
func endpoints(e *saml.EntityDescriptor) []epView {
	var out []epView
	ep := func(w string, l []saml.Endpoint) {
		for _, x := range l {
			out = append(out, epView{w, x.Binding, x.Location, x.ResponseLocation})
		}
	}
	iep := func(w string, l []saml.IndexedEndpoint) {
		for _, x := range l {
			r := ""
			if x.ResponseLocation != nil {
				r = *x.ResponseLocation
			}
			d := "nil"
			if x.IsDefault != nil {
				d = fmt.Sprint(*x.IsDefault)
			}
			out = append(out, epView{fmt.Sprintf("%s[%d,%s]", w, x.Index, d), x.Binding, x.Location, r})
		}
	}
	for _, d := range e.IDPSSODescriptors {
		// the IDPSSODescriptor's own []Endpoint field shadows the embedded one for XML
		ep("idp.ars", d.ArtifactResolutionServices)
		ep("idp.slo", d.SingleLogoutServices)
		ep("idp.mni", d.ManageNameIDServices)
		ep("idp.sso", d.SingleSignOnServices)
		ep("idp.nim", d.NameIDMappingServices)
		ep("idp.air", d.AssertionIDRequestServices)
	}
	for _, d := range e.SPSSODescriptors {
		iep("sp.ars", d.ArtifactResolutionServices)
		ep("sp.slo", d.SingleLogoutServices)
		ep("sp.mni", d.ManageNameIDServices)
		iep("sp.acs", d.AssertionConsumerServices)
	}
	for _, d := range e.AttributeAuthorityDescriptors {
		ep("aa.svc", d.AttributeServices)
		ep("aa.air", d.AssertionIDRequestServices)
	}
	for _, d := range e.AuthnAuthorityDescriptors {
		ep("an.q", d.AuthnQueryServices)
	}
	for _, d := range e.PDPDescriptors {
		ep("pdp.z", d.AuthzServices)
	}
	return out
}

func knownBinding(b string) bool {
	switch b {
	case saml.HTTPPostBinding, saml.HTTPRedirectBinding, saml.HTTPArtifactBinding, saml.SOAPBinding, saml.SOAPBindingV1:
		return true
	}
	return false
}

func keyDescs(e *saml.EntityDescriptor) [][]saml.KeyDescriptor {
	var out [][]saml.KeyDescriptor
	for _, d := range e.IDPSSODescriptors {
		out = append(out, d.KeyDescriptors)
	}
	for _, d := range e.SPSSODescriptors {
		out = append(out, d.KeyDescriptors)
	}
	for _, d := range e.AttributeAuthorityDescriptors {
		out = append(out, d.KeyDescriptors)
	}
	for _, d := range e.AuthnAuthorityDescriptors {
		out = append(out, d.KeyDescriptors)
	}
	for _, d := range e.PDPDescriptors {
		out = append(out, d.KeyDescriptors)
	}
	for _, d := range e.RoleDescriptors {
		out = append(out, d.KeyDescriptors)
	}
	if e.AffiliationDescriptor != nil {
		out = append(out, e.AffiliationDescriptor.KeyDescriptors)
	}
	return out
}

func kdEqual(a, b [][]saml.KeyDescriptor) string {
	if len(a) != len(b) {
		return fmt.Sprintf("%d vs %d key-descriptor lists", len(a), len(b))
	}
	for i := range a {
		if len(a[i]) != len(b[i]) {
			return fmt.Sprintf("list %d: %d vs %d key descriptors", i, len(a[i]), len(b[i]))
		}
		for j := range a[i] {
			x, y := a[i][j], b[i][j]
			if x.Use != y.Use {
				return fmt.Sprintf("list %d descriptor %d: use %q vs %q", i, j, x.Use, y.Use)
			}
			if len(x.KeyInfo.X509Data.X509Certificates) != len(y.KeyInfo.X509Data.X509Certificates) {
				return fmt.Sprintf("list %d descriptor %d: certificate count", i, j)
			}
			for k := range x.KeyInfo.X509Data.X509Certificates {
				if x.KeyInfo.X509Data.X509Certificates[k].Data != y.KeyInfo.X509Data.X509Certificates[k].Data {
					return fmt.Sprintf("list %d descriptor %d certificate %d: data differs", i, j, k)
				}
			}
			if len(x.EncryptionMethods) != len(y.EncryptionMethods) {
				return fmt.Sprintf("list %d descriptor %d: encryption method count", i, j)
			}
			for k := range x.EncryptionMethods {
				if x.EncryptionMethods[k] != y.EncryptionMethods[k] {
					return fmt.Sprintf("list %d descriptor %d method %d differs", i, j, k)
				}
			}
		}
	}
	return ""
}

// preserved checks the clauses "preserves its entity ID, http(s) endpoints, key
// descriptors, validity instant and cache duration" between x0 and x1.
func preserved(x0, x1 *saml.EntityDescriptor) string {
	if x0.EntityID != x1.EntityID {
		return fmt.Sprintf("entity ID %q became %q", x0.EntityID, x1.EntityID)
	}
	if !x1.ValidUntil.Equal(x0.ValidUntil.Round(time.Millisecond)) {
		return fmt.Sprintf("validUntil %s became %s", x0.ValidUntil.Format(time.RFC3339Nano), x1.ValidUntil.Format(time.RFC3339Nano))
	}
	if x0.CacheDuration != x1.CacheDuration {
		return fmt.Sprintf("cacheDuration %d became %d", x0.CacheDuration, x1.CacheDuration)
	}
	e0, e1 := endpoints(x0), endpoints(x1)
	if len(e0) != len(e1) {
		return fmt.Sprintf("%d endpoints became %d", len(e0), len(e1))
	}
	for i := range e0 {
		a, b := e0[i], e1[i]
		if a.Where != b.Where || a.Binding != b.Binding {
			return fmt.Sprintf("endpoint %d: %+v became %+v", i, a, b)
		}
		if knownBinding(a.Binding) {
			if a.Location != b.Location || a.Response != b.Response {
				return fmt.Sprintf("http(s) endpoint %d: %+v became %+v", i, a, b)
			}
		}
	}
	if d := kdEqual(keyDescs(x0), keyDescs(x1)); d != "" {
		return "key descriptors: " + d
	}
	return ""
}

func jsonOf(v any) string {
	b, _ := json.Marshal(v)
	return string(b)
}

func checkEntity(x0 *saml.EntityDescriptor, classes []string) pbt.Result {
	res := pbt.Result{Classes: classes, NonTrivial: true}
	var x1, x2 saml.EntityDescriptor
	b0, err := xmlRound(x0, &x1)
	if err != nil {
		res.Err = "generation 0: " + err.Error()
		return res
	}
	b1, err := xmlRound(&x1, &x2)
	if err != nil {
		res.Err = "generation 1: " + err.Error()
		return res
	}
	if !reflect.DeepEqual(jsonOf(&x1), jsonOf(&x2)) {
		res.Err = fmt.Sprintf("no fixed point after one generation:\n x1=%s\n x2=%s\n xml1=%s", trunc([]byte(jsonOf(&x1))), trunc([]byte(jsonOf(&x2))), trunc(b1))
		return res
	}
	b2, err := xml.Marshal(&x2)
	if err != nil || !bytes.Equal(b1, b2) {
		res.Err = fmt.Sprintf("marshalled form not stable: %v\n b1=%s\n b2=%s", err, trunc(b1), trunc(b2))
		return res
	}
	if d := preserved(x0, &x1); d != "" {
		res.Err = fmt.Sprintf("not preserved across marshal/unmarshal: %s\n xml=%s", d, trunc(b0))
		return res
	}
	if d := byValue(x0); d != "" {
		res.Err = "EntityDescriptor " + d
	}
	return res
}

func checkLibMeta(x *saml.EntityDescriptor, classes []string) pbt.Result {
	res := pbt.Result{Classes: classes, NonTrivial: true}
	b0, err := xml.Marshal(x)
	if err != nil {
		res.Err = "marshal: " + err.Error()
		return res
	}
	var y saml.EntityDescriptor
	if err := xml.Unmarshal(b0, &y); err != nil {
		res.Err = fmt.Sprintf("library metadata does not re-parse: %v\n%s", err, trunc(b0))
		return res
	}
	b1, err := xml.Marshal(&y)
	if err != nil || !bytes.Equal(b0, b1) {
		res.Err = fmt.Sprintf("library metadata re-parses to a different value (%v):\n first =%s\n second=%s", err, trunc(b0), trunc(b1))
		return res
	}
	if d := preserved(x, &y); d != "" {
		res.Err = fmt.Sprintf("library metadata re-parses to a different value: %s\n%s", d, trunc(b0))
		return res
	}
	if d := byValue(x); d != "" {
		res.Err = "library metadata " + d
		return res
	}
	// role-level validity instants and the remaining descriptor fields
	for i := range x.SPSSODescriptors {
		a, b := x.SPSSODescriptors[i], y.SPSSODescriptors[i]
		if (a.ValidUntil == nil) != (b.ValidUntil == nil) || (a.ValidUntil != nil && !a.ValidUntil.Equal(*b.ValidUntil)) {
			res.Err = fmt.Sprintf("SPSSODescriptor validUntil %v became %v", a.ValidUntil, b.ValidUntil)
		}
		if !reflect.DeepEqual(a.NameIDFormats, b.NameIDFormats) {
			res.Err = fmt.Sprintf("NameIDFormats %q became %q", a.NameIDFormats, b.NameIDFormats)
		}
		if !reflect.DeepEqual(a.AuthnRequestsSigned, b.AuthnRequestsSigned) || !reflect.DeepEqual(a.WantAssertionsSigned, b.WantAssertionsSigned) {
			res.Err = "signing flags changed"
		}
	}
	return res
}

func check(c Case) pbt.Result {
	if c.LocalMin != 0 && c.LocalMin > -900 && c.LocalMin < 900 {
		old := time.Local
		time.Local = time.FixedZone("harness-local", c.LocalMin*60)
		defer func() { time.Local = old }()
	}
	res := check1(c)
	if c.LocalMin != 0 && !res.Skip {
		res.Classes = append(res.Classes, "process-local-zone-not-utc")
	}
	return res
}

func check1(c Case) pbt.Result {
	switch c.Kind {
	case "dur":
		return checkDur(c.Dur)
	case "durstr":
		return checkDurStr(c.Str)
	case "instant":
		return checkInstant(c)
	case "lex":
		return checkLex(c)
	case "spmeta":
		loc := time.UTC
		if c.SP.ZoneMn != 0 {
			loc = time.FixedZone("z", c.SP.ZoneMn*60)
		}
		now := time.Unix(c.SP.NowSec, c.SP.NowNsec).In(loc)
		saml.TimeNow = func() time.Time { return now }
		sp := c.SP.build()
		md := sp.Metadata()
		if !inYears(md.ValidUntil) {
			return pbt.Result{Skip: true}
		}
		cl := []string{"spmeta"}
		if c.SP.Cert != "" {
			cl = append(cl, "spmeta:cert")
		}
		if len(c.SP.LogoutBindings) > 0 {
			cl = append(cl, "spmeta:slo")
		}
		return checkLibMeta(md, cl)
	case "idpmeta":
		now := time.Unix(c.IDP.NowSec, c.IDP.NowNsec).UTC()
		saml.TimeNow = func() time.Time { return now }
		mu, _ := url.Parse(c.IDP.MetadataURL)
		su, _ := url.Parse(c.IDP.SSOURL)
		idp := &saml.IdentityProvider{MetadataURL: *mu, SSOURL: *su, Certificate: fix.Get(c.IDP.Cert).Cert, Key: fix.Get(c.IDP.Cert).Key}
		if c.IDP.LogoutURL != "" {
			lu, _ := url.Parse(c.IDP.LogoutURL)
			idp.LogoutURL = *lu
		}
		cl := []string{"idpmeta"}
		if c.IDP.HasValid {
			d := time.Duration(c.IDP.ValidNs)
			idp.ValidDuration = &d
			cl = append(cl, "idpmeta:valid-duration")
			if c.IDP.ValidNs%1e9 != 0 {
				cl = append(cl, "idpmeta:subsecond-duration")
			}
		}
		md := idp.Metadata()
		if !inYears(md.ValidUntil) {
			return pbt.Result{Skip: true}
		}
		return checkLibMeta(md, cl)
	case "entity":
		if !inYears(c.Entity.ValidUntil) {
			return pbt.Result{Skip: true}
		}
		return checkEntity(c.Entity, []string{"entity"})
	case "entities":
		return checkEntities(c.Entities)
	}
	return pbt.Result{Skip: true}
}

func entitiesInRange(es *saml.EntitiesDescriptor) bool {
	if es.ValidUntil != nil && !inYears(*es.ValidUntil) {
		return false
	}
	for i := range es.EntityDescriptors {
		if !inYears(es.EntityDescriptors[i].ValidUntil) {
			return false
		}
	}
	for i := range es.EntitiesDescriptors {
		if !entitiesInRange(&es.EntitiesDescriptors[i]) {
			return false
		}
	}
	return true
}

func flatten(es *saml.EntitiesDescriptor) []*saml.EntityDescriptor {
	var out []*saml.EntityDescriptor
	for i := range es.EntitiesDescriptors {
		out = append(out, flatten(&es.EntitiesDescriptors[i])...)
	}
	for i := range es.EntityDescriptors {
		out = append(out, &es.EntityDescriptors[i])
	}
	return out
}

func checkEntities(x0 *saml.EntitiesDescriptor) pbt.Result {
	if !entitiesInRange(x0) {
		return pbt.Result{Skip: true}
	}
	res := pbt.Result{Classes: []string{"entities"}, NonTrivial: true}
	var x1, x2 saml.EntitiesDescriptor
	b0, err := xmlRound(x0, &x1)
	if err != nil {
		res.Err = "generation 0: " + err.Error()
		return res
	}
	b1, err := xmlRound(&x1, &x2)
	if err != nil {
		res.Err = "generation 1: " + err.Error()
		return res
	}
	if jsonOf(&x1) != jsonOf(&x2) {
		res.Err = fmt.Sprintf("no fixed point after one generation:\n xml0=%s\n xml1=%s", trunc(b0), trunc(b1))
		return res
	}
	f0, f1 := flatten(x0), flatten(&x1)
	if len(f0) != len(f1) {
		res.Err = fmt.Sprintf("%d entity descriptors became %d", len(f0), len(f1))
		return res
	}
	for i := range f0 {
		if d := preserved(f0[i], f1[i]); d != "" {
			res.Err = fmt.Sprintf("entity %d not preserved: %s", i, d)
			return res
		}
	}
	if (x0.ValidUntil == nil) != (x1.ValidUntil == nil) || (x0.ValidUntil != nil && !x1.ValidUntil.Equal(x0.ValidUntil.Round(time.Millisecond))) {
		res.Err = fmt.Sprintf("EntitiesDescriptor validUntil %v became %v", x0.ValidUntil, x1.ValidUntil)
	}
	// absent and zero are the same cache duration (EntityDescriptor omits a zero one too)
	cd := func(p *time.Duration) time.Duration {
		if p == nil {
			return 0
		}
		return *p
	}
	if cd(x0.CacheDuration) != cd(x1.CacheDuration) {
		res.Err = fmt.Sprintf("EntitiesDescriptor cacheDuration %v became %v", cd(x0.CacheDuration), cd(x1.CacheDuration))
		return res
	}
	if d := byValue(x0); d != "" {
		res.Err = "EntitiesDescriptor " + d
		return res
	}
	// what was marshalled by value re-parses like the rest
	var xv saml.EntitiesDescriptor
	if bv, err := xmlRound(*x0, &xv); err != nil {
		res.Err = "EntitiesDescriptor marshalled by value: " + err.Error() + " " + trunc(bv)
	}
	return res
}

// ---------------------------------------------------------------- exhaustive parts

func enumDurBoundaries(_ string, emit func(Case)) {
	seen := map[int64]bool{}
	add := func(d int64) {
		if !seen[d] {
			seen[d] = true
			emit(Case{Kind: "dur", Dur: d})
		}
	}
	add(0)
	add(math.MaxInt64)
	add(math.MinInt64)
	add(math.MaxInt64 - 1)
	add(math.MinInt64 + 1)
	// digit patterns: every single non-zero digit at each of the 9 sub-second positions, and 9-runs
	for pos := 0; pos < 9; pos++ {
		for dg := int64(1); dg <= 9; dg++ {
			add(dg * pow10(pos))
			add(-dg * pow10(pos))
			add(1e9 + dg*pow10(pos))
		}
		add(pow10(pos+1) - 1)
		add(-(pow10(pos+1) - 1))
	}
	// carries at 59/60 s, 59/60 min, 23/24 h with +-1 of every unit
	for _, base := range []int64{59, 60, 61, 3540, 3599, 3600, 3601, 86399, 86400, 86401} {
		for _, unit := range []int64{1, 1e3, 1e6, 1e9} {
			for _, k := range []int64{-1, 0, 1} {
				add(base*1e9 + k*unit)
				add(-(base*1e9 + k*unit))
			}
		}
	}
	for p := 0; p <= 18; p++ {
		for _, k := range []int64{-1, 0, 1} {
			add(pow10(p) + k)
			add(-(pow10(p) + k))
		}
	}
	for sh := uint(0); sh < 63; sh++ {
		for _, k := range []int64{-1, 0, 1} {
			add(int64(1)<<sh + k)
		}
	}
	// whole hours / minutes / seconds of every magnitude (a day, a year, a century, the largest), 0-3 ns off
	for _, unit := range []int64{int64(time.Hour), int64(time.Minute), int64(time.Second)} {
		for _, k := range []int64{1, 23, 24, 25, 999, 1000, 8759, 8760, 8761, 87600, 876000, 1_000_000, 2_562_046, math.MaxInt64/unit - 1} {
			if k > math.MaxInt64/unit-1 {
				continue
			}
			for off := int64(-3); off <= 3; off++ {
				add(k*unit + off)
				add(-(k*unit + off))
			}
		}
	}
}

// enumMicroGrid: every whole microsecond below one second (complete in thorough,
// every 7th in quick: 7 is coprime to 10 so every digit pattern class is still hit).
func enumMicroGrid(tier string, emit func(Case)) {
	step := int64(7)
	if tier == "thorough" {
		step = 1
	}
	for us := int64(0); us < 1_000_000; us += step {
		emit(Case{Kind: "dur", Dur: us * 1000})
	}
}

func enumMilliSeconds(tier string, emit func(Case)) {
	// every millisecond below one second, with 0..3 whole seconds in front
	for s := int64(0); s < 4; s++ {
		for ms := int64(0); ms < 1000; ms++ {
			emit(Case{Kind: "dur", Dur: s*1e9 + ms*1e6})
		}
	}
}

func enumDurStrings(_ string, emit func(Case)) {
	for _, n := range []string{"0", "1", "7", "8", "9", "08", "09", "010", "017", "0019", "00", "59", "060", "100"} {
		for _, tmpl := range []string{"PT%sS", "PT%sM", "PT%sH", "P%sD", "PT%s.5S", "PT1M%sS", "-PT%sS", "P%sDT%sH"} {
			s := strings.ReplaceAll(tmpl, "%s", n)
			emit(Case{Kind: "durstr", Str: s})
		}
	}
	// fractions of every length up to 45 digits, all nines / a leading one / all zeros (digits beyond the ninth
	// are below the resolution and must not matter)
	for nd := 1; nd <= 45; nd++ {
		for _, d := range []string{"9", "0", "1"} {
			f := strings.Repeat(d, nd)
			if d == "1" {
				f = "1" + strings.Repeat("0", nd-1)
			}
			emit(Case{Kind: "durstr", Str: "PT1." + f + "S"})
			emit(Case{Kind: "durstr", Str: "-P1DT0." + f + "S"})
		}
	}
}

func enumZones(_ string, emit func(Case)) {
	// every zone offset in quarter hours from -14:00 to +14:00, at three instants with sub-ms digits
	for off := -14 * 60; off <= 14*60; off += 15 {
		for _, s := range []int64{0, 1592222400, maxSec - 86400} {
			for _, ns := range []int64{0, 123_456_789, 999_500_000, 499_999} {
				emit(Case{Kind: "instant", Sec: s, Nsec: ns, ZoneMn: off})
			}
		}
	}
	// days the named month does not have, in every zone spelling, with and without fraction; and the leap days that exist
	for _, d := range []string{"2023-02-29", "2024-02-30", "2023-02-30", "2023-02-31", "2023-04-31", "2023-06-31", "2023-09-31", "2023-11-31", "1900-02-29", "2100-02-29"} {
		for _, z := range []string{"Z", "", "+00:00", "-08:00", "+05:30"} {
			for _, f := range []string{"", ".5", ".123456789"} {
				emit(Case{Kind: "lex", Str: d + "T10:00:00" + f + z, Expect: "reject", LexKind: "day-not-in-month"})
			}
		}
	}
	for _, d := range []string{"2024-02-29", "2000-02-29", "2023-02-28", "2023-12-31"} {
		for _, z := range []string{"Z", "", "+05:30"} {
			emit(Case{Kind: "lex", Str: d + "T10:00:00" + z, Expect: "accept", LexKind: "last-day-of-month"})
		}
	}
	// the documented text forms, and instants, under every hour offset of the process's own zone
	for lm := -12 * 60; lm <= 14*60; lm += 60 {
		if lm == 0 {
			continue
		}
		for _, txt := range []string{"2020-06-15T12:00:00", "2020-06-15T12:00:00.5", "2020-06-15T23:59:59.999", "2020-01-01T00:00:00", "2020-06-15T12:00:00Z", "2020-06-15T12:00:00.123456789Z", "2020-06-15T12:00:00+05:30", "2020-06-15T12:00:00.25-08:00"} {
			emit(Case{Kind: "lex", Str: txt, Expect: "accept", LexKind: "documented-form-under-local-zone", LocalMin: lm})
		}
		emit(Case{Kind: "instant", Sec: 1592222400, Nsec: 123_456_789, ZoneMn: 0, LocalMin: lm})
		emit(Case{Kind: "instant", Sec: 1592222400, Nsec: 999_500_000, ZoneMn: lm, LocalMin: lm})
	}
}

var prop = &pbt.Prop[Case]{
	ID: "C15",
	Rule: "cases: rapid draws over {int64 durations by boundary class, grammar-generated xsd:duration strings, instants in years 1..9999 at ns resolution x zone, " +
		"accepted / skeleton-broken lexical dateTime forms, SP and IdP configurations (library metadata), arbitrary EntityDescriptor / EntitiesDescriptor values, each marshalled through a pointer and by value (same bytes, same re-parse)}, " +
		"plus exhaustive enumerations (duration boundary classes, microsecond grid below 1 s, millisecond grid, all quarter-hour zone offsets, the documented forms under every hour offset of the process's local zone). " +
		"non-trivial: duration with non-zero sub-second part, a carry or |d|>=2^62; instant with sub-millisecond digits or non-UTC zone; every lexical-form, string and metadata case. " +
		"distinct: sha256 of the JSON case.",
	Gen:   gen,
	Check: check,
	Reset: fix.Reset,
	Enums: []pbt.Enum[Case]{
		{Name: "duration-boundary-classes", Each: enumDurBoundaries},
		{Name: "duration-microsecond-grid", Each: enumMicroGrid},
		{Name: "duration-millisecond-grid", Each: enumMilliSeconds},
		{Name: "instant-zone-offsets", Each: enumZones},
		{Name: "duration-strings-leading-zeros", Each: enumDurStrings},
	},
	Assumptions: []string{
		"instants are restricted to those whose millisecond-rounded UTC value lies in years 0001-9999 (the 4-digit lexical form cannot express more)",
		"generated endpoint locations are http(s) URLs; SP LogoutBindings are standard binding URNs (the documented values)",
		"Signature elements inside metadata values are left nil",
	},
}

func TestCheck(t *testing.T) { pbt.Run(t, prop) }

func FuzzCheck(f *testing.F) { pbt.Fuzz(f, prop) }
