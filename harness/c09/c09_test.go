// Package c09: message-consuming APIs are total — a result or an error, never a panic or blow-up.
package c09

import (
	"bytes"
	"compress/flate"
	"compress/gzip"
	"compress/zlib"
	"context"
	"encoding/base64"
	"encoding/xml"
	"errors"
	"fmt"
	"io"
	"net/http"
	"net/http/httptest"
	"net/url"
	"os"
	"path/filepath"
	"runtime"
	"runtime/debug"
	"sort"
	"strings"
	"testing"
	"time"

	"github.com/beevik/etree"
	"github.com/crewjam/saml"
	"github.com/crewjam/saml/logger"
	"github.com/crewjam/saml/samlidp"
	"github.com/crewjam/saml/samlsp"
	"pgregory.net/rapid"

	"verif/harness/internal/fix"
	"verif/harness/internal/forge"
	"verif/harness/internal/pbt"
	"verif/harness/internal/spkit"
)

// MutOp is one structure-aware mutation of a fixture or generated document.
type MutOp struct {
	Kind string `json:"kind"` // del | dup | swap | attr-del | attr-set | text-set | wrap | deep | wide | root-rename | ns-strip
	I    int    `json:"i,omitempty"`
	J    int    `json:"j,omitempty"`
	S    string `json:"s,omitempty"`
}

// Edit replaces the value of one attribute part (index into the part list) before signing.
type Edit struct {
	I int    `json:"i"`
	V string `json:"v"`
}

// editValues are schema-valid or plausible alternative attribute values.
var editValues = []string{"", "urn:oasis:names:tc:SAML:2.0:cm:sender-vouches", "urn:oasis:names:tc:SAML:2.0:cm:holder-of-key", "urn:oasis:names:tc:SAML:2.0:cm:bearer",
	"1.1", "2.0", "x", "not-a-time", "2030-01-01T00:00:00Z", "0001-01-01T00:00:00Z", "-1", "0", "99999999999999999999", "true", "urn:oasis:names:tc:SAML:2.0:status:Responder", "urn:oasis:names:tc:SAML:1.1:nameid-format:emailAddress"}

// Case is a tagged union over the input classes of C09.
// SigOp is one post-signing edit of a signature part.
type SigOp struct {
	I    int    `json:"i"`
	Mode string `json:"mode"` // remove | empty | blank | dup | text:<replacement>
}

var sigModes = []string{"remove", "empty", "blank", "dup", "text:AAAA", "text:!!", "text:urn:unknown"}

// sigParts lists the parts of every ds:Signature subtree of root in document order.
func sigParts(root *etree.Element) []part {
	var out []part
	var walk func(e *etree.Element, in bool)
	walk = func(e *etree.Element, in bool) {
		in = in || e.Tag == "Signature"
		if in {
			out = append(out, part{el: e})
			for _, a := range e.Attr {
				if !strings.HasPrefix(a.FullKey(), "xmlns") {
					out = append(out, part{el: e, attr: a.FullKey()})
				}
			}
		}
		for _, ch := range e.ChildElements() {
			walk(ch, in)
		}
	}
	walk(root, false)
	return out
}

// applySigOps edits the serialised document; returns the edited bytes and a description.
func applySigOps(docBytes []byte, ops []SigOp) ([]byte, []string) {
	doc := etree.NewDocument()
	if err := doc.ReadFromBytes(docBytes); err != nil || doc.Root() == nil {
		return docBytes, nil
	}
	var log []string
	for _, op := range ops {
		ps := sigParts(doc.Root())
		if len(ps) == 0 {
			break
		}
		p := ps[((op.I%len(ps))+len(ps))%len(ps)]
		log = append(log, fmt.Sprintf("signature part %s: %s", p.String(), op.Mode))
		switch {
		case op.Mode == "remove":
			if p.attr != "" {
				p.el.RemoveAttr(p.attr)
			} else if par := p.el.Parent(); par != nil {
				par.RemoveChild(p.el)
			}
		case op.Mode == "dup":
			if p.attr == "" {
				if par := p.el.Parent(); par != nil {
					par.InsertChildAt(p.el.Index()+1, p.el.Copy())
				}
			}
		default:
			v := ""
			if op.Mode == "blank" {
				v = " \n\t "
			} else if strings.HasPrefix(op.Mode, "text:") {
				v = op.Mode[5:]
			}
			if p.attr != "" {
				p.el.CreateAttr(p.attr, v)
			} else {
				for _, ch := range append([]etree.Token{}, p.el.Child...) {
					p.el.RemoveChild(ch)
				}
				if v != "" {
					p.el.SetText(v)
				}
			}
		}
	}
	out, err := doc.WriteToBytes()
	if err != nil {
		return docBytes, nil
	}
	return out, log
}

type Case struct {
	Kind string `json:"kind"` // resign | encplain | bytes | fixture | artifact | idp | metadata

	// resign: removal of optional parts from a maximal message, then re-signing
	Layout      string `json:"layout,omitempty"` // resp | assert | both | artifact | none
	Encrypt     bool   `json:"encrypt,omitempty"`
	Entry       string `json:"entry,omitempty"` // xml | post | artifact
	Removals    []int  `json:"removals,omitempty"`
	ArtRemovals []int  `json:"art_removals,omitempty"`
	Edits       []Edit `json:"edits,omitempty"` // attribute values replaced (before signing) by schema-valid alternatives
	// SigOps: surgery on the ds:Signature elements AFTER signing (a sender needs no key for it): the
	// I-th part (element or attribute, document order over all Signature subtrees) is removed, emptied,
	// blanked or duplicated.  The message is usually no longer valid - it must still be refused cleanly.
	SigOps []SigOp `json:"sig_ops,omitempty"`

	// Trust: the SP's trust configuration (one of spkit.Trusts; "" = meta1), every kind that drives an SP
	Trust string `json:"trust,omitempty"`
	// Noise: SP options that concern only what it sends (spkit.Noise)
	Noise uint64 `json:"noise,omitempty"`
	// ArtMeta (artifact kind): what the IdP metadata says about artifact resolution: "" = a SOAP service | no-service |
	// other-binding | empty-location | hostile-location
	ArtMeta string `json:"art_meta,omitempty"`
	// SPKey: what key material the SP holds (see curSPKey); inbound kinds only
	SPKey string `json:"sp_key,omitempty"`

	// encplain: arbitrary plaintext inside a well-formed EncryptedAssertion addressed to the SP
	Plain     string `json:"plain,omitempty"`
	RespSign  bool   `json:"resp_sign,omitempty"`
	EncLayout string `json:"enc_layout,omitempty"`
	// algorithm identifiers written into the (otherwise well-formed) EncryptedAssertion: "" = keep
	DigestAlg string `json:"digest_alg,omitempty"`
	KeyAlg    string `json:"key_alg,omitempty"`
	DataAlg   string `json:"data_alg,omitempty"`

	// bytes: raw input with a framing, through one API
	Data    []byte `json:"data,omitempty"`
	Framing string `json:"framing,omitempty"` // raw | b64 | deflate-b64 | bad-b64 | trunc-deflate | stored | bomb
	API     string `json:"api,omitempty"`     // response | artifact | logout-form | logout-redirect | logout-request | authn-get | authn-post | metadata | unmarshal-entity | unmarshal-entities | put-service
	BombMiB int    `json:"bomb_mib,omitempty"`
	// Container: what wraps the DEFLATE stream of the deflating framings: "" (raw, RFC 1951, what the
	// binding specifies) | zlib (RFC 1950) | gzip (RFC 1952) - the containers other stacks emit by mistake
	Container string `json:"container,omitempty"`

	// fixture: a repository fixture, mutated
	Fixture string  `json:"fixture,omitempty"`
	Ops     []MutOp `json:"ops,omitempty"`

	// artifact: resolver behaviours, one ParseResponse call each
	Faults []string `json:"faults,omitempty"`

	// idp: request and registered metadata with parts removed
	ReqRemovals  []int  `json:"req_removals,omitempty"`
	MetaRemovals []int  `json:"meta_removals,omitempty"`
	Method       string `json:"method,omitempty"` // GET | POST | initiated
	NoSession    bool   `json:"no_session,omitempty"`
	// idp: what the registered SP offers as assertion consumer services ("" = as in the maximal metadata | artifact-only |
	// soap-only | unknown-only | none) and how the request selects one ("" = as in the maximal request | none | index-only
	// | url-only | index-unknown | url-unknown | both-disagree)
	MetaBindings string `json:"meta_bindings,omitempty"`
	ReqSelect    string `json:"req_select,omitempty"`
}

// ---------------------------------------------------------------- guarded calls and the error contract

type callResult struct {
	panic string
	err   error
	note  string
	alloc uint64
}

func guarded(f func() (string, error)) (r callResult) {
	var m0, m1 runtime.MemStats
	runtime.ReadMemStats(&m0)
	defer func() {
		if e := recover(); e != nil {
			r.panic = fmt.Sprintf("%v\n%s", e, debug.Stack())
		}
		runtime.ReadMemStats(&m1)
		r.alloc = m1.TotalAlloc - m0.TotalAlloc
	}()
	note, err := f()
	return callResult{err: err, note: note}
}

// contract checks the response-parsing family's error contract.
func contract(o spkit.Outcome) string {
	if o.Panic != "" {
		return "panic: " + o.Panic
	}
	if (o.Err != nil) != (o.Assertion == nil) {
		return fmt.Sprintf("error/assertion mismatch: err=%v assertion-nil=%v", o.Err, o.Assertion == nil)
	}
	if o.Err != nil {
		var ire *saml.InvalidResponseError
		if !errors.As(o.Err, &ire) {
			return fmt.Sprintf("failure reported as %T, not *saml.InvalidResponseError: %v", o.Err, o.Err)
		}
		if o.Err.Error() != "Authentication failed" {
			return fmt.Sprintf("error message is %q, not the constant \"Authentication failed\"", o.Err.Error())
		}
	}
	return ""
}

// allocation bound: calibrated on the unchanged tree (largest observed ratio was far
// below; see DESIGN.md §4 C09) — linear in the input plus what may be inflated.
func allocBound(inputLen, inflated int) uint64 {
	if inflated > 10<<20 {
		inflated = 10 << 20
	}
	return 32<<20 + 8000*(uint64(inputLen)+uint64(inflated))
}

var maxRatio struct {
	ratio float64
	what  string
}

func deflate(b []byte, level int) []byte {
	var buf bytes.Buffer
	w, _ := flate.NewWriter(&buf, level)
	_, _ = w.Write(b)
	_ = w.Close()
	return buf.Bytes()
}

// deflateIn compresses b into the given container ("" = raw DEFLATE).
func deflateIn(container string, b []byte, level int) []byte {
	var buf bytes.Buffer
	var w io.WriteCloser
	switch container {
	case "zlib":
		w, _ = zlib.NewWriterLevel(&buf, level)
	case "gzip":
		w, _ = gzip.NewWriterLevel(&buf, level)
	default:
		return deflate(b, level)
	}
	_, _ = w.Write(b)
	_ = w.Close()
	return buf.Bytes()
}

// curTrust is the trust configuration of the case being judged (cases are judged one at a time).
var curTrust = "meta1"

var curNoise uint64

// idpTrusted: the configuration of the case being judged trusts the key the harness signs with.
func idpTrusted() bool {
	for _, k := range spkit.TrustedKeys(curTrust) {
		if k == "idp" {
			return true
		}
	}
	return false
}

// curSPKey: "" (RSA key and certificate) | nokey | nocert | neither | ec - an SP need not hold a key at all, and
// may hold one that cannot decrypt; whatever it receives, it answers with an error, not a panic.
var curSPKey string

func newSP() *saml.ServiceProvider {
	sp := spkit.NewSP(spkit.Config{Trust: curTrust})
	spkit.Noise(sp, curNoise)
	switch curSPKey {
	case "nokey":
		sp.Key = nil
	case "nocert":
		sp.Certificate = nil
		sp.SignatureMethod = "" // asking an SP without certificate to sign is a configuration error, outside the domain
	case "neither":
		sp.Key, sp.Certificate = nil, nil
		sp.SignatureMethod = ""
	case "ec":
		sp.Key, sp.Certificate = fix.Get("spec").Key, fix.Get("spec").Cert
	}
	return sp
}

var artMetas = []string{"", "", "", "no-service", "other-binding", "empty-location", "hostile-location"}

var spKeys = []string{"nokey", "nocert", "neither", "ec"}

type discard struct{}

func (discard) Printf(string, ...interface{}) {}
func (discard) Print(...interface{})          {}
func (discard) Println(...interface{})        {}
func (discard) Fatal(...interface{})          {}
func (discard) Fatalf(string, ...interface{}) {}
func (discard) Fatalln(...interface{})        {}
func (discard) Panic(...interface{})          {}
func (discard) Panicf(string, ...interface{}) {}
func (discard) Panicln(...interface{})        {}

var _ logger.Interface = discard{}

// ---------------------------------------------------------------- kinds

func checkResign(c Case) pbt.Result {
	resp := maximalResponse()
	var edited []string
	if len(c.Edits) > 0 {
		ps := partsOf(resp)
		var attrs []part
		for _, p := range ps {
			if p.attr != "" && !strings.HasPrefix(p.attr, "xmlns") {
				attrs = append(attrs, p)
			}
		}
		for _, e := range c.Edits {
			if len(attrs) == 0 {
				break
			}
			p := attrs[((e.I%len(attrs))+len(attrs))%len(attrs)]
			p.el.CreateAttr(p.attr, e.V)
			edited = append(edited, fmt.Sprintf("%s=%q", p.String(), e.V))
		}
	}
	removed := removeParts(resp, c.Removals)
	removed = append(removed, edited...)
	doc, artRemoved, ok := signAndWrap(resp, c.Layout, c.Encrypt, c.Entry == "artifact", c.ArtRemovals)
	if !ok {
		return pbt.Result{Skip: true}
	}
	removed = append(removed, artRemoved...)
	if len(c.SigOps) > 0 {
		var log []string
		doc, log = applySigOps(doc, c.SigOps)
		removed = append(removed, log...)
	}
	sp := newSP()
	var o spkit.Outcome
	switch c.Entry {
	case "post":
		o = spkit.ParsePOST(sp, doc, []string{"id-req"}, spkit.SPACS)
	case "artifact":
		o = spkit.ParseArtifactXML(sp, doc, []string{"id-req"}, "id-artreq", spkit.SPACS)
	default:
		o = spkit.ParseXML(sp, doc, []string{"id-req"}, spkit.SPACS)
	}
	res := pbt.Result{NonTrivial: true, Classes: []string{"resign", "resign:layout:" + c.Layout, "resign:entry:" + c.Entry, fmt.Sprintf("resign:removed:%d", len(removed))}}
	if c.Encrypt {
		res.Classes = append(res.Classes, "resign:encrypted")
	}
	if len(c.SigOps) > 0 {
		res.Classes = append(res.Classes, "resign:signature-surgery")
	}
	if o.Accepted() {
		res.Classes = append(res.Classes, "resign:accepted")
	}
	if msg := contract(o); msg != "" {
		res.Err = fmt.Sprintf("validly signed message without [%s] (layout %s, encrypted=%v, entry %s): %s", describe(removed), c.Layout, c.Encrypt, c.Entry, msg)
	}
	return res
}

func checkEncPlain(c Case) pbt.Result {
	now := fix.Epoch
	r := spkit.Baseline(now, "id-req", "")
	r.Assertions = nil
	if c.RespSign {
		r.Sign = &forge.SignSpec{Key: "idp"}
	}
	el, err := forge.ResponseElement(&r)
	if err != nil {
		return pbt.Result{Err: "harness: " + err.Error()}
	}
	ea, err := forge.EncryptAssertion([]byte(c.Plain), &forge.EncSpec{To: "sp", Seed: 21, Layout: c.EncLayout})
	if err != nil {
		return pbt.Result{Err: "harness: " + err.Error()}
	}
	setAlg := func(path, v string) {
		if v == "" {
			return
		}
		for _, e := range ea.FindElements(path) {
			if v == "-" {
				e.RemoveAttr("Algorithm")
			} else {
				e.CreateAttr("Algorithm", v)
			}
		}
	}
	setAlg(".//EncryptedKey/EncryptionMethod/DigestMethod", c.DigestAlg)
	setAlg(".//EncryptedKey/EncryptionMethod", c.KeyAlg)
	setAlg("./EncryptedData/EncryptionMethod", c.DataAlg)
	el.AddChild(ea)
	if c.RespSign {
		if _, err := forge.Sign(el, r.Sign, false); err != nil {
			return pbt.Result{Err: "harness: " + err.Error()}
		}
	}
	o := spkit.ParseXML(newSP(), forge.Bytes(el), []string{"id-req"}, spkit.SPACS)
	res := pbt.Result{NonTrivial: true, Classes: []string{"encplain"}}
	if c.RespSign {
		res.Classes = append(res.Classes, "encplain:response-signed")
	}
	if c.DigestAlg+c.KeyAlg+c.DataAlg != "" {
		res.Classes = append(res.Classes, "encplain:algorithm-identifiers-edited")
	}
	if msg := contract(o); msg != "" {
		res.Err = fmt.Sprintf("EncryptedAssertion addressed to the SP whose plaintext is %q (response signed=%v, digest=%q key-transport=%q data=%q): %s", c.Plain, c.RespSign, c.DigestAlg, c.KeyAlg, c.DataAlg, msg)
	}
	return res
}

// feed presents raw bytes to one API with the given framing.
func feed(api string, payload []byte, framing string) callResult {
	sp := newSP()
	b64 := base64.StdEncoding.EncodeToString(payload)
	switch api {
	case "response":
		var o spkit.Outcome
		if framing == "raw" {
			o = spkit.ParseXML(sp, payload, []string{"id-req"}, spkit.SPACS)
		} else {
			form := url.Values{"SAMLResponse": {string(payload)}}
			req, _ := http.NewRequest("POST", spkit.SPACS, strings.NewReader(form.Encode()))
			req.Header.Set("Content-Type", "application/x-www-form-urlencoded")
			_ = req.ParseForm()
			return guarded(func() (string, error) {
				a, err := sp.ParseResponse(req, []string{"id-req"})
				o = spkit.Outcome{Assertion: a, Err: err}
				if m := contract(o); m != "" {
					return m, err
				}
				return "", err
			})
		}
		r := callResult{err: o.Err}
		if m := contract(o); m != "" {
			r.note = m
		}
		if o.Panic != "" {
			r.panic = o.Panic
		}
		return r
	case "response-unparsed":
		// ParseResponse handed a request whose form nobody parsed yet (its documented callers parse it first; a direct
		// caller that does not still gets the error contract): the payload is the raw form body, or the raw query
		var o spkit.Outcome
		return guarded(func() (string, error) {
			var req *http.Request
			if framing == "b64" { // query string instead of body
				req, _ = http.NewRequest("GET", spkit.SPACS, nil)
				req.URL.RawQuery = string(payload)
			} else {
				req, _ = http.NewRequest("POST", spkit.SPACS, bytes.NewReader(payload))
				req.Header.Set("Content-Type", "application/x-www-form-urlencoded")
			}
			a, err := sp.ParseResponse(req, []string{"id-req"})
			o = spkit.Outcome{Assertion: a, Err: err}
			if m := contract(o); m != "" {
				return m, err
			}
			return "", err
		})
	case "artifact":
		o := spkit.ParseArtifactXML(sp, payload, []string{"id-req"}, "id-artreq", spkit.SPACS)
		r := callResult{err: o.Err, panic: o.Panic}
		if m := contract(o); m != "" && o.Panic == "" {
			r.note = m
		}
		return r
	case "logout-form":
		return guarded(func() (string, error) { return "", sp.ValidateLogoutResponseForm(string(payload)) })
	case "logout-redirect":
		return guarded(func() (string, error) { return "", sp.ValidateLogoutResponseRedirect(string(payload)) })
	case "logout-request":
		return guarded(func() (string, error) {
			q := url.Values{"SAMLResponse": {string(payload)}}
			req, _ := http.NewRequest("GET", spkit.SPSLO+"?"+q.Encode(), nil)
			return "", sp.ValidateLogoutResponseRequest(req)
		})
	case "authn-get", "authn-post":
		return guarded(func() (string, error) {
			idp := newIDP(registeredMD(), true)
			var req *http.Request
			if api == "authn-get" {
				q := url.Values{"SAMLRequest": {string(payload)}, "RelayState": {"rs"}}
				req, _ = http.NewRequest("GET", spkit.IDPSSO+"?"+q.Encode(), nil)
			} else {
				form := url.Values{"SAMLRequest": {string(payload)}, "RelayState": {"rs"}}
				req, _ = http.NewRequest("POST", spkit.IDPSSO, strings.NewReader(form.Encode()))
				req.Header.Set("Content-Type", "application/x-www-form-urlencoded")
			}
			ar, err := saml.NewIdpAuthnRequest(idp, req)
			if err != nil {
				return "", err
			}
			if n := len(ar.RequestBuffer); n > 10<<20+1<<16 {
				return fmt.Sprintf("NewIdpAuthnRequest returned a request holding %d inflated bytes (> 10 MiB)", n), nil
			}
			if err := ar.Validate(); err != nil {
				return "", err
			}
			return "validated", nil
		})
	case "metadata":
		return guarded(func() (string, error) {
			md, err := samlsp.ParseMetadata(payload)
			if err == nil && md != nil {
				useIDPMetadata(md)
			}
			return "", err
		})
	case "unmarshal-entity":
		return guarded(func() (string, error) {
			var e saml.EntityDescriptor
			err := xml.Unmarshal(payload, &e)
			if err == nil {
				_, err = xml.Marshal(&e)
			}
			return "", err
		})
	case "unmarshal-entities":
		return guarded(func() (string, error) {
			var e saml.EntitiesDescriptor
			err := xml.Unmarshal(payload, &e)
			if err == nil {
				_, err = xml.Marshal(&e)
			}
			return "", err
		})
	case "put-service":
		return guarded(func() (string, error) {
			srv, err := newServer()
			if err != nil {
				return "", fmt.Errorf("harness: %v", err)
			}
			w := httptest.NewRecorder()
			req := httptest.NewRequest("PUT", "https://idp.example.com/services/svc1", bytes.NewReader(payload))
			srv.ServeHTTP(w, req)
			if w.Code < 200 || w.Code > 599 {
				return fmt.Sprintf("invalid HTTP status %d", w.Code), nil
			}
			// a registered service must be usable
			w2 := httptest.NewRecorder()
			srv.ServeHTTP(w2, httptest.NewRequest("GET", "https://idp.example.com/services/svc1", nil))
			w3 := httptest.NewRecorder()
			srv.ServeHTTP(w3, httptest.NewRequest("GET", "https://idp.example.com/services/", nil))
			return fmt.Sprintf("status %d", w.Code), nil
		})
	}
	_ = b64
	return callResult{note: "harness: unknown api " + api}
}

// registeredMD is the maximal SP metadata as the IdP's registry would hold it.
func registeredMD() *saml.EntityDescriptor {
	var e saml.EntityDescriptor
	if err := xml.Unmarshal(forge.Bytes(maximalSPMetadata(spkit.SPEntity, spkit.SPACS)), &e); err != nil {
		return nil
	}
	return &e
}

func newServer() (*samlidp.Server, error) {
	u, _ := url.Parse("https://idp.example.com")
	return samlidp.New(samlidp.Options{URL: *u, Key: fix.Get("idp").Key, Certificate: fix.Get("idp").Cert, Store: &samlidp.MemoryStore{}, Logger: discard{}})
}

// useIDPMetadata exercises the SP-side consumers of parsed IdP metadata.
func useIDPMetadata(md *saml.EntityDescriptor) {
	sp := newSP()
	sp.IDPMetadata = md
	_ = sp.GetSSOBindingLocation(saml.HTTPRedirectBinding)
	_ = sp.GetSLOBindingLocation(saml.HTTPPostBinding)
	_ = sp.GetArtifactBindingLocation(saml.SOAPBinding)
	_, _ = sp.MakeRedirectAuthenticationRequest("rs")
	_, _ = sp.MakePostAuthenticationRequest("rs")
	r := spkit.Baseline(fix.Epoch, "id-req", "")
	r.Sign = &forge.SignSpec{Key: "idp"}
	if doc, err := forge.ResponseBytes(&r); err == nil {
		_, _ = sp.ParseXMLResponse(doc, []string{"id-req"}, sp.AcsURL)
	}
}

type spProvider struct{ md *saml.EntityDescriptor }

func (p spProvider) GetServiceProvider(_ *http.Request, id string) (*saml.EntityDescriptor, error) {
	if p.md == nil || (id != p.md.EntityID && id != "by-id") {
		return nil, os.ErrNotExist
	}
	return p.md, nil
}

type sessionProvider struct{ none bool }

func (s sessionProvider) GetSession(w http.ResponseWriter, _ *http.Request, _ *saml.IdpAuthnRequest) *saml.Session {
	if s.none {
		http.Error(w, "login required", http.StatusForbidden)
		return nil
	}
	return &saml.Session{ID: "s1", CreateTime: fix.Epoch, ExpireTime: fix.Epoch.Add(3600e9), Index: "idx1", NameID: "alice", UserName: "alice", UserEmail: "alice@example.com", UserCommonName: "Alice", UserGivenName: "A", UserSurname: "L", Groups: []string{"g1"}}
}

func newIDP(md *saml.EntityDescriptor, session bool) *saml.IdentityProvider {
	mu, _ := url.Parse(spkit.IDPEntity)
	su, _ := url.Parse(spkit.IDPSSO)
	kp := fix.Get("idp")
	return &saml.IdentityProvider{Key: kp.Key, Certificate: kp.Cert, Logger: discard{}, MetadataURL: *mu, SSOURL: *su,
		ServiceProviderProvider: spProvider{md: md}, SessionProvider: sessionProvider{none: !session}}
}

func checkIDP(c Case) pbt.Result {
	res := pbt.Result{NonTrivial: true, Classes: []string{"idp", "idp:" + c.Method}}
	metaEl := maximalSPMetadata(spkit.SPEntity, spkit.SPACS)
	if c.MetaBindings != "" {
		res.Classes = append(res.Classes, "idp:acs-bindings:"+c.MetaBindings)
		for _, acs := range metaEl.FindElements("//AssertionConsumerService") {
			switch c.MetaBindings {
			case "artifact-only":
				acs.CreateAttr("Binding", saml.HTTPArtifactBinding)
			case "soap-only":
				acs.CreateAttr("Binding", saml.SOAPBinding)
			case "unknown-only":
				acs.CreateAttr("Binding", "urn:example:some-other-binding")
			case "none":
				if p := acs.Parent(); p != nil {
					p.RemoveChild(acs)
				}
			}
		}
	}
	removedMeta := removeParts(metaEl, c.MetaRemovals)
	var md *saml.EntityDescriptor
	{
		var e saml.EntityDescriptor
		r := guarded(func() (string, error) { return "", xml.Unmarshal(forge.Bytes(metaEl), &e) })
		if r.panic != "" {
			res.Err = fmt.Sprintf("xml.Unmarshal of SP metadata without [%s] panics: %s", describe(removedMeta), r.panic)
			return res
		}
		if r.err == nil {
			md = &e
			res.Classes = append(res.Classes, "idp:metadata-registered")
		} else {
			res.Classes = append(res.Classes, "idp:metadata-unparsable")
		}
	}
	idp := newIDP(md, !c.NoSession)
	reqEl := maximalAuthnRequest(spkit.IDPSSO, spkit.SPEntity, spkit.SPACS)
	if c.ReqSelect != "" {
		res.Classes = append(res.Classes, "idp:request-selects:"+c.ReqSelect)
		reqEl.RemoveAttr("AssertionConsumerServiceURL")
		reqEl.RemoveAttr("AssertionConsumerServiceIndex")
		reqEl.RemoveAttr("ProtocolBinding")
		switch c.ReqSelect {
		case "index-only":
			reqEl.CreateAttr("AssertionConsumerServiceIndex", "1")
		case "url-only":
			reqEl.CreateAttr("AssertionConsumerServiceURL", spkit.SPACS)
		case "index-unknown":
			reqEl.CreateAttr("AssertionConsumerServiceIndex", "77")
		case "url-unknown":
			reqEl.CreateAttr("AssertionConsumerServiceURL", "https://elsewhere.example.org/acs")
		case "both-disagree":
			reqEl.CreateAttr("AssertionConsumerServiceIndex", "77")
			reqEl.CreateAttr("AssertionConsumerServiceURL", spkit.SPACS)
			reqEl.CreateAttr("ProtocolBinding", saml.HTTPArtifactBinding)
		}
	}
	removedReq := removeParts(reqEl, c.ReqRemovals)
	reqXML := forge.Bytes(reqEl)
	w := httptest.NewRecorder()
	r := guarded(func() (string, error) {
		switch c.Method {
		case "GET":
			q := url.Values{"SAMLRequest": {base64.StdEncoding.EncodeToString(deflate(reqXML, 9))}, "RelayState": {"rs"}}
			req := httptest.NewRequest("GET", spkit.IDPSSO+"?"+q.Encode(), nil)
			idp.ServeSSO(w, req)
		case "POST":
			form := url.Values{"SAMLRequest": {base64.StdEncoding.EncodeToString(reqXML)}, "RelayState": {"rs"}}
			req := httptest.NewRequest("POST", spkit.IDPSSO, strings.NewReader(form.Encode()))
			req.Header.Set("Content-Type", "application/x-www-form-urlencoded")
			idp.ServeSSO(w, req)
		default:
			req := httptest.NewRequest("GET", "https://idp.example.com/login/x", nil)
			id := spkit.SPEntity
			if md != nil {
				id = "by-id"
			}
			idp.ServeIDPInitiated(w, req, id, "rs")
		}
		return "", nil
	})
	if r.panic != "" {
		res.Err = fmt.Sprintf("IdP %s with request lacking [%s] against registered metadata lacking [%s]: panic: %s", c.Method, describe(removedReq), describe(removedMeta), r.panic)
		return res
	}
	if w.Code < 200 || w.Code > 599 {
		res.Err = fmt.Sprintf("IdP wrote invalid status %d", w.Code)
	}
	res.Classes = append(res.Classes, fmt.Sprintf("idp:status:%d", w.Code))
	return res
}

func checkMetadata(c Case) pbt.Result {
	res := pbt.Result{NonTrivial: true, Classes: []string{"metadata", "metadata:" + c.API}}
	var el *etree.Element
	if c.API == "put-service" {
		el = maximalSPMetadata(spkit.SPEntity, spkit.SPACS)
	} else {
		el = maximalIDPMetadata()
	}
	removed := removeParts(el, c.MetaRemovals)
	doc := forge.Bytes(el)
	if strings.HasPrefix(c.Framing, "entities") {
		// aggregates: the entity alone one or two levels deep, beside entities acting in other roles only (an
		// IdP-only entity where an SP is looked for and vice versa, an entity without any role), those others
		// alone, or nothing at all
		wrap := etree.NewElement("md:EntitiesDescriptor")
		wrap.CreateAttr("xmlns:md", "urn:oasis:names:tc:SAML:2.0:metadata")
		wrap.CreateAttr("cacheDuration", "PT1H")
		other := func() *etree.Element {
			if c.API == "put-service" {
				return maximalIDPMetadata()
			}
			return maximalSPMetadata("https://another-sp.example.org/metadata", "https://another-sp.example.org/acs")
		}
		roleless := func() *etree.Element {
			e := etree.NewElement("md:EntityDescriptor")
			e.CreateAttr("xmlns:md", "urn:oasis:names:tc:SAML:2.0:metadata")
			e.CreateAttr("entityID", "https://no-role.example.org/metadata")
			return e
		}
		switch c.Framing {
		case "entities":
			wrap.CreateElement("md:EntitiesDescriptor").AddChild(el)
		case "entities-flat":
			wrap.AddChild(el)
		case "entities-with-others":
			wrap.AddChild(other())
			wrap.AddChild(roleless())
			wrap.AddChild(el)
		case "entities-others-only":
			wrap.AddChild(other())
			wrap.AddChild(roleless())
		case "entities-others-nested":
			wrap.CreateElement("md:EntitiesDescriptor").AddChild(other())
		case "entities-empty":
		}
		res.Classes = append(res.Classes, "metadata:"+c.Framing)
		doc = forge.Bytes(wrap)
	}
	r := feed(c.API, doc, "raw")
	if r.panic != "" {
		res.Err = fmt.Sprintf("%s of metadata lacking [%s]: panic: %s", c.API, describe(removed), r.panic)
	} else if r.note != "" && !strings.HasPrefix(r.note, "status") {
		res.Err = fmt.Sprintf("%s of metadata lacking [%s]: %s", c.API, describe(removed), r.note)
	}
	if r.err == nil {
		res.Classes = append(res.Classes, "metadata:accepted")
	}
	return res
}

func frame(c Case) (payload []byte, inflated int, ok bool) {
	switch c.Framing {
	case "raw":
		return c.Data, 0, true
	case "b64":
		return []byte(base64.StdEncoding.EncodeToString(c.Data)), 0, true
	case "bad-b64":
		return append([]byte(base64.StdEncoding.EncodeToString(c.Data)), '!', '*'), 0, true
	case "deflate-b64":
		return []byte(base64.StdEncoding.EncodeToString(deflateIn(c.Container, c.Data, 9))), len(c.Data), true
	case "stored":
		return []byte(base64.StdEncoding.EncodeToString(deflate(c.Data, 0))), len(c.Data), true
	case "trunc-deflate":
		d := deflate(c.Data, 9)
		if len(d) > 2 {
			d = d[:len(d)/2]
		}
		return []byte(base64.StdEncoding.EncodeToString(d)), len(c.Data), true
	case "valid-bomb":
		return nil, 0, true // built in checkBytes (needs the API)
	case "bomb":
		n := c.BombMiB << 20
		if n <= 0 || n > 64<<20 {
			return nil, 0, false
		}
		// flat text content: the round-trip validator the library calls first costs ~15 KB of
		// (cumulative) allocation per element, so element-dense bombs only measure that dependency
		body := append(append([]byte("<a>"), bytes.Repeat([]byte("A"), n)...), []byte("</a>")...)
		return []byte(base64.StdEncoding.EncodeToString(deflateIn(c.Container, body, 9))), n, true
	}
	return nil, 0, false
}

// validBomb builds a message that would be perfectly VALID for the API - a trusted-signed,
// fresh LogoutResponse or a valid AuthnRequest - carrying a comment that inflates it to
// mib MiB: comments are outside the canonical form, so only the inflate limit stands
// between this input and acceptance.
func validBomb(api string, mib int, container string) ([]byte, int, bool) {
	pad := strings.Repeat("A", mib<<20)
	var el *etree.Element
	switch api {
	case "logout-redirect", "logout-request":
		// validateLogoutResponse reads the real clock
		l := forge.LogoutSpec{ID: "id-lo", InResponseTo: forge.S("id-lr"), IssueInstant: forge.T(time.Now().UTC()), Destination: forge.S(spkit.SPSLO),
			Issuer: forge.S(spkit.IDPEntity), Status: []string{forge.StatusOK}, Sign: &forge.SignSpec{Key: "idp"}}
		var err error
		el, err = forge.BuildLogout(&l)
		if err != nil {
			return nil, 0, false
		}
	case "authn-get":
		el = maximalAuthnRequest(spkit.IDPSSO, spkit.SPEntity, spkit.SPACS)
	default:
		return nil, 0, false
	}
	el.CreateComment(pad)
	raw := forge.Bytes(el)
	return []byte(base64.StdEncoding.EncodeToString(deflateIn(container, raw, 9))), len(raw), true
}

func checkBytes(c Case) pbt.Result {
	payload, inflated, ok := frame(c)
	if ok && c.Framing == "valid-bomb" {
		// The logout validators read the real clock.  On a heavily loaded machine signing, deflating and validating a
		// multi-megabyte message can take a while; a day of allowed age keeps the "otherwise valid" premise of this
		// case true however slow the process is (fix.Reset restores the library's own value for the next case).
		saml.MaxIssueDelay = 24 * time.Hour
		payload, inflated, ok = validBomb(c.API, c.BombMiB, c.Container)
	}
	if !ok {
		return pbt.Result{Skip: true}
	}
	if c.API == "response-unparsed" {
		payload = c.Data // the bytes ARE the form body (or, framing b64, the query string), unframed
	}
	usesDeflate := c.API == "logout-redirect" || c.API == "logout-request" || c.API == "authn-get"
	res := pbt.Result{Classes: []string{"bytes", "bytes:" + c.API, "framing:" + c.Framing}}
	if c.Container != "" {
		res.Classes = append(res.Classes, "container:"+c.Container)
	}
	r := feed(c.API, payload, c.Framing)
	// non-trivial: the input got past the first guard (decoded and well-formed enough to be parsed as XML)
	res.NonTrivial = r.err == nil || !strings.Contains(strings.ToLower(fmt.Sprint(privateOf(r.err))), "base64")
	if r.panic != "" {
		res.Err = fmt.Sprintf("%s(%s framing, %d bytes): panic: %s", c.API, c.Framing, len(payload), r.panic)
		return res
	}
	if r.note != "" && r.note != "validated" && !strings.HasPrefix(r.note, "status") {
		res.Err = fmt.Sprintf("%s(%s framing): %s", c.API, c.Framing, r.note)
		return res
	}
	if c.Framing == "valid-bomb" {
		res.Classes = append(res.Classes, fmt.Sprintf("valid-bomb:%dMiB", c.BombMiB))
		if c.BombMiB <= 8 && r.err != nil && c.Container == "" && idpTrusted() {
			res.Err = fmt.Sprintf("harness sanity: %s refused an otherwise valid message inflating to %d bytes (below the 10 MiB limit): %v", c.API, inflated, privateOf(r.err))
			return res
		}
	}
	if (c.Framing == "bomb" || c.Framing == "valid-bomb") && usesDeflate && inflated > 10<<20+1<<16 && r.err == nil {
		res.Err = fmt.Sprintf("%s accepted a deflated input inflating to %d bytes (> 10 MiB)", c.API, inflated)
		return res
	}
	inf := 0
	if usesDeflate {
		inf = inflated
	}
	if b := allocBound(len(payload), inf); r.alloc > b {
		res.Err = fmt.Sprintf("%s(%s framing) allocated %d bytes for %d input bytes (%d inflated): above the bound %d", c.API, c.Framing, r.alloc, len(payload), inf, b)
	}
	if ratio := float64(r.alloc) / float64(len(payload)+inf+4096); ratio > maxRatio.ratio {
		maxRatio.ratio, maxRatio.what = ratio, fmt.Sprintf("%s/%s len=%d alloc=%d", c.API, c.Framing, len(payload), r.alloc)
	}
	return res
}

func privateOf(err error) error {
	var ire *saml.InvalidResponseError
	if errors.As(err, &ire) {
		return ire.PrivateErr
	}
	return err
}

// ---- fixtures

func repoDir() string {
	if d := os.Getenv("VERIF_REPO"); d != "" {
		return d
	}
	return "/repo"
}

var fixtureAPIs = map[string][]string{
	"testdata/SP_SamlResponse":                                                  {"response-b64"},
	"testdata/TestSPCanHandleOneloginResponse_response":                         {"response-b64"},
	"testdata/TestSPCanHandlePlaintextResponse_response":                        {"response-b64"},
	"testdata/TestSPCanHandleOktaResponseEncryptedAssertionBothSigned_response": {"response-b64"},
	"testdata/TestSPRealWorldKeyInfoHasRSAPublicKeyNotX509Cert_response":        {"response-b64"},
	"testdata/TestSPMultipleAssertions":                                         {"response"},
	"testdata/TestXswPermutationOneIsRejected_response":                         {"response"},
	"testdata/TestXswPermutationSevenIsRejected_response":                       {"response"},
	"testdata/TestParseXMLArtifactResponse_response":                            {"artifact"},
	"testdata/TestIDPMakeResponse_response.xml":                                 {"response", "logout-form"},
	"testdata/idp_authn_request.xml":                                            {"authn-post", "authn-get"},
	"testdata/TestIDPCanHandleRequestWithExistingSession_decodedRequest":        {"authn-post", "authn-get"},
	"testdata/TestSPCanProduceRedirectLogoutResponse_decodedResponse":           {"logout-form", "logout-redirect", "logout-request"},
	"testdata/SP_IDPMetadata":                                                   {"metadata", "unmarshal-entity"},
	"testdata/TestCanParseMetadata_metadata.xml":                                {"metadata", "unmarshal-entity", "put-service"},
	"testdata/TestMetadataValidatesUrlSchemeForProtocolBinding_metadata.xml":    {"metadata", "unmarshal-entity", "put-service"},
	"samlsp/testdata/testshib_metadata.xml":                                     {"metadata", "unmarshal-entities"},
	"samlsp/testdata/idp_metadata.xml":                                          {"metadata", "unmarshal-entity"},
	"samlidp/testdata/sp_metadata.xml":                                          {"put-service", "unmarshal-entity", "metadata"},
	"xmlenc/testdata/plaintext.xml":                                             {"response"},
}

var fixtureNames = func() []string {
	var out []string
	for k := range fixtureAPIs {
		out = append(out, k)
	}
	sort.Strings(out)
	return out
}()

var fixtureCache = map[string][]byte{}

func loadFixture(name string) ([]byte, bool) {
	if b, ok := fixtureCache[name]; ok {
		return b, b != nil
	}
	b, err := os.ReadFile(filepath.Join(repoDir(), name))
	if err != nil {
		fixtureCache[name] = nil
		return nil, false
	}
	if strings.HasSuffix(name, "SP_SamlResponse") || strings.Contains(name, "Onelogin") || strings.Contains(name, "PlaintextResponse_response") || strings.Contains(name, "Okta") || strings.Contains(name, "RSAPublicKey") {
		if dec, err := base64.StdEncoding.DecodeString(strings.TrimSpace(string(b))); err == nil {
			b = dec
		}
	}
	fixtureCache[name] = b
	return b, true
}

func mutate(doc *etree.Document, ops []MutOp) {
	for _, op := range ops {
		root := doc.Root()
		if root == nil {
			return
		}
		els := root.FindElements("//*")
		if len(els) == 0 {
			return
		}
		pick := func(i int) *etree.Element { return els[((i%len(els))+len(els))%len(els)] }
		t := pick(op.I)
		switch op.Kind {
		case "del":
			if p := t.Parent(); p != nil && t != root {
				p.RemoveChild(t)
			}
		case "dup":
			if p := t.Parent(); p != nil && t != root {
				p.InsertChildAt(t.Index(), t.Copy())
			}
		case "swap":
			u := pick(op.J)
			if t != root && u != root && t.Parent() != nil && u.Parent() != nil && !attached(t, u) && !attached(u, t) {
				tc, uc := t.Copy(), u.Copy()
				tp, up := t.Parent(), u.Parent()
				ti, ui := t.Index(), u.Index()
				tp.RemoveChildAt(ti)
				tp.InsertChildAt(ti, uc)
				if up == tp && ui > ti {
					// indexes unchanged: same count
				}
				up.RemoveChildAt(u.Index())
				up.InsertChildAt(ui, tc)
			}
		case "attr-del":
			if len(t.Attr) > 0 {
				a := t.Attr[((op.J%len(t.Attr))+len(t.Attr))%len(t.Attr)]
				t.RemoveAttr(a.FullKey())
			}
		case "attr-set":
			if len(t.Attr) > 0 {
				a := t.Attr[((op.J%len(t.Attr))+len(t.Attr))%len(t.Attr)]
				t.CreateAttr(a.FullKey(), op.S)
			}
		case "text-set":
			t.SetText(op.S)
		case "wrap":
			if p := t.Parent(); p != nil && t != root {
				w := etree.NewElement(t.FullTag())
				idx := t.Index()
				p.RemoveChildAt(idx)
				w.AddChild(t)
				p.InsertChildAt(idx, w)
			}
		case "deep":
			// nest copies of the element's own tag to a bounded depth
			n := 10 + (op.J%490+490)%490
			cur := t
			for i := 0; i < n; i++ {
				cur = cur.CreateElement(t.FullTag())
			}
		case "wide":
			n := 50 + (op.J%4950+4950)%4950
			for i := 0; i < n; i++ {
				t.CreateElement(t.FullTag())
			}
		case "root-rename":
			root.Tag = op.S
		case "ns-strip":
			t.Space = ""
		case "comment":
			t.CreateComment(op.S)
		}
	}
}

func checkFixture(c Case) pbt.Result {
	raw, ok := loadFixture(c.Fixture)
	if !ok {
		return pbt.Result{Skip: true}
	}
	doc := etree.NewDocument()
	if err := doc.ReadFromBytes(raw); err != nil {
		return pbt.Result{Skip: true}
	}
	mutate(doc, c.Ops)
	out, err := doc.WriteToBytes()
	if err != nil {
		return pbt.Result{Skip: true}
	}
	api := c.API
	framing := "raw"
	payload := out
	switch api {
	case "response-b64":
		api, framing = "response", "b64"
		payload = []byte(base64.StdEncoding.EncodeToString(out))
	case "logout-form":
		payload = []byte(base64.StdEncoding.EncodeToString(out))
	case "logout-redirect", "logout-request", "authn-get":
		payload = []byte(base64.StdEncoding.EncodeToString(deflate(out, 9)))
	case "authn-post":
		payload = []byte(base64.StdEncoding.EncodeToString(out))
	}
	r := feed(api, payload, framing)
	res := pbt.Result{NonTrivial: len(c.Ops) > 0, Classes: []string{"fixture", "fixture:" + c.API}}
	for _, op := range c.Ops {
		res.Classes = append(res.Classes, "mut:"+op.Kind)
	}
	if r.panic != "" {
		res.Err = fmt.Sprintf("fixture %s mutated by %v through %s: panic: %s", c.Fixture, c.Ops, c.API, r.panic)
		return res
	}
	if r.note != "" && r.note != "validated" && !strings.HasPrefix(r.note, "status") {
		res.Err = fmt.Sprintf("fixture %s mutated by %v through %s: %s", c.Fixture, c.Ops, c.API, r.note)
		return res
	}
	if b := allocBound(len(payload), len(out)); r.alloc > b {
		res.Err = fmt.Sprintf("fixture %s mutated by %v through %s allocated %d bytes for %d input bytes: above the bound %d", c.Fixture, c.Ops, c.API, r.alloc, len(payload), b)
	}
	if ratio := float64(r.alloc) / float64(len(payload)+4096); ratio > maxRatio.ratio {
		maxRatio.ratio, maxRatio.what = ratio, fmt.Sprintf("fixture %s %s len=%d alloc=%d", c.Fixture, c.API, len(payload), r.alloc)
	}
	return res
}

// ---- artifact resolver faults

type errReader struct {
	data []byte
	pos  int
}

func (e *errReader) Read(p []byte) (int, error) {
	if e.pos >= len(e.data) {
		return 0, errors.New("connection reset by peer")
	}
	n := copy(p, e.data[e.pos:])
	e.pos += n
	return n, nil
}
func (e *errReader) Close() error { return nil }

func checkArtifact(c Case) pbt.Result {
	res := pbt.Result{NonTrivial: true, Classes: []string{"artifact-faults"}}
	for i, fault := range c.Faults {
		res.Classes = append(res.Classes, "fault:"+fault)
		sp := newSP()
		if c.ArtMeta != "" {
			res.Classes = append(res.Classes, "artifact-service:"+c.ArtMeta)
			for di := range sp.IDPMetadata.IDPSSODescriptors {
				d := &sp.IDPMetadata.IDPSSODescriptors[di]
				switch c.ArtMeta {
				case "no-service":
					d.ArtifactResolutionServices = nil
				case "other-binding":
					d.ArtifactResolutionServices = []saml.Endpoint{{Binding: saml.HTTPPostBinding, Location: spkit.IDPArtifact}}
				case "empty-location":
					d.ArtifactResolutionServices = []saml.Endpoint{{Binding: saml.SOAPBinding, Location: ""}}
				case "hostile-location":
					d.ArtifactResolutionServices = []saml.Endpoint{{Binding: saml.SOAPBinding, Location: "%zz://\x7f not a url"}}
				}
			}
		}
		good := func(issued string) []byte {
			r := spkit.Baseline(fix.Epoch, "id-req", "")
			r.Assertions[0].Sign = &forge.SignSpec{Key: "idp"}
			el, _ := forge.BuildResponse(&r)
			env, _ := forge.BuildArtifact(&forge.ArtifactSpec{ID: "id-art", InResponseTo: forge.S(issued), IssueInstant: forge.T(fix.Epoch), Issuer: forge.S(spkit.IDPEntity), Status: []string{forge.StatusOK}}, el)
			return forge.Bytes(env)
		}
		ok200 := func(b []byte) (*http.Response, error) {
			return &http.Response{StatusCode: 200, Status: "200 OK", Header: http.Header{}, Body: io.NopCloser(bytes.NewReader(b))}, nil
		}
		if fault == "context-cancelled" {
			// A resolver that stalls can only be abandoned if the outgoing request is bound to the
			// incoming request's context.  Decided as a state predicate, without waiting: the
			// transport cancels the incoming context and looks at the outgoing request's context.
			ctx, cancel := context.WithCancel(context.Background())
			bound, entered := false, false
			sp.HTTPClient = &http.Client{Transport: spkit.RoundTripFunc(func(r *http.Request) (*http.Response, error) {
				entered = true
				cancel()
				// bound to the incoming request, or at least bounded by a deadline of its own
				_, hasDeadline := r.Context().Deadline()
				bound = r.Context().Err() != nil || hasDeadline
				return nil, errors.New("resolver stalled; request abandoned")
			})}
			form := url.Values{"SAMLart": {"AAQAAMFbLinlXaCM+FIxiDwGOLAy2T71gbpO7ZhNzAgEANlB90ECfpNEVLg="}}
			req, _ := http.NewRequestWithContext(ctx, "POST", spkit.SPACS, strings.NewReader(form.Encode()))
			req.Header.Set("Content-Type", "application/x-www-form-urlencoded")
			_ = req.ParseForm()
			r := guarded(func() (string, error) { _, err := sp.ParseResponse(req, []string{"id-req"}); return "", err })
			cancel()
			if r.panic != "" {
				res.Err = "panic: " + r.panic
				return res
			}
			if entered && !bound {
				res.Err = "the artifact resolution request is neither bound to the incoming request's context nor given a deadline: with a resolver that accepts the connection and stalls, ParseResponse would hang even after the request is cancelled"
				return res
			}
			if r.err == nil {
				res.Err = "an abandoned artifact resolution yielded no error"
				return res
			}
			continue
		}
		o := spkit.ParseArtifactHTTP(sp, []string{"id-req"}, spkit.SPACS, func(body []byte) (*http.Response, error) {
			issued := ""
			d := etree.NewDocument()
			if d.ReadFromBytes(body) == nil {
				if ar := d.FindElement("//ArtifactResolve"); ar != nil {
					issued = ar.SelectAttrValue("ID", "")
				}
			}
			switch fault {
			case "dial-error":
				return nil, errors.New("dial tcp: connection refused")
			case "status-500":
				return &http.Response{StatusCode: 500, Status: "500 Internal Server Error", Header: http.Header{}, Body: io.NopCloser(strings.NewReader("oops"))}, nil
			case "status-302":
				return &http.Response{StatusCode: 302, Status: "302 Found", Header: http.Header{"Location": {"https://evil.example/"}}, Body: io.NopCloser(strings.NewReader(""))}, nil
			case "status-204":
				return &http.Response{StatusCode: 204, Status: "204 No Content", Header: http.Header{}, Body: http.NoBody}, nil
			case "truncated-body":
				g := good(issued)
				return &http.Response{StatusCode: 200, Status: "200 OK", Header: http.Header{}, Body: &errReader{data: g[:len(g)/2]}}, nil
			case "half-xml":
				g := good(issued)
				return ok200(g[:len(g)/2])
			case "soap-fault":
				return ok200([]byte(`<soap:Envelope xmlns:soap="http://schemas.xmlsoap.org/soap/envelope/"><soap:Body><soap:Fault><faultcode>soap:Server</faultcode><faultstring>no</faultstring></soap:Fault></soap:Body></soap:Envelope>`))
			case "wrong-envelope":
				return ok200([]byte(`<Envelope xmlns="urn:other"><Body/></Envelope>`))
			case "empty-body":
				return ok200(nil)
			case "empty-soap-body":
				return ok200([]byte(`<soap:Envelope xmlns:soap="http://schemas.xmlsoap.org/soap/envelope/"><soap:Body/></soap:Envelope>`))
			case "no-soap-body":
				return ok200([]byte(`<soap:Envelope xmlns:soap="http://schemas.xmlsoap.org/soap/envelope/"/>`))
			case "two-bodies":
				return ok200([]byte(`<soap:Envelope xmlns:soap="http://schemas.xmlsoap.org/soap/envelope/"><soap:Body/><soap:Body/></soap:Envelope>`))
			case "garbage":
				return ok200([]byte("\x00\x01\x02<<<>>>&&&"))
			case "html":
				return ok200([]byte("<html><body>login</body></html>"))
			case "comment-only":
				return ok200([]byte("<!-- nothing -->"))
			case "artifact-without-response":
				env, _ := forge.BuildArtifact(&forge.ArtifactSpec{ID: "id-art", InResponseTo: forge.S(issued), IssueInstant: forge.T(fix.Epoch), Issuer: forge.S(spkit.IDPEntity), Status: []string{forge.StatusOK}}, nil)
				return ok200(forge.Bytes(env))
			case "artifact-without-status":
				r := spkit.Baseline(fix.Epoch, "id-req", "")
				r.Assertions[0].Sign = &forge.SignSpec{Key: "idp"}
				el, _ := forge.BuildResponse(&r)
				env, _ := forge.BuildArtifact(&forge.ArtifactSpec{ID: "id-art", InResponseTo: forge.S(issued), IssueInstant: forge.T(fix.Epoch)}, el)
				return ok200(forge.Bytes(env))
			case "oversized":
				return ok200(append(append([]byte("<a>"), bytes.Repeat([]byte("A"), 12<<20)...), []byte("</a>")...))
			case "nil-body-ok":
				return &http.Response{StatusCode: 200, Status: "200 OK", Header: http.Header{}, Body: http.NoBody}, nil
			default: // good
				return ok200(good(issued))
			}
		})
		if fault == "good" && !o.Accepted() && idpTrusted() && curSPKey == "" && c.ArtMeta == "" {
			res.Err = fmt.Sprintf("harness sanity: a correct artifact response was rejected: %s", o.Describe())
			return res
		}
		if fault != "good" && o.Accepted() {
			res.Err = fmt.Sprintf("resolver behaviour %q (call %d) yielded an assertion: %s", fault, i, o.Describe())
			return res
		}
		if msg := contract(o); msg != "" {
			res.Err = fmt.Sprintf("resolver behaviour %q (call %d): %s", fault, i, msg)
			return res
		}
	}
	return res
}

var kindTime = map[string]time.Duration{}
var kindCount = map[string]int{}

func check(c Case) pbt.Result {
	t0 := time.Now()
	defer func() {
		k := c.Kind + "/" + c.API + "/" + c.Framing
		kindTime[k] += time.Since(t0)
		kindCount[k]++
	}()
	curNoise = c.Noise
	curSPKey = ""
	if c.Kind == "resign" || c.Kind == "encplain" || c.Kind == "bytes" || c.Kind == "artifact" {
		for _, k := range spKeys {
			if k == c.SPKey {
				curSPKey = k
			}
		}
	}
	curTrust = "meta1"
	if c.Trust != "" {
		ok := false
		for _, t := range spkit.Trusts {
			ok = ok || t == c.Trust
		}
		if !ok {
			return pbt.Result{Skip: true}
		}
		curTrust = c.Trust
	}
	res := check1(c)
	if c.Trust != "" && !res.Skip {
		res.Classes = append(res.Classes, "sp-trust:"+c.Trust)
	}
	if curSPKey != "" && !res.Skip {
		res.Classes = append(res.Classes, "sp-key:"+curSPKey)
	}
	return res
}

func check1(c Case) pbt.Result {
	switch c.Kind {
	case "resign":
		return checkResign(c)
	case "encplain":
		return checkEncPlain(c)
	case "bytes":
		return checkBytes(c)
	case "fixture":
		return checkFixture(c)
	case "artifact":
		return checkArtifact(c)
	case "idp":
		return checkIDP(c)
	case "metadata":
		return checkMetadata(c)
	}
	return pbt.Result{Skip: true}
}

// ---------------------------------------------------------------- generators

var degeneratePlain = []string{
	"", " ", "<!-- c -->", "<?pi x?>", "text only", "<!DOCTYPE x>", "<a/>", "<a></a><b/>", "<saml:Assertion/>", "\ufeff",
	`<saml:Assertion xmlns:saml="urn:oasis:names:tc:SAML:2.0:assertion"/>`,
	`<saml:Assertion xmlns:saml="urn:oasis:names:tc:SAML:2.0:assertion" ID="x" Version="2.0"><saml:Issuer/></saml:Assertion>`,
	`<Assertion xmlns="urn:oasis:names:tc:SAML:2.0:assertion"><Subject/></Assertion>`,
	`<x:Assertion xmlns:x="urn:other"/>`, "<", "<a", "<a>", "</a>", "&amp;", "\x00", "<a>\x01</a>", "<!---->", "<![CDATA[x]]>",
	`<xenc:EncryptedData xmlns:xenc="http://www.w3.org/2001/04/xmlenc#"/>`,
	`<samlp:Response xmlns:samlp="urn:oasis:names:tc:SAML:2.0:protocol"/>`,
}

// algIDs: registered, W3C-defined-but-unregistered, unknown, empty and removed ("-") algorithm identifiers.
var algIDs = []string{"", "", "-", " ", "urn:unknown", "http://www.w3.org/2000/09/xmldsig#sha1", "http://www.w3.org/2000/09/xmldsig#sha256", "http://www.w3.org/2001/04/xmlenc#sha256",
	"http://www.w3.org/2001/04/xmldsig-more#sha384", "http://www.w3.org/2001/04/xmlenc#sha512", "http://www.w3.org/2001/04/xmlenc#ripemd160", "http://www.w3.org/2001/04/xmldsig-more#md5",
	"http://www.w3.org/2001/04/xmlenc#rsa-oaep-mgf1p", "http://www.w3.org/2009/xmlenc11#rsa-oaep", "http://www.w3.org/2001/04/xmlenc#rsa-1_5",
	"http://www.w3.org/2001/04/xmlenc#aes128-cbc", "http://www.w3.org/2001/04/xmlenc#aes256-cbc", "http://www.w3.org/2009/xmlenc11#aes128-gcm", "http://www.w3.org/2001/04/xmlenc#tripledes-cbc", "http://www.w3.org/2001/04/xmlenc#kw-aes128"}

var apis = []string{"response", "response-unparsed", "artifact", "logout-form", "logout-redirect", "logout-request", "authn-get", "authn-post", "metadata", "unmarshal-entity", "unmarshal-entities", "put-service"}
var faults = []string{"context-cancelled", "good", "dial-error", "status-500", "status-302", "status-204", "truncated-body", "half-xml", "soap-fault", "wrong-envelope", "empty-body", "empty-soap-body", "no-soap-body", "two-bodies", "garbage", "html", "comment-only", "artifact-without-response", "artifact-without-status", "oversized", "nil-body-ok"}

var nParts = struct{ resp, req, spmeta, idpmeta int }{
	len(partsOf(maximalResponse())), len(partsOf(maximalAuthnRequest("a", "b", "c"))), len(partsOf(maximalSPMetadata("a", "b"))), len(partsOf(maximalIDPMetadata())),
}

func genRemovals(t *rapid.T, label string, n int) []int {
	k := rapid.SampledFrom([]int{0, 1, 1, 2, 2, 3, 5, 8}).Draw(t, label+"k")
	out := make([]int, 0, k)
	for i := 0; i < k; i++ {
		out = append(out, rapid.IntRange(0, n-1).Draw(t, label))
	}
	return out
}

var xmlDict = []string{"<", ">", "</", "/>", "<!--", "-->", "<?xml version=\"1.0\"?>", "<!DOCTYPE x [<!ENTITY a \"b\">]>", "&a;", "&#x41;", "<![CDATA[", "]]>", " xmlns=\"", " xmlns:a=\"urn:a\"", "\"", "'", "=", "samlp:Response", "saml:Assertion", "Signature", "EncryptedAssertion", "soap:Envelope", "EntityDescriptor", "\x00", "\xff", "\xef\xbb\xbf"}

func genBytes(t *rapid.T) []byte {
	switch rapid.IntRange(0, 3).Draw(t, "bytesclass") {
	case 0:
		return rapid.SliceOfN(rapid.Byte(), 0, 200).Draw(t, "raw")
	case 1:
		var b []byte
		n := rapid.IntRange(1, 30).Draw(t, "ntok")
		for i := 0; i < n; i++ {
			if rapid.Bool().Draw(t, "dict") {
				b = append(b, rapid.SampledFrom(xmlDict).Draw(t, "tok")...)
			} else {
				b = append(b, rapid.StringMatching(`[a-zA-Z0-9 :]{0,6}`).Draw(t, "word")...)
			}
		}
		return b
	case 2:
		// a fixture with a random splice
		name := rapid.SampledFrom(fixtureNames).Draw(t, "fx")
		raw, ok := loadFixture(name)
		if !ok || len(raw) == 0 {
			return []byte("<a/>")
		}
		b := append([]byte{}, raw...)
		pos := rapid.IntRange(0, len(b)-1).Draw(t, "pos")
		switch rapid.IntRange(0, 3).Draw(t, "splice") {
		case 0:
			return b[:pos]
		case 1:
			return append(append(append([]byte{}, b[:pos]...), rapid.SampledFrom(xmlDict).Draw(t, "ins")...), b[pos:]...)
		case 2:
			b[pos] = rapid.Byte().Draw(t, "byte")
			return b
		default:
			end := pos + rapid.IntRange(0, 40).Draw(t, "cut")
			if end > len(b) {
				end = len(b)
			}
			return append(append([]byte{}, b[:pos]...), b[end:]...)
		}
	default:
		return []byte(rapid.SampledFrom(degeneratePlain).Draw(t, "degenerate"))
	}
}

func genMutOps(t *rapid.T) []MutOp {
	n := rapid.IntRange(0, 4).Draw(t, "nmut")
	var ops []MutOp
	for i := 0; i < n; i++ {
		ops = append(ops, MutOp{
			Kind: rapid.SampledFrom([]string{"del", "del", "dup", "swap", "attr-del", "attr-del", "attr-set", "text-set", "wrap", "deep", "wide", "root-rename", "ns-strip", "comment"}).Draw(t, "mk"),
			I:    rapid.IntRange(0, 400).Draw(t, "mi"), J: rapid.IntRange(0, 5000).Draw(t, "mj"),
			S: rapid.SampledFrom([]string{"", "x", "2.0", "not-a-time", "9999-99-99T00:00:00Z", "Response", "Envelope", "Assertion", "-1", "99999999999999999999", "true", "urn:x", "http://x/", " "}).Draw(t, "ms"),
		})
	}
	return ops
}

func gen(t *rapid.T) Case {
	c := gen0(t)
	if c.Trust != "" && rapid.Bool().Draw(t, "noise?") {
		c.Noise = rapid.Uint64Range(1, 1023).Draw(t, "noise")
	}
	if (c.Kind == "resign" || c.Kind == "encplain" || c.Kind == "bytes" || c.Kind == "artifact") && rapid.IntRange(0, 3).Draw(t, "spkey?") == 0 {
		c.SPKey = rapid.SampledFrom(spKeys).Draw(t, "spkey")
	}
	return c
}

func gen0(t *rapid.T) Case {
	c := gen1(t)
	if pbt.Fuzzing() {
		// keep single inputs cheap under the fuzzing engine (its workers are killed when one
		// input takes seconds): no large bombs, no oversized resolver bodies, bounded width/depth
		if c.BombMiB > 11 {
			c.BombMiB = 11
		}
		for i, f := range c.Faults {
			if f == "oversized" {
				c.Faults[i] = "garbage"
			}
		}
		for i := range c.Ops {
			if c.Ops[i].Kind == "wide" || c.Ops[i].Kind == "deep" {
				c.Ops[i].J %= 60
			}
		}
	}
	return c
}

func genTrust(t *rapid.T) string {
	if rapid.Bool().Draw(t, "defaulttrust") {
		return ""
	}
	return rapid.SampledFrom(spkit.Trusts).Draw(t, "trust")
}

func gen1(t *rapid.T) Case {
	switch rapid.IntRange(0, 13).Draw(t, "kind") {
	case 0, 1, 2, 3:
		entry := rapid.SampledFrom([]string{"xml", "post", "artifact"}).Draw(t, "entry")
		layouts := []string{"resp", "assert", "both", "none"}
		if entry == "artifact" {
			layouts = append(layouts, "artifact", "artifact")
		}
		c := Case{Kind: "resign", Layout: rapid.SampledFrom(layouts).Draw(t, "layout"), Encrypt: rapid.IntRange(0, 3).Draw(t, "enc") == 0, Entry: entry, Removals: genRemovals(t, "rm", nParts.resp)}
		ne := rapid.SampledFrom([]int{0, 0, 1, 1, 2}).Draw(t, "nedits")
		for i := 0; i < ne; i++ {
			c.Edits = append(c.Edits, Edit{I: rapid.IntRange(0, 200).Draw(t, "editi"), V: rapid.SampledFrom(editValues).Draw(t, "editv")})
		}
		if entry == "artifact" {
			c.ArtRemovals = genRemovals(t, "artrm", 12)
		}
		for i := rapid.SampledFrom([]int{0, 0, 0, 1, 1, 2, 3}).Draw(t, "nsigops"); i > 0; i-- {
			c.SigOps = append(c.SigOps, SigOp{I: rapid.IntRange(0, 80).Draw(t, "sigi"), Mode: rapid.SampledFrom(sigModes).Draw(t, "sigmode")})
		}
		c.Trust = genTrust(t)
		return c
	case 4:
		plain := rapid.SampledFrom(degeneratePlain).Draw(t, "plain")
		if rapid.IntRange(0, 2).Draw(t, "randplain") == 0 {
			plain = string(genBytes(t))
		}
		c := Case{Kind: "encplain", Plain: plain, RespSign: rapid.Bool().Draw(t, "respsign"), EncLayout: rapid.SampledFrom([]string{"", "sibling"}).Draw(t, "enclayout"), Trust: genTrust(t)}
		if rapid.Bool().Draw(t, "algs") {
			c.DigestAlg = rapid.SampledFrom(algIDs).Draw(t, "digestalg")
			c.KeyAlg = rapid.SampledFrom(algIDs).Draw(t, "keyalg")
			c.DataAlg = rapid.SampledFrom(algIDs).Draw(t, "dataalg")
		}
		return c
	case 5, 6, 7:
		c := Case{Kind: "bytes", Data: genBytes(t), API: rapid.SampledFrom(apis).Draw(t, "api"), Trust: genTrust(t)}
		c.Framing = rapid.SampledFrom([]string{"raw", "b64", "b64", "deflate-b64", "deflate-b64", "bad-b64", "trunc-deflate", "stored"}).Draw(t, "framing")
		if rapid.IntRange(0, 40).Draw(t, "bomb") == 0 {
			c.Framing = "bomb"
			c.Data = nil
			c.BombMiB = rapid.SampledFrom([]int{1, 9, 10, 11, 16, 64}).Draw(t, "mib")
			if rapid.Bool().Draw(t, "validbomb") {
				c.Framing = "valid-bomb"
				c.API = rapid.SampledFrom([]string{"logout-redirect", "logout-request", "authn-get"}).Draw(t, "bombapi")
				c.BombMiB = rapid.SampledFrom([]int{1, 8, 11, 12, 24}).Draw(t, "vmib")
			}
		}
		if c.Framing == "deflate-b64" || c.Framing == "bomb" || c.Framing == "valid-bomb" {
			c.Container = rapid.SampledFrom([]string{"", "", "", "zlib", "gzip"}).Draw(t, "container")
		}
		return c
	case 8, 9:
		name := rapid.SampledFrom(fixtureNames).Draw(t, "fixture")
		return Case{Kind: "fixture", Fixture: name, API: rapid.SampledFrom(fixtureAPIs[name]).Draw(t, "api"), Ops: genMutOps(t)}
	case 10:
		return Case{Kind: "artifact", Faults: rapid.SliceOfN(rapid.SampledFrom(faults), 1, 5).Draw(t, "faults"), Trust: genTrust(t), ArtMeta: rapid.SampledFrom(artMetas).Draw(t, "artmeta")}
	case 11, 12:
		return Case{Kind: "idp", Method: rapid.SampledFrom([]string{"GET", "POST", "initiated"}).Draw(t, "method"), NoSession: rapid.IntRange(0, 4).Draw(t, "nosess") == 0,
			ReqRemovals: genRemovals(t, "reqrm", nParts.req), MetaRemovals: genRemovals(t, "metarm", nParts.spmeta),
			MetaBindings: rapid.SampledFrom(append([]string{"", "", ""}, metaBindings...)).Draw(t, "metabindings"), ReqSelect: rapid.SampledFrom(append([]string{"", "", ""}, reqSelects...)).Draw(t, "reqselect")}
	default:
		api := rapid.SampledFrom([]string{"metadata", "unmarshal-entity", "unmarshal-entities", "put-service"}).Draw(t, "api")
		n := nParts.idpmeta
		if api == "put-service" {
			n = nParts.spmeta
		}
		c := Case{Kind: "metadata", API: api, MetaRemovals: genRemovals(t, "metarm", n)}
		if api == "unmarshal-entities" || (api != "unmarshal-entity" && rapid.Bool().Draw(t, "entities")) {
			c.Framing = rapid.SampledFrom(aggregateFramings).Draw(t, "aggregate")
		}
		return c
	}
}

// ---------------------------------------------------------------- exhaustive parts

// enumSPKeys: every kind of key material the SP may hold x plain / encrypted assertions in every signing layout and
// entry point, degenerate encrypted plaintexts, and every resolver behaviour of the artifact binding.
func enumSPKeys(_ string, emit func(Case)) {
	for _, k := range spKeys {
		for _, layout := range []string{"resp", "assert", "both"} {
			for _, entry := range []string{"xml", "post", "artifact"} {
				for _, enc := range []bool{false, true} {
					emit(Case{Kind: "resign", Layout: layout, Entry: entry, Encrypt: enc, SPKey: k})
				}
			}
		}
		for _, p := range degeneratePlain {
			emit(Case{Kind: "encplain", Plain: p, SPKey: k})
		}
		for _, f := range faults {
			emit(Case{Kind: "artifact", Faults: []string{f}, SPKey: k})
			emit(Case{Kind: "artifact", Faults: []string{f}, SPKey: k, Noise: 2})
		}
	}
}

// enumSigSurgery: every part of the signature of a signed Response / Assertion / ArtifactResponse x every
// edit mode, under a metadata, a pinned and a fingerprint trust configuration.
func enumSigSurgery(tier string, emit func(Case)) {
	trusts := []string{"meta1", "pinned", "fp256"}
	if tier == "thorough" {
		trusts = spkit.Trusts
	}
	for _, trust := range trusts {
		for _, le := range [][2]string{{"resp", "xml"}, {"assert", "xml"}, {"assert", "post"}, {"artifact", "artifact"}} {
			doc, _, ok := signAndWrap(maximalResponse(), le[0], false, le[1] == "artifact", nil)
			if !ok {
				continue
			}
			d := etree.NewDocument()
			if d.ReadFromBytes(doc) != nil {
				continue
			}
			n := len(sigParts(d.Root()))
			for i := 0; i < n; i++ {
				for _, m := range sigModes {
					emit(Case{Kind: "resign", Layout: le[0], Entry: le[1], Trust: trust, SigOps: []SigOp{{I: i, Mode: m}}})
				}
			}
		}
	}
}

// enumRemovals: every subset of size <= 2 of the removable parts of the maximal
// response, re-signed in each layout; encrypted and artifact variants for size <= 1.
// quick enumerates size <= 1 completely and every 5th pair.
func enumRemovals(tier string, emit func(Case)) {
	n := nParts.resp
	for _, layout := range []string{"resp", "assert", "both"} {
		emit(Case{Kind: "resign", Layout: layout, Entry: "xml"})
		for i := 0; i < n; i++ {
			for _, entry := range []string{"xml", "post"} {
				emit(Case{Kind: "resign", Layout: layout, Entry: entry, Removals: []int{i}})
			}
			emit(Case{Kind: "resign", Layout: layout, Entry: "xml", Encrypt: true, Removals: []int{i}})
			emit(Case{Kind: "resign", Layout: layout, Entry: "artifact", Removals: []int{i}})
		}
		k := 0
		for i := 0; i < n; i++ {
			for j := i + 1; j < n; j++ {
				k++
				if tier != "thorough" && k%5 != 0 {
					continue
				}
				emit(Case{Kind: "resign", Layout: layout, Entry: "xml", Removals: []int{i, j}})
			}
		}
	}
	for i := 0; i < 12; i++ {
		for _, layout := range []string{"artifact", "assert", "none"} {
			emit(Case{Kind: "resign", Layout: layout, Entry: "artifact", ArtRemovals: []int{i}})
		}
	}
	// every attribute x every alternative value, alone; and each such edit combined with every single removal (thorough)
	nattr := 0
	for _, p := range partsOf(maximalResponse()) {
		if p.attr != "" && !strings.HasPrefix(p.attr, "xmlns") {
			nattr++
		}
	}
	for a := 0; a < nattr; a++ {
		for _, v := range editValues {
			emit(Case{Kind: "resign", Layout: "resp", Entry: "xml", Edits: []Edit{{I: a, V: v}}})
			emit(Case{Kind: "resign", Layout: "assert", Entry: "xml", Edits: []Edit{{I: a, V: v}}})
		}
	}
	k := 0
	for a := 0; a < nattr; a++ {
		for vi, v := range editValues[:4] {
			for i := 0; i < n; i++ {
				k++
				if tier != "thorough" && k%3 != vi%3 {
					continue
				}
				emit(Case{Kind: "resign", Layout: "resp", Entry: "xml", Removals: []int{i}, Edits: []Edit{{I: a, V: v}}})
			}
		}
	}
}

var metaBindings = []string{"artifact-only", "soap-only", "unknown-only", "none"}
var reqSelects = []string{"none", "index-only", "url-only", "index-unknown", "url-unknown", "both-disagree"}

func enumIDP(tier string, emit func(Case)) {
	for _, mb := range append([]string{""}, metaBindings...) {
		for _, rs := range append([]string{""}, reqSelects...) {
			for _, m := range []string{"GET", "POST", "initiated"} {
				for _, nosess := range []bool{false, true} {
					emit(Case{Kind: "idp", Method: m, MetaBindings: mb, ReqSelect: rs, NoSession: nosess})
				}
			}
		}
	}
	for _, m := range []string{"GET", "POST", "initiated"} {
		emit(Case{Kind: "idp", Method: m})
		for i := 0; i < nParts.req; i++ {
			emit(Case{Kind: "idp", Method: m, ReqRemovals: []int{i}})
		}
		for i := 0; i < nParts.spmeta; i++ {
			emit(Case{Kind: "idp", Method: m, MetaRemovals: []int{i}})
			if tier == "thorough" {
				for j := i + 1; j < nParts.spmeta; j++ {
					emit(Case{Kind: "idp", Method: m, MetaRemovals: []int{i, j}})
				}
			}
		}
	}
}

var aggregateFramings = []string{"entities", "entities-flat", "entities-with-others", "entities-others-only", "entities-others-nested", "entities-empty"}

func enumMetadata(_ string, emit func(Case)) {
	for _, api := range []string{"metadata", "unmarshal-entity", "put-service"} {
		n := nParts.idpmeta
		if api == "put-service" {
			n = nParts.spmeta
		}
		for i := 0; i < n; i++ {
			emit(Case{Kind: "metadata", API: api, MetaRemovals: []int{i}})
		}
	}
	for i := 0; i < nParts.idpmeta; i++ {
		emit(Case{Kind: "metadata", API: "unmarshal-entities", Framing: "entities", MetaRemovals: []int{i}})
		emit(Case{Kind: "metadata", API: "metadata", Framing: "entities", MetaRemovals: []int{i}})
	}
	for _, api := range []string{"metadata", "unmarshal-entities", "put-service"} {
		for _, fr := range aggregateFramings {
			emit(Case{Kind: "metadata", API: api, Framing: fr})
			for _, i := range []int{0, 1, 2, 3, 5, 8} {
				emit(Case{Kind: "metadata", API: api, Framing: fr, MetaRemovals: []int{i}})
			}
		}
	}
}

func enumDegenerate(_ string, emit func(Case)) {
	for _, p := range degeneratePlain {
		for _, rs := range []bool{false, true} {
			for _, l := range []string{"", "sibling"} {
				emit(Case{Kind: "encplain", Plain: p, RespSign: rs, EncLayout: l})
			}
		}
		for _, api := range apis {
			for _, fr := range []string{"raw", "b64", "deflate-b64"} {
				emit(Case{Kind: "bytes", Data: []byte(p), API: api, Framing: fr})
			}
		}
	}
	valid := `<saml:Assertion xmlns:saml="urn:oasis:names:tc:SAML:2.0:assertion" ID="x" Version="2.0"><saml:Issuer/></saml:Assertion>`
	for _, id := range algIDs[2:] {
		for _, l := range []string{"", "sibling"} {
			emit(Case{Kind: "encplain", Plain: valid, EncLayout: l, DigestAlg: id})
			emit(Case{Kind: "encplain", Plain: valid, EncLayout: l, KeyAlg: id})
			emit(Case{Kind: "encplain", Plain: valid, EncLayout: l, DataAlg: id})
			emit(Case{Kind: "encplain", Plain: valid, EncLayout: l, KeyAlg: "http://www.w3.org/2009/xmlenc11#rsa-oaep", DigestAlg: id})
		}
	}
	for _, f := range faults {
		emit(Case{Kind: "artifact", Faults: []string{f}})
	}
	for _, am := range artMetas[3:] {
		for _, f := range []string{"good", "dial-error", "garbage", "context-cancelled"} {
			emit(Case{Kind: "artifact", Faults: []string{f}, ArtMeta: am})
		}
	}
	for _, api := range []string{"logout-redirect", "logout-request", "authn-get"} {
		for _, mib := range []int{1, 9, 10, 11, 16, 64} {
			emit(Case{Kind: "bytes", API: api, Framing: "bomb", BombMiB: mib})
		}
		for _, mib := range []int{1, 8, 11, 12, 24} {
			emit(Case{Kind: "bytes", API: api, Framing: "valid-bomb", BombMiB: mib})
		}
		for _, container := range []string{"zlib", "gzip"} {
			for _, mib := range []int{1, 11, 32} {
				emit(Case{Kind: "bytes", API: api, Framing: "bomb", BombMiB: mib, Container: container})
				emit(Case{Kind: "bytes", API: api, Framing: "valid-bomb", BombMiB: mib, Container: container})
			}
		}
	}
	for _, name := range fixtureNames {
		for _, api := range fixtureAPIs[name] {
			emit(Case{Kind: "fixture", Fixture: name, API: api})
		}
	}
	// form-level malformations handed to ParseResponse unparsed, as body and as query
	for _, body := range []string{"", "SAMLResponse=%ZZ", "SAMLResponse=abc&x=%", "SAMLart=a;b", "SAMLart=%zz", "%", "=", "&&&", "SAMLResponse", "SAMLResponse=PHg%2BPC94Pg%3D%3D", "a=b;c=d", "SAMLResponse=%u0041", "\x00=\xff"} {
		for _, fr := range []string{"raw", "b64"} {
			emit(Case{Kind: "bytes", Data: []byte(body), API: "response-unparsed", Framing: fr})
		}
	}
}

var prop = &pbt.Prop[Case]{
	ID: "C09",
	Rule: "cases: (resign) a maximal valid Response with every optional element/attribute, any subset of its parts removed (every subset of size <= 2 enumerated), then validly re-signed with the trusted IdP key in each layout (Response / Assertion / both / ArtifactResponse), optionally encrypted to the SP, through ParseXMLResponse / ParseResponse(POST) / ParseXMLArtifactResponse, followed by 0-3 edits of the parts of the ds:Signature elements after signing (remove / empty / blank / duplicate / replace text; every part x every mode enumerated) under every trust configuration of the SP (metadata, pinned certificate, fingerprint) and every kind of key material it may hold (RSA, none, key without certificate, ECDSA); " +
		"(encplain) degenerate and random plaintexts inside a well-formed EncryptedAssertion addressed to the SP; (bytes) random, dictionary-built and fixture-spliced bytes under raw / base64 / deflate / broken framings incl. deflate bombs of 1..64 MiB (raw DEFLATE and the zlib / gzip containers) through every consuming API " +
		"(response, artifact response, logout form/redirect/request, AuthnRequest GET/POST + Validate, samlsp.ParseMetadata, xml.Unmarshal of EntityDescriptor/EntitiesDescriptor, PUT /services/{id} of samlidp); (fixture) repository fixtures under structure-aware mutation (delete / duplicate / swap / wrap / attribute edits / depth <= 500 / width <= 5000 / root rename); " +
		"(artifact) generated sequences of resolver behaviours (dial error, non-200, truncated body, SOAP fault, wrong envelope, garbage ...); (idp) a maximal AuthnRequest and maximal registered SP metadata with parts removed, the SP offering browser bindings / only other bindings / no consumer service and the request selecting one by index, URL, both or not at all, through ServeSSO GET/POST and ServeIDPInitiated; (metadata) maximal IdP/SP metadata with parts removed. " +
		"oracle: no panic; response family: err != nil iff assertion == nil, error is *InvalidResponseError with Error() == \"Authentication failed\"; deflated input > 10 MiB is refused (and NewIdpAuthnRequest returns no request holding more than that); cumulative allocation (TotalAlloc delta) per call below 32 MiB + 8000 x (input + inflated) bytes, i.e. linear with 4x headroom over the ~1900 bytes/byte the round-trip validator needs on element-dense input. " +
		"non-trivial: the input reaches past the first parse guard (always for resign / encplain / idp / metadata / artifact; for bytes: not rejected at base64 decoding). distinct: sha256 of the JSON case.",
	Gen:   gen,
	Check: check,
	Reset: fix.Reset,
	Enums: []pbt.Enum[Case]{
		{Name: "optional-part-removal-resigned", Each: enumRemovals},
		{Name: "signature-surgery-after-signing", Each: enumSigSurgery},
		{Name: "sp-key-material", Each: enumSPKeys},
		{Name: "idp-request-and-metadata-part-removal", Each: enumIDP},
		{Name: "metadata-part-removal", Each: enumMetadata},
		{Name: "degenerate-documents-faults-bombs-fixtures", Each: enumDegenerate},
	},
	Assumptions: []string{
		"hangs are observed only as a watchdog (exit 2); generated depth <= 500 and width <= 5000 keep the known quadratic path in milliseconds",
		"requests reach ParseResponse with ParseForm already called, as the middleware does",
	},
}

func TestCheck(t *testing.T) {
	pbt.Run(t, prop)
	if os.Getenv("VERIF_DEBUG") != "" {
		fmt.Printf("max alloc ratio %.1f at %s\n", maxRatio.ratio, maxRatio.what)
		for k, d := range kindTime {
			fmt.Printf("TIME %-40s n=%6d total=%8.2fs avg=%8.2fms\n", k, kindCount[k], d.Seconds(), d.Seconds()*1000/float64(kindCount[k]))
		}
	}
}

func FuzzCheck(f *testing.F) { pbt.Fuzz(f, prop) }
