package c09

import (
	"fmt"
	"strings"

	"github.com/beevik/etree"

	"verif/harness/internal/fix"
	"verif/harness/internal/forge"
	"verif/harness/internal/spkit"
)

// part is one removable piece of a maximal message: an element (attr == "") or an attribute.
type part struct {
	el   *etree.Element
	attr string
}

func (p part) String() string {
	path := p.el.GetPath()
	if p.attr != "" {
		return path + "/@" + p.attr
	}
	return path
}

// partsOf lists, in document order, every attribute of every element and every
// non-root element of the tree.
func partsOf(root *etree.Element) []part {
	var out []part
	var walk func(e *etree.Element, isRoot bool)
	walk = func(e *etree.Element, isRoot bool) {
		if !isRoot {
			out = append(out, part{el: e})
		}
		for _, a := range e.Attr {
			out = append(out, part{el: e, attr: a.FullKey()})
		}
		for _, ch := range e.ChildElements() {
			walk(ch, false)
		}
	}
	walk(root, true)
	return out
}

func attached(e, root *etree.Element) bool {
	for p := e; p != nil; p = p.Parent() {
		if p == root {
			return true
		}
	}
	return false
}

// removeParts removes the selected parts (indexes into partsOf(root), taken
// before any removal); returns a description of what was removed.
func removeParts(root *etree.Element, idx []int) []string {
	ps := partsOf(root)
	var desc []string
	for _, i := range idx {
		if i < 0 || i >= len(ps) {
			continue
		}
		p := ps[i]
		if !attached(p.el, root) {
			continue
		}
		desc = append(desc, p.String())
		if p.attr != "" {
			p.el.RemoveAttr(p.attr)
		} else if par := p.el.Parent(); par != nil {
			par.RemoveChild(p.el)
		}
	}
	return desc
}

// maximalResponse builds the unsigned maximal Response tree: every optional element
// and attribute the library's schema types know about is present.
func maximalResponse() *etree.Element {
	now := fix.Epoch
	r := spkit.Baseline(now, "id-req", "")
	r.StatusMsg = forge.S("all good")
	r.Status = []string{forge.StatusOK, "urn:oasis:names:tc:SAML:2.0:status:AuthnFailed"}
	a := &r.Assertions[0]
	a.Confirmations = append(a.Confirmations, a.Confirmations[0])
	for i := range a.Confirmations {
		a.Confirmations[i].Address = forge.S("192.0.2.1")
		a.Confirmations[i].NotBefore = forge.TP(now.Add(-60e9))
	}
	a.Authn[0].ClassRef = forge.S("urn:oasis:names:tc:SAML:2.0:ac:classes:Password")
	a.Statements = [][]forge.Attr{{{Name: "uid", FriendlyName: "uid", NameFormat: "urn:oasis:names:tc:SAML:2.0:attrname-format:basic", Values: []string{"alice", "alice2"}}, {Name: "mail", Values: []string{"alice@example.com"}}}, {{Name: "group", Values: []string{"g"}}}}
	el, err := forge.ResponseElement(&r)
	if err != nil {
		panic(err)
	}
	el.CreateAttr("Consent", "urn:oasis:names:tc:SAML:2.0:consent:unspecified")
	as := el.FindElement("./Assertion")
	if cond := as.FindElement("./Conditions"); cond != nil {
		cond.CreateElement("saml:OneTimeUse")
		pr := cond.CreateElement("saml:ProxyRestriction")
		pr.CreateAttr("Count", "2")
		pr.CreateElement("saml:Audience").SetText("https://proxy.example.com")
	}
	if st := as.FindElement("./AuthnStatement"); st != nil {
		st.CreateAttr("SessionNotOnOrAfter", forge.T(now.Add(3600e9)))
		sl := etree.NewElement("saml:SubjectLocality")
		sl.CreateAttr("Address", "192.0.2.1")
		sl.CreateAttr("DNSName", "client.example.com")
		st.InsertChildAt(0, sl)
	}
	if nid := as.FindElement("./Subject/NameID"); nid != nil {
		nid.CreateAttr("NameQualifier", spkit.IDPEntity)
		nid.CreateAttr("SPNameQualifier", spkit.SPEntity)
		nid.CreateAttr("SPProvidedID", "spid")
	}
	if sc := as.FindElement("./Subject/SubjectConfirmation"); sc != nil {
		n := etree.NewElement("saml:NameID")
		n.SetText("confirming-party")
		sc.InsertChildAt(0, n)
	}
	sd := el.FindElement("./Status").CreateElement("samlp:StatusDetail")
	sd.CreateElement("x").SetText("detail")
	return el
}

// signAndWrap applies the signing layout to the (already reduced) response tree and
// returns the document bytes for the entry point.  ok=false when the reduced tree
// cannot be signed by the harness at all (e.g. a namespace declaration was removed).
func signAndWrap(resp *etree.Element, layout string, encrypt bool, artifact bool, artRemovals []int) (doc []byte, removed []string, ok bool) {
	defer func() {
		if e := recover(); e != nil {
			ok = false
		}
	}()
	sign := &forge.SignSpec{Key: "idp"}
	as := resp.FindElement("./Assertion")
	if as != nil && (layout == "assert" || layout == "both" || encrypt) {
		par := as.Parent()
		idx := as.Index()
		par.RemoveChild(as)
		// a stand-alone assertion must declare the prefix it uses
		if as.SelectAttr("xmlns:saml") == nil {
			return nil, nil, false
		}
		if _, err := forge.Sign(as, sign, false); err != nil {
			return nil, nil, false
		}
		var final *etree.Element = as
		if encrypt {
			ea, err := forge.EncryptAssertion(forge.Bytes(as.Copy()), &forge.EncSpec{To: "sp", Seed: 11})
			if err != nil {
				return nil, nil, false
			}
			final = ea
		}
		par.InsertChildAt(idx, final)
	}
	if layout == "resp" || layout == "both" {
		if _, err := forge.Sign(resp, sign, false); err != nil {
			return nil, nil, false
		}
	}
	root := resp
	if artifact {
		as := &forge.ArtifactSpec{ID: "id-art", InResponseTo: forge.S("id-artreq"), IssueInstant: forge.T(fix.Epoch), Issuer: forge.S(spkit.IDPEntity), Status: []string{forge.StatusOK}}
		env, err := forge.BuildArtifact(as, resp)
		if err != nil {
			return nil, nil, false
		}
		// optional parts of the ArtifactResponse itself (not of the embedded Response)
		ar := env.FindElement("./Body/ArtifactResponse")
		var ps []part
		for _, a := range ar.Attr {
			ps = append(ps, part{el: ar, attr: a.FullKey()})
		}
		for _, ch := range ar.ChildElements() {
			if ch.Tag != "Response" {
				ps = append(ps, part{el: ch})
				for _, g := range ch.ChildElements() {
					ps = append(ps, part{el: g})
					for _, a := range g.Attr {
						ps = append(ps, part{el: g, attr: a.FullKey()})
					}
				}
			}
		}
		ps = append(ps, part{el: ar.FindElement("./Response")}, part{el: env.FindElement("./Body")})
		for _, i := range artRemovals {
			if i >= 0 && i < len(ps) && ps[i].el != nil && attached(ps[i].el, env) {
				removed = append(removed, "artifact:"+ps[i].String())
				if ps[i].attr != "" {
					ps[i].el.RemoveAttr(ps[i].attr)
				} else if p := ps[i].el.Parent(); p != nil {
					p.RemoveChild(ps[i].el)
				}
			}
		}
		if layout == "artifact" && attached(ar, env) {
			if _, err := forge.Sign(ar, sign, false); err != nil {
				return nil, nil, false
			}
		}
		root = env
	}
	return forge.Bytes(root), removed, true
}

// maximalAuthnRequest is the template of a request a library SP would send, with every optional part present.
func maximalAuthnRequest(ssoURL, issuer, acs string) *etree.Element {
	el := etree.NewElement("samlp:AuthnRequest")
	el.CreateAttr("xmlns:saml", forge.NSAssertion)
	el.CreateAttr("xmlns:samlp", forge.NSProtocol)
	el.CreateAttr("ID", "id-authnreq-1")
	el.CreateAttr("Version", "2.0")
	el.CreateAttr("IssueInstant", forge.T(fix.Epoch.Add(-5e9)))
	el.CreateAttr("Destination", ssoURL)
	el.CreateAttr("AssertionConsumerServiceURL", acs)
	el.CreateAttr("ProtocolBinding", "urn:oasis:names:tc:SAML:2.0:bindings:HTTP-POST")
	el.CreateAttr("ForceAuthn", "true")
	el.CreateAttr("IsPassive", "false")
	el.CreateAttr("ProviderName", "sp")
	el.CreateAttr("Consent", "urn:oasis:names:tc:SAML:2.0:consent:unspecified")
	is := el.CreateElement("saml:Issuer")
	is.CreateAttr("Format", "urn:oasis:names:tc:SAML:2.0:nameid-format:entity")
	is.SetText(issuer)
	np := el.CreateElement("samlp:NameIDPolicy")
	np.CreateAttr("AllowCreate", "true")
	np.CreateAttr("Format", "urn:oasis:names:tc:SAML:2.0:nameid-format:transient")
	rac := el.CreateElement("samlp:RequestedAuthnContext")
	rac.CreateAttr("Comparison", "exact")
	rac.CreateElement("saml:AuthnContextClassRef").SetText("urn:oasis:names:tc:SAML:2.0:ac:classes:Password")
	sub := el.CreateElement("saml:Subject")
	sub.CreateElement("saml:NameID").SetText("hint")
	cond := el.CreateElement("saml:Conditions")
	cond.CreateAttr("NotBefore", forge.T(fix.Epoch.Add(-60e9)))
	sc := el.CreateElement("samlp:Scoping")
	sc.CreateAttr("ProxyCount", "1")
	return el
}

// maximalSPMetadata is registered SP metadata with every optional part the IdP looks at.
func maximalSPMetadata(entityID, acs string) *etree.Element {
	el := etree.NewElement("md:EntityDescriptor")
	el.CreateAttr("xmlns:md", "urn:oasis:names:tc:SAML:2.0:metadata")
	el.CreateAttr("xmlns:ds", forge.NSDsig)
	el.CreateAttr("xmlns:saml", forge.NSAssertion)
	el.CreateAttr("entityID", entityID)
	el.CreateAttr("validUntil", forge.T(fix.Epoch.Add(48*3600e9)))
	el.CreateAttr("cacheDuration", "PT48H")
	sp := el.CreateElement("md:SPSSODescriptor")
	sp.CreateAttr("AuthnRequestsSigned", "false")
	sp.CreateAttr("WantAssertionsSigned", "true")
	sp.CreateAttr("protocolSupportEnumeration", "urn:oasis:names:tc:SAML:2.0:protocol")
	for _, use := range []string{"encryption", "signing", ""} {
		kd := sp.CreateElement("md:KeyDescriptor")
		if use != "" {
			kd.CreateAttr("use", use)
		}
		ki := kd.CreateElement("ds:KeyInfo")
		xd := ki.CreateElement("ds:X509Data")
		xd.CreateElement("ds:X509Certificate").SetText(fix.Get("sp").CertB64())
		kd.CreateElement("md:EncryptionMethod").CreateAttr("Algorithm", "http://www.w3.org/2001/04/xmlenc#aes128-cbc")
	}
	slo := sp.CreateElement("md:SingleLogoutService")
	slo.CreateAttr("Binding", "urn:oasis:names:tc:SAML:2.0:bindings:HTTP-POST")
	slo.CreateAttr("Location", "https://sp.example.com/saml/slo")
	slo.CreateAttr("ResponseLocation", "https://sp.example.com/saml/slo")
	sp.CreateElement("md:NameIDFormat").SetText("urn:oasis:names:tc:SAML:2.0:nameid-format:transient")
	for i, b := range []string{"urn:oasis:names:tc:SAML:2.0:bindings:HTTP-POST", "urn:oasis:names:tc:SAML:2.0:bindings:HTTP-Artifact"} {
		ac := sp.CreateElement("md:AssertionConsumerService")
		ac.CreateAttr("Binding", b)
		ac.CreateAttr("Location", acs)
		ac.CreateAttr("index", fmt.Sprint(i+1))
		if i == 0 {
			ac.CreateAttr("isDefault", "true")
		}
	}
	acs2 := sp.CreateElement("md:AttributeConsumingService")
	acs2.CreateAttr("index", "1")
	acs2.CreateAttr("isDefault", "true")
	sn := acs2.CreateElement("md:ServiceName")
	sn.CreateAttr("xml:lang", "en")
	sn.SetText("svc")
	for _, n := range []string{"email", "uid", "cn", "givenName", "surname"} {
		ra := acs2.CreateElement("md:RequestedAttribute")
		ra.CreateAttr("Name", n)
		ra.CreateAttr("FriendlyName", n)
		ra.CreateAttr("NameFormat", "urn:oasis:names:tc:SAML:2.0:attrname-format:basic")
		ra.CreateAttr("isRequired", "true")
	}
	org := el.CreateElement("md:Organization")
	on := org.CreateElement("md:OrganizationName")
	on.CreateAttr("xml:lang", "en")
	on.SetText("org")
	cp := el.CreateElement("md:ContactPerson")
	cp.CreateAttr("contactType", "technical")
	cp.CreateElement("md:EmailAddress").SetText("a@example.com")
	return el
}

// maximalIDPMetadata is IdP metadata as an SP would consume it.
func maximalIDPMetadata() *etree.Element {
	el := etree.NewElement("md:EntityDescriptor")
	el.CreateAttr("xmlns:md", "urn:oasis:names:tc:SAML:2.0:metadata")
	el.CreateAttr("xmlns:ds", forge.NSDsig)
	el.CreateAttr("entityID", spkit.IDPEntity)
	el.CreateAttr("validUntil", forge.T(fix.Epoch.Add(48*3600e9)))
	idp := el.CreateElement("md:IDPSSODescriptor")
	idp.CreateAttr("WantAuthnRequestsSigned", "false")
	idp.CreateAttr("protocolSupportEnumeration", "urn:oasis:names:tc:SAML:2.0:protocol")
	for _, use := range []string{"signing", "encryption", ""} {
		kd := idp.CreateElement("md:KeyDescriptor")
		if use != "" {
			kd.CreateAttr("use", use)
		}
		xd := kd.CreateElement("ds:KeyInfo").CreateElement("ds:X509Data")
		xd.CreateElement("ds:X509Certificate").SetText(fix.Get("idp").CertB64())
	}
	ars := idp.CreateElement("md:ArtifactResolutionService")
	ars.CreateAttr("Binding", "urn:oasis:names:tc:SAML:2.0:bindings:SOAP")
	ars.CreateAttr("Location", spkit.IDPArtifact)
	ars.CreateAttr("index", "1")
	for _, b := range []string{"urn:oasis:names:tc:SAML:2.0:bindings:HTTP-Redirect", "urn:oasis:names:tc:SAML:2.0:bindings:HTTP-POST"} {
		s := idp.CreateElement("md:SingleLogoutService")
		s.CreateAttr("Binding", b)
		s.CreateAttr("Location", spkit.IDPSLO)
	}
	idp.CreateElement("md:NameIDFormat").SetText("urn:oasis:names:tc:SAML:2.0:nameid-format:transient")
	for _, b := range []string{"urn:oasis:names:tc:SAML:2.0:bindings:HTTP-Redirect", "urn:oasis:names:tc:SAML:2.0:bindings:HTTP-POST"} {
		s := idp.CreateElement("md:SingleSignOnService")
		s.CreateAttr("Binding", b)
		s.CreateAttr("Location", spkit.IDPSSO)
	}
	return el
}

func describe(list []string) string { return strings.Join(list, ", ") }
