package c09

import (
	"fmt"
	"os"
	"testing"
)

func TestListParts(t *testing.T) {
	if os.Getenv("VERIF_LIST") == "" {
		t.Skip()
	}
	for i, p := range partsOf(maximalResponse()) {
		fmt.Println("resp", i, p)
	}
	for i, p := range partsOf(maximalAuthnRequest("a", "b", "c")) {
		fmt.Println("req", i, p)
	}
	for i, p := range partsOf(maximalSPMetadata("a", "b")) {
		fmt.Println("spmeta", i, p)
	}
}
