// Package c05: the IdP answers only valid requests and routes only to registered ACS endpoints.
package c05

import (
	"encoding/base64"
	"errors"
	"fmt"
	"net/http"
	"net/http/httptest"
	"net/url"
	"os"
	"runtime/debug"
	"strconv"
	"strings"
	"testing"
	"time"

	"github.com/crewjam/saml"
	"pgregory.net/rapid"

	"verif/harness/internal/fix"
	"verif/harness/internal/idpkit"
	"verif/harness/internal/pbt"
	"verif/harness/internal/xgen"
)

// EP is one AssertionConsumerService endpoint of a registered SP.
type EP struct {
	Binding  string `json:"binding"`
	Location string `json:"location"`
	Index    int    `json:"index"`
	Default  *bool  `json:"is_default,omitempty"`
	// Response is the optional ResponseLocation attribute (legal on any endpoint, never a response target for an ACS).
	Response *string `json:"response_location,omitempty"`
}

// SPMeta is one registry entry.
type SPMeta struct {
	EntityID string `json:"entity_id"`
	Descs    [][]EP `json:"descs"` // SPSSODescriptors x ACS endpoints
	// ViaXML registers xml.Unmarshal(xml.Marshal(md)) instead of the Go value.
	ViaXML bool `json:"via_xml,omitempty"`
}

// Case is one request (or IdP-initiated launch) against one registry.
type Case struct {
	Kind string `json:"kind"` // validate | sso | initiated

	Base    string `json:"base"`     // IdP base URL; SSO URL = Base + "/sso"
	DelayMs int64  `json:"delay_ms"` // saml.MaxIssueDelay

	Providers []SPMeta `json:"providers"`
	FaultFor  string   `json:"fault_for,omitempty"` // registry lookups of this id fail with an I/O error

	Method string `json:"method,omitempty"` // GET (deflate) | POST

	// IssueInstant: "age" -> now-AgeMs written in lexical form Lex; "absent"; "garbage" -> Garbage verbatim.
	Instant string `json:"instant,omitempty"`
	AgeMs   int64  `json:"age_ms,omitempty"`
	Lex     int    `json:"lex,omitempty"`
	// LocalMin: the IdP process's local time zone (time.Local) is UTC+LocalMin minutes while the case runs;
	// neither the freshness verdict nor anything else may depend on it.
	LocalMin int    `json:"local_min,omitempty"`
	Garbage  string `json:"garbage,omitempty"`

	ID          *string `json:"id,omitempty"`
	Version     *string `json:"version,omitempty"`
	Destination *string `json:"destination,omitempty"`
	Issuer      *string `json:"issuer,omitempty"`
	ACSURL      *string `json:"acs_url,omitempty"`
	ACSIndex    *string `json:"acs_index,omitempty"`
	// Binding is the optional ProtocolBinding attribute: it is no input of the routing rule.
	Binding *string `json:"protocol_binding,omitempty"`
	// Delivery describes the client-controlled parts of the HTTP request that carries the AuthnRequest;
	// Destination must equal the configured SSO URL whatever the delivery looks like.
	Delivery Delivery `json:"delivery"`
	Style    int      `json:"style,omitempty"`
	Rot      int      `json:"rot,omitempty"`
	Relay    string   `json:"relay,omitempty"`

	Target string `json:"target,omitempty"` // initiated: service provider id

	// Extras: IdP configuration fields no clause mentions (LogoutURL, LoginURL, ValidDuration, form template,
	// explicit assertion maker, signer / signature method); Base is taken from the case.
	Extras idpkit.IDPConf `json:"idp_extras"`

	// Then is a second request (or launch) handled by the SAME IdentityProvider value after the registry
	// content has been replaced by Then.Providers; it is judged against the registry at that moment.
	// Only Kind, Providers, FaultFor, Target and the request fields of Then are used.
	Then *Case `json:"then,omitempty"`
}

// Delivery: where and how the user agent delivered the message ("" = as the SSO URL says).
type Delivery struct {
	Host    string `json:"host,omitempty"`   // Host header and request URL host
	Scheme  string `json:"scheme,omitempty"` // request URL scheme
	Path    string `json:"path,omitempty"`   // request URL path
	Query   string `json:"query,omitempty"`  // extra query parameters in front of SAMLRequest
	XFHost  string `json:"x_forwarded_host,omitempty"`
	XFProto string `json:"x_forwarded_proto,omitempty"`
}

// apply rewrites the client-controlled parts of r.
func (d Delivery) apply(r *http.Request) {
	if d.Host != "" {
		r.Host, r.URL.Host = d.Host, d.Host
	}
	if d.Scheme != "" {
		r.URL.Scheme = d.Scheme
	}
	if d.Path != "" {
		r.URL.Path = d.Path
	}
	if d.Query != "" {
		if r.URL.RawQuery != "" {
			r.URL.RawQuery = d.Query + "&" + r.URL.RawQuery
		} else {
			r.URL.RawQuery = d.Query
		}
	}
	if d.XFHost != "" {
		r.Header.Set("X-Forwarded-Host", d.XFHost)
		r.Header.Set("Forwarded", "host="+d.XFHost)
	}
	if d.XFProto != "" {
		r.Header.Set("X-Forwarded-Proto", d.XFProto)
	}
	r.RequestURI = r.URL.RequestURI()
}

// seenAs lists the URLs under which the delivery makes the SSO endpoint appear (all different from the configured one
// are "another IdP" as far as Destination is concerned).
func (d Delivery) seenAs(sso string) []string {
	u, err := url.Parse(sso)
	if err != nil {
		return nil
	}
	var out []string
	add := func(f func(x *url.URL)) {
		x := *u
		f(&x)
		if x.String() != sso {
			out = append(out, x.String())
		}
	}
	if d.Host != "" {
		add(func(x *url.URL) { x.Host = d.Host })
	}
	if d.XFHost != "" {
		add(func(x *url.URL) { x.Host = d.XFHost })
		add(func(x *url.URL) { x.Host = d.XFHost; x.Scheme = d.XFProto })
	}
	if d.Path != "" {
		add(func(x *url.URL) { x.Path = d.Path })
		if d.Host != "" {
			add(func(x *url.URL) { x.Host = d.Host; x.Path = d.Path })
		}
	}
	if d.Scheme != "" {
		add(func(x *url.URL) { x.Scheme = d.Scheme })
	}
	if d.Query != "" {
		add(func(x *url.URL) { x.RawQuery = d.Query })
	}
	return out
}

const (
	post     = saml.HTTPPostBinding
	redirect = saml.HTTPRedirectBinding
	artifact = saml.HTTPArtifactBinding
	soap     = saml.SOAPBinding
	unknownB = "urn:mace:shibboleth:1.0:profiles:AuthnRequest"
)

var bindings = []string{post, post, post, redirect, artifact, soap, unknownB}

// ---------------------------------------------------------------- generator

func excluded(slug string) bool { return os.Getenv("VERIF_EXCLUDE_"+slug) == "1" }

func genEP(t *rapid.T, pool []string) EP {
	e := EP{
		Binding:  rapid.SampledFrom(bindings).Draw(t, "binding"),
		Location: rapid.SampledFrom(pool).Draw(t, "location"),
		Index:    rapid.SampledFrom([]int{0, 0, 1, 1, 2, 3, 4, 65535, 70000, -1, 2147483647, 4294967297}).Draw(t, "index"),
	}
	if rapid.IntRange(0, 3).Draw(t, "responseLocation") == 0 {
		e.Response = idpkit.P(rapid.SampledFrom(append([]string{"https://status.example.net/saml/return"}, pool...)).Draw(t, "response-location"))
	}
	switch rapid.IntRange(0, 3).Draw(t, "isDefault") {
	case 0:
		b := true
		e.Default = &b
	case 1:
		b := false
		e.Default = &b
	}
	return e
}

func genProviders(t *rapid.T, pool []string) []SPMeta {
	n := rapid.SampledFrom([]int{0, 1, 1, 1, 2, 3}).Draw(t, "nproviders")
	var out []SPMeta
	for i := 0; i < n; i++ {
		sp := SPMeta{EntityID: fmt.Sprintf("https://sp%d.example.com/saml/metadata", i), ViaXML: rapid.Bool().Draw(t, "viaXML")}
		nd := rapid.SampledFrom([]int{0, 1, 1, 1, 2, 3}).Draw(t, "ndescs")
		for d := 0; d < nd; d++ {
			ne := rapid.SampledFrom([]int{0, 1, 1, 2, 2, 3, 4}).Draw(t, "nendpoints")
			eps := []EP{}
			for k := 0; k < ne; k++ {
				eps = append(eps, genEP(t, pool))
			}
			sp.Descs = append(sp.Descs, eps)
		}
		out = append(out, sp)
	}
	return out
}

func allEPs(sp SPMeta) []EP {
	var out []EP
	for _, d := range sp.Descs {
		out = append(out, d...)
	}
	return out
}

func genAge(t *rapid.T, delay int64) int64 {
	switch rapid.IntRange(0, 11).Draw(t, "ageclass") {
	case 0, 1, 2:
		return delay / 2
	case 3:
		return delay - 1
	case 4:
		return delay
	case 5, 6:
		return delay + 1
	case 7:
		return 10*delay + 1000
	case 8:
		return 365 * 24 * 3600 * 1000
	case 9:
		return -1
	case 10:
		return -delay - 5000
	default:
		return rapid.Int64Range(-2*delay-10, 3*delay+10).Draw(t, "age")
	}
}

func gen(t *rapid.T) Case {
	c := Case{
		Base:    rapid.SampledFrom([]string{"https://idp.example.com", "https://idp.example.com:8443/auth", "http://login.example.org/realms/r1"}).Draw(t, "base"),
		DelayMs: rapid.SampledFrom([]int64{90000, 90000, 90000, 0, 1, 1000, 7000, 3600000}).Draw(t, "delay"),
	}
	c.Extras = idpkit.IDPConf{
		Signer:    rapid.IntRange(0, 3).Draw(t, "signer") == 0,
		SigMethod: rapid.SampledFrom(idpkit.RSAMethods).Draw(t, "sigmethod"),
	}.WithExtras(rapid.Bool().Draw(t, "logoutURL"), rapid.Bool().Draw(t, "loginURL"), rapid.SampledFrom([]int{0, 0, 1, 48, 8760}).Draw(t, "validHours"),
		rapid.IntRange(0, 3).Draw(t, "template") == 0, rapid.IntRange(0, 3).Draw(t, "maker") == 0)
	if rapid.Bool().Draw(t, "local-zone") {
		c.LocalMin = rapid.SampledFrom([]int{-720, -480, -300, -1, 1, 60, 330, 540, 840}).Draw(t, "localmin")
	}
	sso := c.Base + "/sso"
	pool := []string{}
	for i := 0; i < 5; i++ {
		pool = append(pool, fmt.Sprintf("https://sp%d.example.com/saml/acs%s", i%3, []string{"", "/b", "?x=1", "/c", ""}[i]))
	}
	pool = append(pool, "https://evil.example.net/acs")
	c.Providers = genProviders(t, pool[:5])

	switch rapid.IntRange(0, 19).Draw(t, "kind") {
	case 0, 1, 2:
		c.Kind = "initiated"
	case 3, 4, 5, 6, 7:
		c.Kind = "sso"
	default:
		c.Kind = "validate"
	}
	c.Relay = rapid.SampledFrom([]string{"", "rs1", "a b&c=d"}).Draw(t, "relay")

	if c.Kind == "initiated" {
		switch {
		case len(c.Providers) > 0 && rapid.IntRange(0, 4).Draw(t, "target-known") != 0:
			c.Target = rapid.SampledFrom(c.Providers).Draw(t, "target").EntityID
		default:
			c.Target = rapid.SampledFrom([]string{"https://nobody.example.com/metadata", "", "https://sp0.example.com/saml/metadata/"}).Draw(t, "target")
		}
		if rapid.IntRange(0, 9).Draw(t, "fault") == 0 {
			c.FaultFor = c.Target
		}
		if rapid.IntRange(0, 3).Draw(t, "then") == 0 {
			c.Then = genThen(t, c, pool)
		}
		return c
	}

	c.Method = rapid.SampledFrom([]string{"GET", "POST"}).Draw(t, "method")
	c.Style = rapid.IntRange(0, 3).Draw(t, "style")
	c.Rot = rapid.IntRange(0, 6).Draw(t, "rot")
	if rapid.IntRange(0, 9).Draw(t, "hasID") != 0 {
		c.ID = idpkit.P("id-" + rapid.StringMatching(`[a-f0-9]{12}`).Draw(t, "id"))
	}

	// Issuer
	var target *SPMeta
	if len(c.Providers) > 0 {
		target = &c.Providers[rapid.IntRange(0, len(c.Providers)-1).Draw(t, "targetsp")]
	}
	ic := rapid.SampledFrom([]string{"known", "known", "known", "known", "known", "known", "unknown", "nearmiss", "absent", "empty"}).Draw(t, "issuerclass")
	if ic == "absent" && excluded("C05_NOISSUER") {
		ic = "unknown"
	}
	if target == nil && (ic == "known" || ic == "nearmiss") {
		ic = "unknown"
	}
	switch ic {
	case "known":
		c.Issuer = idpkit.P(target.EntityID)
	case "unknown":
		c.Issuer = idpkit.P(rapid.SampledFrom([]string{"https://nobody.example.com/metadata", "urn:x", "sp0", "https://sp9.example.com/saml/metadata"}).Draw(t, "unknown"))
	case "nearmiss":
		_, v := xgen.PickNearMiss(t, target.EntityID, "issuer-nearmiss")
		c.Issuer = idpkit.P(v)
	case "empty":
		c.Issuer = idpkit.P("")
	}
	if c.Issuer != nil && rapid.IntRange(0, 14).Draw(t, "fault") == 0 {
		c.FaultFor = *c.Issuer
	}

	// Destination
	switch rapid.IntRange(0, 11).Draw(t, "destclass") {
	case 0, 1, 2, 3:
		c.Destination = idpkit.P(sso)
	case 4, 5, 6:
	case 10, 11:
		// another identifier of the same deployment, or of the requesting SP
		others := idpkit.IDPConf{Base: c.Base}.OtherIdentifiers()
		if target != nil {
			others = append(others, target.EntityID)
			for _, e := range allEPs(*target) {
				others = append(others, e.Location)
			}
		}
		c.Destination = idpkit.P(rapid.SampledFrom(others).Draw(t, "dest-other-identifier"))
	case 7:
		c.Destination = idpkit.P(rapid.SampledFrom([]string{"https://evil.example.net/sso", c.Base + "/metadata", c.Base, "https://idp.example.com/sso2"}).Draw(t, "dest"))
	case 8:
		_, v := xgen.PickNearMiss(t, sso, "dest-nearmiss")
		c.Destination = idpkit.P(v)
	default:
		c.Destination = idpkit.P("")
	}

	// client-controlled delivery of the message
	if rapid.IntRange(0, 2).Draw(t, "delivery") == 0 {
		c.Delivery = Delivery{
			Host:    rapid.SampledFrom([]string{"", "evil.example.net", "idp-alias.example.org:8443", "localhost"}).Draw(t, "delivery-host"),
			Scheme:  rapid.SampledFrom([]string{"", "", "http", "https"}).Draw(t, "delivery-scheme"),
			Path:    rapid.SampledFrom([]string{"", "", "/sso/", "/other/sso", "/saml/slo"}).Draw(t, "delivery-path"),
			Query:   rapid.SampledFrom([]string{"", "", "tenant=t1", "Destination=x&a=b"}).Draw(t, "delivery-query"),
			XFHost:  rapid.SampledFrom([]string{"", "", "evil.example.net", "proxy.example.org"}).Draw(t, "delivery-xfh"),
			XFProto: rapid.SampledFrom([]string{"", "http", "https"}).Draw(t, "delivery-xfp"),
		}
		if seen := c.Delivery.seenAs(sso); len(seen) > 0 && rapid.IntRange(0, 1).Draw(t, "dest-as-delivered") == 0 {
			// the request is made out to the address it was delivered at, not to this IdP's SSO URL
			c.Destination = idpkit.P(rapid.SampledFrom(seen).Draw(t, "dest-delivered"))
		}
	}
	// ProtocolBinding
	if rapid.IntRange(0, 2).Draw(t, "protocol-binding") == 0 {
		c.Binding = idpkit.P(rapid.SampledFrom([]string{post, post, redirect, artifact, soap, unknownB, ""}).Draw(t, "binding-attr"))
	}

	// Version
	switch rapid.IntRange(0, 9).Draw(t, "versionclass") {
	case 0:
	case 1:
		c.Version = idpkit.P(rapid.SampledFrom([]string{"1.1", "2.1", "2", "2.00", " 2.0", "2.0 ", "20", "", "3.0", "2.0.0"}).Draw(t, "version"))
	default:
		c.Version = idpkit.P("2.0")
	}

	// IssueInstant
	switch rapid.IntRange(0, 14).Draw(t, "instantclass") {
	case 0:
		c.Instant = "absent"
	case 1:
		c.Instant = "garbage"
		c.Garbage = rapid.SampledFrom([]string{"", "now", "2020-06-15", "12:00:00Z", "2020-13-45T99:00:00Z", "1592222400"}).Draw(t, "garbage")
	default:
		c.Instant = "age"
		c.AgeMs = genAge(t, c.DelayMs)
		c.Lex = rapid.IntRange(0, len(lexForms)-1).Draw(t, "lex")
	}

	// ACS URL / index
	var eps []EP
	if target != nil {
		eps = allEPs(*target)
	}
	switch rapid.IntRange(0, 11).Draw(t, "urlclass") {
	case 0, 1, 2, 3:
	case 4, 5, 6, 7:
		if len(eps) > 0 {
			c.ACSURL = idpkit.P(rapid.SampledFrom(eps).Draw(t, "url-registered").Location)
		} else {
			c.ACSURL = idpkit.P(rapid.SampledFrom(pool).Draw(t, "url-pool"))
		}
	case 8:
		c.ACSURL = idpkit.P(rapid.SampledFrom(pool).Draw(t, "url-pool"))
	case 9:
		if len(eps) > 0 {
			_, v := xgen.PickNearMiss(t, rapid.SampledFrom(eps).Draw(t, "url-nm-of").Location, "url-nearmiss")
			c.ACSURL = idpkit.P(v)
		} else {
			c.ACSURL = idpkit.P("https://evil.example.net/acs")
		}
	case 10:
		c.ACSURL = idpkit.P("https://evil.example.net/acs")
	default:
		c.ACSURL = idpkit.P("")
	}
	switch rapid.IntRange(0, 11).Draw(t, "indexclass") {
	case 0, 1, 2, 3, 4, 5:
	case 6, 7, 8:
		if len(eps) > 0 {
			c.ACSIndex = idpkit.P(strconv.Itoa(rapid.SampledFrom(eps).Draw(t, "index-registered").Index))
		} else {
			c.ACSIndex = idpkit.P("1")
		}
	case 9:
		c.ACSIndex = idpkit.P(rapid.SampledFrom([]string{"7", "9", "65534", "5"}).Draw(t, "index-missing"))
	case 10:
		c.ACSIndex = idpkit.P(rapid.SampledFrom([]string{"01", "+1", " 1", "1 ", "0x1", "1.0", "abc", "-1", "99999999999999999999", "00"}).Draw(t, "index-odd"))
	default:
		c.ACSIndex = idpkit.P("")
	}
	if rapid.IntRange(0, 3).Draw(t, "then") == 0 {
		c.Then = genThen(t, c, pool)
	}
	return c
}

func findSP(list []SPMeta, id string) *SPMeta {
	for i := range list {
		if list[i].EntityID == id {
			return &list[i]
		}
	}
	return nil
}

// genThen draws the second step of a sequence: the registry content is changed
// (providers dropped, re-registered with other endpoints, added) and the same
// peer comes back, often naming an endpoint of its FORMER registration.
func genThen(t *rapid.T, first Case, pool []string) *Case {
	n := first
	n.Then = nil
	n.FaultFor = ""
	n.Providers = nil
	for _, sp := range first.Providers {
		switch rapid.IntRange(0, 3).Draw(t, "then-op") {
		case 0: // deregistered
		case 1: // unchanged
			n.Providers = append(n.Providers, sp)
		default: // re-registered with other endpoints
			re := SPMeta{EntityID: sp.EntityID, ViaXML: rapid.Bool().Draw(t, "then-viaXML")}
			nd := rapid.SampledFrom([]int{0, 1, 1, 2}).Draw(t, "then-ndescs")
			for d := 0; d < nd; d++ {
				eps := []EP{}
				for k := rapid.IntRange(0, 3).Draw(t, "then-nendpoints"); k > 0; k-- {
					eps = append(eps, genEP(t, pool[:5]))
				}
				re.Descs = append(re.Descs, eps)
			}
			n.Providers = append(n.Providers, re)
		}
	}
	if rapid.IntRange(0, 4).Draw(t, "then-new-provider") == 0 {
		n.Providers = append(n.Providers, SPMeta{EntityID: "https://sp7.example.com/saml/metadata", Descs: [][]EP{{genEP(t, pool[:5])}}})
	}
	n.Kind = rapid.SampledFrom([]string{first.Kind, first.Kind, "validate", "sso", "initiated"}).Draw(t, "then-kind")
	peer := first.Target
	if first.Issuer != nil {
		peer = *first.Issuer
	}
	if n.Kind == "initiated" {
		n.Target = peer
		return &n
	}
	if first.Kind == "initiated" {
		// the first step had no request: make a plain valid one
		n.Method, n.Instant, n.AgeMs, n.Version = "POST", "age", first.DelayMs/2, idpkit.P("2.0")
		n.Issuer = idpkit.P(peer)
	}
	n.ID = idpkit.P("id-" + rapid.StringMatching(`[a-f0-9]{12}`).Draw(t, "then-id"))
	if rapid.IntRange(0, 3).Draw(t, "then-valid-fields") != 0 {
		// a request that is valid in every clause but the registry-dependent ones, from a peer that WAS registered
		if findSP(first.Providers, peer) == nil && len(first.Providers) > 0 {
			peer = rapid.SampledFrom(first.Providers).Draw(t, "then-peer").EntityID
		}
		n.Version, n.Instant, n.AgeMs, n.Destination, n.Issuer = idpkit.P("2.0"), "age", first.DelayMs/2, nil, idpkit.P(peer)
	}
	var eps []EP
	src := rapid.SampledFrom([]string{"former", "former", "current", "none", "same"}).Draw(t, "then-acs-source")
	switch src {
	case "former":
		if sp := findSP(first.Providers, peer); sp != nil {
			eps = allEPs(*sp)
		}
	case "current":
		if sp := findSP(n.Providers, peer); sp != nil {
			eps = allEPs(*sp)
		}
	case "same":
		return &n
	}
	n.ACSURL, n.ACSIndex = nil, nil
	if len(eps) > 0 {
		e := rapid.SampledFrom(eps).Draw(t, "then-endpoint")
		switch rapid.IntRange(0, 2).Draw(t, "then-by") {
		case 0:
			n.ACSURL = idpkit.P(e.Location)
		case 1:
			n.ACSIndex = idpkit.P(strconv.Itoa(e.Index))
		default:
			n.ACSURL, n.ACSIndex = idpkit.P(e.Location), idpkit.P(strconv.Itoa(e.Index))
		}
	}
	return &n
}

// ---------------------------------------------------------------- building

func (e EP) endpoint() saml.IndexedEndpoint {
	out := saml.IndexedEndpoint{Binding: e.Binding, Location: e.Location, Index: e.Index}
	if e.Default != nil {
		b := *e.Default
		out.IsDefault = &b
	}
	if e.Response != nil {
		r := *e.Response
		out.ResponseLocation = &r
	}
	return out
}

func (sp SPMeta) descriptor() (*saml.EntityDescriptor, error) {
	md := &saml.EntityDescriptor{EntityID: sp.EntityID, ValidUntil: fix.Epoch.Add(48 * time.Hour)}
	for _, d := range sp.Descs {
		desc := saml.SPSSODescriptor{}
		desc.ProtocolSupportEnumeration = "urn:oasis:names:tc:SAML:2.0:protocol"
		for _, e := range d {
			desc.AssertionConsumerServices = append(desc.AssertionConsumerServices, e.endpoint())
		}
		md.SPSSODescriptors = append(md.SPSSODescriptors, desc)
	}
	if sp.ViaXML {
		out, _, err := idpkit.RoundTrip(md)
		return out, err
	}
	return md, nil
}

var lexForms = []func(time.Time) string{
	func(t time.Time) string { return t.UTC().Format("2006-01-02T15:04:05.000Z") },
	func(t time.Time) string {
		return t.In(time.FixedZone("", 5*3600+1800)).Format("2006-01-02T15:04:05.000-07:00")
	},
	func(t time.Time) string { return t.UTC().Format("2006-01-02T15:04:05.999Z07:00") },
	// zone-less forms: no designator means UTC, wherever the IdP process runs
	func(t time.Time) string { return t.UTC().Format("2006-01-02T15:04:05.000") },
	func(t time.Time) string { return t.UTC().Format("2006-01-02T15:04:05.999") },
	func(t time.Time) string { return t.UTC().Format("2006-01-02T15:04:05.000000000Z") },
	func(t time.Time) string {
		return t.In(time.FixedZone("", -8*3600)).Format("2006-01-02T15:04:05.999-07:00")
	},
}

func (c Case) spec(now time.Time) idpkit.ReqSpec {
	s := idpkit.ReqSpec{ID: c.ID, Version: c.Version, Destination: c.Destination, Issuer: c.Issuer, ACSURL: c.ACSURL, ACSIndex: c.ACSIndex, Binding: c.Binding, Style: c.Style, Rot: c.Rot}
	switch c.Instant {
	case "age":
		s.IssueInstant = idpkit.P(lexForms[c.Lex%len(lexForms)](now.Add(-time.Duration(c.AgeMs) * time.Millisecond)))
	case "garbage":
		s.IssueInstant = idpkit.P(c.Garbage)
	}
	return s
}

// ---------------------------------------------------------------- oracle

func xmlTrim(s string) string { return strings.Trim(s, " \t\r\n") }

func given(p *string) bool { return p != nil && *p != "" }

// mustReject lists the reasons for which the property demands refusal.
func (c Case) mustReject(reg map[string]*saml.EntityDescriptor) (reasons []string, dontcare []string) {
	sso := c.Base + "/sso"
	switch c.Instant {
	case "absent":
		reasons = append(reasons, "IssueInstant absent (not fresh)")
	case "garbage":
		reasons = append(reasons, "IssueInstant is not an xsd:dateTime")
	default:
		switch {
		case c.AgeMs > c.DelayMs:
			reasons = append(reasons, fmt.Sprintf("stale: issued %d ms ago, MaxIssueDelay %d ms", c.AgeMs, c.DelayMs))
		case c.AgeMs == c.DelayMs:
			dontcare = append(dontcare, "age exactly MaxIssueDelay")
		case c.AgeMs < 0:
			dontcare = append(dontcare, "future-dated")
		}
	}
	if c.Version == nil {
		reasons = append(reasons, "Version absent")
	} else if *c.Version != "2.0" {
		reasons = append(reasons, fmt.Sprintf("Version %q", *c.Version))
	}
	if c.Destination != nil && *c.Destination != sso {
		switch {
		case *c.Destination == "":
			dontcare = append(dontcare, "empty Destination")
		case xmlTrim(*c.Destination) == sso:
			dontcare = append(dontcare, "Destination differs by surrounding white space only")
		default:
			reasons = append(reasons, fmt.Sprintf("Destination %q is not the SSO URL %q", *c.Destination, sso))
		}
	}
	switch {
	case c.Issuer == nil:
		reasons = append(reasons, "Issuer absent")
	case c.FaultFor != "" && c.FaultFor == *c.Issuer:
		reasons = append(reasons, "registry lookup fails")
	case reg[*c.Issuer] == nil:
		if reg[xmlTrim(*c.Issuer)] != nil {
			dontcare = append(dontcare, "Issuer differs from a registered one by surrounding white space only")
		} else {
			reasons = append(reasons, fmt.Sprintf("Issuer %q unknown to the registry", *c.Issuer))
		}
	}
	return
}

func (c Case) selection(sel *saml.IndexedEndpoint, md *saml.EntityDescriptor) (string, string) {
	return idpkit.JudgeSelection(sel, md, c.ACSIndex, c.ACSURL)
}

// resolvable: the property's own selection rule yields an endpoint for certain.
func (c Case) resolvable(md *saml.EntityDescriptor) bool {
	reg := idpkit.AllACS(md)
	if (c.ACSIndex != nil && *c.ACSIndex == "") || (c.ACSURL != nil && *c.ACSURL == "") {
		return false
	}
	if c.ACSIndex != nil && idpkit.CanonicalInt.MatchString(*c.ACSIndex) && !strings.HasPrefix(*c.ACSIndex, "-") {
		for _, e := range reg {
			if strconv.Itoa(e.Index) == *c.ACSIndex {
				return true
			}
		}
	}
	if c.ACSURL != nil {
		for _, e := range reg {
			if e.Location == *c.ACSURL {
				return true
			}
		}
		return false
	}
	if c.ACSIndex != nil {
		return false
	}
	for _, e := range reg {
		if idpkit.InSet(e.Binding, post, redirect) {
			return true
		}
	}
	return false
}

func boolp(b bool) *bool { return &b }

func (c Case) classes() []string {
	cl := []string{"kind:" + c.Kind}
	if c.Kind == "initiated" {
		return cl
	}
	cl = append(cl, "enc:"+c.Method, fmt.Sprintf("style:%d", c.Style))
	switch c.Instant {
	case "age":
		switch {
		case c.AgeMs == c.DelayMs-1:
			cl = append(cl, "instant:limit-1ms")
		case c.AgeMs == c.DelayMs:
			cl = append(cl, "instant:limit")
		case c.AgeMs == c.DelayMs+1:
			cl = append(cl, "instant:limit+1ms")
		case c.AgeMs > c.DelayMs:
			cl = append(cl, "instant:stale")
		case c.AgeMs < 0:
			cl = append(cl, "instant:future")
		default:
			cl = append(cl, "instant:fresh")
		}
		if c.DelayMs != 90000 {
			cl = append(cl, "delay:non-default")
		}
		cl = append(cl, fmt.Sprintf("lex:%d", c.Lex%len(lexForms)))
		if c.LocalMin != 0 {
			cl = append(cl, "local-zone:non-utc")
			if l := c.Lex % len(lexForms); l == 3 || l == 4 {
				cl = append(cl, "local-zone:non-utc+zone-less-instant")
			}
		}
	default:
		cl = append(cl, "instant:"+c.Instant)
	}
	opt := func(name string, p *string) {
		switch {
		case p == nil:
			cl = append(cl, name+":absent")
		case *p == "":
			cl = append(cl, name+":empty")
		default:
			cl = append(cl, name+":present")
		}
	}
	opt("issuer", c.Issuer)
	opt("destination", c.Destination)
	if c.Destination != nil {
		for _, o := range (idpkit.IDPConf{Base: c.Base}).OtherIdentifiers() {
			if *c.Destination == o {
				cl = append(cl, "destination:other-identifier-of-the-idp")
				if o == c.Base+"/slo" && c.Extras.Logout {
					cl = append(cl, "destination:configured-logout-url")
				}
			}
		}
	}
	opt("version", c.Version)
	opt("acs-url", c.ACSURL)
	opt("acs-index", c.ACSIndex)
	opt("protocol-binding", c.Binding)
	if c.Delivery != (Delivery{}) {
		cl = append(cl, "delivery:client-controlled-parts-varied")
		if c.Destination != nil && idpkit.InSet(*c.Destination, c.Delivery.seenAs(c.Base+"/sso")...) {
			cl = append(cl, "destination:as-delivered")
		}
	}
	return cl
}

func nEndpoints(md *saml.EntityDescriptor) int { return len(idpkit.AllACS(md)) }

// load replaces the registry content (same Registry value, as a live deployment would).
func load(reg *idpkit.Registry, c Case) bool {
	for k := range reg.M {
		delete(reg.M, k)
	}
	for k := range reg.Fault {
		delete(reg.Fault, k)
	}
	for _, sp := range c.Providers {
		md, err := sp.descriptor()
		if err != nil {
			return false
		}
		reg.M[sp.EntityID] = md
	}
	if c.FaultFor != "" {
		reg.Fault[c.FaultFor] = errors.New("store: input/output error")
	}
	return true
}

func check(c Case) (res pbt.Result) {
	if c.LocalMin != 0 && c.LocalMin > -900 && c.LocalMin < 900 {
		old := time.Local
		time.Local = time.FixedZone("harness-local", c.LocalMin*60)
		defer func() { time.Local = old }()
	}
	now := fix.Epoch
	fix.SetNow(now)
	saml.MaxIssueDelay = time.Duration(c.DelayMs) * time.Millisecond

	reg := &idpkit.Registry{M: map[string]*saml.EntityDescriptor{}, Fault: map[string]error{}}
	if !load(reg, c) {
		// metadata the library itself refuses to parse cannot be registered: outside the domain
		return pbt.Result{Skip: true}
	}
	sess := &idpkit.Sessions{S: idpkit.Sess{ID: "s1", Index: "ix1", NameID: "alice-nameid", UserName: "alice", Email: "alice@example.com", Groups: []string{"g1", "g2"}}.Session(now.Add(-time.Minute))}
	conf := c.Extras
	conf.Base = c.Base
	idp := conf.Build(reg, sess)

	res = c.step(idp, reg, sess, now)
	if c.Then == nil || res.Err != "" || res.Skip {
		return res
	}
	// second step on the same IdentityProvider value, registry replaced in between
	n := *c.Then
	n.Base, n.DelayMs, n.Extras, n.Relay = c.Base, c.DelayMs, c.Extras, c.Relay
	if !load(reg, n) {
		return pbt.Result{Skip: true}
	}
	sess.Seen = nil
	idp.Logger.(*idpkit.Quiet).Lines = nil
	r2 := n.step(idp, reg, sess, now)
	res.Classes = append(res.Classes, "sequence:two-steps")
	for _, k := range r2.Classes {
		if strings.HasPrefix(k, "outcome:") || strings.HasPrefix(k, "select:") || strings.HasPrefix(k, "expect:") {
			res.Classes = append(res.Classes, "second:"+k)
		}
	}
	res.NonTrivial = true
	if r2.Err != "" {
		res.Err = "second step (same IdentityProvider, registry replaced in between): " + r2.Err
	}
	return res
}

// step handles one request or launch and judges it against the registry as it is now.
func (c Case) step(idp *saml.IdentityProvider, reg *idpkit.Registry, sess *idpkit.Sessions, now time.Time) (res pbt.Result) {
	res.Classes = c.classes()
	fail := func(f string, a ...any) pbt.Result {
		res.Err = fmt.Sprintf(f, a...)
		res.NonTrivial = true
		return res
	}

	if c.Kind == "initiated" {
		return c.checkInitiated(idp, reg, sess, res)
	}

	spec := c.spec(now)
	doc := spec.XML()
	reasons, dontcare := c.mustReject(reg.M)
	var md *saml.EntityDescriptor
	if c.Issuer != nil {
		md = reg.M[*c.Issuer]
	}
	if len(reasons) > 0 {
		res.Classes = append(res.Classes, "expect:reject")
	} else if len(dontcare) > 0 {
		res.Classes = append(res.Classes, "expect:dontcare")
	}
	// non-trivial rule
	if md != nil && nEndpoints(md) >= 2 && (given(c.ACSIndex) || given(c.ACSURL)) {
		res.NonTrivial = true
	}
	if c.Issuer == nil || c.Destination == nil || c.Version == nil || c.Instant != "age" || len(reasons) > 0 {
		res.NonTrivial = true
	}
	if c.Instant == "age" && c.AgeMs >= c.DelayMs-1 && c.AgeMs <= c.DelayMs+1 {
		res.NonTrivial = true
	}

	httpReq := idpkit.Encode(c.Method, doc, c.Relay, c.Base+"/sso")
	c.Delivery.apply(httpReq)

	if c.Kind == "validate" {
		var req *saml.IdpAuthnRequest
		var err error
		var panicked any
		var stack []byte
		func() {
			defer func() {
				if e := recover(); e != nil {
					panicked, stack = e, debug.Stack()
				}
			}()
			req, err = saml.NewIdpAuthnRequest(idp, httpReq)
			if err == nil {
				err = req.Validate()
			}
		}()
		if panicked != nil {
			res.Classes = append(res.Classes, "outcome:panic")
			return fail("request handling panicked (a refusal must be an error): %v\nmust-reject reasons: %v\nrequest: %s\n%s", panicked, reasons, doc, idpkit.CleanStack(stack, 6))
		}
		if err != nil {
			res.Classes = append(res.Classes, "outcome:error")
			if len(reasons) == 0 && len(dontcare) == 0 && md != nil && c.resolvable(md) {
				return fail("non-vacuity: a valid request (fresh, version 2.0, destination ok, registered issuer, resolvable ACS) was refused: %v\nrequest: %s\nregistered: %s", err, doc, idpkit.Keys(idpkit.AllACS(md)))
			}
			return res
		}
		res.Classes = append(res.Classes, "outcome:accepted")
		if len(reasons) > 0 {
			return fail("request was processed although the property demands refusal: %v\nrequest: %s", reasons, doc)
		}
		if md == nil {
			// only reachable through a don't-care issuer (white-space variant)
			return res
		}
		complaint, rule := c.selection(req.ACSEndpoint, md)
		res.Classes = append(res.Classes, "select:"+rule)
		if complaint != "" {
			return fail("%s\nrequest: %s\nregistered: %s", complaint, doc, idpkit.Keys(idpkit.AllACS(md)))
		}
		if req.ACSEndpoint.Location != "" && c.ACSURL != nil && req.ACSEndpoint.Location == *c.ACSURL && rule != "by-url" {
			res.Classes = append(res.Classes, "select:coincides-with-request-url")
		}
		if c.Binding != nil {
			// ProtocolBinding is no input of the routing rule: it never makes a request acceptable that is not
			// acceptable without it, nor changes the Location a request designates
			plain := c
			plain.Binding = nil
			r2 := idpkit.Encode(c.Method, plain.spec(now).XML(), c.Relay, c.Base+"/sso")
			c.Delivery.apply(r2)
			var req2 *saml.IdpAuthnRequest
			var err2 error
			func() {
				defer func() {
					if e := recover(); e != nil {
						err2 = fmt.Errorf("panic: %v", e)
					}
				}()
				if req2, err2 = saml.NewIdpAuthnRequest(idp, r2); err2 == nil {
					err2 = req2.Validate()
				}
			}()
			res.Classes = append(res.Classes, "protocol-binding:compared-with-plain-request")
			if err2 != nil {
				return fail("with ProtocolBinding=%q the request is processed (endpoint %s), without the attribute the same request is refused (%v)\nrequest: %s\nregistered: %s",
					*c.Binding, idpkit.EndpointKey(req.ACSEndpoint), err2, doc, idpkit.Keys(idpkit.AllACS(md)))
			}
			if req2.ACSEndpoint == nil || req2.ACSEndpoint.Location != req.ACSEndpoint.Location {
				return fail("ProtocolBinding=%q changes the designated endpoint: %s with it, %s without\nrequest: %s", *c.Binding, idpkit.EndpointKey(req.ACSEndpoint), idpkit.EndpointKey(req2.ACSEndpoint), doc)
			}
		}
		return res
	}

	// Kind sso: the whole handler.
	rec := httptest.NewRecorder()
	var panicked any
	var stack []byte
	func() {
		defer func() {
			if e := recover(); e != nil {
				panicked, stack = e, debug.Stack()
			}
		}()
		idp.ServeSSO(rec, httpReq)
	}()
	if panicked != nil {
		res.Classes = append(res.Classes, "outcome:panic")
		return fail("ServeSSO panicked (a refusal must be an error status): %v\nmust-reject reasons: %v\nrequest: %s\n%s", panicked, reasons, doc, idpkit.CleanStack(stack, 6))
	}
	status := rec.Code
	body := rec.Body.Bytes()
	form, ferr := idpkit.ReadForm(body)
	hasResponse := ferr == nil && form.Fields["SAMLResponse"] != ""
	if status >= 400 {
		res.Classes = append(res.Classes, "outcome:error-status")
		if hasResponse {
			return fail("status %d but the body carries a SAMLResponse form", status)
		}
		if len(reasons) == 0 && len(dontcare) == 0 && md != nil && c.resolvable(md) && c.postOnly(md) {
			return fail("non-vacuity: a valid request whose every candidate endpoint is HTTP-POST got status %d\nrequest: %s\nlog: %v", status, doc, idp.Logger.(*idpkit.Quiet).Lines)
		}
		return res
	}
	if status != 200 {
		return fail("ServeSSO answered status %d: neither a response form nor an error status", status)
	}
	res.Classes = append(res.Classes, "outcome:form")
	if len(reasons) > 0 {
		return fail("ServeSSO answered 200 although the property demands refusal: %v\nrequest: %s", reasons, doc)
	}
	if !hasResponse {
		return fail("status 200 without a SAMLResponse form: %v\n%s", ferr, firstLines(string(body), 5))
	}
	if md == nil {
		return res
	}
	if len(sess.Seen) != 1 {
		return fail("session provider consulted %d times", len(sess.Seen))
	}
	sel := sess.Seen[0].ACSEndpoint
	complaint, rule := c.selection(sel, md)
	res.Classes = append(res.Classes, "select:"+rule)
	if complaint != "" {
		return fail("%s\nrequest: %s", complaint, doc)
	}
	return c.checkForm(form, sel, md, res)
}

// postOnly: every registered endpoint is HTTP-POST, so whichever the rule picks can be answered.
func (c Case) postOnly(md *saml.EntityDescriptor) bool {
	for _, e := range idpkit.AllACS(md) {
		if e.Binding != post {
			return false
		}
	}
	return true
}

func (c Case) checkForm(form *idpkit.Form, sel *saml.IndexedEndpoint, md *saml.EntityDescriptor, res pbt.Result) pbt.Result {
	fail := func(f string, a ...any) pbt.Result {
		res.Err = fmt.Sprintf(f, a...)
		res.NonTrivial = true
		return res
	}
	// ground truth from the request and the registry alone, not from what the implementation stored
	allowed := idpkit.AllowedTargets(md, c.ACSIndex, c.ACSURL, c.Kind == "initiated")
	if !idpkit.InSet(form.Action, allowed...) {
		return fail("form action %q is not the Location of a registered HTTP-POST endpoint the request admits (admitted: %q; registered: %s)", form.Action, allowed, idpkit.Keys(idpkit.AllACS(md)))
	}
	if form.NForms != 1 {
		return fail("%d form elements emitted", form.NForms)
	}
	if !strings.EqualFold(form.Method, "post") {
		return fail("form method %q, want post", form.Method)
	}
	if sel.Binding != post {
		return fail("a response form was emitted for endpoint %s whose binding is not HTTP-POST", idpkit.EndpointKey(sel))
	}
	if form.Action != sel.Location {
		return fail("form action %q differs from the selected Location %q", form.Action, sel.Location)
	}
	okPost := false
	for _, e := range idpkit.AllACS(md) {
		if e.Binding == post && e.Location == form.Action {
			okPost = true
		}
	}
	if !okPost {
		return fail("form action %q is not the Location of a registered HTTP-POST endpoint %s", form.Action, idpkit.Keys(idpkit.AllACS(md)))
	}
	if _, err := base64.StdEncoding.DecodeString(form.Fields["SAMLResponse"]); err != nil {
		return fail("SAMLResponse is not base64: %v", err)
	}
	if form.Fields["RelayState"] != c.Relay {
		return fail("RelayState %q, want %q", form.Fields["RelayState"], c.Relay)
	}
	return res
}

func (c Case) checkInitiated(idp *saml.IdentityProvider, reg *idpkit.Registry, sess *idpkit.Sessions, res pbt.Result) pbt.Result {
	fail := func(f string, a ...any) pbt.Result {
		res.Err = fmt.Sprintf(f, a...)
		res.NonTrivial = true
		return res
	}
	md := reg.M[c.Target]
	faulty := c.FaultFor != "" && c.FaultFor == c.Target
	res.NonTrivial = md == nil || faulty || nEndpoints(md) >= 2
	rec := httptest.NewRecorder()
	r := httptest.NewRequest("GET", c.Base+"/login/shortcut", nil)
	r.RemoteAddr = "192.0.2.7:4711"
	var panicked any
	var stack []byte
	func() {
		defer func() {
			if e := recover(); e != nil {
				panicked, stack = e, debug.Stack()
			}
		}()
		idp.ServeIDPInitiated(rec, r, c.Target, c.Relay)
	}()
	if panicked != nil {
		return fail("ServeIDPInitiated panicked: %v\n%s", panicked, idpkit.CleanStack(stack, 6))
	}
	form, ferr := idpkit.ReadForm(rec.Body.Bytes())
	hasResponse := ferr == nil && form.Fields["SAMLResponse"] != ""
	hasPost := false
	if md != nil {
		for _, e := range idpkit.AllACS(md) {
			if e.Binding == post {
				hasPost = true
			}
		}
	}
	if rec.Code >= 400 {
		res.Classes = append(res.Classes, "outcome:error-status")
		if hasResponse {
			return fail("status %d but the body carries a SAMLResponse form", rec.Code)
		}
		if md != nil && !faulty && hasPost {
			return fail("non-vacuity: launch for a registered provider with an HTTP-POST endpoint got status %d; log %v", rec.Code, idp.Logger.(*idpkit.Quiet).Lines)
		}
		return res
	}
	if rec.Code != 200 {
		return fail("ServeIDPInitiated answered status %d", rec.Code)
	}
	res.Classes = append(res.Classes, "outcome:form")
	if md == nil || faulty {
		return fail("launch for %q answered 200 although the registry does not know that provider", c.Target)
	}
	if !hasResponse {
		return fail("status 200 without a SAMLResponse form: %v", ferr)
	}
	if len(sess.Seen) != 1 || sess.Seen[0].ACSEndpoint == nil {
		return fail("no endpoint selected (session provider consulted %d times)", len(sess.Seen))
	}
	sel := sess.Seen[0].ACSEndpoint
	if !idpkit.Member(*sel, idpkit.AllACS(md)) {
		return fail("selected endpoint %s is not registered %s", idpkit.EndpointKey(sel), idpkit.Keys(idpkit.AllACS(md)))
	}
	res.Classes = append(res.Classes, "select:initiated")
	return c.checkForm(form, sel, md, res)
}

func firstLines(s string, n int) string {
	l := strings.Split(s, "\n")
	if len(l) > n {
		l = l[:n]
	}
	return strings.Join(l, "\n")
}

// ---------------------------------------------------------------- exhaustive parts

// enumFreshness: every MaxIssueDelay value x ages around the limit x encodings x entry points.
func enumFreshness(_ string, emit func(Case)) {
	sp := SPMeta{EntityID: "https://sp0.example.com/saml/metadata", Descs: [][]EP{{{Binding: post, Location: "https://sp0.example.com/saml/acs", Index: 1}}}}
	for _, delay := range []int64{90000, 0, 1, 2, 1000, 7000, 3600000, 86400000} {
		for _, age := range []int64{-delay - 1000, -1, 0, delay / 2, delay - 1, delay, delay + 1, delay + 1000, 10*delay + 1, 365 * 86400000} {
			for _, m := range []string{"GET", "POST"} {
				for _, k := range []string{"validate", "sso"} {
					for lex := 0; lex < len(lexForms); lex++ {
						for _, local := range []int{0, -720, -300, -1, 1, 330, 840} {
							if k == "sso" && !((lex == 0 || lex == 3) && (local == 0 || local == -300)) {
								continue
							}
							emit(Case{Kind: k, Base: "https://idp.example.com", DelayMs: delay, Providers: []SPMeta{sp}, Method: m,
								Instant: "age", AgeMs: age, Lex: lex, LocalMin: local, ID: idpkit.P("id-1"), Version: idpkit.P("2.0"),
								Destination: idpkit.P("https://idp.example.com/sso"), Issuer: idpkit.P(sp.EntityID)})
						}
					}
				}
			}
		}
	}
}

// enumSelection: all two-endpoint descriptors over binding x isDefault, crossed with what the request names.
func enumSelection(_ string, emit func(Case)) {
	bs := []string{post, redirect, artifact, soap, unknownB}
	ds := []*bool{nil, boolp(true), boolp(false)}
	locA, locB := "https://sp0.example.com/saml/acs", "https://sp0.example.com/saml/acs/b"
	for _, b1 := range bs {
		for _, d1 := range ds {
			for _, b2 := range bs {
				for _, d2 := range ds {
					for _, dupIdx := range []bool{false, true} {
						i2 := 2
						if dupIdx {
							i2 = 1
						}
						sp := SPMeta{EntityID: "https://sp0.example.com/saml/metadata", Descs: [][]EP{{{Binding: b1, Location: locA, Index: 1, Default: d1}, {Binding: b2, Location: locB, Index: i2, Default: d2}}}}
						for rb := 0; rb < 6*4; rb++ {
							r := rb % 6
							c := Case{Kind: "validate", Base: "https://idp.example.com", DelayMs: 90000, Providers: []SPMeta{sp}, Method: "POST",
								Instant: "age", AgeMs: 1000, ID: idpkit.P("id-1"), Version: idpkit.P("2.0"), Issuer: idpkit.P(sp.EntityID)}
							// the optional ProtocolBinding attribute: absent, the first / second endpoint's binding, an unknown one
							switch rb / 6 {
							case 1:
								c.Binding = idpkit.P(b1)
							case 2:
								c.Binding = idpkit.P(b2)
							case 3:
								c.Binding = idpkit.P("urn:example:binding")
							}
							switch r {
							case 1:
								c.ACSIndex = idpkit.P("1")
							case 2:
								c.ACSIndex = idpkit.P("2")
							case 3:
								c.ACSURL = idpkit.P(locB)
							case 4:
								c.ACSIndex, c.ACSURL = idpkit.P("1"), idpkit.P(locB)
							case 5:
								c.ACSURL = idpkit.P("https://evil.example.net/acs")
							}
							emit(c)
						}
					}
				}
			}
		}
	}
}

// enumFields: every field independently {correct, forged, absent} for both encodings.
func enumFields(_ string, emit func(Case)) {
	sp := SPMeta{EntityID: "https://sp0.example.com/saml/metadata", Descs: [][]EP{{{Binding: post, Location: "https://sp0.example.com/saml/acs", Index: 1}}}}
	tri := func(ok, forged string) []*string { return []*string{idpkit.P(ok), idpkit.P(forged), nil} }
	for _, iss := range tri(sp.EntityID, "https://nobody.example.com/metadata") {
		for _, dst := range tri("https://idp.example.com/sso", "https://evil.example.net/sso") {
			for _, ver := range tri("2.0", "1.1") {
				for _, url := range tri("https://sp0.example.com/saml/acs", "https://evil.example.net/acs") {
					for _, idx := range tri("1", "7") {
						for _, inst := range []string{"age", "stale", "absent"} {
							for _, m := range []string{"GET", "POST"} {
								c := Case{Kind: "validate", Base: "https://idp.example.com", DelayMs: 90000, Providers: []SPMeta{sp}, Method: m,
									Instant: "age", AgeMs: 1000, ID: idpkit.P("id-1"), Version: ver, Destination: dst, Issuer: iss, ACSURL: url, ACSIndex: idx}
								switch inst {
								case "stale":
									c.AgeMs = 900000
								case "absent":
									c.Instant = "absent"
								}
								if c.Issuer == nil && excluded("C05_NOISSUER") {
									continue
								}
								emit(c)
							}
						}
					}
				}
			}
		}
	}
}

// enumDestinations: a Destination naming ANOTHER identifier of the same deployment (logout URL, metadata URL,
// login URL, base) or of the requesting SP, for every combination of LogoutURL / LoginURL being configured.
func enumDestinations(_ string, emit func(Case)) {
	sp := SPMeta{EntityID: "https://sp0.example.com/saml/metadata", Descs: [][]EP{{{Binding: post, Location: "https://sp0.example.com/saml/acs", Index: 1}}}}
	for _, base := range []string{"https://idp.example.com", "https://idp.example.com:8443/auth"} {
		conf := idpkit.IDPConf{Base: base}
		dests := append([]string{conf.SSOURL(), sp.EntityID, "https://sp0.example.com/saml/acs"}, conf.OtherIdentifiers()...)
		for _, logout := range []bool{false, true} {
			for _, login := range []bool{false, true} {
				for _, d := range dests {
					for _, m := range []string{"GET", "POST"} {
						for _, k := range []string{"validate", "sso"} {
							emit(Case{Kind: k, Base: base, DelayMs: 90000, Providers: []SPMeta{sp}, Method: m, Instant: "age", AgeMs: 1000,
								ID: idpkit.P("id-1"), Version: idpkit.P("2.0"), Issuer: idpkit.P(sp.EntityID), Destination: idpkit.P(d),
								Extras: idpkit.IDPConf{Logout: logout, Login: login}})
						}
					}
				}
			}
		}
		// the message is delivered in a way the client chose (Host header, forwarding headers, path, query) and is made
		// out to the address it was delivered at, or to the configured SSO URL
		for _, dl := range []Delivery{
			{Host: "evil.example.net"}, {Host: "idp-alias.example.org:8443"}, {XFHost: "evil.example.net", XFProto: "https"}, {XFHost: "proxy.example.org", XFProto: "http"},
			{Path: "/saml/slo"}, {Path: "/other/sso", Host: "evil.example.net"}, {Scheme: "http"}, {Query: "tenant=t1"},
			{Host: "evil.example.net", Scheme: "http", Path: "/x", Query: "a=b", XFHost: "proxy.example.org", XFProto: "https"},
		} {
			for _, d := range append([]string{conf.SSOURL()}, dl.seenAs(conf.SSOURL())...) {
				for _, m := range []string{"GET", "POST"} {
					for _, k := range []string{"validate", "sso"} {
						emit(Case{Kind: k, Base: base, DelayMs: 90000, Providers: []SPMeta{sp}, Method: m, Instant: "age", AgeMs: 1000,
							ID: idpkit.P("id-1"), Version: idpkit.P("2.0"), Issuer: idpkit.P(sp.EntityID), Destination: idpkit.P(d), Delivery: dl})
					}
				}
			}
		}
	}
}

// enumSequences: one IdentityProvider value, a first valid request, then the provider is deregistered or
// re-registered with other endpoints and comes back naming its former or its current endpoint (or nothing).
func enumSequences(_ string, emit func(Case)) {
	id := "https://sp0.example.com/saml/metadata"
	locA, locB := "https://sp0.example.com/saml/acs", "https://sp0.example.com/saml/acs/b"
	regA := []SPMeta{{EntityID: id, Descs: [][]EP{{{Binding: post, Location: locA, Index: 1, Default: boolp(true)}}}}}
	afters := [][]SPMeta{
		{}, // deregistered
		{{EntityID: id, Descs: [][]EP{{{Binding: post, Location: locB, Index: 2}}}}},
		{{EntityID: id, Descs: [][]EP{{{Binding: post, Location: locB, Index: 1}}}}},
		{{EntityID: id, Descs: [][]EP{{{Binding: soap, Location: locA, Index: 1}}}}},
		{{EntityID: id, ViaXML: true, Descs: [][]EP{{{Binding: post, Location: locB, Index: 0, Response: idpkit.P(locA)}}, {{Binding: redirect, Location: locA, Index: 1, Default: boolp(true)}}}}},
		{{EntityID: "https://sp1.example.com/saml/metadata", Descs: regA[0].Descs}}, // same endpoints, other entity
	}
	base := Case{Base: "https://idp.example.com", DelayMs: 90000, Method: "POST", Instant: "age", AgeMs: 1000, ID: idpkit.P("id-1"), Version: idpkit.P("2.0"), Issuer: idpkit.P(id)}
	for _, k1 := range []string{"validate", "sso", "initiated"} {
		for _, after := range afters {
			for _, k2 := range []string{"validate", "sso", "initiated"} {
				for r := 0; r < 5; r++ {
					first := base
					first.Kind, first.Providers, first.Target = k1, regA, id
					second := base
					second.Kind, second.Providers, second.Target, second.ID = k2, after, id, idpkit.P("id-2")
					switch r {
					case 1:
						second.ACSURL = idpkit.P(locA)
					case 2:
						second.ACSIndex = idpkit.P("1")
					case 3:
						second.ACSURL = idpkit.P(locB)
					case 4:
						first.ACSURL, second.ACSURL, second.ACSIndex = idpkit.P(locA), idpkit.P(locA), idpkit.P("1")
					}
					if k2 == "initiated" && r > 0 {
						continue
					}
					first.Then = &second
					emit(first)
				}
			}
		}
	}
}

var prop = &pbt.Prop[Case]{
	ID: "C05",
	Rule: "cases: AuthnRequests written from a template (Issuer, Destination, Version, IssueInstant, ACS URL, ACS index each present-correct / forged / near-miss / empty / absent; GET-deflate and POST; four namespace styles) " +
		"against registries of 0-3 providers x 0-3 SPSSODescriptors x 0-4 ACS endpoints (bindings POST/Redirect/Artifact/SOAP/unknown, duplicate indices and locations, isDefault absent/true/false), through NewIdpAuthnRequest+Validate, ServeSSO and ServeIDPInitiated; " +
		"IdP configuration fields no clause mentions are varied (LogoutURL, LoginURL, ValidDuration, form template, explicit assertion maker, Signer, signature method), endpoints may carry ResponseLocation and zero / huge / negative indices, " +
		"forged Destinations include the other identifiers of the same deployment (logout, metadata, login URL) and of the requesting SP, and a quarter of the cases are two-step sequences on ONE IdentityProvider value with the registry replaced in between (the second step is judged against the registry at that moment); " +
		"IssueInstant is written in seven lexical forms (Z, positive / negative offsets, trimmed and 9-digit fractions, zone-less = UTC) while the process's local zone (time.Local) is UTC or one of -12h..+14h; " +
		"the optional ProtocolBinding attribute (absent / each standard binding / unknown / empty) is crossed with the selection grid and judged by a metamorphic clause (it never makes a request acceptable nor changes the designated Location); the client-controlled delivery of the message is varied (Host header and URL host, scheme, path, extra query, X-Forwarded-Host/Proto) with Destinations made out to the address of delivery; " +
		"exhaustive: MaxIssueDelay x age lattice (+-1 ms) x lexical form x local zone, two-endpoint selection grid, 3^5 field presence grid, destination x LogoutURL/LoginURL grid, re-registration sequences. " +
		"non-trivial: >=2 registered endpoints and the request names an index or URL; or a field absent/forged/must-reject; or IssueInstant within 1 ms of the limit; IdP-initiated: unknown/faulty provider or >=2 endpoints. distinct: sha256 of the JSON case.",
	Gen:   gen,
	Check: check,
	Reset: fix.Reset,
	Enums: []pbt.Enum[Case]{
		{Name: "freshness-lattice", Each: enumFreshness},
		{Name: "two-endpoint-selection-grid", Each: enumSelection},
		{Name: "field-presence-grid", Each: enumFields},
		{Name: "destination-other-identifiers", Each: enumDestinations},
		{Name: "re-registration-sequences", Each: enumSequences},
	},
	Assumptions: []string{
		"'fresh' is the one-sided bound (IssueInstant + MaxIssueDelay >= now); future-dated requests and exact equality are not judged",
		"values that differ from a correct anyURI only by surrounding XML white space, empty attribute values, non-canonical index spellings, and requests whose index/URL is not registered are judged on the membership clause only",
		"browser binding = HTTP-POST or HTTP-Redirect (HTTP-Artifact tolerated); 'first/default' accepts the SAML metadata reading (first not marked isDefault=false) as well",
		"IdP-initiated launches are judged on membership + HTTP-POST binding only (the property does not say isDefault applies there)",
		"non-vacuity (not part of the property): a request valid under every clause with a certainly resolvable endpoint must be processed",
		"registry entity IDs are non-empty; a Logger is configured (the handlers dereference it)",
		"the form target is judged against the set of Locations derived from the request and the registry alone (AllowedTargets), in addition to the endpoint the implementation reports as selected",
		"ProtocolBinding is not an input of the routing rule the property states: a request processed with it must also be processed, to the same Location, without it (an implementation may refuse more because of it, never accept more)",
		"negative index spellings are judged by the index rule but carry no non-vacuity obligation (the schema type is unsignedShort)",
	},
}

func TestCheck(t *testing.T) { pbt.Run(t, prop) }

func FuzzCheck(f *testing.F) { pbt.Fuzz(f, prop) }
