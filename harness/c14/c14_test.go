// Package c14: peer- or caller-controlled strings cannot alter the HTML forms the
// library emits, and endpoint locations obtained from metadata XML are http(s)
// (standard bindings), blank (unknown bindings), or parsing fails.
package c14

import (
	"bytes"
	"compress/flate"
	"encoding/base64"
	"encoding/xml"
	"fmt"
	"net/http"
	"net/http/httptest"
	"net/url"
	"os"
	"reflect"
	"strconv"
	"strings"
	"testing"
	"time"
	"unicode/utf8"

	"github.com/beevik/etree"
	"github.com/crewjam/saml"
	"github.com/crewjam/saml/logger"
	"github.com/crewjam/saml/samlidp"
	"github.com/crewjam/saml/samlsp"
	"pgregory.net/rapid"

	"verif/harness/internal/fix"
	"verif/harness/internal/htmlw"
	"verif/harness/internal/pbt"
	"verif/harness/internal/samlwire"
	"verif/harness/internal/urlw"
	"verif/harness/internal/xgen"
)

// ---------------------------------------------------------------- case

// Case is a tagged union: one emitted form, or one metadata document.
type Case struct {
	Kind string `json:"kind"` // spform | mwpage | idpform | idpflow | loginform | metadata

	// forms
	Form    string `json:"form,omitempty"`    // spform: authn | logoutreq | logoutresp ; loginform: get | badlogin
	URL     string `json:"url,omitempty"`     // destination / ACS location / login URL
	Relay   string `json:"relay,omitempty"`   // relay state
	Content string `json:"content,omitempty"` // name ID, issuer, request buffer or response text: ends up inside the encoded message
	// Lead (mwpage): number of IDPSSODescriptors without a POST sign-on endpoint in front of the
	// descriptor that has it (the action must still be the configured POST endpoint).
	Lead int `json:"lead,omitempty"`

	// idpflow: the IdP is driven through its HTTP handlers with service-provider metadata that was
	// built in code (it never saw the metadata parser's scheme check).  URL is the Location of the
	// target endpoint ACS[Target] (its Loc field is ignored); Select says how the request names it.
	Select string    `json:"select,omitempty"` // url | index | index+url | missing-index+url | none | idp-initiated | url-mismatch
	Via    string    `json:"via,omitempty"`    // post | redirect (how the AuthnRequest reaches ServeSSO)
	Signed bool      `json:"signed,omitempty"` // true: the library's own DefaultAssertionMaker + signing; false: a stub maker that sets ResponseEl from Content
	ACS    []ACSSpec `json:"acs,omitempty"`
	Target int       `json:"target,omitempty"`

	// metadata
	Doc   string   `json:"doc,omitempty"`
	Notes []string `json:"notes,omitempty"` // generator's labels (histogram only; never used by the oracle)
}

// ACSSpec is one AssertionConsumerService of the in-code service-provider metadata.
type ACSSpec struct {
	Binding string `json:"binding"`
	Loc     string `json:"loc,omitempty"`
	Index   int    `json:"index"`
	Default int    `json:"default,omitempty"` // 0 absent, 1 true, 2 false
}

// ---------------------------------------------------------------- generators: hostile strings

var htmlHostile = []string{
	`"><script>alert(1)</script>`, `'><script>alert(1)</script>`, `"`, `'`, "`", `<`, `>`, `&`, `&amp;`, `&#x`, `&#34;`, `&quot;`, `&#x22;>`, `&lt;script&gt;`,
	`{{`, `}}`, `{{.}}`, `{{.URL}}`, `{{"`, `</form>`, `</form><form action="//evil.example/">`, `<input name="x" value="y">`, `</script>`, `<script>`, `<!--`, `-->`, `--!>`, `]]>`, `<![CDATA[`,
	"\x00", "\r", "\n", "\r\n", "\t", "\x0b", "\x0c", "\x01", "\x1b", "\x7f", "\u0085", "\u2028", "\u2029", "\ufeff", "\ufffd", "\U000e0001",
	`javascript:alert(1)`, ` onmouseover=alert(1) `, `" autofocus onfocus="alert(1)`, `\`, `\"`, `\u003c`, `%22%3E`, `+`, `=`, `;`, `/`, `//`, `?`, `#`, ` `, `é`, `日本語`, `😀`,
}

func genHostile(t *rapid.T, label string) string {
	switch rapid.IntRange(0, 6).Draw(t, label+"class") {
	case 0:
		return ""
	case 1:
		return rapid.StringMatching(`[A-Za-z0-9_.-]{1,20}`).Draw(t, label+"plain")
	case 2:
		return xgen.Text().Draw(t, label+"xml")
	case 3: // any valid UTF-8, control characters and NUL included
		rs := rapid.SliceOfN(rapid.Rune().Filter(func(r rune) bool { return r != utf8.RuneError }), 1, 12).Draw(t, label+"runes")
		return string(rs)
	default:
		n := rapid.IntRange(1, 5).Draw(t, label+"n")
		var sb strings.Builder
		for i := 0; i < n; i++ {
			if rapid.Bool().Draw(t, label+"w") {
				sb.WriteString(rapid.StringMatching(`[a-zA-Z0-9]{0,6}`).Draw(t, label+"word"))
			}
			sb.WriteString(rapid.SampledFrom(htmlHostile).Draw(t, label+"tok"))
		}
		return sb.String()
	}
}

var hostileURLs = []string{
	"javascript:alert(1)", "JaVaScRiPt:alert(1)", " javascript:alert(1)", "\tjavascript:alert(1)", "\x01javascript:alert(1)", "java\tscript:alert(1)", "java\nscript:alert(1)", "java\rscript:alert(1)",
	"javascript&colon;alert(1)", "javascript://%0aalert(1)", "data:text/html,<script>alert(1)</script>", "data:text/html;base64,PHNjcmlwdD5hbGVydCgxKTwvc2NyaXB0Pg==", "DATA:,x", "vbscript:msgbox(1)", "VbScRiPt:x",
	"livescript:x", "mocha:x", "blob:https://a/b", "file:///etc/passwd", "about:blank", "mailto:a@b.example", "tel:1", "ftp://h/p", "ws://h/p", "x:y", "a:b", ":", "::", "1:2",
	"", "#", "#frag", "?q=1", "?q=javascript:1", "/", "/relative/path?x=y", "//host.example/path", "///x", "relative/path", "foo/javascript:1", "../up", ".",
	"http://", "https://", "http:", "https:javascript:alert(1)", "http:/x", "HTTPS://HOST.example/Path", "hTtP://h.example/", "https://h.example/p?a=1&b=2#f", "https://h.example/a b", "https://h.example/\"><script>alert(1)</script>",
	"https://h.example/'onmouseover='alert(1)", "https://h.example/p?x=\"y\"&z=<w>", "https://h.example/%zz%41%", "https://h.example/é/日本", "https://h.example/\x00\r\n", "https://user:pw@h.example/", "https://[::1]:8443/p", "http://[::1", "ht tp://h/",
	"https://h.example/{{.RelayState}}", "{{.URL}}", "https://h.example/</form>",
}

func genURL(t *rapid.T, label string) string {
	switch rapid.IntRange(0, 5).Draw(t, label+"class") {
	case 0:
		return xgen.HTTPURL().Draw(t, label+"http")
	case 1:
		return xgen.HTTPURL().Draw(t, label+"http") + "?" + rapid.StringMatching(`[a-z]{1,3}=[a-zA-Z0-9%&=+"'<>]{0,10}`).Draw(t, label+"q")
	case 2:
		return genHostile(t, label+"hostile")
	case 3: // a scheme-like prefix in front of something
		pre := rapid.SampledFrom([]string{"javascript:", "JAVASCRIPT:", "data:", "vbscript:", " javascript:", "\u00a0javascript:", "\x00javascript:", "jav&#x09;ascript:", "javascript\t:", "java\x00script:", "https:", "http:", "mailto:"}).Draw(t, label+"pre")
		return pre + genHostile(t, label+"rest")
	default:
		return rapid.SampledFrom(hostileURLs).Draw(t, label+"listed")
	}
}

// ---------------------------------------------------------------- generators: metadata documents

var knownBindings = []string{saml.HTTPPostBinding, saml.HTTPRedirectBinding, saml.HTTPArtifactBinding, saml.SOAPBinding, saml.SOAPBindingV1}

// otherSAMLBindings are defined by SAML 2.0 but not in the library's list: the
// library may treat them as unknown (blank) - or, one day, as known (http(s)).
var otherSAMLBindings = []string{"urn:oasis:names:tc:SAML:2.0:bindings:PAOS", "urn:oasis:names:tc:SAML:2.0:bindings:HTTP-POST-SimpleSign", "urn:oasis:names:tc:SAML:2.0:bindings:URI"}

var unknownBindings = []string{"urn:mace:shibboleth:1.0:profiles:AuthnRequest", "urn:example:binding", "", " ", "urn:oasis:names:tc:SAML:2.0:bindings:HTTP-POST ", "URN:OASIS:NAMES:TC:SAML:2.0:BINDINGS:HTTP-POST", "urn:oasis:names:tc:SAML:2.0:bindings:HTTP-Post", "javascript:alert(1)", "http://example.org/binding"}

func isKnownBinding(b string) bool {
	for _, k := range knownBindings {
		if b == k {
			return true
		}
	}
	return false
}

func isOtherSAMLBinding(b string) bool {
	return strings.HasPrefix(b, "urn:oasis:names:tc:SAML:") && !isKnownBinding(b)
}

// roles: role descriptor -> endpoint-bearing child elements (true = indexed endpoint type).
var roles = []struct {
	name string
	eps  []struct {
		el      string
		indexed bool
	}
}{
	{"IDPSSODescriptor", []struct {
		el      string
		indexed bool
	}{{"ArtifactResolutionService", true}, {"SingleLogoutService", false}, {"ManageNameIDService", false}, {"SingleSignOnService", false}, {"NameIDMappingService", false}, {"AssertionIDRequestService", false}}},
	{"SPSSODescriptor", []struct {
		el      string
		indexed bool
	}{{"ArtifactResolutionService", true}, {"SingleLogoutService", false}, {"ManageNameIDService", false}, {"AssertionConsumerService", true}}},
	{"AuthnAuthorityDescriptor", []struct {
		el      string
		indexed bool
	}{{"AuthnQueryService", false}, {"AssertionIDRequestService", false}}},
	{"AttributeAuthorityDescriptor", []struct {
		el      string
		indexed bool
	}{{"AttributeService", false}, {"AssertionIDRequestService", false}}},
	{"PDPDescriptor", []struct {
		el      string
		indexed bool
	}{{"AuthzService", false}, {"AssertionIDRequestService", false}}},
}

// attrEscape writes a value as an XML attribute value; TAB/LF/CR and other control
// characters become character references (so that they reach the library as such,
// or make the document ill-formed, which is an acceptable outcome).
func attrEscape(v string) string {
	var b strings.Builder
	for _, r := range v {
		switch {
		case r == '&':
			b.WriteString("&amp;")
		case r == '<':
			b.WriteString("&lt;")
		case r == '"':
			b.WriteString("&quot;")
		case r < 0x20 || r == 0x7f || r == 0x85 || r == 0x2028 || r == 0xfffe || r == 0xffff:
			fmt.Fprintf(&b, "&#x%X;", r)
		default:
			b.WriteRune(r)
		}
	}
	return b.String()
}

func genLocation(t *rapid.T, label string, notes *[]string) string {
	switch rapid.IntRange(0, 9).Draw(t, label+"class") {
	case 0, 1, 2:
		return xgen.HTTPURL().Draw(t, label+"ok")
	case 3:
		*notes = append(*notes, "loc:http-with-meta")
		return xgen.HTTPURL().Draw(t, label+"ok") + rapid.SampledFrom([]string{"?a=1&b=2", "#f", "/a b", "/\"><script>", "/é", "?x=<y>", "/%zz", "/\t", "/\n", " ", "\t"}).Draw(t, label+"tail")
	case 4:
		*notes = append(*notes, "loc:scheme-prefix")
		pre := rapid.SampledFrom([]string{"javascript:", "JaVaScRiPt:", "data:", "vbscript:", " javascript:", "\tjavascript:", "\njavascript:", "\x01javascript:", "java\tscript:", "java\nscript:", "\u00a0javascript:", " https://", "\thttps://", "ht\ttps://", "h\nttp://", "HTTPS://", "hTTp://", "https:", "http:javascript:", "httpx://", "https+x://", "shttp://", "mailto:", "file://", "ftp://"}).Draw(t, label+"pre")
		return pre + rapid.StringMatching(`[a-z]{1,6}\.example(/[a-z(1)]{0,8})?`).Draw(t, label+"rest")
	case 5:
		*notes = append(*notes, "loc:listed-hostile")
		return rapid.SampledFrom(hostileURLs).Draw(t, label+"listed")
	case 6:
		*notes = append(*notes, "loc:relative-or-empty")
		return rapid.SampledFrom([]string{"", "/", "/saml/acs", "//host.example/acs", "acs", "?x=1", "#f", "../x"}).Draw(t, label+"rel")
	case 7:
		*notes = append(*notes, "loc:malformed")
		return rapid.SampledFrom([]string{"http://[::1", "http://h.example:port/", "https://h.example/%", "ht tp://h/", "http://h ost/", "://x", "http//x", "https:/\\h.example/", "http:\\\\h.example\\", "\x7fhttps://h.example/", "https://h.example/\x7f", "https://h.example/\x01"}).Draw(t, label+"bad")
	default:
		*notes = append(*notes, "loc:random")
		return genHostile(t, label+"rnd")
	}
}

func genBinding(t *rapid.T, label string, notes *[]string) string {
	switch rapid.IntRange(0, 5).Draw(t, label+"bclass") {
	case 0, 1, 2:
		return rapid.SampledFrom(knownBindings).Draw(t, label+"known")
	case 3:
		*notes = append(*notes, "binding:other-saml")
		return rapid.SampledFrom(otherSAMLBindings).Draw(t, label+"other")
	default:
		*notes = append(*notes, "binding:unknown")
		return rapid.SampledFrom(unknownBindings).Draw(t, label+"unknown")
	}
}

func genEntity(t *rapid.T, label string, notes *[]string, forceRole string) string {
	var b strings.Builder
	fmt.Fprintf(&b, `<md:EntityDescriptor entityID="%s">`, attrEscape("https://"+rapid.StringMatching(`[a-z]{2,8}`).Draw(t, label+"eid")+".example/metadata"))
	nRoles := rapid.IntRange(1, 3).Draw(t, label+"nroles")
	for i := 0; i < nRoles; i++ {
		role := roles[rapid.IntRange(0, len(roles)-1).Draw(t, fmt.Sprintf("%srole%d", label, i))]
		if i == 0 && forceRole != "" {
			for _, r := range roles {
				if r.name == forceRole {
					role = r
				}
			}
		}
		fmt.Fprintf(&b, `<md:%s protocolSupportEnumeration="urn:oasis:names:tc:SAML:2.0:protocol">`, role.name)
		nEps := rapid.IntRange(1, 4).Draw(t, fmt.Sprintf("%sneps%d", label, i))
		for j := 0; j < nEps; j++ {
			l := fmt.Sprintf("%sr%de%d", label, i, j)
			ep := role.eps[rapid.IntRange(0, len(role.eps)-1).Draw(t, l+"el")]
			fmt.Fprintf(&b, `<md:%s`, ep.el)
			// attributes with the same local name in ANOTHER namespace, before and / or after the real
			// ones (prefix declared on the root, or on the element itself)
			var after string
			if rapid.IntRange(0, 3).Draw(t, l+"twin") == 0 {
				*notes = append(*notes, "attr:foreign-namespace-twin")
				prefix := "ext"
				if rapid.Bool().Draw(t, l+"twinlocal") {
					prefix = "x"
					b.WriteString(` xmlns:x="urn:example:other"`)
				}
				n := rapid.IntRange(1, 3).Draw(t, l+"twinn")
				for k := 0; k < n; k++ {
					lk := fmt.Sprintf("%stw%d", l, k)
					var a string
					switch rapid.IntRange(0, 3).Draw(t, lk+"which") {
					case 0:
						a = fmt.Sprintf(` %s:Location="%s"`, prefix, attrEscape(genLocation(t, lk+"loc", notes)))
					case 1:
						a = fmt.Sprintf(` %s:ResponseLocation="%s"`, prefix, attrEscape(genLocation(t, lk+"resp", notes)))
					case 2:
						a = fmt.Sprintf(` %s:Binding="%s"`, prefix, attrEscape(genBinding(t, lk, notes)))
					default:
						a = fmt.Sprintf(` %s:index="%d"`, prefix, rapid.IntRange(0, 9).Draw(t, lk+"idx"))
					}
					if strings.Contains(b.String()[strings.LastIndex(b.String(), "<md:"):]+after, strings.SplitN(a, "=", 2)[0]+"=") {
						continue // the same qualified attribute twice would be ill-formed
					}
					if rapid.Bool().Draw(t, lk+"before") {
						b.WriteString(a)
					} else {
						after += a
					}
				}
			}
			if rapid.IntRange(0, 19).Draw(t, l+"nob") != 0 {
				fmt.Fprintf(&b, ` Binding="%s"`, attrEscape(genBinding(t, l, notes)))
			} else {
				*notes = append(*notes, "binding:absent")
			}
			if rapid.IntRange(0, 19).Draw(t, l+"nol") != 0 {
				fmt.Fprintf(&b, ` Location="%s"`, attrEscape(genLocation(t, l+"loc", notes)))
			} else {
				*notes = append(*notes, "loc:absent")
			}
			if rapid.IntRange(0, 2).Draw(t, l+"hasresp") == 0 {
				*notes = append(*notes, "resploc:present")
				fmt.Fprintf(&b, ` ResponseLocation="%s"`, attrEscape(genLocation(t, l+"resp", notes)))
			}
			if ep.indexed {
				fmt.Fprintf(&b, ` index="%d"`, rapid.IntRange(0, 3).Draw(t, l+"idx"))
				if rapid.Bool().Draw(t, l+"def") {
					b.WriteString(` isDefault="true"`)
				}
			}
			b.WriteString(after)
			b.WriteString(`/>`)
		}
		fmt.Fprintf(&b, `</md:%s>`, role.name)
	}
	b.WriteString(`</md:EntityDescriptor>`)
	return b.String()
}

const mdNS = ` xmlns:md="urn:oasis:names:tc:SAML:2.0:metadata" xmlns:ext="urn:example:extension"`

func genMetadata(t *rapid.T) Case {
	c := Case{Kind: "metadata"}
	force := rapid.SampledFrom([]string{"IDPSSODescriptor", "SPSSODescriptor", ""}).Draw(t, "force")
	if rapid.IntRange(0, 3).Draw(t, "wrap") == 0 {
		c.Notes = append(c.Notes, "root:EntitiesDescriptor")
		n := rapid.IntRange(1, 3).Draw(t, "nentities")
		var b strings.Builder
		b.WriteString(`<md:EntitiesDescriptor` + mdNS + `>`)
		for i := 0; i < n; i++ {
			b.WriteString(genEntity(t, fmt.Sprintf("e%d", i), &c.Notes, force))
		}
		b.WriteString(`</md:EntitiesDescriptor>`)
		c.Doc = b.String()
	} else {
		c.Notes = append(c.Notes, "root:EntityDescriptor")
		e := genEntity(t, "e0", &c.Notes, force)
		c.Doc = strings.Replace(e, `<md:EntityDescriptor`, `<md:EntityDescriptor`+mdNS, 1)
	}
	return c
}

var idpSelects = []string{"url", "index", "index+url", "missing-index+url", "none", "idp-initiated", "url-mismatch"}

// genIdpFlow: in-code SP metadata with 1-3 assertion consumer services (distinct indices), one of
// which - the target - carries the generated (hostile) location; crossed with the way the request
// names the endpoint.  Decoys are benign or listed-hostile.
func genIdpFlow(t *rapid.T) Case {
	c := Case{Kind: "idpflow", URL: genURL(t, "url"), Relay: genHostile(t, "relay"), Content: xgen.Text().Draw(t, "content")}
	// weights: the by-URL modes are the ones in which a request string and a registered string meet
	c.Select = rapid.SampledFrom([]string{"url", "url", "url", "index", "index", "index+url", "missing-index+url", "none", "none", "idp-initiated", "idp-initiated", "url-mismatch"}).Draw(t, "select")
	c.Via = rapid.SampledFrom([]string{"post", "post", "redirect"}).Draw(t, "via")
	c.Signed = rapid.IntRange(0, 3).Draw(t, "signed") == 0
	n := rapid.IntRange(1, 3).Draw(t, "nacs")
	c.Target = rapid.IntRange(0, n-1).Draw(t, "target")
	base := rapid.IntRange(0, 3).Draw(t, "idxbase")
	for i := 0; i < n; i++ {
		l := fmt.Sprintf("acs%d", i)
		a := ACSSpec{Binding: saml.HTTPPostBinding, Index: base + i}
		if i == c.Target {
			// the target is a POST endpoint nearly always (another binding: the IdP must refuse or pick another)
			if rapid.IntRange(0, 9).Draw(t, l+"tb") == 0 {
				a.Binding = rapid.SampledFrom([]string{saml.HTTPRedirectBinding, saml.HTTPArtifactBinding}).Draw(t, l+"binding")
			}
			a.Default = rapid.SampledFrom([]int{0, 1, 1, 2}).Draw(t, l+"default")
		} else {
			a.Binding = rapid.SampledFrom([]string{saml.HTTPPostBinding, saml.HTTPPostBinding, saml.HTTPRedirectBinding, saml.HTTPArtifactBinding}).Draw(t, l+"binding")
			a.Default = rapid.SampledFrom([]int{0, 0, 2, 1}).Draw(t, l+"default")
			if rapid.IntRange(0, 2).Draw(t, l+"hostile") == 0 {
				a.Loc = rapid.SampledFrom(hostileURLs).Draw(t, l+"loc")
			} else {
				a.Loc = fmt.Sprintf("https://sp.example.com/decoy/%d", i)
			}
		}
		c.ACS = append(c.ACS, a)
	}
	return c
}

func gen(t *rapid.T) Case {
	switch rapid.IntRange(0, 10).Draw(t, "kind") {
	case 10:
		return genIdpFlow(t)
	case 0, 1:
		return Case{Kind: "spform", Form: rapid.SampledFrom([]string{"authn", "logoutreq", "logoutresp"}).Draw(t, "form"), URL: genURL(t, "url"), Relay: genHostile(t, "relay"), Content: xgen.Text().Draw(t, "content")}
	case 2:
		return Case{Kind: "mwpage", URL: genURL(t, "url"), Relay: genHostile(t, "relay"), Content: xgen.Text().Draw(t, "content"), Lead: rapid.SampledFrom([]int{0, 0, 1, 2}).Draw(t, "lead")}
	case 3:
		return Case{Kind: "idpform", URL: genURL(t, "url"), Relay: genHostile(t, "relay"), Content: xgen.Text().Draw(t, "content")}
	case 4:
		return Case{Kind: "loginform", Form: rapid.SampledFrom([]string{"get", "get", "badlogin"}).Draw(t, "form"), URL: genURL(t, "url"), Relay: genHostile(t, "relay"), Content: genHostile(t, "content")}
	default:
		return genMetadata(t)
	}
}

// ---------------------------------------------------------------- forms: emitting

type quiet struct{ logger.Interface }

func (quiet) Printf(string, ...interface{}) {}
func (quiet) Println(...interface{})        {}
func (quiet) Print(...interface{})          {}

type fixedTracker struct{ relay string }

func (f fixedTracker) TrackRequest(http.ResponseWriter, *http.Request, string) (string, error) {
	return f.relay, nil
}
func (f fixedTracker) StopTrackingRequest(http.ResponseWriter, *http.Request, string) error {
	return nil
}
func (f fixedTracker) GetTrackedRequests(*http.Request) []samlsp.TrackedRequest { return nil }
func (f fixedTracker) GetTrackedRequest(*http.Request, string) (*samlsp.TrackedRequest, error) {
	return nil, http.ErrNoCookie
}

func mustURL(s string) url.URL {
	u, err := url.Parse(s)
	if err != nil {
		panic(err)
	}
	return *u
}

// loginURLOf turns the generated string into the url.URL the IdP is configured
// with (LoginURL is a url.URL; what reaches the template is its String()).
func loginURLOf(s string) url.URL {
	if u, err := url.Parse(s); err == nil {
		return *u
	}
	return url.URL{Scheme: "https", Host: "idp.example.org", Path: s}
}

type page struct {
	body []byte
	// slots as the emitter was given them
	action string
	// actions (idpflow): the registered locations any of which the form may legitimately post to
	// (exactly one when the request names the endpoint; every registered one when the choice is the IdP's)
	actions []string
	relay   string
	// payload: name of the hidden payload field and, when the harness knows it, its exact expected value
	payloadName string
	payloadWant *string
	toast       string
	hasToast    bool
	err         error
}

// emit produces the page for a case with the given slot strings.
func emit(c Case, u, relay, content string) (p page, pan any) {
	defer func() { pan = recover() }()
	p.action, p.relay = u, relay
	switch c.Kind {
	case "spform":
		iss := &saml.Issuer{Value: content}
		switch c.Form {
		case "authn":
			p.payloadName = "SAMLRequest"
			r := &saml.AuthnRequest{ID: "id-1", Version: "2.0", IssueInstant: fix.Epoch, Destination: u, Issuer: iss, AssertionConsumerServiceURL: content}
			p.body = r.Post(relay)
		case "logoutreq":
			p.payloadName = "SAMLRequest"
			r := &saml.LogoutRequest{ID: "id-1", Version: "2.0", IssueInstant: fix.Epoch, Destination: u, Issuer: iss, NameID: &saml.NameID{Value: content}}
			p.body = r.Post(relay)
		default:
			p.payloadName = "SAMLResponse"
			r := &saml.LogoutResponse{ID: "id-1", Version: "2.0", IssueInstant: fix.Epoch, Destination: u, Issuer: iss, InResponseTo: content}
			p.body = r.Post(relay)
		}
	case "mwpage":
		p.payloadName = "SAMLRequest"
		k := fix.Get("sp")
		m := &samlsp.Middleware{
			ServiceProvider: saml.ServiceProvider{
				EntityID: content, Key: k.Key, Certificate: k.Cert,
				MetadataURL: mustURL("https://sp.example.com/saml/metadata"), AcsURL: mustURL("https://sp.example.com/saml/acs"),
				IDPMetadata: &saml.EntityDescriptor{IDPSSODescriptors: leadDescriptors(c.Lead, saml.IDPSSODescriptor{SingleSignOnServices: []saml.Endpoint{{Binding: saml.HTTPPostBinding, Location: u}}})},
			},
			Binding: saml.HTTPPostBinding, ResponseBinding: saml.HTTPPostBinding, RequestTracker: fixedTracker{relay},
			OnError: func(w http.ResponseWriter, _ *http.Request, err error) { http.Error(w, err.Error(), 500) },
		}
		w := httptest.NewRecorder()
		m.HandleStartAuthFlow(w, httptest.NewRequest("GET", "https://sp.example.com/protected", nil))
		if w.Code != 200 {
			p.err = fmt.Errorf("status %d: %s", w.Code, w.Body.String())
		}
		p.body = w.Body.Bytes()
	case "idpform":
		p.payloadName = "SAMLResponse"
		k := fix.Get("idp")
		idp := &saml.IdentityProvider{Key: k.Key, Certificate: k.Cert, Logger: quiet{}, MetadataURL: mustURL("https://idp.example.org/metadata"), SSOURL: mustURL("https://idp.example.org/sso")}
		el := etree.NewElement("samlp:Response")
		el.CreateAttr("xmlns:samlp", samlwire.NSProtocol)
		el.CreateAttr("ID", "id-r")
		el.SetText(content)
		req := &saml.IdpAuthnRequest{IDP: idp, RelayState: relay, ResponseEl: el,
			ACSEndpoint:             &saml.IndexedEndpoint{Binding: saml.HTTPPostBinding, Location: u, Index: 1},
			ServiceProviderMetadata: &saml.EntityDescriptor{EntityID: "https://sp.example.com/saml/metadata"}}
		w := httptest.NewRecorder()
		p.err = req.WriteResponse(w)
		p.body = w.Body.Bytes()
	case "idpflow":
		p.payloadName = "SAMLResponse"
		if c.Target < 0 || c.Target >= len(c.ACS) {
			p.err = fmt.Errorf("harness: target out of range")
			return
		}
		md, locs := spMetadataInCode(c, u)
		k := fix.Get("idp")
		idp := &saml.IdentityProvider{Key: k.Key, Certificate: k.Cert, Logger: quiet{}, MetadataURL: mustURL("https://idp.example.org/metadata"), SSOURL: mustURL("https://idp.example.org/sso"),
			ServiceProviderProvider: oneSP{md}, SessionProvider: fixedSession{}}
		if !c.Signed {
			idp.AssertionMaker = stubMaker{content}
		}
		w := httptest.NewRecorder()
		tgt := c.ACS[c.Target]
		switch c.Select {
		case "idp-initiated":
			p.actions = locs
			idp.ServeIDPInitiated(w, httptest.NewRequest("GET", "https://idp.example.org/login/sp", nil), spEntityID, relay)
		default:
			var acsURL, acsIndex string
			switch c.Select {
			case "url":
				acsURL, p.actions = u, []string{u}
				if u == "" { // an empty attribute names nothing: the choice is the IdP's
					p.actions = locs
				}
			case "index":
				acsIndex, p.actions = strconv.Itoa(tgt.Index), []string{u}
			case "index+url":
				acsURL, acsIndex, p.actions = u, strconv.Itoa(tgt.Index), []string{u}
			case "missing-index+url": // an index no endpoint has: refusing is fine, so is falling back to the URL
				acsURL, acsIndex, p.actions = u, "77", []string{u}
			case "url-mismatch": // names no registered location: whatever the IdP does, it may only post to a registered one
				acsURL, p.actions = u+"/unregistered", locs
			default: // none: the choice is the IdP's
				p.actions = locs
			}
			idp.ServeSSO(w, ssoRequest(c.Via, authnRequestXML(acsURL, acsIndex), relay))
		}
		if w.Code != 200 {
			p.err = fmt.Errorf("status %d", w.Code)
		}
		p.body = w.Body.Bytes()
	case "loginform":
		p.payloadName = "SAMLRequest"
		k := fix.Get("idp")
		srv, err := samlidp.New(samlidp.Options{URL: mustURL("https://idp.example.org"), Key: k.Key, Certificate: k.Cert, Store: &samlidp.MemoryStore{}, Logger: quiet{}})
		if err != nil {
			p.err = err
			return
		}
		srv.IDP.LoginURL = loginURLOf(u)
		p.action = srv.IDP.LoginURL.String()
		w := httptest.NewRecorder()
		if c.Form == "badlogin" {
			// wrong credentials: the form comes back with the library's toast; the
			// relay state and request slots are empty on this route
			r := httptest.NewRequest("POST", "https://idp.example.org/login", strings.NewReader("user="+formEncode("u"+content)+"&password="+formEncode(relay)))
			r.Header.Set("Content-Type", "application/x-www-form-urlencoded")
			srv.ServeHTTP(w, r)
			p.relay, p.toast, p.hasToast = "", "Invalid username or password", true
			want := ""
			p.payloadWant = &want
		} else {
			req := &saml.IdpAuthnRequest{IDP: &srv.IDP, RelayState: relay, RequestBuffer: []byte(content)}
			r := httptest.NewRequest("GET", "https://idp.example.org/sso", nil)
			if s := srv.GetSession(w, r, req); s != nil {
				p.err = fmt.Errorf("a session without credentials")
			}
			want := base64.StdEncoding.EncodeToString([]byte(content))
			p.payloadWant = &want
			p.toast, p.hasToast = "", true
		}
		p.body = w.Body.Bytes()
	}
	return p, nil
}

const (
	benignURL  = "https://benign.example/endpoint"
	spEntityID = "https://sp.example.com/saml/metadata"
)

// spMetadataInCode builds the service-provider metadata as a Go value (as a JSON store or a
// programmatic registration would): nothing in it went through the metadata XML parser.  The
// target endpoint gets the location u; for the benign baseline the decoys are benign too.
func spMetadataInCode(c Case, u string) (*saml.EntityDescriptor, []string) {
	var eps []saml.IndexedEndpoint
	var locs []string
	for i, a := range c.ACS {
		loc := a.Loc
		if i == c.Target {
			loc = u
		} else if u == benignURL {
			loc = fmt.Sprintf("https://benign.example/decoy/%d", i)
		}
		ep := saml.IndexedEndpoint{Binding: a.Binding, Location: loc, Index: a.Index}
		switch a.Default {
		case 1:
			yes := true
			ep.IsDefault = &yes
		case 2:
			no := false
			ep.IsDefault = &no
		}
		eps = append(eps, ep)
		locs = append(locs, loc)
	}
	return &saml.EntityDescriptor{EntityID: spEntityID, SPSSODescriptors: []saml.SPSSODescriptor{{AssertionConsumerServices: eps}}}, locs
}

type oneSP struct{ md *saml.EntityDescriptor }

func (o oneSP) GetServiceProvider(_ *http.Request, id string) (*saml.EntityDescriptor, error) {
	if id != o.md.EntityID {
		return nil, os.ErrNotExist
	}
	return o.md, nil
}

type fixedSession struct{}

func (fixedSession) GetSession(http.ResponseWriter, *http.Request, *saml.IdpAuthnRequest) *saml.Session {
	return &saml.Session{ID: "session-1", CreateTime: fix.Epoch, ExpireTime: fix.Epoch.Add(time.Hour), Index: "1", NameID: "user@example.com", UserName: "user", UserEmail: "user@example.com"}
}

// stubMaker stands in for the assertion maker (a documented extension point): the response
// element is a small fixed one carrying the content string, nothing is signed.
type stubMaker struct{ content string }

func (s stubMaker) MakeAssertion(req *saml.IdpAuthnRequest, _ *saml.Session) error {
	el := etree.NewElement("samlp:Response")
	el.CreateAttr("xmlns:samlp", samlwire.NSProtocol)
	el.CreateAttr("ID", "id-r")
	el.SetText(s.content)
	req.ResponseEl = el
	return nil
}

// reqAttr writes an attribute value of the AuthnRequest: like attrEscape, and '>' as a reference
// too (a literal "]]>" in an attribute value is refused by encoding/xml).
func reqAttr(v string) string { return strings.ReplaceAll(attrEscape(v), ">", "&gt;") }

// authnRequestXML is written by the harness itself so that TAB / LF / CR in the named URL reach the
// IdP as those characters (character references) instead of being normalised to spaces.
func authnRequestXML(acsURL, acsIndex string) []byte {
	var b strings.Builder
	fmt.Fprintf(&b, `<samlp:AuthnRequest xmlns:samlp="urn:oasis:names:tc:SAML:2.0:protocol" xmlns:saml="urn:oasis:names:tc:SAML:2.0:assertion" ID="id-req-1" Version="2.0" IssueInstant="%s"`, fix.Epoch.UTC().Format("2006-01-02T15:04:05Z"))
	if acsURL != "" {
		fmt.Fprintf(&b, ` AssertionConsumerServiceURL="%s"`, reqAttr(acsURL))
	}
	if acsIndex != "" {
		fmt.Fprintf(&b, ` AssertionConsumerServiceIndex="%s"`, reqAttr(acsIndex))
	}
	fmt.Fprintf(&b, `><saml:Issuer>%s</saml:Issuer></samlp:AuthnRequest>`, spEntityID)
	return []byte(b.String())
}

// ssoRequest delivers the AuthnRequest to the IdP's sign-on endpoint in the POST or the redirect binding.
func ssoRequest(via string, reqXML []byte, relay string) *http.Request {
	if via == "redirect" {
		var z bytes.Buffer
		fw, _ := flate.NewWriter(&z, flate.DefaultCompression)
		_, _ = fw.Write(reqXML)
		_ = fw.Close()
		q := "SAMLRequest=" + url.QueryEscape(base64.StdEncoding.EncodeToString(z.Bytes())) + "&RelayState=" + url.QueryEscape(relay)
		return httptest.NewRequest("GET", "https://idp.example.org/sso?"+q, nil)
	}
	body := "SAMLRequest=" + url.QueryEscape(base64.StdEncoding.EncodeToString(reqXML)) + "&RelayState=" + url.QueryEscape(relay)
	r := httptest.NewRequest("POST", "https://idp.example.org/sso", strings.NewReader(body))
	r.Header.Set("Content-Type", "application/x-www-form-urlencoded")
	return r
}

// leadDescriptors puts n descriptors that offer no POST sign-on endpoint in front of d.
func leadDescriptors(n int, d saml.IDPSSODescriptor) []saml.IDPSSODescriptor {
	var out []saml.IDPSSODescriptor
	for i := 0; i < n; i++ {
		lead := saml.IDPSSODescriptor{}
		if i%2 == 0 {
			lead.SingleSignOnServices = []saml.Endpoint{{Binding: saml.HTTPArtifactBinding, Location: "https://decoy.example/wrong"}}
		}
		out = append(out, lead)
	}
	return append(out, d)
}

func formEncode(s string) string {
	var b strings.Builder
	for i := 0; i < len(s); i++ {
		c := s[i]
		if c >= 'a' && c <= 'z' || c >= 'A' && c <= 'Z' || c >= '0' && c <= '9' {
			b.WriteByte(c)
		} else {
			fmt.Fprintf(&b, "%%%02X", c)
		}
	}
	return b.String()
}

// ---------------------------------------------------------------- forms: judging

func hostileString(s string) bool {
	for _, r := range s {
		if r < 0x20 || r == 0x7f || r == 0x2028 || r == 0x2029 || strings.ContainsRune("<>\"'&", r) {
			return true
		}
	}
	return strings.Contains(s, "{{") || strings.Contains(s, "}}")
}

func fail(classes []string, f string, a ...any) pbt.Result {
	return pbt.Result{Err: fmt.Sprintf(f, a...), NonTrivial: true, Classes: classes}
}

func checkForm(c Case) pbt.Result {
	if !utf8.ValidString(c.URL) || !utf8.ValidString(c.Relay) || !utf8.ValidString(c.Content) {
		return pbt.Result{Skip: true}
	}
	// Content sits inside the XML message for the SP / IdP forms: XML strings only there.
	if c.Kind != "loginform" && !xgen.IsXMLString(c.Content) {
		return pbt.Result{Skip: true}
	}
	classes := []string{c.Kind}
	if c.Form != "" {
		classes = append(classes, c.Kind+":"+c.Form)
	}
	// idpflow: how the request selects the endpoint x what kind of location the in-code metadata registers
	cross := ""
	if c.Kind == "idpflow" {
		loc := "acs:http"
		if s := urlw.Scheme(c.URL); s == "" {
			loc = "acs:no-scheme"
		} else if s != "http" && s != "https" {
			loc = "acs:foreign-scheme"
		}
		cross = "select:" + c.Select + "/" + loc
		classes = append(classes, "select:"+c.Select, "via:"+c.Via, cross)
		if c.Signed {
			classes = append(classes, "idpflow:library-assertion-maker")
		} else {
			classes = append(classes, "idpflow:stub-assertion-maker")
		}
	}
	p, pan := emit(c, c.URL, c.Relay, c.Content)
	if pan != nil {
		return fail(classes, "%s: emitting the page panics: %v", c.Kind, pan)
	}
	if p.err != nil {
		// refusing to emit is always safe; not a structure change
		if cross != "" {
			classes = append(classes, cross+"/refused")
		}
		return pbt.Result{Classes: append(classes, "refused")}
	}
	// the same page with benign strings (same route, same emptiness of the toast)
	bu := benignURL
	bc := c
	if c.Kind == "idpflow" {
		// the form's skeleton does not depend on which endpoint is chosen: the baseline is the plainest
		// flow (one POST endpoint, nothing named), same delivery and assertion maker
		bc.Select, bc.ACS, bc.Target = "none", []ACSSpec{{Binding: saml.HTTPPostBinding, Index: 1, Default: 1}}, 0
		if c.Select == "idp-initiated" {
			bc.Select = c.Select
		}
	}
	q, pan := emit(bc, bu, "benignrelay", "benign")
	if pan != nil || q.err != nil {
		return fail(classes, "harness: benign baseline fails: %v %v", pan, q.err)
	}
	doc, err := htmlw.Parse(p.body)
	if err != nil {
		return fail(classes, "page does not parse: %v", err)
	}
	base, err := htmlw.Parse(q.body)
	if err != nil {
		return fail(classes, "harness: baseline does not parse: %v", err)
	}
	got, want := htmlw.Skeleton(doc, htmlw.FormSlots), htmlw.Skeleton(base, htmlw.FormSlots)
	if got != want {
		return fail(classes, "the DOM skeleton of the page differs from the skeleton obtained with benign strings\n  url=%q relay=%q content=%q\n--- with these strings:\n%s--- with benign strings:\n%s--- page: %q", c.URL, c.Relay, c.Content, got, want, trunc(string(p.body)))
	}
	forms := htmlw.Forms(doc)
	if len(forms) != 1 {
		return fail(classes, "page has %d forms", len(forms))
	}
	f := forms[0]
	// hidden fields: exactly the intended ones, values exactly the given strings
	rs := f.Field("RelayState")
	if len(rs) != 1 || htmlw.HTMLNormalize(rs[0]) != htmlw.HTMLNormalize(p.relay) {
		return fail(classes, "RelayState field reads %q, the relay state given is %q", rs, p.relay)
	}
	pl := f.Field(p.payloadName)
	if len(pl) != 1 {
		return fail(classes, "%d %s fields", len(pl), p.payloadName)
	}
	if p.payloadWant != nil {
		if pl[0] != *p.payloadWant {
			return fail(classes, "%s field reads %q, want %q", p.payloadName, pl[0], *p.payloadWant)
		}
	} else if _, err := samlwire.B64(pl[0]); err != nil {
		return fail(classes, "%s field is not base64: %v (%q)", p.payloadName, err, trunc(pl[0]))
	}
	if p.hasToast {
		ts := htmlw.Texts(doc, "p")
		if len(ts) != 1 || htmlw.HTMLNormalize(ts[0]) != htmlw.HTMLNormalize(p.toast) {
			return fail(classes, "toast paragraph reads %q, want %q", ts, p.toast)
		}
	}
	// action: the given URL, its percent-normalised form, or html/template's inert sentinel
	a := f.Action
	cands := p.actions
	if cands == nil {
		cands = []string{p.action}
	}
	outcome := ""
	for _, cand := range cands {
		switch {
		case a == cand:
			outcome = "action:verbatim"
		case a == "#ZgotmplZ":
			outcome = "action:sentinel"
		case urlw.UnescapeLenient(a, false) == urlw.UnescapeLenient(cand, false):
			outcome = "action:normalised"
		}
		if outcome != "" {
			break
		}
	}
	if outcome == "" {
		return fail(classes, "form action is %q for the URL(s) %q: neither that URL, nor its percent-normalised form, nor the inert sentinel", a, cands)
	}
	classes = append(classes, outcome)
	if cross != "" {
		classes = append(classes, cross+"/"+outcome)
	}
	switch s := urlw.Scheme(a); s {
	case "", "http", "https":
	case "mailto":
		// html/template lets mailto: through; it is not script-bearing and the property is silent: counted, not judged
		classes = append(classes, "dontcare:action-mailto")
	default:
		return fail(classes, "form action %q (from %q) has scheme %q: a user agent would not treat it as an http(s) or relative URL", a, p.action, s)
	}
	if s := urlw.Scheme(p.action); s != "" && s != "http" && s != "https" {
		classes = append(classes, "url:foreign-scheme")
	}
	nt := hostileString(c.URL) || hostileString(c.Relay) || hostileString(c.Content)
	if nt {
		classes = append(classes, "hostile-string")
	}
	return pbt.Result{NonTrivial: nt, Classes: classes}
}

func trunc(s string) string {
	if len(s) > 1200 {
		return s[:1200] + "..."
	}
	return s
}

// ---------------------------------------------------------------- metadata: judging

type epView struct {
	Path     string
	Binding  string
	Location string
	Response string
}

var (
	tEndpoint = reflect.TypeOf(saml.Endpoint{})
	tIndexed  = reflect.TypeOf(saml.IndexedEndpoint{})
)

// collect walks a parsed metadata value and returns every Endpoint /
// IndexedEndpoint in it, plus every other string field whose name mentions
// "Location" (none is expected besides AdditionalMetadataLocations).
func collect(v reflect.Value, path string, out *[]epView) {
	switch v.Kind() {
	case reflect.Ptr, reflect.Interface:
		if !v.IsNil() {
			collect(v.Elem(), path, out)
		}
	case reflect.Slice, reflect.Array:
		for i := 0; i < v.Len(); i++ {
			collect(v.Index(i), fmt.Sprintf("%s[%d]", path, i), out)
		}
	case reflect.Struct:
		switch v.Type() {
		case tEndpoint:
			e := v.Interface().(saml.Endpoint)
			*out = append(*out, epView{path, e.Binding, e.Location, e.ResponseLocation})
			return
		case tIndexed:
			e := v.Interface().(saml.IndexedEndpoint)
			r := ""
			if e.ResponseLocation != nil {
				r = *e.ResponseLocation
			}
			*out = append(*out, epView{path, e.Binding, e.Location, r})
			return
		}
		if !strings.Contains(v.Type().PkgPath(), "crewjam/saml") {
			return // etree elements, time.Time, xml.Name ...
		}
		for i := 0; i < v.NumField(); i++ {
			f := v.Type().Field(i)
			if f.PkgPath != "" {
				continue
			}
			collect(v.Field(i), path+"."+f.Name, out)
		}
	}
}

func httpLocation(s string) bool {
	if sc := urlw.Scheme(s); sc != "http" && sc != "https" {
		return false
	}
	// the scheme must be there literally (no stripped prefix, no removed tab)
	low := strings.ToLower(s)
	if !strings.HasPrefix(low, "http:") && !strings.HasPrefix(low, "https:") {
		return false
	}
	for _, r := range s {
		if r < 0x20 || r == 0x7f {
			return false
		}
	}
	return true
}

func judgeEndpoints(where string, eps []epView) string {
	for _, e := range eps {
		for _, lv := range []struct{ name, v string }{{"Location", e.Location}, {"ResponseLocation", e.Response}} {
			switch {
			case lv.v == "":
				if lv.name == "Location" && isKnownBinding(e.Binding) {
					return fmt.Sprintf("%s: %s has standard binding %q and an empty Location after a successful parse", where, e.Path, e.Binding)
				}
			case isKnownBinding(e.Binding) || isOtherSAMLBinding(e.Binding):
				if !httpLocation(lv.v) {
					return fmt.Sprintf("%s: %s (binding %q) has %s %q after a successful parse: not an http(s) URL", where, e.Path, e.Binding, lv.name, lv.v)
				}
			default:
				return fmt.Sprintf("%s: %s has unknown binding %q but %s %q was kept (must be blanked)", where, e.Path, e.Binding, lv.name, lv.v)
			}
		}
	}
	return ""
}

// rootOf reads the root element name with the harness's own reader.
func rootOf(doc string) string {
	n, err := samlwire.ParseXML([]byte(doc))
	if err != nil {
		return ""
	}
	return n.Local
}

func checkMetadata(c Case) pbt.Result {
	classes := []string{"metadata"}
	classes = append(classes, uniq(c.Notes)...)
	root := rootOf(c.Doc)
	if root == "" {
		classes = append(classes, "md:ill-formed")
	}
	parsedAny := false
	var pan any
	guard := func(f func()) {
		defer func() {
			if r := recover(); r != nil {
				pan = r
			}
		}()
		f()
	}

	// (a) encoding/xml straight into the library types
	var msg string
	guard(func() {
		var eps []epView
		var err error
		if root == "EntitiesDescriptor" {
			var v saml.EntitiesDescriptor
			if err = xml.Unmarshal([]byte(c.Doc), &v); err == nil {
				collect(reflect.ValueOf(v), "EntitiesDescriptor", &eps)
			}
		} else {
			var v saml.EntityDescriptor
			if err = xml.Unmarshal([]byte(c.Doc), &v); err == nil {
				collect(reflect.ValueOf(v), "EntityDescriptor", &eps)
			}
		}
		if err != nil {
			classes = append(classes, "xml.Unmarshal:failed")
			return
		}
		parsedAny = true
		classes = append(classes, "xml.Unmarshal:parsed")
		msg = judgeEndpoints("xml.Unmarshal", eps)
	})
	if pan != nil {
		return fail(classes, "xml.Unmarshal of the metadata panics: %v", pan)
	}
	if msg != "" {
		return fail(classes, "%s\n  doc: %s", msg, trunc(c.Doc))
	}

	// (b) samlsp.ParseMetadata, and what the SP then does with it
	guard(func() {
		md, err := samlsp.ParseMetadata([]byte(c.Doc))
		if err != nil || md == nil {
			classes = append(classes, "ParseMetadata:failed")
			return
		}
		parsedAny = true
		classes = append(classes, "ParseMetadata:parsed")
		var eps []epView
		collect(reflect.ValueOf(md), "ParseMetadata", &eps)
		if msg = judgeEndpoints("samlsp.ParseMetadata", eps); msg != "" {
			return
		}
		// chain: the SP configured with this metadata starts a login in both bindings
		k := fix.Get("sp")
		sp := &saml.ServiceProvider{Key: k.Key, Certificate: k.Cert, IDPMetadata: md,
			MetadataURL: mustURL("https://sp.example.com/saml/metadata"), AcsURL: mustURL("https://sp.example.com/saml/acs")}
		if page, err := sp.MakePostAuthenticationRequest("rs"); err == nil {
			if d, err := htmlw.Parse(page); err == nil {
				for _, f := range htmlw.Forms(d) {
					if s := urlw.Scheme(f.Action); s != "" && s != "http" && s != "https" {
						msg = fmt.Sprintf("metadata -> SP POST form: action %q has scheme %q", f.Action, s)
						return
					}
				}
				classes = append(classes, "chain:post-form")
			}
		}
		if u, err := sp.MakeRedirectAuthenticationRequest("rs"); err == nil && u != nil {
			if s := urlw.Scheme(u.String()); s != "" && s != "http" && s != "https" {
				msg = fmt.Sprintf("metadata -> SP redirect: URL %q has scheme %q", trunc(u.String()), s)
				return
			}
			classes = append(classes, "chain:redirect")
		}
	})
	if pan != nil {
		return fail(classes, "samlsp.ParseMetadata (or the SP configured from it) panics: %v\n  doc: %s", pan, trunc(c.Doc))
	}
	if msg != "" {
		return fail(classes, "%s\n  doc: %s", msg, trunc(c.Doc))
	}

	// (c) registration with the bundled IdP server
	guard(func() {
		k := fix.Get("idp")
		store := &samlidp.MemoryStore{}
		srv, err := samlidp.New(samlidp.Options{URL: mustURL("https://idp.example.org"), Key: k.Key, Certificate: k.Cert, Store: store, Logger: quiet{}})
		if err != nil {
			msg = "harness: samlidp.New: " + err.Error()
			return
		}
		w := httptest.NewRecorder()
		srv.ServeHTTP(w, httptest.NewRequest("PUT", "https://idp.example.org/services/svc", strings.NewReader(c.Doc)))
		if w.Code/100 != 2 {
			classes = append(classes, "PUT-service:refused")
			return
		}
		parsedAny = true
		classes = append(classes, "PUT-service:stored")
		var svc samlidp.Service
		if err := store.Get("/services/svc", &svc); err != nil {
			msg = "stored service cannot be read back: " + err.Error()
			return
		}
		var eps []epView
		collect(reflect.ValueOf(svc.Metadata), "stored", &eps)
		if msg = judgeEndpoints("samlidp PUT /services (stored copy)", eps); msg != "" {
			return
		}
		if live, err := srv.GetServiceProvider(nil, svc.Metadata.EntityID); err == nil {
			eps = nil
			collect(reflect.ValueOf(live), "registered", &eps)
			if msg = judgeEndpoints("samlidp PUT /services (registered copy)", eps); msg != "" {
				return
			}
		}
		// what GET /services/svc hands out must satisfy the predicate when parsed again
		g := httptest.NewRecorder()
		srv.ServeHTTP(g, httptest.NewRequest("GET", "https://idp.example.org/services/svc", nil))
		if g.Code == 200 {
			var again saml.EntityDescriptor
			if err := xml.Unmarshal(bytes.TrimSpace(g.Body.Bytes()), &again); err == nil {
				eps = nil
				collect(reflect.ValueOf(again), "served", &eps)
				msg = judgeEndpoints("samlidp GET /services (re-parsed)", eps)
			}
		}
	})
	if pan != nil {
		return fail(classes, "samlidp service registration panics: %v\n  doc: %s", pan, trunc(c.Doc))
	}
	if msg != "" {
		return fail(classes, "%s\n  doc: %s", msg, trunc(c.Doc))
	}
	if parsedAny {
		classes = append(classes, "md:some-parser-accepted")
	} else {
		classes = append(classes, "md:all-parsers-refused")
	}
	nt := false
	for _, n := range c.Notes {
		if strings.HasPrefix(n, "loc:") || strings.HasPrefix(n, "binding:") {
			nt = true
		}
	}
	return pbt.Result{NonTrivial: nt, Classes: classes}
}

func uniq(in []string) []string {
	seen := map[string]bool{}
	var out []string
	for _, s := range in {
		if !seen[s] {
			seen[s] = true
			out = append(out, s)
		}
	}
	return out
}

func check(c Case) pbt.Result {
	switch c.Kind {
	case "spform", "mwpage", "idpform", "idpflow", "loginform":
		return checkForm(c)
	case "metadata":
		return checkMetadata(c)
	}
	return pbt.Result{Skip: true}
}

// ---------------------------------------------------------------- exhaustive parts

// enumFormStrings: every listed hostile URL and every listed hostile token, in
// every slot of every form.
func enumFormStrings(_ string, emit func(Case)) {
	kinds := []Case{{Kind: "spform", Form: "authn"}, {Kind: "spform", Form: "logoutreq"}, {Kind: "spform", Form: "logoutresp"}, {Kind: "mwpage"}, {Kind: "idpform"}, {Kind: "loginform", Form: "get"}, {Kind: "loginform", Form: "badlogin"}}
	for _, k := range kinds {
		for _, u := range hostileURLs {
			c := k
			c.URL, c.Relay, c.Content = u, "rs", "content"
			emit(c)
			if k.Kind == "mwpage" {
				c.Lead = 1 + len(u)%2
				emit(c)
			}
		}
		for _, tok := range htmlHostile {
			c := k
			c.URL, c.Relay, c.Content = "https://idp.example.org/sso", tok, "content"
			emit(c)
			c.Relay = "a" + tok + "b"
			emit(c)
			if k.Kind == "loginform" || xgen.IsXMLString(tok) {
				c.Relay, c.Content = "rs", tok
				emit(c)
			}
			c.Relay, c.Content, c.URL = "rs", "content", "https://idp.example.org/"+tok
			emit(c)
			c.URL = tok + "https://idp.example.org/"
			emit(c)
		}
	}
}

// enumIdpFlow: every listed hostile URL as the registered location of an in-code service provider x
// every way of selecting the endpoint x both deliveries x the target alone / behind a benign decoy /
// in front of a hostile default decoy.
func enumIdpFlow(_ string, emit func(Case)) {
	post := saml.HTTPPostBinding
	layouts := []struct {
		acs    []ACSSpec
		target int
	}{
		{[]ACSSpec{{Binding: post, Index: 1, Default: 1}}, 0},
		{[]ACSSpec{{Binding: post, Index: 0, Loc: "https://sp.example.com/decoy/0"}, {Binding: post, Index: 1, Default: 1}}, 1},
		{[]ACSSpec{{Binding: post, Index: 2}, {Binding: saml.HTTPRedirectBinding, Index: 3, Loc: "javascript:alert(2)", Default: 2}}, 0},
	}
	for _, u := range hostileURLs {
		for _, sel := range idpSelects {
			for li, l := range layouts {
				for _, via := range []string{"post", "redirect"} {
					if sel == "idp-initiated" && via == "redirect" {
						continue
					}
					emit(Case{Kind: "idpflow", URL: u, Relay: "rs", Content: "content", Select: sel, Via: via, Signed: li == 0 && via == "post" && len(u)%4 == 0, ACS: l.acs, Target: l.target})
				}
			}
		}
	}
	for _, tok := range htmlHostile {
		for _, sel := range idpSelects {
			for _, u := range []string{"https://sp.example.com/" + tok, tok + "https://sp.example.com/", "javascript:" + tok} {
				emit(Case{Kind: "idpflow", URL: u, Relay: "a" + tok, Content: "content", Select: sel, Via: "post", ACS: layouts[0].acs, Target: 0})
			}
		}
	}
}

var enumSchemes = []string{"javascript:alert(1)", "JaVaScRiPt:alert(1)", " javascript:alert(1)", "\tjavascript:alert(1)", "\njavascript:alert(1)", "\x01javascript:alert(1)", "java\tscript:alert(1)", "data:text/html,x", "vbscript:x", "mailto:a@b.example", "file:///x", "",
	"/relative", "//host.example/p", "relative", "http://[::1", " https://h.example/", "https://h.example/ ", "ht\ttps://h.example/", "HTTPS://h.example/", "http://h.example/", "https://h.example/p?a=1&b=2", "https:javascript:alert(1)", "https://h.example/\x7f"}

// enumMetadataGrid: every endpoint-bearing element of every role x every binding
// (known, other SAML, unknown, absent) x Location / ResponseLocation over the
// scheme list, as EntityDescriptor and wrapped in EntitiesDescriptor.
func enumMetadataGrid(_ string, emit func(Case)) {
	bindings := append(append(append([]string{}, knownBindings...), otherSAMLBindings...), unknownBindings[:4]...)
	bindings = append(bindings, "<absent>")
	for _, role := range roles {
		for _, ep := range role.eps {
			for _, b := range bindings {
				for _, loc := range enumSchemes {
					for _, slot := range []string{"Location", "ResponseLocation"} {
						var sb strings.Builder
						fmt.Fprintf(&sb, `<md:EntityDescriptor entityID="https://e.example/metadata"><md:%s protocolSupportEnumeration="urn:oasis:names:tc:SAML:2.0:protocol"><md:%s`, role.name, ep.el)
						if b != "<absent>" {
							fmt.Fprintf(&sb, ` Binding="%s"`, attrEscape(b))
						}
						if slot == "Location" {
							fmt.Fprintf(&sb, ` Location="%s"`, attrEscape(loc))
						} else {
							fmt.Fprintf(&sb, ` Location="https://ok.example/ep" ResponseLocation="%s"`, attrEscape(loc))
						}
						if ep.indexed {
							sb.WriteString(` index="1"`)
						}
						fmt.Fprintf(&sb, `/></md:%s></md:EntityDescriptor>`, role.name)
						notes := []string{"grid", "slot:" + slot}
						if !httpLocation(loc) {
							notes = append(notes, "loc:not-http")
						}
						if !isKnownBinding(b) {
							notes = append(notes, "binding:not-known")
						}
						e := sb.String()
						emit(Case{Kind: "metadata", Doc: strings.Replace(e, `<md:EntityDescriptor`, `<md:EntityDescriptor`+mdNS, 1), Notes: notes})
						if loc == enumSchemes[0] || loc == enumSchemes[7] {
							emit(Case{Kind: "metadata", Doc: `<md:EntitiesDescriptor` + mdNS + `>` + e + `</md:EntitiesDescriptor>`, Notes: append(notes, "root:EntitiesDescriptor")})
						}
					}
				}
			}
		}
	}
}

// enumForeignTwins: every endpoint-bearing element x standard / unknown binding x a foreign-namespace
// attribute with the local name Location / ResponseLocation / Binding / index placed before or after
// the real attribute, hostile value in the twin or in the real one, prefix declared on the root or on
// the element.  Whatever ends up in the parsed value must satisfy the predicate.
func enumForeignTwins(_ string, emit func(Case)) {
	good, bad := "https://ok.example/ep", []string{"javascript:alert(1)", "data:text/html,x", "/relative"}
	for _, role := range roles {
		for _, ep := range role.eps {
			for _, binding := range []string{saml.HTTPPostBinding, saml.HTTPRedirectBinding, "urn:example:binding"} {
				for _, h := range bad {
					for _, decl := range []string{"", ` xmlns:x="urn:example:other"`} {
						prefix := "ext"
						if decl != "" {
							prefix = "x"
						}
						idx := ""
						if ep.indexed {
							idx = ` index="1"`
						}
						variants := []string{
							// Location twins
							fmt.Sprintf(` Binding="%s" Location="%s" %s:Location="%s"`, binding, good, prefix, attrEscape(h)),
							fmt.Sprintf(` Binding="%s" %s:Location="%s" Location="%s"`, binding, prefix, attrEscape(h), good),
							fmt.Sprintf(` Binding="%s" Location="%s" %s:Location="%s"`, binding, attrEscape(h), prefix, good),
							fmt.Sprintf(` Binding="%s" %s:Location="%s" Location="%s"`, binding, prefix, good, attrEscape(h)),
							// ResponseLocation twins
							fmt.Sprintf(` Binding="%s" Location="%s" ResponseLocation="%s" %s:ResponseLocation="%s"`, binding, good, good, prefix, attrEscape(h)),
							fmt.Sprintf(` Binding="%s" Location="%s" %s:ResponseLocation="%s" ResponseLocation="%s"`, binding, good, prefix, attrEscape(h), good),
							fmt.Sprintf(` Binding="%s" Location="%s" %s:ResponseLocation="%s"`, binding, good, prefix, attrEscape(h)),
							// Binding twins: a standard and an unknown binding around a hostile location
							fmt.Sprintf(` Binding="%s" %s:Binding="urn:example:binding" Location="%s"`, binding, prefix, attrEscape(h)),
							fmt.Sprintf(` %s:Binding="urn:example:binding" Binding="%s" Location="%s"`, prefix, binding, attrEscape(h)),
							fmt.Sprintf(` Binding="urn:example:binding" %s:Binding="%s" Location="%s"`, prefix, binding, attrEscape(h)),
							// index twin
							fmt.Sprintf(` Binding="%s" Location="%s" %s:index="7" %s:Location="%s"`, binding, good, prefix, prefix, attrEscape(h)),
						}
						for _, v := range variants {
							e := fmt.Sprintf(`<md:EntityDescriptor entityID="https://e.example/metadata"><md:%s protocolSupportEnumeration="urn:oasis:names:tc:SAML:2.0:protocol"><md:%s%s%s%s/></md:%s></md:EntityDescriptor>`, role.name, ep.el, decl, v, idx, role.name)
							emit(Case{Kind: "metadata", Doc: strings.Replace(e, `<md:EntityDescriptor`, `<md:EntityDescriptor`+mdNS, 1), Notes: []string{"attr:foreign-namespace-twin", "loc:not-http"}})
						}
					}
				}
			}
		}
	}
}

var prop = &pbt.Prop[Case]{
	ID: "C14",
	Rule: "cases: (forms) hostile strings - HTML/JS/template metacharacters, quotes, NUL and other controls, U+2028/2029, script-bearing and malformed URLs - in every interpolated slot (action URL, relay state, message content, login URL) of the SP AuthnRequest/LogoutRequest/LogoutResponse POST forms, the samlsp middleware POST page, the IdP response form and the samlidp login form (both routes); (idp flow) the IdP driven through ServeSSO (POST and redirect delivery) and ServeIDPInitiated with service-provider metadata built in code - 1-3 assertion consumer services, the target carrying a hostile location that never met the metadata parser, benign / hostile decoys - crossed with how the request selects the endpoint: by URL equal to the registered location / by index / index + URL / unmatched index + URL / not at all / IdP-initiated / URL naming no registered location; (metadata) generated documents with every endpoint-bearing element of every role descriptor x known / other-SAML / unknown / absent bindings x Location and ResponseLocation over scheme classes x attributes with the same local name (Location, ResponseLocation, Binding, index) in another namespace before / after the real ones, as EntityDescriptor and EntitiesDescriptor, through xml.Unmarshal, samlsp.ParseMetadata (+ the SP's POST form and redirect built from the result) and samlidp PUT /services (stored, registered and re-served copies). " +
		"oracle: the DOM skeleton (x/net/html) of each page equals the skeleton of the same page made with benign strings; RelayState / payload / toast read back exactly (modulo the HTML parser's CR->LF and NUL->U+FFFD); the action is the given URL, its percent-normalised form or html/template's #ZgotmplZ and never has a scheme other than http/https/none (mailto: not judged); in the idp flow the action may only derive from the location the request named, or from any registered location when the choice is the IdP's, and a refusal is always acceptable; after a successful metadata parse every location under a standard binding is a literal http(s) URL without control characters, under an unknown binding is empty; a failed parse is always acceptable. " +
		"non-trivial: forms - a slot string contains one of < > \" ' & {{ }} or a control / line-separator character; metadata - some location is not a plain http(s) URL or some binding is not a standard one. distinct: sha256 of the JSON case.",
	Gen:   gen,
	Check: check,
	Reset: fix.Reset,
	Enums: []pbt.Enum[Case]{
		{Name: "listed-hostile-strings-x-slots-x-forms", Each: enumFormStrings},
		{Name: "idp-endpoint-selection-x-hostile-registered-location", Each: enumIdpFlow},
		{Name: "metadata-element-x-binding-x-scheme-grid", Each: enumMetadataGrid},
		{Name: "foreign-namespace-attribute-twins", Each: enumForeignTwins},
	},
	Assumptions: []string{
		"strings are valid UTF-8; message content of the SP / IdP forms is XML-1.0-representable (it is serialised into the message before encoding)",
		"the login-form toast is only reachable with the library's own constant texts through the public API; both routes (no toast / 'Invalid username or password') are driven",
		"the login URL slot is a url.URL in the configuration: the generated string is parsed (or used as a path when it does not parse) and its String() is the slot value",
		"idp flow: the AuthnRequest is written by the harness (control characters as character references), so a named URL that is not XML-1.0-representable makes the request ill-formed and is refused; the assertion maker is the library's own (signed) in a quarter of the cases and a stub that sets ResponseEl otherwise",
		"html/template lets mailto: URLs through as form actions; that class is counted, not judged (not script-bearing, property silent)",
		"bindings defined by SAML 2.0 that the library does not list (PAOS, HTTP-POST-SimpleSign, URI) may be blanked or checked: either is accepted",
		"AdditionalMetadataLocation, Organization URLs and errorURL are not endpoint locations and are not judged",
	},
}

func TestCheck(t *testing.T) { pbt.Run(t, prop) }

func FuzzCheck(f *testing.F) { pbt.Fuzz(f, prop) }
