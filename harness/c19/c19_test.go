// Package c19: the bundled IdP server (samlidp) issues assertions only to authenticated
// users - histories x store faults x restarts against an executable reference model.
package c19

import (
	"encoding/json"
	"encoding/xml"
	"fmt"
	"os"
	"sort"
	"strings"
	"testing"
	"time"

	"github.com/crewjam/saml"
	"github.com/crewjam/saml/samlidp"
	"pgregory.net/rapid"

	"verif/harness/internal/fix"
	"verif/harness/internal/idpsrv"
	"verif/harness/internal/pbt"
)

type Step = idpsrv.Step
type Cookie = idpsrv.Cookie

// Fault fails the At-th store operation issued while requests are being served.
type Fault struct {
	At   int    `json:"at"`
	Kind string `json:"kind"` // notfound | io
}

// Case is a configuration plus a history, as data.
type Case struct {
	Seed uint64 `json:"seed"`
	// Init is written directly into the store before the server is created
	// (seed_user, put_service, put_shortcut steps only).
	Init  []Step  `json:"init,omitempty"`
	Steps []Step  `json:"steps"`
	Fault []Fault `json:"faults,omitempty"`
	// Restarts: the server is re-created over the same store before the step with this
	// index (len(Steps) = after the last step).  The history is run once without and once
	// with these restarts; the observable reply sequences must agree.
	Restarts []int `json:"restarts,omitempty"`
	// Opts varies the samlidp.Options fields no clause mentions (URL, Key/Signer, certificate, login template).
	Opts idpsrv.Opts `json:"opts,omitempty"`
}

const sessionLifetime = time.Hour // documented lifetime of a samlidp session (cookie Max-Age = 3600)

// excludeStale: VERIF_EXCLUDE_STALE_REGISTRY=1 skips exactly the histories in which a
// stored service is overwritten with metadata of another entity ID, or a service is
// deleted while another stored service has the same entity ID (the pinned tree's
// stale-registry defect), so that exploration can continue behind it.
func excludeStale() bool { return os.Getenv("VERIF_EXCLUDE_STALE_REGISTRY") == "1" }

// ---------------------------------------------------------------- reference model

type mUser struct {
	pw      int // index into idpsrv.Passwords, -1 = no password
	profile int
}

type mSession struct {
	user    string
	profile int
	expire  time.Time
	deleted bool
	idx     int
}

type mShortcut struct {
	entity string
	relay  int  // 0 = none, else index into idpsrv.RelayStates
	suffix bool // url_suffix_as_relay_state
}

// model is the executable reference.  Its state changes as the REQUESTS say: a management
// request answered with success has the documented effect, a request answered with an error
// status has none - whatever the implementation did to its store.  The store log is only
// used for the clauses about what is stored (hashes, sessions written, no write behind an
// error reply) and to know where faults were injected.
type model struct {
	users     map[string]*mUser
	services  map[string]int // name -> metadata variant
	shortcuts map[string]mShortcut
	sessions  map[string]*mSession // by the id handed out in the session cookie
	now       time.Time
	// stale-registry class seen (for the exclusion switch and the classes)
	staleClass bool
	// bookkeeping for the non-trivial rule
	touchedUsers, touchedEntities, touchedShortcuts map[string]bool
	touchedSessions                                 map[string]bool
	faultSeen                                       bool
}

func newModel() *model {
	return &model{users: map[string]*mUser{}, services: map[string]int{}, shortcuts: map[string]mShortcut{}, sessions: map[string]*mSession{},
		touchedUsers: map[string]bool{}, touchedEntities: map[string]bool{}, touchedShortcuts: map[string]bool{}, touchedSessions: map[string]bool{}}
}

func entityOfVariant(v int) string {
	if v < 0 || v >= len(idpsrv.Variants) {
		return ""
	}
	return idpsrv.Entities[idpsrv.Variants[v].Entity]
}

// registrations returns the metadata variants of the registered services with this entity ID.
func (m *model) registrations(entity string) []int {
	var names []string
	for n := range m.services {
		names = append(names, n)
	}
	sort.Strings(names)
	var out []int
	for _, n := range names {
		if v := m.services[n]; v >= 0 && entityOfVariant(v) == entity {
			out = append(out, v)
		}
	}
	return out
}

func shortcutOfStep(s Step) mShortcut {
	sc := mShortcut{entity: idpsrv.Entities[clampI(s.Issuer, len(idpsrv.Entities))], suffix: s.Suffix == "y"}
	if s.Relay > 0 {
		sc.relay = clampI(s.Relay, len(idpsrv.RelayStates))
	}
	return sc
}

// seed applies a direct store write of the harness (initial state, seed_user steps).
func (m *model) seed(s Step) {
	switch s.Op {
	case "seed_user":
		pw := s.Pw
		if pw >= len(idpsrv.LowCostHashes) {
			pw = -1
		}
		m.users[s.Name] = &mUser{pw: pw, profile: s.Profile}
	case "put_service":
		if s.MD >= 0 && s.MD < len(idpsrv.Variants) {
			m.services[s.Name] = s.MD
		}
	case "put_shortcut":
		m.shortcuts[s.Name] = shortcutOfStep(s)
	}
}

// apply gives a management request its documented effect - if and only if it was answered
// with success.  sessionID is the id a del_session request named.
func (m *model) apply(s Step, status int, sessionID string) {
	if status < 200 || status > 299 {
		return // an error reply means: nothing happened
	}
	switch s.Op {
	case "put_user":
		if s.Bad {
			return
		}
		nu := &mUser{pw: -1, profile: s.Profile}
		if s.Pw >= 0 {
			nu.pw = clampI(s.Pw, len(idpsrv.Passwords)) // "If the PlaintextPassword field is present then it is hashed and stored"
		} else if old := m.users[s.Name]; old != nil {
			nu.pw = old.pw // "... not present then HashedPassword retains its stored value"
		}
		m.users[s.Name] = nu
		m.touchedUsers[s.Name] = true
	case "del_user":
		if m.users[s.Name] != nil {
			m.touchedUsers[s.Name] = true
		}
		// sessions of the user stay: the property ties an assertion to "a stored, unexpired
		// session created by such a login", not to the user record still existing
		delete(m.users, s.Name)
	case "put_service":
		if s.Bad || s.MD < 0 || s.MD >= len(idpsrv.Variants) {
			return
		}
		if old, ok := m.services[s.Name]; ok {
			m.touchedEntities[entityOfVariant(old)] = true
			m.touchedEntities[entityOfVariant(s.MD)] = true
			if entityOfVariant(old) != entityOfVariant(s.MD) {
				m.staleClass = true
			}
		}
		m.services[s.Name] = s.MD
	case "del_service":
		if old, ok := m.services[s.Name]; ok {
			m.touchedEntities[entityOfVariant(old)] = true
			delete(m.services, s.Name)
			if len(m.registrations(entityOfVariant(old))) > 0 {
				m.staleClass = true
			}
		}
	case "put_shortcut":
		if s.Bad {
			return
		}
		if _, ok := m.shortcuts[s.Name]; ok {
			m.touchedShortcuts[s.Name] = true
		}
		m.shortcuts[s.Name] = shortcutOfStep(s)
	case "del_shortcut":
		if _, ok := m.shortcuts[s.Name]; ok {
			m.touchedShortcuts[s.Name] = true
		}
		delete(m.shortcuts, s.Name)
	case "del_session":
		if ms := m.sessions[sessionID]; ms != nil && !ms.deleted {
			ms.deleted = true
			m.touchedSessions[sessionID] = true
		}
	}
}

// scanLog reads the store log of one step: injected faults, session records written,
// and whether anything was written or removed at all.
func (m *model) scanLog(log []idpsrv.OpRec) (sessionPuts []string, mutated []string, fault bool) {
	for _, op := range log {
		if op.Fault != "" {
			m.faultSeen = true
			fault = true
			continue
		}
		if op.Err {
			continue
		}
		if op.Op == "put" || op.Op == "delete" {
			mutated = append(mutated, op.Op+" "+op.Key)
		}
		if op.Op == "put" && strings.HasPrefix(op.Key, "/sessions/") {
			sessionPuts = append(sessionPuts, strings.TrimPrefix(op.Key, "/sessions/"))
		}
	}
	return
}

// ---------------------------------------------------------------- execution + oracle

// obs is the observable part of one reply, compared between the two runs.
type obs struct {
	Status  int
	Kind    string
	NameID  string
	Attrs   string
	Target  string
	Cookies string
	Items   int
	Amb     bool // the target entity has two stored registrations with different metadata
}

type runResult struct {
	obs        []obs
	err        string
	classes    map[string]bool
	nonTrivial bool
	stale      bool
}

func hashesOf(st *idpsrv.Store) [][]byte {
	var out [][]byte
	for _, n := range st.Keys("/users/") {
		raw, _ := st.Raw("/users/" + n)
		var u samlidp.User
		if json.Unmarshal([]byte(raw), &u) == nil && len(u.HashedPassword) > 0 {
			out = append(out, u.HashedPassword)
		}
	}
	return out
}

func run(c Case, withRestarts bool) (res runResult) {
	res.classes = map[string]bool{}
	fix.Reset()
	env := idpsrv.NewEnv(c.Seed)
	env.Opts = c.Opts
	m := newModel()
	m.now = env.Now
	// initial state, directly through the store
	for _, s := range c.Init {
		switch s.Op {
		case "seed_user":
			env.SeedUser(s.Name, s.Pw, s.Profile)
		case "put_service":
			if s.MD >= 0 && s.MD < len(idpsrv.Variants) {
				env.SeedService(s.Name, s.MD)
			}
		case "put_shortcut":
			env.SeedShortcut(s)
		}
		m.seed(s)
	}
	if err := env.Start(); err != nil {
		res.err = "samlidp.New over the seeded store failed: " + err.Error()
		return
	}
	faults := map[int]string{}
	for _, f := range c.Fault {
		if f.Kind == "notfound" || f.Kind == "io" {
			faults[f.At] = f.Kind
		}
	}
	env.Store.SetFaults(faults)
	restartAt := map[int]bool{}
	if withRestarts {
		for _, p := range c.Restarts {
			restartAt[p] = true
		}
	}
	fail := func(i int, s Step, f string, a ...any) {
		if res.err == "" {
			js, _ := json.Marshal(s)
			res.err = fmt.Sprintf("step %d %s: %s", i, js, fmt.Sprintf(f, a...))
		}
	}
	for i, s := range c.Steps {
		if restartAt[i] {
			if err := env.Start(); err != nil {
				fail(i, s, "re-creating the server over the same store failed: %v", err)
				return
			}
		}
		switch s.Op {
		case "clock":
			env.Advance(s.Delta)
			m.now = env.Now
			for id, ms := range m.sessions {
				if !ms.deleted && m.now.After(ms.expire) {
					m.touchedSessions[id] = true
				}
			}
			res.obs = append(res.obs, obs{Kind: "clock"})
			continue
		case "seed_user":
			env.SeedUser(s.Name, s.Pw, s.Profile)
			m.seed(s)
			m.touchedUsers[s.Name] = true
			res.obs = append(res.obs, obs{Kind: "seed"})
			continue
		}
		b := env.Build(s)
		if b == nil {
			res.obs = append(res.obs, obs{Kind: "skip"})
			continue
		}
		// ---- what the model says about this request, before it runs
		credsUser, credsOK := "", false
		formCreds := s.User != "" && (((s.Op == "sso" || s.Op == "launch") && s.Method == "POST") || (s.Op == "login" && s.Method != "GET"))
		if formCreds {
			credsUser = s.User
			if u := m.users[s.User]; u != nil && u.pw >= 0 && idpsrv.Passwords[u.pw] == formPassword(s) {
				credsOK = true
			}
		}
		cookieOK := false
		var cookieSess *mSession
		if b.HasCookie {
			if ms := m.sessions[b.CookieVal]; ms != nil && !ms.deleted && !m.now.After(ms.expire) {
				cookieOK, cookieSess = true, ms
			}
		}
		hashesBefore := hashesOf(env.Store)
		// serving a request never changes the metadata the server holds for a registered SP
		var regBefore map[string]string
		if s.Op == "sso" || s.Op == "launch" {
			regBefore = map[string]string{}
			for _, v := range m.services {
				if ent := entityOfVariant(v); ent != "" {
					regBefore[ent] = env.RegisteredXML(ent)
				}
			}
		}

		env.Store.Counting(true)
		rep := env.Serve(b)
		env.Store.Counting(false)
		log := env.Store.TakeLog()
		stepFault := false
		for _, op := range log {
			if op.Fault != "" {
				stepFault = true
				res.classes["fault:"+op.Fault+":"+op.Op] = true
			}
		}
		wasStale := m.staleClass
		sessionPuts, mutated, _ := m.scanLog(log)
		clean := !m.faultSeen // no fault injected so far: store and model cannot have parted
		delID, _ := env.CookieValue(s.Session)
		existedBefore := m.exists(s, delID)
		m.apply(s, rep.Status, delID)
		if s.Op == "del_session" && rep.Status < 300 && m.sessions[delID] != nil {
			res.classes["session:deleted-by-request"] = true
		}
		if m.staleClass && !wasStale {
			res.classes["svc:overwritten-with-other-entity-or-shared-entity-deleted"] = true
		}
		// a session exists from the moment its id is handed out in the session cookie
		newSession := ""
		if v, ok := rep.Cookies["session"]; ok && v != "" && env.NoteSessionID(v) {
			newSession = v
			ms := &mSession{user: credsUser, profile: -1, expire: m.now.Add(sessionLifetime), idx: len(m.sessions)}
			if u := m.users[credsUser]; credsOK && u != nil {
				ms.profile = u.profile
			}
			m.sessions[v] = ms
		}

		// ---- an error reply means nothing happened: no write behind the back of a management call
		if rep.Status >= 400 && !stepFault && len(mutated) > 0 && (strings.HasPrefix(s.Op, "put_") || strings.HasPrefix(s.Op, "del_")) {
			fail(i, s, "request answered with status %d but the store was changed (%v)", rep.Status, mutated)
		}
		// ---- management reads show what the requests so far said (only while no fault was injected)
		if clean {
			if msg := m.judgeRead(s, rep, delID, existedBefore); msg != "" {
				fail(i, s, "%s", msg)
			}
		}

		for ent, before := range regBefore {
			if after := env.RegisteredXML(ent); after != before {
				fail(i, s, "serving the request changed the metadata registered for %q\n  before: %s\n  after : %s", ent, trunc([]byte(diffTail(before, after))), trunc([]byte(diffTail(after, before))))
			}
		}
		// ---- exactly one well-formed reply
		if rep.Panic != "" {
			fail(i, s, "handler panicked: %s", rep.Panic)
		}
		if rep.NoReply {
			fail(i, s, "handler returned without writing a reply")
		}
		if rep.Explicit > 1 || rep.LateHeader {
			fail(i, s, "more than one reply: %d WriteHeader calls, header written after the body started: %v (status %d, body %q)", rep.Explicit, rep.LateHeader, rep.Status, trunc(rep.Body))
		}
		if rep.Status < 200 || rep.Status > 599 {
			fail(i, s, "invalid status %d", rep.Status)
		}
		if rep.Malformed != "" {
			fail(i, s, "reply not well-formed: %s (status %d, body %q)", rep.Malformed, rep.Status, trunc(rep.Body))
		}
		if rep.Status == 200 && rep.Kind == "empty" {
			fail(i, s, "200 reply with an empty body")
		}
		if rep.Status >= 400 && rep.Kind == "assertion" {
			fail(i, s, "error status %d together with a SAMLResponse form", rep.Status)
		}
		// ---- hashes are never disclosed
		all := append([]byte(fmt.Sprint(rep.Header)), rep.Body...)
		for _, h := range append(hashesBefore, hashesOf(env.Store)...) {
			if idpsrv.LeaksHash(all, h) {
				fail(i, s, "reply discloses a stored password hash: %q", trunc(rep.Body))
			}
		}
		// ---- sessions are created only by a login with the user's current password
		for _, id := range sessionPuts {
			if !credsOK {
				fail(i, s, "a session (%s…) was stored although the request did not carry a user's current password (user %q, model: %s)", short(id), s.User, m.describeUser(s.User))
			}
		}
		if newSession != "" && !credsOK {
			fail(i, s, "a session cookie (%s…) was issued although the request did not carry a user's current password (user %q, model: %s)", short(newSession), s.User, m.describeUser(s.User))
		}
		// ---- a SAML response only for an authenticated user and a registered SP
		o := obs{Status: rep.Status, Kind: rep.Kind, Items: -1}
		if rep.Kind == "assertion" && rep.Assertion != nil {
			a := rep.Assertion
			o.NameID, o.Target = a.NameID, rep.FormAction
			var keys []string
			for k, v := range a.Attrs {
				keys = append(keys, k+"="+strings.Join(v, "|"))
			}
			sort.Strings(keys)
			o.Attrs = strings.Join(keys, ";")
			if s.Op != "sso" && s.Op != "launch" {
				fail(i, s, "SAMLResponse emitted by a request that is neither SSO nor a shortcut launch")
			}
			if !credsOK && !cookieOK {
				why := "no credentials in the form"
				if formCreds {
					why = fmt.Sprintf("credentials user=%q pw#%d do not match (model: %s)", s.User, s.Pw, m.describeUser(s.User))
				}
				if b.HasCookie {
					why += "; the cookie " + m.describeSession(b.CookieVal)
				} else {
					why += "; no session cookie"
				}
				fail(i, s, "SAMLResponse for NameID %q emitted to an unauthenticated request: %s", a.NameID, why)
			}
			// subject: the user as stored at login
			okSubject := false
			var wants []string
			if credsOK {
				u := m.users[credsUser]
				if u.profile < 0 || subjectMatches(a, credsUser, u.profile) {
					okSubject = true
				}
				wants = append(wants, fmt.Sprintf("%s as stored now (profile %d)", credsUser, u.profile))
			}
			if cookieOK {
				if cookieSess.profile < 0 || subjectMatches(a, cookieSess.user, cookieSess.profile) {
					okSubject = true
				}
				wants = append(wants, fmt.Sprintf("%s as stored at login (profile %d)", cookieSess.user, cookieSess.profile))
			}
			if (credsOK || cookieOK) && !okSubject {
				fail(i, s, "assertion describes NameID=%q attrs=%v, expected %s", a.NameID, a.Attrs, strings.Join(wants, " or "))
			}
			// target: a service provider registered at this moment
			entity := ""
			switch s.Op {
			case "sso":
				entity = idpsrv.Entities[clampI(s.Issuer, len(idpsrv.Entities))]
			case "launch":
				sc, ok := m.shortcuts[s.Name]
				if !ok {
					fail(i, s, "SAMLResponse for a shortcut that is not stored")
				}
				entity = sc.entity
			}
			regs := m.registrations(entity)
			if len(regs) == 0 {
				var have []string
				for n, v := range m.services {
					have = append(have, fmt.Sprintf("%s=%s", n, entityOfVariant(v)))
				}
				sort.Strings(have)
				fail(i, s, "SAMLResponse towards %q (form action %q), which no stored service registers at this moment (stored: %v)", entity, rep.FormAction, have)
			} else {
				okACS := false
				var acs []string
				for _, v := range regs {
					for _, ai := range idpsrv.Variants[v].ACS {
						acs = append(acs, idpsrv.ACS[ai])
						if idpsrv.ACS[ai] == rep.FormAction {
							okACS = true
						}
					}
				}
				if !okACS {
					fail(i, s, "SAMLResponse form action %q is not an ACS of the registration of %q at this moment (%v)", rep.FormAction, entity, acs)
				}
				if a.Destination != rep.FormAction || a.Recipient != rep.FormAction {
					fail(i, s, "form action %q, Destination %q and Recipient %q differ", rep.FormAction, a.Destination, a.Recipient)
				}
				if a.Audience != entity {
					fail(i, s, "audience %q is not the target entity %q", a.Audience, entity)
				}
				distinct := map[int]bool{}
				for _, v := range regs {
					distinct[v] = true
				}
				o.Amb = len(distinct) > 1
			}
			if s.Op == "sso" && a.InResponseTo != b.RequestID {
				fail(i, s, "InResponseTo %q is not the request id %q", a.InResponseTo, b.RequestID)
			}
		}
		if s.Op == "sso" || s.Op == "launch" {
			// ambiguity also matters when the reply is a refusal
			entity := ""
			if s.Op == "sso" {
				entity = idpsrv.Entities[clampI(s.Issuer, len(idpsrv.Entities))]
			} else if sc, ok := m.shortcuts[s.Name]; ok {
				entity = sc.entity
			}
			distinct := map[int]bool{}
			for _, v := range m.registrations(entity) {
				distinct[v] = true
			}
			if len(distinct) > 1 {
				o.Amb = true
				res.classes["svc:two-registrations-one-entity"] = true
			}
		}
		var names []string
		for n := range rep.Cookies {
			names = append(names, n)
		}
		sort.Strings(names)
		o.Cookies = strings.Join(names, ",")
		if rep.Kind == "json" && strings.HasPrefix(s.Op, "list_") {
			var doc map[string][]string
			if json.Unmarshal(rep.Body, &doc) == nil {
				for _, l := range doc {
					o.Items = len(l)
				}
			}
		}
		res.obs = append(res.obs, o)
		if p := env.Store.Problems(); len(p) > 0 {
			fail(i, s, "store: %s", p[0])
		}

		// ---- classes and the non-trivial rule
		res.classify(m, s, b, rep, formCreds, credsOK, cookieOK, stepFault)
		if res.err != "" {
			break
		}
	}
	res.stale = m.staleClass
	return
}

func (res *runResult) classify(m *model, s Step, b *idpsrv.Built, rep *idpsrv.Reply, formCreds, credsOK, cookieOK, stepFault bool) {
	cl := res.classes
	cl["op:"+s.Op] = true
	if s.Op != "sso" && s.Op != "launch" && s.Op != "login" {
		return
	}
	out := fmt.Sprintf("%s:%s-%d", s.Op, rep.Kind, rep.Status)
	cl[out] = true
	auth := "auth:none"
	if s.Op == "launch" {
		formCreds = false // the launch handler never reads form credentials; label by the cookie
	}
	switch {
	case formCreds && credsOK:
		auth = "auth:password-ok"
	case formCreds && m.users[s.User] == nil:
		auth = "auth:unknown-or-deleted-user"
	case formCreds && m.users[s.User].pw == -1:
		auth = "auth:user-without-password"
	case formCreds:
		auth = "auth:wrong-password"
	case b.HasCookie && cookieOK:
		auth = "auth:cookie-live"
	case b.HasCookie:
		ms := m.sessions[b.CookieVal]
		switch {
		case ms == nil:
			auth = "auth:cookie-forged"
		case ms.deleted:
			auth = "auth:cookie-deleted-session"
		default:
			auth = "auth:cookie-expired-session"
		}
	}
	cl[auth] = true
	if s.Op == "login" {
		return
	}
	if rep.Kind == "assertion" {
		cl[auth+"->assertion"] = true
	} else {
		cl[auth+"->refused"] = true
	}
	// non-trivial: an SSO / launch after a delete, overwrite, expiry or fault affecting what it needs
	nt := m.faultSeen
	if formCreds && m.touchedUsers[s.User] {
		nt = true
	}
	if b.HasCookie && m.touchedSessions[b.CookieVal] {
		nt = true
	}
	if s.Op == "sso" && m.touchedEntities[idpsrv.Entities[clampI(s.Issuer, len(idpsrv.Entities))]] {
		nt = true
	}
	if s.Op == "launch" {
		if m.touchedShortcuts[s.Name] {
			nt = true
		}
		if sc, ok := m.shortcuts[s.Name]; ok && m.touchedEntities[sc.entity] {
			nt = true
		}
	}
	if nt {
		res.nonTrivial = true
	}
	_ = stepFault
}

// formPassword is the password the form of the step carries (an absent field reads as "").
func formPassword(s Step) string {
	if s.Pw < 0 {
		return ""
	}
	return idpsrv.Passwords[clampI(s.Pw, len(idpsrv.Passwords))]
}

func subjectMatches(a *idpsrv.Assertion, user string, profile int) bool {
	p := idpsrv.ProfileOf(user, profile)
	return a.NameID == p.Email && idpsrv.AttrsEqual(a.Attrs, idpsrv.ExpectedAttrs(user, profile))
}

// exists says whether the object a get_ request names exists in the model.
func (m *model) exists(s Step, sessionID string) bool {
	switch s.Op {
	case "get_user":
		return m.users[s.Name] != nil
	case "get_service":
		_, ok := m.services[s.Name]
		return ok
	case "get_shortcut":
		_, ok := m.shortcuts[s.Name]
		return ok
	case "get_session":
		ms := m.sessions[sessionID]
		return ms != nil && !ms.deleted
	}
	return false
}

func sameSet(a, b []string) bool {
	a, b = append([]string(nil), a...), append([]string(nil), b...)
	sort.Strings(a)
	sort.Strings(b)
	return strings.Join(a, "\x00") == strings.Join(b, "\x00")
}

// judgeRead compares a list / get reply with the model ("" = agrees or not judged).
func (m *model) judgeRead(s Step, rep *idpsrv.Reply, sessionID string, existed bool) string {
	ok := rep.Status >= 200 && rep.Status < 300
	list := func(key string, want []string) string {
		if !ok {
			return fmt.Sprintf("list request answered with status %d", rep.Status)
		}
		var doc map[string][]string
		if err := json.Unmarshal(rep.Body, &doc); err != nil {
			return "list reply is not the documented JSON object: " + err.Error()
		}
		got, has := doc[key]
		if !has {
			return fmt.Sprintf("list reply lacks the %q member: %s", key, trunc(rep.Body))
		}
		if !sameSet(got, want) {
			sort.Strings(want)
			return fmt.Sprintf("list reply shows %q, the requests so far leave %q", got, want)
		}
		return ""
	}
	switch s.Op {
	case "list_users":
		return list("users", sortedKeys(m.users))
	case "list_services":
		return list("services", sortedKeys(m.services))
	case "list_shortcuts":
		return list("shortcuts", sortedKeys(m.shortcuts))
	case "list_sessions":
		if !ok {
			return fmt.Sprintf("list request answered with status %d", rep.Status)
		}
		var doc map[string][]string
		if err := json.Unmarshal(rep.Body, &doc); err != nil {
			return "list reply is not the documented JSON object: " + err.Error()
		}
		listed := map[string]bool{}
		for _, id := range doc["sessions"] {
			listed[id] = true
			if ms := m.sessions[id]; ms == nil || ms.deleted {
				return fmt.Sprintf("session list shows %q, which %s", short(id), m.describeSession(id))
			}
		}
		for id, ms := range m.sessions {
			if !ms.deleted && !m.now.After(ms.expire) && !listed[id] {
				return fmt.Sprintf("session list lacks live session #%d", ms.idx)
			}
		}
	case "get_user", "get_service", "get_shortcut", "get_session":
		if existed != ok {
			return fmt.Sprintf("%s answered with status %d although the requests so far say the object exists=%v", s.Op, rep.Status, existed)
		}
		if !ok {
			return ""
		}
		switch s.Op {
		case "get_user":
			var u samlidp.User
			if err := json.Unmarshal(rep.Body, &u); err != nil {
				return "user reply is not JSON: " + err.Error()
			}
			p := idpsrv.ProfileOf(s.Name, m.users[s.Name].profile)
			if u.Name != s.Name || u.Email != p.Email || u.CommonName != p.CommonName || u.Surname != p.Surname || u.GivenName != p.GivenName ||
				u.ScopedAffiliation != p.ScopedAffiliation || strings.Join(u.Groups, "\x00") != strings.Join(p.Groups, "\x00") {
				return fmt.Sprintf("user reply %s is not the user as last put (profile %d)", trunc(rep.Body), m.users[s.Name].profile)
			}
			if len(u.HashedPassword) != 0 || u.PlaintextPassword != nil {
				return "user reply carries password material"
			}
		case "get_service":
			var ed saml.EntityDescriptor
			if err := xml.Unmarshal(rep.Body, &ed); err != nil {
				return "service reply is not an EntityDescriptor: " + err.Error()
			}
			mv := idpsrv.Variants[m.services[s.Name]]
			var locs, want []string
			for _, d := range ed.SPSSODescriptors {
				for _, a := range d.AssertionConsumerServices {
					locs = append(locs, a.Location)
				}
			}
			for _, a := range mv.ACS {
				want = append(want, idpsrv.ACS[a])
			}
			if ed.EntityID != idpsrv.Entities[mv.Entity] || !sameSet(locs, want) {
				return fmt.Sprintf("service reply describes %q with ACS %q, last put was %q with %q", ed.EntityID, locs, idpsrv.Entities[mv.Entity], want)
			}
		case "get_shortcut":
			var sc samlidp.Shortcut
			if err := json.Unmarshal(rep.Body, &sc); err != nil {
				return "shortcut reply is not JSON: " + err.Error()
			}
			w := m.shortcuts[s.Name]
			relay := ""
			if sc.RelayState != nil {
				relay = *sc.RelayState
			}
			if sc.Name != s.Name || sc.ServiceProviderID != w.entity || (sc.RelayState != nil) != (w.relay > 0) || relay != idpsrv.RelayStates[w.relay] || sc.URISuffixAsRelayState != w.suffix {
				return fmt.Sprintf("shortcut reply %s is not the shortcut as last put (%+v)", trunc(rep.Body), w)
			}
		}
	}
	return ""
}

func (m *model) describeUser(name string) string {
	u := m.users[name]
	if u == nil {
		return "no such user stored"
	}
	if u.pw == -1 {
		return "user stored without a password"
	}
	return fmt.Sprintf("stored with pw#%d", u.pw)
}

func (m *model) describeSession(id string) string {
	ms := m.sessions[id]
	switch {
	case ms == nil:
		return "names no session ever stored"
	case ms.deleted:
		return fmt.Sprintf("names session #%d, which was deleted", ms.idx)
	case m.now.After(ms.expire):
		return fmt.Sprintf("names session #%d, expired at %s (now %s)", ms.idx, ms.expire.Format(time.RFC3339), m.now.Format(time.RFC3339))
	}
	return fmt.Sprintf("names live session #%d", ms.idx)
}

func clampI(i, n int) int {
	if i < 0 {
		return 0
	}
	if i >= n {
		return n - 1
	}
	return i
}

// diffTail returns a from the first byte where it differs from b (with a little context).
func diffTail(a, b string) string {
	i := 0
	for i < len(a) && i < len(b) && a[i] == b[i] {
		i++
	}
	if i > 60 {
		i -= 60
	} else {
		i = 0
	}
	return a[i:]
}

func short(s string) string {
	if len(s) > 8 {
		return s[:8]
	}
	return s
}

func trunc(b []byte) string {
	if len(b) > 300 {
		return string(b[:300]) + "…"
	}
	return string(b)
}

func check(c Case) pbt.Result {
	if len(c.Steps) == 0 {
		return pbt.Result{Skip: true}
	}
	a := run(c, false)
	if excludeStale() && a.stale {
		return pbt.Result{Skip: true}
	}
	res := pbt.Result{NonTrivial: a.nonTrivial}
	classes := a.classes
	if a.err != "" {
		res.Err = "run without restart: " + a.err
	}
	if len(c.Fault) > 0 {
		classes["faults:planned"] = true
	}
	if len(c.Restarts) > 0 && res.Err == "" {
		classes["restart"] = true
		if len(c.Restarts) > 1 {
			classes["restart:several"] = true
		}
		b := run(c, true)
		for k := range b.classes {
			classes[k] = true
		}
		if b.err != "" {
			res.Err = fmt.Sprintf("run with restarts before steps %v: %s", c.Restarts, b.err)
		} else {
			n := len(a.obs)
			if len(b.obs) < n {
				n = len(b.obs)
			}
			for i := 0; i < n; i++ {
				x, y := a.obs[i], b.obs[i]
				amb := x.Amb || y.Amb
				x.Amb, y.Amb = false, false
				if x == y {
					continue
				}
				if amb {
					// two stored services share the entity ID with different metadata: either
					// registration is valid, and the histories may legitimately part here
					classes["restart:parted-at-ambiguous-registration"] = true
					break
				}
				js, _ := json.Marshal(c.Steps[i])
				res.Err = fmt.Sprintf("a server re-created over the same store (restarts before steps %v) does not continue the history as the original: step %d %s\n  original : %+v\n  restarted: %+v", c.Restarts, i, js, x, y)
				break
			}
		}
	}
	for k := range classes {
		res.Classes = append(res.Classes, k)
	}
	sort.Strings(res.Classes)
	if res.Err != "" {
		res.NonTrivial = true
	}
	return res
}

// ---------------------------------------------------------------- generator

type gUser struct{ pw int }
type gSess struct {
	user    string
	at      int64
	deleted bool
}

type gModel struct {
	users     map[string]*gUser
	services  map[string]int
	shortcuts map[string]int
	sessions  []gSess
	now       int64
	costly    int
	follow    *Cookie // a session that just died: aim the next SSO / launch at it
}

func pick[T any](t *rapid.T, label string, xs []T) T { return rapid.SampledFrom(xs).Draw(t, label) }

func sortedKeys[V any](m map[string]V) []string {
	var out []string
	for k := range m {
		out = append(out, k)
	}
	sort.Strings(out)
	return out
}

func (g *gModel) genCookie(t *rapid.T) Cookie {
	var live, dead []int
	for i, s := range g.sessions {
		if !s.deleted && g.now-s.at <= 3600 && g.now >= s.at {
			live = append(live, i)
		} else {
			dead = append(dead, i)
		}
	}
	switch k := rapid.IntRange(0, 9).Draw(t, "cookie-class"); {
	case k <= 3 && len(live) > 0:
		return Cookie{Kind: "session", Idx: pick(t, "live", live)}
	case k <= 6 && len(dead) > 0: // expired or deleted session
		return Cookie{Kind: "session", Idx: pick(t, "dead", dead)}
	case k <= 7 && len(g.sessions) > 0:
		return Cookie{Kind: "session", Idx: rapid.IntRange(0, len(g.sessions)-1).Draw(t, "any")}
	case k == 8 || (k >= 6 && len(g.sessions) == 0):
		return Cookie{Kind: "forged", Val: pick(t, "forged", []string{"forged", "AAAAAAAAAAAAAAAAAAAAAAAAAAAAAAAAAAAAAAAAAAA=", "", "alice", "../users/alice", "%2e%2e/users/alice", "x y"})}
	}
	if len(g.sessions) > 0 {
		return Cookie{Kind: "session", Idx: rapid.IntRange(0, len(g.sessions)-1).Draw(t, "any")}
	}
	return Cookie{}
}

// genAuth fills the credential / cookie part of an sso, launch or login step.
func (g *gModel) genAuth(t *rapid.T, s *Step) {
	s.Pw = -1
	withPw := func() []string {
		var cands []string
		for _, n := range sortedKeys(g.users) {
			if g.users[n].pw >= 0 {
				cands = append(cands, n)
			}
		}
		return cands
	}
	switch k := rapid.IntRange(0, 14).Draw(t, "auth-class"); {
	case k == 12 && len(withPw()) > 0: // a near-miss of the right password, or another user's password
		s.User = pick(t, "user", withPw())
		s.Method = "POST"
		near := idpsrv.NearMissPasswords(g.users[s.User].pw)
		for _, n := range withPw() {
			if g.users[n].pw != g.users[s.User].pw {
				near = append(near, g.users[n].pw)
			}
		}
		near = append(near, 3, -1)
		s.Pw = pick(t, "near-pw", near)
		return
	case k == 13 && len(withPw()) > 0: // the right password under a near-miss of the user name
		u := pick(t, "user", withPw())
		s.User = pick(t, "near-user", []string{u + " ", " " + u, u + "\n", "\t" + u, strings.ToUpper(u), strings.ToUpper(u[:1]) + u[1:], u + "/", u + "\x00", u + "%20"})
		s.Pw = g.users[u].pw
		s.Method = "POST"
		return
	case k <= 3: // right password of a stored user
		var cands []string
		for _, n := range sortedKeys(g.users) {
			if g.users[n].pw >= 0 {
				cands = append(cands, n)
			}
		}
		if len(cands) > 0 {
			s.User = pick(t, "user", cands)
			s.Pw = g.users[s.User].pw
			s.Method = "POST"
			return
		}
		fallthrough
	case k == 4: // wrong password
		s.User = pick(t, "user", idpsrv.UserNames)
		s.Pw = rapid.IntRange(0, len(idpsrv.Passwords)-1).Draw(t, "pw")
		s.Method = "POST"
	case k == 5: // user without password / absent user, any password incl. empty
		s.User = pick(t, "user", append([]string{"nobody"}, idpsrv.UserNames...))
		s.Pw = pick(t, "pw", []int{-1, 3, 0, 1})
		s.Method = "POST"
	case k == 6: // credentials and a cookie
		s.User = pick(t, "user", idpsrv.UserNames)
		s.Pw = rapid.IntRange(0, 3).Draw(t, "pw")
		s.Method = "POST"
		s.Cookie = g.genCookie(t)
	default:
		s.Cookie = g.genCookie(t)
		s.Method = pick(t, "method", []string{"GET", "GET", "POST"})
	}
}

func (g *gModel) step(t *rapid.T) Step {
	s := Step{Pw: -1}
	k := rapid.IntRange(0, 99).Draw(t, "op")
	follow := g.follow
	g.follow = nil
	if follow != nil && rapid.IntRange(0, 9).Draw(t, "follow-up") < 6 {
		k = pick(t, "follow-op", []int{0, 0, 25})
	} else {
		follow = nil
	}
	switch {
	case k < 22: // SSO
		s.Op = "sso"
		if follow != nil {
			s.Cookie, s.Method = *follow, pick(t, "method", []string{"GET", "POST"})
		} else {
			g.genAuth(t, &s)
		}
		// issuer: mostly one that is (or was) registered
		var ents []int
		for _, n := range sortedKeys(g.services) {
			if v := g.services[n]; v >= 0 {
				ents = append(ents, idpsrv.Variants[v].Entity)
			}
		}
		var near []int
		for _, e := range ents {
			near = append(near, idpsrv.NearMissEntities(e)...)
		}
		switch ic := rapid.IntRange(0, 9).Draw(t, "issuer-class"); {
		case len(ents) > 0 && ic < 5:
			s.Issuer = pick(t, "issuer", ents)
		case len(near) > 0 && ic < 8:
			// a near-miss of a registered entity ID: a different SP as far as the IdP is concerned
			s.Issuer = pick(t, "near-issuer", near)
		default:
			s.Issuer = rapid.IntRange(0, len(idpsrv.Entities)-1).Draw(t, "issuer")
		}
		// ACS: mostly one the entity's variants know
		var acs []int
		for _, v := range idpsrv.Variants {
			if v.Entity == s.Issuer {
				acs = append(acs, v.ACS...)
			}
		}
		if len(acs) > 0 && rapid.IntRange(0, 9).Draw(t, "acs-class") < 7 {
			s.ACS = pick(t, "acs", acs)
		} else {
			s.ACS = rapid.IntRange(-1, len(idpsrv.ACS)-1).Draw(t, "acs")
		}
		s.Relay = rapid.IntRange(0, 2).Draw(t, "relay")
	case k < 31: // launch
		s.Op = "launch"
		if follow != nil {
			s.Cookie, s.Method = *follow, "GET"
		} else if rapid.IntRange(0, 4).Draw(t, "launch-auth") == 0 {
			g.genAuth(t, &s)
		} else {
			s.Cookie = g.genCookie(t)
			s.Method = "GET"
		}
		s.Name = pick(t, "shortcut", idpsrv.ShortcutNames)
		if st := sortedKeys(g.shortcuts); len(st) > 0 && rapid.IntRange(0, 4).Draw(t, "stored-shortcut") > 0 {
			s.Name = pick(t, "shortcut", st)
		}
		if rapid.Bool().Draw(t, "suffix?") {
			s.Suffix = "sfx"
		}
	case k < 40: // login
		s.Op = "login"
		g.genAuth(t, &s)
		if s.User == "" && s.Method == "POST" {
			s.Method = "GET"
		}
	case k < 44: // put user through the API
		s.Op = "put_user"
		s.Name = pick(t, "user", idpsrv.UserNames)
		s.Profile = rapid.IntRange(0, idpsrv.NProfiles-1).Draw(t, "profile")
		if g.costly < 2 && rapid.IntRange(0, 2).Draw(t, "with-password") == 0 {
			s.Pw = pick(t, "pw", []int{0, 1, 2, 3, 4, 5, 6, 8, 15, 16, 17})
			g.costly++
		}
		s.Bad = rapid.IntRange(0, 11).Draw(t, "bad-body") == 0
	case k < 49: // seed user directly (low-cost hash)
		s.Op = "seed_user"
		s.Name = pick(t, "user", idpsrv.UserNames)
		s.Profile = rapid.IntRange(0, idpsrv.NProfiles-1).Draw(t, "profile")
		s.Pw = pick(t, "pw", []int{0, 1, 2, 3, -1, 0, 1, 4, 5, 6, 9})
	case k < 53:
		s.Op = "del_user"
		s.Name = pick(t, "user", idpsrv.UserNames)
	case k < 55:
		s.Op = "get_user"
		s.Name = pick(t, "user", idpsrv.UserNames)
	case k < 56:
		s.Op = "list_users"
	case k < 66: // put service
		s.Op = "put_service"
		s.Name = pick(t, "service", idpsrv.ServiceNames)
		s.MD = pick(t, "md", []int{0, 1, 2, 3, 4, 5, 0, 2, 1, 3, -1, 6, 7, 8, 9, 10})
		s.Bad = rapid.IntRange(0, 15).Draw(t, "bad-body") == 0
		s.Method = pick(t, "method", []string{"PUT", "POST"})
		if excludeStale() {
			if old, ok := g.services[s.Name]; ok && old >= 0 && s.MD >= 0 && idpsrv.Variants[old].Entity != idpsrv.Variants[s.MD].Entity {
				s.MD = old // same registration again
			}
		}
	case k < 71:
		s.Op = "del_service"
		s.Name = pick(t, "service", idpsrv.ServiceNames)
	case k < 73:
		s.Op = "get_service"
		s.Name = pick(t, "service", idpsrv.ServiceNames)
	case k < 74:
		s.Op = "list_services"
	case k < 78:
		s.Op = "put_shortcut"
		s.Name = pick(t, "shortcut", idpsrv.ShortcutNames)
		s.Issuer = pick(t, "sp", []int{0, 1, 0, 1, 2, 3, 4, 5, 6, 7})
		s.Relay = rapid.IntRange(0, 2).Draw(t, "relay")
		if rapid.Bool().Draw(t, "suffix-relay") {
			s.Suffix = "y"
		}
		s.Bad = rapid.IntRange(0, 11).Draw(t, "bad-body") == 0
	case k < 80:
		s.Op = "del_shortcut"
		s.Name = pick(t, "shortcut", idpsrv.ShortcutNames)
	case k < 81:
		s.Op = pick(t, "sc-read", []string{"get_shortcut", "list_shortcuts"})
		s.Name = pick(t, "shortcut", idpsrv.ShortcutNames)
	case k < 87:
		s.Op = "del_session"
		if len(g.sessions) > 0 && rapid.IntRange(0, 4).Draw(t, "real") > 0 {
			s.Session = Cookie{Kind: "session", Idx: rapid.IntRange(0, len(g.sessions)-1).Draw(t, "sess")}
		} else {
			s.Session = Cookie{Kind: "forged", Val: "nope"}
		}
	case k < 89:
		s.Op = pick(t, "sess-read", []string{"get_session", "list_sessions"})
		if len(g.sessions) > 0 {
			s.Session = Cookie{Kind: "session", Idx: rapid.IntRange(0, len(g.sessions)-1).Draw(t, "sess")}
		}
	case k < 99:
		s.Op = "clock"
		s.Delta = pick(t, "delta", []int64{3601, 3601, 3599, 1800, 60, 7200, -1800, 3600 * 24, 1, -3601, 100, 3601})
		var alive []int
		for i, x := range g.sessions {
			if !x.deleted {
				alive = append(alive, i)
			}
		}
		if len(alive) > 0 && rapid.IntRange(0, 9).Draw(t, "around-expiry") < 6 {
			// land just before / after the expiry of one session: +-1 s and around the 180 s
			// clock-skew tolerance that must NOT apply to session expiry
			x := g.sessions[pick(t, "which", alive)]
			d := pick(t, "offset", []int64{-1, 1, 1, 2, 179, 180, 181, -180, -179, 90, 3600})
			if delta := x.at + 3600 + d - g.now; delta != 0 {
				s.Delta = delta
			}
		}
	default:
		s.Op = "metadata"
	}
	g.apply(s)
	return s
}

// apply advances the generator's light model (fault-free guess; the check never trusts it).
func (g *gModel) apply(s Step) {
	switch s.Op {
	case "put_user":
		if s.Bad {
			return
		}
		u := g.users[s.Name]
		if u == nil {
			u = &gUser{pw: -1}
			g.users[s.Name] = u
		}
		if s.Pw >= 0 {
			u.pw = s.Pw
		}
	case "seed_user":
		g.users[s.Name] = &gUser{pw: s.Pw}
	case "del_user":
		delete(g.users, s.Name)
	case "put_service":
		if s.MD >= 0 && !s.Bad {
			g.services[s.Name] = s.MD
		}
	case "del_service":
		delete(g.services, s.Name)
	case "put_shortcut":
		if !s.Bad {
			g.shortcuts[s.Name] = s.Issuer
		}
	case "del_shortcut":
		delete(g.shortcuts, s.Name)
	case "del_session":
		if s.Session.Kind == "session" && s.Session.Idx < len(g.sessions) {
			g.sessions[s.Session.Idx].deleted = true
			g.follow = &Cookie{Kind: "session", Idx: s.Session.Idx}
		}
	case "clock":
		for i, x := range g.sessions {
			if !x.deleted && g.now-x.at <= 3600 && g.now+s.Delta-x.at > 3600 {
				g.follow = &Cookie{Kind: "session", Idx: i}
			}
		}
		g.now += s.Delta
	case "login", "sso":
		if s.User != "" && s.Method == "POST" {
			if u := g.users[s.User]; u != nil && u.pw >= 0 && u.pw == s.Pw {
				if s.Op == "login" || g.registered(s.Issuer) {
					g.sessions = append(g.sessions, gSess{user: s.User, at: g.now})
				}
			}
		}
	}
}

func (g *gModel) registered(ent int) bool {
	for _, v := range g.services {
		if v >= 0 && idpsrv.Variants[v].Entity == ent {
			return true
		}
	}
	return false
}

func maxSteps() int {
	if pbt.Thorough() {
		return 60
	}
	return 25
}

func gen(t *rapid.T) Case {
	c := Case{Seed: rapid.Uint64().Draw(t, "seed")}
	if rapid.IntRange(0, 2).Draw(t, "vary-options") == 0 {
		c.Opts = idpsrv.Opts{URL: rapid.IntRange(0, 2).Draw(t, "url"), Signer: rapid.Bool().Draw(t, "signer"), Cert: rapid.IntRange(0, 1).Draw(t, "cert"), Template: rapid.Bool().Draw(t, "template")}
	}
	g := &gModel{users: map[string]*gUser{}, services: map[string]int{}, shortcuts: map[string]int{}}
	// initial state: mostly populated so that histories start in the middle of things
	if rapid.IntRange(0, 9).Draw(t, "populated") < 8 {
		nu := rapid.IntRange(1, len(idpsrv.UserNames)).Draw(t, "nusers")
		for i := 0; i < nu; i++ {
			s := Step{Op: "seed_user", Name: idpsrv.UserNames[i], Pw: pick(t, "pw", []int{0, 1, 2, -1, 0, 1, 3, 4, 5, 0}), Profile: rapid.IntRange(0, idpsrv.NProfiles-1).Draw(t, "profile")}
			c.Init = append(c.Init, s)
			g.apply(s)
		}
		ns := rapid.IntRange(0, len(idpsrv.ServiceNames)).Draw(t, "nservices")
		for i := 0; i < ns; i++ {
			s := Step{Op: "put_service", Name: idpsrv.ServiceNames[i], MD: rapid.IntRange(0, len(idpsrv.Variants)-1).Draw(t, "md"), Pw: -1}
			c.Init = append(c.Init, s)
			g.apply(s)
		}
		nc := rapid.IntRange(0, len(idpsrv.ShortcutNames)).Draw(t, "nshortcuts")
		for i := 0; i < nc; i++ {
			s := Step{Op: "put_shortcut", Name: idpsrv.ShortcutNames[i], Issuer: pick(t, "sp", []int{0, 1, 0, 1, 2, 3, 5}), Relay: rapid.IntRange(0, 2).Draw(t, "relay"), Pw: -1}
			c.Init = append(c.Init, s)
			g.apply(s)
		}
	}
	n := rapid.IntRange(1, maxSteps()).Draw(t, "len")
	for i := 0; i < n; i++ {
		if i == 0 && n > 2 && rapid.IntRange(0, 9).Draw(t, "login-first") < 6 {
			// start with a proper login so that the history has a session to lose
			var cands []string
			for _, u := range sortedKeys(g.users) {
				if g.users[u].pw >= 0 {
					cands = append(cands, u)
				}
			}
			if len(cands) > 0 {
				u := pick(t, "user", cands)
				s := Step{Op: "login", Method: "POST", User: u, Pw: g.users[u].pw}
				g.apply(s)
				c.Steps = append(c.Steps, s)
				continue
			}
		}
		c.Steps = append(c.Steps, g.step(t))
	}
	// store faults
	if rapid.IntRange(0, 9).Draw(t, "faulty") < 5 {
		nf := rapid.IntRange(1, 3).Draw(t, "nfaults")
		for i := 0; i < nf; i++ {
			c.Fault = append(c.Fault, Fault{At: rapid.IntRange(0, 2*n+2).Draw(t, "at"), Kind: pick(t, "kind", []string{"notfound", "io"})})
		}
	}
	// restarts
	switch k := rapid.IntRange(0, 9).Draw(t, "restart-class"); {
	case k == 0:
	case k <= 4:
		c.Restarts = []int{rapid.IntRange(0, n).Draw(t, "pos")}
	case k <= 6:
		m := map[int]bool{}
		for i := rapid.IntRange(2, 3).Draw(t, "nrestarts"); i > 0; i-- {
			m[rapid.IntRange(0, n).Draw(t, "pos")] = true
		}
		for p := range m {
			c.Restarts = append(c.Restarts, p)
		}
		sort.Ints(c.Restarts)
	default:
		for p := 0; p <= n; p++ {
			c.Restarts = append(c.Restarts, p)
		}
	}
	return c
}

// ---------------------------------------------------------------- bounded-exhaustive part

// reducedAlphabet: 1 user, 2 passwords, 2 services (2 entity IDs / ACS sets), 1 shortcut.
func reducedAlphabet() []Step {
	c0 := Cookie{Kind: "session", Idx: 0}
	return []Step{
		{Op: "seed_user", Name: "alice", Pw: 0, Profile: 0},
		{Op: "seed_user", Name: "alice", Pw: 1, Profile: 1},
		{Op: "put_user", Name: "alice", Pw: -1, Profile: 2},
		{Op: "del_user", Name: "alice", Pw: -1},
		{Op: "put_service", Name: "svc-a", MD: 0, Pw: -1},
		{Op: "put_service", Name: "svc-a", MD: 2, Pw: -1},
		{Op: "put_service", Name: "svc-b", MD: 1, Pw: -1},
		{Op: "del_service", Name: "svc-a", Pw: -1},
		{Op: "put_shortcut", Name: "sc-x", Issuer: 0, Pw: -1},
		{Op: "del_shortcut", Name: "sc-x", Pw: -1},
		{Op: "sso", Method: "POST", User: "alice", Pw: 0, Issuer: 0, ACS: 0},
		{Op: "sso", Method: "POST", User: "alice", Pw: 1, Issuer: 0, ACS: 0},
		{Op: "sso", Method: "GET", Pw: -1, Issuer: 0, ACS: 0, Cookie: c0},
		{Op: "launch", Name: "sc-x", Method: "GET", Pw: -1, Cookie: c0},
		{Op: "del_session", Pw: -1, Session: c0},
		{Op: "clock", Delta: 3601, Pw: -1},
		{Op: "login", Method: "POST", User: "alice", Pw: 0},
	}
}

func populatedInit() []Step {
	return []Step{
		{Op: "seed_user", Name: "alice", Pw: 0, Profile: 0},
		{Op: "put_service", Name: "svc-a", MD: 0, Pw: -1},
		{Op: "put_shortcut", Name: "sc-x", Issuer: 0, Pw: -1},
	}
}

func enumHistories(init []Step, maxLen int, emit func(Case)) {
	alpha := reducedAlphabet()
	var rec func(prefix []Step)
	rec = func(prefix []Step) {
		if len(prefix) > 0 {
			n := len(prefix)
			all := make([]int, 0, n+1)
			for p := 0; p <= n; p++ {
				all = append(all, p)
			}
			steps := append([]Step(nil), prefix...)
			// restart at every position at once: the restarted run then always works on a
			// registry freshly derived from the store
			emit(Case{Seed: 7, Init: init, Steps: steps, Restarts: all})
			// and a single restart before the last step
			emit(Case{Seed: 7, Init: init, Steps: steps, Restarts: []int{n - 1}})
		}
		if len(prefix) == maxLen {
			return
		}
		for _, a := range alpha {
			rec(append(prefix, a))
		}
	}
	rec(nil)
}

func enumPopulated(tier string, emit func(Case)) {
	n := 3
	if tier == "thorough" {
		n = 4
	}
	enumHistories(populatedInit(), n, emit)
}

func enumEmpty(tier string, emit func(Case)) {
	n := 2
	if tier == "thorough" {
		n = 3
	}
	enumHistories(nil, n, emit)
}

// enumPasswordReplacement: a user is created with password a (every alphabet member incl. the
// empty one, or none) and then PUT again with password b; afterwards a login / SSO is tried with
// every password.  "Current password" is what the second PUT set (no password field keeps ...
// whatever the model says; the model is the judge), so stale passwords must stop working.
func enumPasswordReplacement(_ string, emit func(Case)) {
	pws := []int{0, 1, 3, -1}
	svc := idpsrv.Step{Op: "put_service", Name: "svc-a", Pw: -1, MD: 0}
	for _, seeded := range []bool{true, false} {
		for _, a := range pws {
			for _, b := range pws {
				for _, try := range []int{0, 1, 3} {
					for _, op := range []string{"login", "sso"} {
						c := Case{Seed: 11, Init: []idpsrv.Step{svc}}
						if seeded {
							c.Init = append([]idpsrv.Step{{Op: "seed_user", Name: "alice", Pw: a, Profile: 0}}, c.Init...)
						} else {
							c.Steps = append(c.Steps, idpsrv.Step{Op: "put_user", Name: "alice", Pw: a, Profile: 0})
						}
						c.Steps = append(c.Steps, idpsrv.Step{Op: "put_user", Name: "alice", Pw: b, Profile: 1})
						st := idpsrv.Step{Op: op, Method: "POST", User: "alice", Pw: try, Issuer: 0, ACS: 0}
						c.Steps = append(c.Steps, st, st)
						c.Restarts = []int{len(c.Steps) - 1}
						emit(c)
					}
				}
			}
		}
	}
}

// enumFaultPositions: short canonical histories (login, SSO with credentials, SSO with cookie,
// shortcut launch, management calls) with one store fault of each kind at every store-operation
// position 0..11 - so that every single store access of these flows fails once.
func enumFaultPositions(_ string, emit func(Case)) {
	init := []idpsrv.Step{{Op: "seed_user", Name: "alice", Pw: 0, Profile: 0}, {Op: "put_service", Name: "svc-a", Pw: -1, MD: 0}, {Op: "put_shortcut", Name: "sc-a", Pw: -1, Issuer: 0, Relay: 1}}
	sess0 := idpsrv.Cookie{Kind: "session", Idx: 0}
	histories := [][]idpsrv.Step{
		{{Op: "login", Method: "POST", User: "alice", Pw: 0}},
		{{Op: "sso", Method: "POST", User: "alice", Pw: 0, Issuer: 0, ACS: 0}},
		{{Op: "sso", Method: "GET", User: "alice", Pw: 0, Issuer: 0, ACS: 0}},
		{{Op: "login", Method: "POST", User: "alice", Pw: 0}, {Op: "sso", Method: "GET", Pw: -1, Issuer: 0, ACS: 0, Cookie: sess0}},
		{{Op: "login", Method: "POST", User: "alice", Pw: 0}, {Op: "launch", Name: "sc-a", Pw: -1, Cookie: sess0}},
		{{Op: "launch", Name: "sc-a", User: "alice", Pw: 0}},
		{{Op: "put_user", Name: "bob", Pw: 1, Profile: 1}, {Op: "login", Method: "POST", User: "bob", Pw: 1}},
		{{Op: "put_service", Name: "svc-b", Pw: -1, MD: 2}, {Op: "sso", Method: "POST", User: "alice", Pw: 0, Issuer: 1, ACS: 2}},
		{{Op: "put_service", Name: "svc-a", Pw: -1, MD: 3}, {Op: "sso", Method: "POST", User: "alice", Pw: 0, Issuer: 1, ACS: 3}, {Op: "sso", Method: "POST", User: "alice", Pw: 0, Issuer: 0, ACS: 0}},
		{{Op: "del_service", Name: "svc-a", Pw: -1}, {Op: "sso", Method: "POST", User: "alice", Pw: 0, Issuer: 0, ACS: 0}},
		{{Op: "put_shortcut", Name: "sc-a", Pw: -1, Issuer: 1}, {Op: "del_shortcut", Name: "sc-a", Pw: -1}, {Op: "login", Method: "POST", User: "alice", Pw: 0}, {Op: "launch", Name: "sc-a", Pw: -1, Cookie: sess0}},
		{{Op: "put_user", Name: "alice", Pw: -1, Profile: 2}, {Op: "del_user", Name: "alice", Pw: -1}, {Op: "login", Method: "POST", User: "alice", Pw: 0}},
		{{Op: "login", Method: "POST", User: "alice", Pw: 0}, {Op: "del_session", Pw: -1, Session: sess0}, {Op: "sso", Method: "GET", Pw: -1, Issuer: 0, ACS: 0, Cookie: sess0}},
	}
	for _, h := range histories {
		for at := 0; at < 12; at++ {
			for _, kind := range []string{"notfound", "io"} {
				emit(Case{Seed: 12, Init: init, Steps: h, Fault: []Fault{{At: at, Kind: kind}}})
				emit(Case{Seed: 12, Init: init, Steps: h, Fault: []Fault{{At: at, Kind: kind}}, Restarts: []int{len(h)}})
			}
		}
	}
}

// enumExpiryBoundary: a session is created, the clock lands at expiry + d for every d of a
// grid around the boundary (+-1 s, around the 180 s MaxClockSkew that must not apply here, and
// going back in time), then the cookie is presented to /sso, a shortcut and /login.
func enumExpiryBoundary(_ string, emit func(Case)) {
	init := []Step{{Op: "seed_user", Name: "alice", Pw: 0, Profile: 3}, {Op: "put_service", Name: "svc-a", Pw: -1, MD: 4}, {Op: "put_shortcut", Name: "sc-x", Pw: -1, Issuer: 0, Relay: 1}}
	c0 := Cookie{Kind: "session", Idx: 0}
	uses := []Step{
		{Op: "sso", Method: "GET", Pw: -1, Issuer: 0, ACS: 0, Cookie: c0},
		{Op: "sso", Method: "POST", Pw: -1, Issuer: 0, ACS: 1, Cookie: c0},
		{Op: "launch", Name: "sc-x", Method: "GET", Pw: -1, Cookie: c0, Suffix: "sfx"},
		{Op: "login", Method: "GET", Pw: -1, Cookie: c0},
	}
	logins := []Step{{Op: "login", Method: "POST", User: "alice", Pw: 0}, {Op: "sso", Method: "POST", User: "alice", Pw: 0, Issuer: 0, ACS: 0}}
	for _, d := range []int64{-3601, -181, -180, -179, -2, -1, 1, 2, 60, 179, 180, 181, 3599, 3600, 3601} {
		for _, lg := range logins {
			for _, use := range uses {
				for _, split := range []bool{false, true} {
					steps := []Step{lg}
					if split {
						steps = append(steps, Step{Op: "clock", Pw: -1, Delta: 3000}, Step{Op: "clock", Pw: -1, Delta: 600 + d})
					} else {
						steps = append(steps, Step{Op: "clock", Pw: -1, Delta: 3600 + d})
					}
					steps = append(steps, use, Step{Op: "clock", Pw: -1, Delta: -d - 1}, use)
					emit(Case{Seed: 13, Init: init, Steps: steps, Restarts: []int{len(steps) - 3}, Opts: idpsrv.Opts{URL: int(d&1) * 2, Template: d%3 == 0}})
				}
			}
		}
	}
}

// enumEscapedNames: user, service and shortcut names (and, being base64, session ids) that need
// escaping in a URL path or a form go through the whole life cycle: put, get, list, use, delete,
// use again - and a name that only differs by its escaping must stay a different object.
func enumEscapedNames(_ string, emit func(Case)) {
	names := []string{"a/b", "a b", "a+b", "a%2Fb", "a%20b", "a?b=c", "a#b", "\u00fc\u00f1\u00ef", "a;b", "a:b@c", "a&b=c", "x%", "~a.b", "a%252Fb"}
	c0 := Cookie{Kind: "session", Idx: 0}
	for i, n := range names {
		other := names[(i+1)%len(names)]
		for _, md := range []int{0, 4} {
			steps := []Step{
				{Op: "put_user", Name: n, Pw: -1, Profile: 3},
				{Op: "seed_user", Name: n, Pw: 1, Profile: 1},
				{Op: "put_user", Name: n, Pw: -1, Profile: 3},
				{Op: "get_user", Name: n, Pw: -1},
				{Op: "get_user", Name: other, Pw: -1},
				{Op: "list_users", Pw: -1},
				{Op: "put_service", Name: n, Pw: -1, MD: md},
				{Op: "get_service", Name: n, Pw: -1},
				{Op: "list_services", Pw: -1},
				{Op: "put_shortcut", Name: n, Pw: -1, Issuer: 0, Suffix: "y"},
				{Op: "get_shortcut", Name: n, Pw: -1},
				{Op: "list_shortcuts", Pw: -1},
				{Op: "sso", Method: "POST", User: n, Pw: 1, Issuer: 0, ACS: 0},
				{Op: "launch", Name: n, Method: "GET", Pw: -1, Cookie: c0, Suffix: "s/f x"},
				{Op: "get_session", Pw: -1, Session: c0},
				{Op: "list_sessions", Pw: -1},
				{Op: "del_shortcut", Name: other, Pw: -1},
				{Op: "del_service", Name: other, Pw: -1},
				{Op: "del_user", Name: other, Pw: -1},
				{Op: "launch", Name: n, Method: "GET", Pw: -1, Cookie: c0},
				{Op: "del_session", Pw: -1, Session: c0},
				{Op: "sso", Method: "GET", Pw: -1, Issuer: 0, ACS: 0, Cookie: c0},
				{Op: "launch", Name: n, Method: "GET", Pw: -1, Cookie: c0},
				{Op: "login", Method: "POST", User: n, Pw: 1},
				{Op: "del_shortcut", Name: n, Pw: -1},
				{Op: "launch", Name: n, Method: "GET", Pw: -1, Cookie: Cookie{Kind: "session", Idx: 1}},
				{Op: "del_service", Name: n, Pw: -1},
				{Op: "sso", Method: "GET", Pw: -1, Issuer: 0, ACS: 0, Cookie: Cookie{Kind: "session", Idx: 1}},
				{Op: "del_user", Name: n, Pw: -1},
				{Op: "login", Method: "POST", User: n, Pw: 1},
				{Op: "list_users", Pw: -1},
			}
			emit(Case{Seed: 14 + uint64(i), Steps: steps, Restarts: []int{13, 22}})
			var all []int
			for p := range steps {
				all = append(all, p)
			}
			emit(Case{Seed: 14 + uint64(i), Steps: steps, Restarts: all, Opts: idpsrv.Opts{URL: 2, Signer: true, Cert: 1}})
		}
	}
}

// enumOverwrite: every stored object is put as A and then put again as B (all pairs), read
// back, used, deleted and used again: what counts after an acknowledged request is what the
// request said, not what was there before.
func enumOverwrite(_ string, emit func(Case)) {
	c0 := Cookie{Kind: "session", Idx: 0}
	login := Step{Op: "login", Method: "POST", User: "alice", Pw: 0}
	base := []Step{{Op: "seed_user", Name: "alice", Pw: 0, Profile: 0}}
	// shortcuts: target entity x relay-state settings
	for a := 0; a < 3; a++ {
		for b := 0; b < 3; b++ {
			for _, rs := range [][2]int{{0, 1}, {2, 0}} {
				init := append(append([]Step(nil), base...), Step{Op: "put_service", Name: "svc-a", Pw: -1, MD: 0}, Step{Op: "put_service", Name: "svc-b", Pw: -1, MD: 2})
				steps := []Step{login,
					{Op: "put_shortcut", Name: "sc-x", Pw: -1, Issuer: a, Relay: rs[0], Suffix: "y"},
					{Op: "launch", Name: "sc-x", Method: "GET", Pw: -1, Cookie: c0, Suffix: "sfx"},
					{Op: "put_shortcut", Name: "sc-x", Pw: -1, Issuer: b, Relay: rs[1]},
					{Op: "get_shortcut", Name: "sc-x", Pw: -1},
					{Op: "launch", Name: "sc-x", Method: "GET", Pw: -1, Cookie: c0},
					{Op: "put_shortcut", Name: "sc-x", Pw: -1, Issuer: a, Bad: true},
					{Op: "launch", Name: "sc-x", Method: "GET", Pw: -1, Cookie: c0},
					{Op: "del_shortcut", Name: "sc-x", Pw: -1},
					{Op: "list_shortcuts", Pw: -1},
					{Op: "launch", Name: "sc-x", Method: "GET", Pw: -1, Cookie: c0},
				}
				emit(Case{Seed: 15, Init: init, Steps: steps, Restarts: []int{5, 9}})
			}
		}
	}
	// services: metadata variants
	nv := len(idpsrv.Variants)
	for a := 0; a < nv; a++ {
		for b := 0; b < nv; b++ {
			va, vb := idpsrv.Variants[a], idpsrv.Variants[b]
			sso := func(v idpsrv.MDVariant, k int) Step {
				return Step{Op: "sso", Method: "GET", Pw: -1, Issuer: v.Entity, ACS: v.ACS[k%len(v.ACS)], Cookie: c0}
			}
			steps := []Step{login,
				{Op: "put_service", Name: "svc-a", Pw: -1, MD: a},
				sso(va, 0),
				{Op: "put_service", Name: "svc-a", Pw: -1, MD: b, Method: "POST"},
				{Op: "get_service", Name: "svc-a", Pw: -1},
				sso(va, 0), sso(va, 1), sso(vb, 0), sso(vb, 1),
				{Op: "put_service", Name: "svc-a", Pw: -1, MD: a, Bad: true},
				sso(va, 0), sso(vb, 0),
				{Op: "del_service", Name: "svc-a", Pw: -1},
				{Op: "list_services", Pw: -1},
				sso(va, 0), sso(vb, 0),
			}
			emit(Case{Seed: 16, Init: base, Steps: steps, Restarts: []int{5, 11, 15}})
		}
	}
	// users: profile x password presence
	for a := 0; a < idpsrv.NProfiles; a++ {
		for b := 0; b < idpsrv.NProfiles; b++ {
			for _, seedPw := range []int{1, -1} {
				init := []Step{{Op: "seed_user", Name: "bob", Pw: seedPw, Profile: a}, {Op: "put_service", Name: "svc-a", Pw: -1, MD: 4}}
				try := func(pw int) Step {
					return Step{Op: "sso", Method: "POST", User: "bob", Pw: pw, Issuer: 0, ACS: 0}
				}
				steps := []Step{try(1),
					{Op: "put_user", Name: "bob", Pw: -1, Profile: b},
					{Op: "get_user", Name: "bob", Pw: -1},
					try(1), try(3), try(-1),
					{Op: "sso", Method: "GET", Pw: -1, Issuer: 0, ACS: 1, Cookie: c0},
					{Op: "put_user", Name: "bob", Pw: -1, Profile: a, Bad: true},
					try(1),
					{Op: "del_user", Name: "bob", Pw: -1},
					{Op: "list_users", Pw: -1},
					try(1),
					{Op: "sso", Method: "GET", Pw: -1, Issuer: 0, ACS: 1, Cookie: c0},
					{Op: "put_user", Name: "bob", Pw: -1, Profile: b},
					try(1), try(3),
				}
				emit(Case{Seed: 17, Init: init, Steps: steps, Restarts: []int{3, 11}})
			}
		}
	}
}

// enumNearMissIdentifiers: entity IDs, service, shortcut and user names that differ from a
// registered one only by a trailing slash, case, a query, a blank or percent-encoding are
// different objects: registering / deleting one says nothing about the other.
func enumNearMissIdentifiers(_ string, emit func(Case)) {
	c0 := Cookie{Kind: "session", Idx: 0}
	login := Step{Op: "login", Method: "POST", User: "alice", Pw: 0}
	base := []Step{{Op: "seed_user", Name: "alice", Pw: 0, Profile: 0}}
	// variant of each entity (0 and its near-misses 3..7)
	variantOf := map[int]int{0: 0, 3: 6, 4: 7, 5: 8, 6: 9, 7: 10}
	ents := []int{0, 3, 4, 5, 6, 7}
	for _, x := range ents {
		for _, y := range ents {
			if x == y {
				continue
			}
			use := func(e int) []Step {
				v := idpsrv.Variants[variantOf[e]]
				return []Step{
					{Op: "sso", Method: "GET", Pw: -1, Issuer: e, ACS: v.ACS[0], Cookie: c0},
					{Op: "sso", Method: "POST", User: "alice", Pw: 0, Issuer: e, ACS: -1},
					{Op: "put_shortcut", Name: "sc-x", Pw: -1, Issuer: e, Relay: 1},
					{Op: "launch", Name: "sc-x", Method: "GET", Pw: -1, Cookie: c0},
				}
			}
			// only x registered: y must not be served; then both; then x deleted: x must stop, y go on
			steps := []Step{login, {Op: "put_service", Name: "svc-a", Pw: -1, MD: variantOf[x]}}
			steps = append(steps, use(y)...)
			steps = append(steps, use(x)...)
			steps = append(steps, Step{Op: "put_service", Name: "svc-b", Pw: -1, MD: variantOf[y]})
			steps = append(steps, use(y)...)
			steps = append(steps, Step{Op: "del_service", Name: "svc-a", Pw: -1})
			steps = append(steps, use(x)...)
			steps = append(steps, use(y)...)
			emit(Case{Seed: 18, Init: base, Steps: steps, Restarts: []int{2, 11, 16}})
		}
	}
	// names: put the name and its near-miss independently, delete one, the other stays
	type fam struct{ kind, name string }
	for _, f := range []fam{{"user", "alice"}, {"service", "svc-a"}, {"shortcut", "sc-x"}} {
		for _, nm := range []string{f.name + "/", f.name + " ", " " + f.name, strings.ToUpper(f.name), f.name + "%2F", f.name + "?x=1", f.name + "%20"} {
			var steps []Step
			put := func(n string, k int) Step {
				switch f.kind {
				case "user":
					return Step{Op: "seed_user", Name: n, Pw: k, Profile: k}
				case "service":
					return Step{Op: "put_service", Name: n, Pw: -1, MD: k * 2}
				}
				return Step{Op: "put_shortcut", Name: n, Pw: -1, Issuer: k}
			}
			use := func(n string, k int) []Step {
				switch f.kind {
				case "user":
					return []Step{{Op: "get_user", Name: n, Pw: -1}, {Op: "sso", Method: "POST", User: n, Pw: k, Issuer: 0, ACS: 0}, {Op: "sso", Method: "POST", User: n, Pw: 1 - k, Issuer: 0, ACS: 0}}
				case "service":
					v := idpsrv.Variants[k*2]
					return []Step{{Op: "get_service", Name: n, Pw: -1}, {Op: "sso", Method: "GET", Pw: -1, Issuer: v.Entity, ACS: v.ACS[0], Cookie: c0}}
				}
				return []Step{{Op: "get_shortcut", Name: n, Pw: -1}, {Op: "launch", Name: n, Method: "GET", Pw: -1, Cookie: c0}}
			}
			del := func(n string) Step { return Step{Op: "del_" + f.kind, Name: n, Pw: -1} }
			list := Step{Op: "list_" + f.kind + "s", Pw: -1}
			init := []Step{{Op: "seed_user", Name: "carol", Pw: 2, Profile: 2}, {Op: "put_service", Name: "svc-c", Pw: -1, MD: 0}, {Op: "put_service", Name: "svc-d", Pw: -1, MD: 2}}
			if f.kind == "service" {
				init = init[:1] // only the two services of the family: deleting one must stop its entity
			}
			steps = append(steps, Step{Op: "login", Method: "POST", User: "carol", Pw: 2}, put(f.name, 0))
			steps = append(steps, use(nm, 0)...)
			steps = append(steps, use(f.name, 0)...)
			steps = append(steps, put(nm, 1), list)
			steps = append(steps, use(nm, 1)...)
			steps = append(steps, use(f.name, 0)...)
			steps = append(steps, del(f.name), list)
			steps = append(steps, use(f.name, 0)...)
			steps = append(steps, use(nm, 1)...)
			steps = append(steps, del(nm), list)
			steps = append(steps, use(nm, 1)...)
			emit(Case{Seed: 19, Init: init, Steps: steps, Restarts: []int{len(steps) / 2}})
		}
	}
}

// enumNearMissCredentials: for stored passwords (also ones that begin / end with white space
// and the empty one) every password of the alphabet - near-misses with white space at either
// end, other case, NUL, a Unicode look-alike, the trimmed form, another user's password,
// none - is tried at /login and /sso; and the right password under near-misses of the user name.
func enumNearMissCredentials(_ string, emit func(Case)) {
	svc := Step{Op: "put_service", Name: "svc-a", Pw: -1, MD: 0}
	for _, stored := range []int{0, 4, 5, 3, 1, 8} {
		for try := -1; try < len(idpsrv.Passwords); try++ {
			init := []Step{{Op: "seed_user", Name: "alice", Pw: stored, Profile: 0}, {Op: "seed_user", Name: "bob", Pw: 2, Profile: 1}, svc}
			steps := []Step{
				{Op: "login", Method: "POST", User: "alice", Pw: try},
				{Op: "sso", Method: "POST", User: "alice", Pw: try, Issuer: 0, ACS: 0},
				{Op: "sso", Method: "POST", User: "alice", Pw: stored, Issuer: 0, ACS: 0},
			}
			emit(Case{Seed: 20, Init: init, Steps: steps, Restarts: []int{2}})
		}
	}
	for _, stored := range []int{0, 5} {
		for _, nu := range []string{"alice ", " alice", "alice\n", "\talice", "ALICE", "Alice", "alice/", "alice\x00", "alice%20", "alic", "alice\u00a0"} {
			init := []Step{{Op: "seed_user", Name: "alice", Pw: stored, Profile: 0}, svc}
			steps := []Step{
				{Op: "login", Method: "POST", User: nu, Pw: stored},
				{Op: "sso", Method: "POST", User: nu, Pw: stored, Issuer: 0, ACS: 0},
				{Op: "launch", Name: "sc-x", Method: "POST", User: nu, Pw: stored},
				{Op: "sso", Method: "POST", User: "alice", Pw: stored, Issuer: 0, ACS: 0},
			}
			emit(Case{Seed: 21, Init: init, Steps: steps})
		}
	}
	// a password set through the API with white space at its ends works exactly as given only; so do passwords at and
	// beyond the longest length the hash function takes (the server may refuse them, in which case nothing logs in)
	for _, pw := range []int{4, 5, 15, 16, 17} {
		steps := []Step{{Op: "put_user", Name: "dave", Pw: pw, Profile: 1}}
		for _, try := range append([]int{pw}, idpsrv.NearMissPasswords(pw)...) {
			steps = append(steps, Step{Op: "login", Method: "POST", User: "dave", Pw: try})
		}
		emit(Case{Seed: 22, Init: []Step{svc}, Steps: steps})
	}
}

var prop = &pbt.Prop[Case]{
	ID: "C19",
	Rule: "cases: a seeded store (0-4 users with low-cost bcrypt hashes or none, 0-4 services over 6 metadata variants = 2 entity IDs x ACS sets / descriptor layouts, 0-3 shortcuts; names include ones needing path/form escaping) plus a history of 1..25 (thorough 60) steps over " +
		"{put/seed/delete/get/list user, put/delete/get/list service, put/delete/get/list shortcut (also with malformed bodies), login, SSO GET/POST with right/wrong/absent credentials and live/expired/deleted/forged/no cookie, shortcut launch, " +
		"delete/get/list session, clock +- (also landing +-1 s / +-180 s around a session's expiry), metadata}, varied samlidp.Options, 0-3 store faults (not-found / I/O error at the n-th operation) and a set of restart positions; every case is run without and with its restarts. " +
		"Exhaustive: all histories of length <= 3 (thorough 4) over a 17-action reduced alphabet from a populated and (length <= 2, thorough 3) an empty store, each with a restart at every position and before the last step; password-replacement grid; a fault at every store operation of 14 canonical histories; " +
		"session-expiry boundary grid; put-A-then-put-B grids for shortcuts, services and users; life cycle of 14 names needing escaping. " +
		"non-trivial: the history contains an SSO or shortcut launch after a delete / overwrite / expiry of the user, session, service or shortcut it needs, or after an injected store fault. distinct: sha256 of the JSON case.",
	Gen:   gen,
	Check: check,
	Reset: fix.Reset,
	Enums: []pbt.Enum[Case]{
		{Name: "histories-reduced-alphabet-populated-store", Each: enumPopulated},
		{Name: "histories-reduced-alphabet-empty-store", Each: enumEmpty},
		{Name: "password-replacement-grid", Each: enumPasswordReplacement},
		{Name: "fault-at-every-store-operation-of-canonical-histories", Each: enumFaultPositions},
		{Name: "session-expiry-boundary-grid", Each: enumExpiryBoundary},
		{Name: "put-A-then-put-B-read-use-delete-use", Each: enumOverwrite},
		{Name: "names-needing-escaping-life-cycle", Each: enumEscapedNames},
		{Name: "near-miss-entity-ids-and-names", Each: enumNearMissIdentifiers},
		{Name: "near-miss-credentials", Each: enumNearMissCredentials},
	},
	Assumptions: []string{
		"requests are served by calling the server's http.Handler directly with a counting ResponseWriter (no network)",
		"injected store faults fail the operation without performing it; start-up (samlidp.New) is not faulted",
		"the session lifetime is one hour on the library clock saml.TimeNow (cookie Max-Age 3600); the instant exactly at expiry is not judged",
		"AuthnRequests are built by a library saml.ServiceProvider at the instant of the request; assertions are read with the fixture SP key",
		"the reference model changes as the requests say (success = documented effect, error status = no effect); the store log of the harness-owned wrapper serves only the what-is-stored clauses and fault bookkeeping; MemoryStore is cross-checked against the wrapper's shadow map on every Get/List",
		"a deleted user's still-stored sessions stay valid: the property ties an assertion to a stored unexpired session created by a login, not to the user record",
		"management reads (list / get) are compared with the model only while no fault has been injected",
		"when two stored services share an entity ID with different metadata either registration is a valid target and the run-vs-restarted-run comparison stops at the first reply that differs there",
	},
}

func TestCheck(t *testing.T) { pbt.Run(t, prop) }

func FuzzCheck(f *testing.F) { pbt.Fuzz(f, prop) }
