// Package c19: the bundled IdP server (samlidp) issues assertions only to authenticated
// users - histories x store faults x restarts against an executable reference model.
package c19

import (
	"encoding/json"
	"fmt"
	"os"
	"sort"
	"strings"
	"testing"
	"time"

	"github.com/crewjam/saml"
	"github.com/crewjam/saml/samlidp"
	"pgregory.net/rapid"

	"verif/harness/internal/fix"
	"verif/harness/internal/idpsrv"
	"verif/harness/internal/pbt"
)

type Step = idpsrv.Step
type Cookie = idpsrv.Cookie

// Fault fails the At-th store operation issued while requests are being served.
type Fault struct {
	At   int    `json:"at"`
	Kind string `json:"kind"` // notfound | io
}

// Case is a configuration plus a history, as data.
type Case struct {
	Seed uint64 `json:"seed"`
	// Init is written directly into the store before the server is created
	// (seed_user, put_service, put_shortcut steps only).
	Init  []Step  `json:"init,omitempty"`
	Steps []Step  `json:"steps"`
	Fault []Fault `json:"faults,omitempty"`
	// Restarts: the server is re-created over the same store before the step with this
	// index (len(Steps) = after the last step).  The history is run once without and once
	// with these restarts; the observable reply sequences must agree.
	Restarts []int `json:"restarts,omitempty"`
}

const sessionLifetime = time.Hour // documented lifetime of a samlidp session (cookie Max-Age = 3600)

// excludeStale: VERIF_EXCLUDE_STALE_REGISTRY=1 skips exactly the histories in which a
// stored service is overwritten with metadata of another entity ID, or a service is
// deleted while another stored service has the same entity ID (the pinned tree's
// stale-registry defect), so that exploration can continue behind it.
func excludeStale() bool { return os.Getenv("VERIF_EXCLUDE_STALE_REGISTRY") == "1" }

// ---------------------------------------------------------------- reference model

type mUser struct {
	pw      int // index into idpsrv.Passwords, -1 = no password, -2 = unknown
	profile int // -1 = unknown
	hash    string
}

type mSession struct {
	user    string
	profile int
	expire  time.Time
	deleted bool
	idx     int
}

type mShortcut struct {
	entity string
}

type model struct {
	users     map[string]*mUser
	services  map[string]int // name -> metadata variant (-1: unrecognised)
	shortcuts map[string]mShortcut
	sessions  map[string]*mSession
	now       time.Time
	// stale-registry class seen (for the exclusion switch and the classes)
	staleClass bool
	// bookkeeping for the non-trivial rule
	touchedUsers, touchedEntities, touchedShortcuts map[string]bool
	touchedSessions                                 map[string]bool
	faultSeen                                       bool
}

func newModel() *model {
	return &model{users: map[string]*mUser{}, services: map[string]int{}, shortcuts: map[string]mShortcut{}, sessions: map[string]*mSession{},
		touchedUsers: map[string]bool{}, touchedEntities: map[string]bool{}, touchedShortcuts: map[string]bool{}, touchedSessions: map[string]bool{}}
}

func entityOfVariant(v int) string {
	if v < 0 || v >= len(idpsrv.Variants) {
		return ""
	}
	return idpsrv.Entities[idpsrv.Variants[v].Entity]
}

// registrations returns the metadata variants of the stored services with this entity ID.
func (m *model) registrations(entity string) []int {
	var names []string
	for n := range m.services {
		names = append(names, n)
	}
	sort.Strings(names)
	var out []int
	for _, n := range names {
		if v := m.services[n]; v >= 0 && entityOfVariant(v) == entity {
			out = append(out, v)
		}
	}
	return out
}

func profileOfUser(u *samlidp.User) int {
	for v := 0; v < 3; v++ {
		p := idpsrv.ProfileOf(u.Name, v)
		if u.Email == p.Email && u.CommonName == p.CommonName && u.Surname == p.Surname && u.GivenName == p.GivenName &&
			u.ScopedAffiliation == p.ScopedAffiliation && strings.Join(u.Groups, ",") == strings.Join(p.Groups, ",") {
			return v
		}
	}
	return -1
}

// absorb applies the successful store mutations of one step to the model.  The store
// wrapper is harness-owned: what passed through it is what "is stored".
func (m *model) absorb(s Step, log []idpsrv.OpRec, credsUser string, credsOK bool) (sessionPuts []string) {
	for _, op := range log {
		if op.Fault != "" {
			m.faultSeen = true
			continue
		}
		if op.Err {
			continue
		}
		switch {
		case op.Op == "put" && strings.HasPrefix(op.Key, "/users/"):
			name := strings.TrimPrefix(op.Key, "/users/")
			var u samlidp.User
			_ = json.Unmarshal([]byte(op.Value), &u)
			u.Name = name
			nu := &mUser{pw: -2, profile: profileOfUser(&u), hash: string(u.HashedPassword)}
			old := m.users[name]
			switch {
			case s.Op == "put_user" && s.Name == name && s.Pw >= 0:
				// documented: "If the PlaintextPassword field is present then it is hashed and
				// stored" - the password this request carried IS the current password from now
				// on, whatever the implementation chose to store
				nu.pw = s.Pw
			case len(u.HashedPassword) == 0:
				nu.pw = -1
			case old != nil && old.hash == nu.hash:
				nu.pw = old.pw
			}
			for i, h := range idpsrv.LowCostHashes {
				if nu.hash == h {
					nu.pw = i
				}
			}
			m.users[name] = nu
			m.touchedUsers[name] = true
		case op.Op == "delete" && strings.HasPrefix(op.Key, "/users/"):
			name := strings.TrimPrefix(op.Key, "/users/")
			if m.users[name] != nil {
				m.touchedUsers[name] = true
			}
			delete(m.users, name)
		case op.Op == "put" && strings.HasPrefix(op.Key, "/services/"):
			name := strings.TrimPrefix(op.Key, "/services/")
			var svc samlidp.Service
			_ = json.Unmarshal([]byte(op.Value), &svc)
			v := idpsrv.VariantOfMetadata(&svc.Metadata)
			if old, ok := m.services[name]; ok {
				m.touchedEntities[entityOfVariant(old)] = true
				m.touchedEntities[entityOfVariant(v)] = true
				if entityOfVariant(old) != entityOfVariant(v) {
					m.staleClass = true
				}
			}
			m.services[name] = v
		case op.Op == "delete" && strings.HasPrefix(op.Key, "/services/"):
			name := strings.TrimPrefix(op.Key, "/services/")
			if old, ok := m.services[name]; ok {
				m.touchedEntities[entityOfVariant(old)] = true
				delete(m.services, name)
				if len(m.registrations(entityOfVariant(old))) > 0 {
					m.staleClass = true
				}
			}
		case op.Op == "put" && strings.HasPrefix(op.Key, "/shortcuts/"):
			name := strings.TrimPrefix(op.Key, "/shortcuts/")
			var sc samlidp.Shortcut
			_ = json.Unmarshal([]byte(op.Value), &sc)
			if _, ok := m.shortcuts[name]; ok {
				m.touchedShortcuts[name] = true
			}
			m.shortcuts[name] = mShortcut{entity: sc.ServiceProviderID}
		case op.Op == "delete" && strings.HasPrefix(op.Key, "/shortcuts/"):
			name := strings.TrimPrefix(op.Key, "/shortcuts/")
			if _, ok := m.shortcuts[name]; ok {
				m.touchedShortcuts[name] = true
			}
			delete(m.shortcuts, name)
		case op.Op == "put" && strings.HasPrefix(op.Key, "/sessions/"):
			id := strings.TrimPrefix(op.Key, "/sessions/")
			sessionPuts = append(sessionPuts, id)
			ms := &mSession{user: credsUser, profile: -1, expire: m.now.Add(sessionLifetime), idx: len(m.sessions)}
			if u := m.users[credsUser]; credsOK && u != nil {
				ms.profile = u.profile
			}
			m.sessions[id] = ms
		case op.Op == "delete" && strings.HasPrefix(op.Key, "/sessions/"):
			id := strings.TrimPrefix(op.Key, "/sessions/")
			if ms := m.sessions[id]; ms != nil {
				ms.deleted = true
				m.touchedSessions[id] = true
			}
		}
	}
	return sessionPuts
}

// ---------------------------------------------------------------- execution + oracle

// obs is the observable part of one reply, compared between the two runs.
type obs struct {
	Status  int
	Kind    string
	NameID  string
	Attrs   string
	Target  string
	Cookies string
	Items   int
	Amb     bool // the target entity has two stored registrations with different metadata
}

type runResult struct {
	obs        []obs
	err        string
	classes    map[string]bool
	nonTrivial bool
	stale      bool
}

func hashesOf(st *idpsrv.Store) [][]byte {
	var out [][]byte
	for _, n := range st.Keys("/users/") {
		raw, _ := st.Raw("/users/" + n)
		var u samlidp.User
		if json.Unmarshal([]byte(raw), &u) == nil && len(u.HashedPassword) > 0 {
			out = append(out, u.HashedPassword)
		}
	}
	return out
}

func run(c Case, withRestarts bool) (res runResult) {
	res.classes = map[string]bool{}
	fix.Reset()
	env := idpsrv.NewEnv(c.Seed)
	m := newModel()
	m.now = env.Now
	// initial state, directly through the store
	for _, s := range c.Init {
		switch s.Op {
		case "seed_user":
			env.SeedUser(s.Name, s.Pw, s.Profile)
		case "put_service":
			if s.MD >= 0 && s.MD < len(idpsrv.Variants) {
				env.SeedService(s.Name, s.MD)
			}
		case "put_shortcut":
			env.SeedShortcut(s)
		}
	}
	m.absorbSnapshot(env.Store)
	if err := env.Start(); err != nil {
		res.err = "samlidp.New over the seeded store failed: " + err.Error()
		return
	}
	faults := map[int]string{}
	for _, f := range c.Fault {
		if f.Kind == "notfound" || f.Kind == "io" {
			faults[f.At] = f.Kind
		}
	}
	env.Store.SetFaults(faults)
	restartAt := map[int]bool{}
	if withRestarts {
		for _, p := range c.Restarts {
			restartAt[p] = true
		}
	}
	fail := func(i int, s Step, f string, a ...any) {
		if res.err == "" {
			js, _ := json.Marshal(s)
			res.err = fmt.Sprintf("step %d %s: %s", i, js, fmt.Sprintf(f, a...))
		}
	}
	for i, s := range c.Steps {
		if restartAt[i] {
			if err := env.Start(); err != nil {
				fail(i, s, "re-creating the server over the same store failed: %v", err)
				return
			}
		}
		switch s.Op {
		case "clock":
			env.Advance(s.Delta)
			m.now = env.Now
			for id, ms := range m.sessions {
				if !ms.deleted && m.now.After(ms.expire) {
					m.touchedSessions[id] = true
				}
			}
			res.obs = append(res.obs, obs{Kind: "clock"})
			continue
		case "seed_user":
			env.SeedUser(s.Name, s.Pw, s.Profile)
			m.absorbSnapshotUsers(env.Store, s.Name)
			m.touchedUsers[s.Name] = true
			res.obs = append(res.obs, obs{Kind: "seed"})
			continue
		}
		b := env.Build(s)
		if b == nil {
			res.obs = append(res.obs, obs{Kind: "skip"})
			continue
		}
		// ---- what the model says about this request, before it runs
		credsUser, credsOK, credsKnown := "", false, true
		formCreds := s.User != "" && (((s.Op == "sso" || s.Op == "launch") && s.Method == "POST") || (s.Op == "login" && s.Method != "GET"))
		if formCreds {
			credsUser = s.User
			if u := m.users[s.User]; u != nil {
				switch {
				case u.pw == -2:
					credsKnown = false
				case u.pw >= 0 && idpsrv.Passwords[u.pw] == formPassword(s):
					credsOK = true
				}
			}
		}
		cookieOK := false
		var cookieSess *mSession
		if b.HasCookie {
			if ms := m.sessions[b.CookieVal]; ms != nil && !ms.deleted && !m.now.After(ms.expire) {
				cookieOK, cookieSess = true, ms
			}
		}
		hashesBefore := hashesOf(env.Store)

		env.Store.Counting(true)
		rep := env.Serve(b)
		env.Store.Counting(false)
		log := env.Store.TakeLog()
		stepFault := false
		for _, op := range log {
			if op.Fault != "" {
				stepFault = true
				res.classes["fault:"+op.Fault+":"+op.Op] = true
			}
		}
		wasStale := m.staleClass
		sessionPuts := m.absorb(s, log, credsUser, credsOK)
		// The management API is the contract: a DELETE /sessions/{id} answered with success means
		// that session is gone, whatever key the implementation chose to remove from the store.
		if s.Op == "del_session" && rep.Status >= 200 && rep.Status < 300 && !stepFault {
			if id, ok := env.CookieValue(s.Session); ok {
				if ms := m.sessions[id]; ms != nil && !ms.deleted {
					ms.deleted = true
					m.touchedSessions[id] = true // "touched" = affected by a delete/expiry: makes later uses non-trivial
					res.classes["session:deleted-by-request"] = true
				}
			}
		}
		if m.staleClass && !wasStale {
			res.classes["svc:overwritten-with-other-entity-or-shared-entity-deleted"] = true
		}
		env.NoteSessions()

		// ---- exactly one well-formed reply
		if rep.Panic != "" {
			fail(i, s, "handler panicked: %s", rep.Panic)
		}
		if rep.NoReply {
			fail(i, s, "handler returned without writing a reply")
		}
		if rep.Explicit > 1 || rep.LateHeader {
			fail(i, s, "more than one reply: %d WriteHeader calls, header written after the body started: %v (status %d, body %q)", rep.Explicit, rep.LateHeader, rep.Status, trunc(rep.Body))
		}
		if rep.Status < 200 || rep.Status > 599 {
			fail(i, s, "invalid status %d", rep.Status)
		}
		if rep.Malformed != "" {
			fail(i, s, "reply not well-formed: %s (status %d, body %q)", rep.Malformed, rep.Status, trunc(rep.Body))
		}
		if rep.Status == 200 && rep.Kind == "empty" {
			fail(i, s, "200 reply with an empty body")
		}
		if rep.Status >= 400 && rep.Kind == "assertion" {
			fail(i, s, "error status %d together with a SAMLResponse form", rep.Status)
		}
		// ---- hashes are never disclosed
		all := append([]byte(fmt.Sprint(rep.Header)), rep.Body...)
		for _, h := range append(hashesBefore, hashesOf(env.Store)...) {
			if idpsrv.LeaksHash(all, h) {
				fail(i, s, "reply discloses a stored password hash: %q", trunc(rep.Body))
			}
		}
		// ---- sessions are created only by a login with the user's current password
		for _, id := range sessionPuts {
			if credsKnown && !credsOK {
				fail(i, s, "a session (%s…) was stored although the request did not carry a user's current password (user %q, model: %s)", short(id), s.User, m.describeUser(s.User))
			}
		}
		// ---- a SAML response only for an authenticated user and a registered SP
		o := obs{Status: rep.Status, Kind: rep.Kind, Items: -1}
		if rep.Kind == "assertion" && rep.Assertion != nil {
			a := rep.Assertion
			o.NameID, o.Target = a.NameID, rep.FormAction
			var keys []string
			for k, v := range a.Attrs {
				keys = append(keys, k+"="+strings.Join(v, "|"))
			}
			sort.Strings(keys)
			o.Attrs = strings.Join(keys, ";")
			if s.Op != "sso" && s.Op != "launch" {
				fail(i, s, "SAMLResponse emitted by a request that is neither SSO nor a shortcut launch")
			}
			if credsKnown && !credsOK && !cookieOK {
				why := "no credentials in the form"
				if formCreds {
					why = fmt.Sprintf("credentials user=%q pw#%d do not match (model: %s)", s.User, s.Pw, m.describeUser(s.User))
				}
				if b.HasCookie {
					why += "; the cookie " + m.describeSession(b.CookieVal)
				} else {
					why += "; no session cookie"
				}
				fail(i, s, "SAMLResponse for NameID %q emitted to an unauthenticated request: %s", a.NameID, why)
			}
			// subject: the user as stored at login
			okSubject := !credsKnown
			var wants []string
			if credsOK {
				u := m.users[credsUser]
				if u.profile < 0 || subjectMatches(a, credsUser, u.profile) {
					okSubject = true
				}
				wants = append(wants, fmt.Sprintf("%s as stored now (profile %d)", credsUser, u.profile))
			}
			if cookieOK {
				if cookieSess.profile < 0 || subjectMatches(a, cookieSess.user, cookieSess.profile) {
					okSubject = true
				}
				wants = append(wants, fmt.Sprintf("%s as stored at login (profile %d)", cookieSess.user, cookieSess.profile))
			}
			if (credsOK || cookieOK) && !okSubject {
				fail(i, s, "assertion describes NameID=%q attrs=%v, expected %s", a.NameID, a.Attrs, strings.Join(wants, " or "))
			}
			// target: a service provider registered at this moment
			entity := ""
			switch s.Op {
			case "sso":
				entity = idpsrv.Entities[clampI(s.Issuer, len(idpsrv.Entities))]
			case "launch":
				sc, ok := m.shortcuts[s.Name]
				if !ok {
					fail(i, s, "SAMLResponse for a shortcut that is not stored")
				}
				entity = sc.entity
			}
			regs := m.registrations(entity)
			if len(regs) == 0 {
				var have []string
				for n, v := range m.services {
					have = append(have, fmt.Sprintf("%s=%s", n, entityOfVariant(v)))
				}
				sort.Strings(have)
				fail(i, s, "SAMLResponse towards %q (form action %q), which no stored service registers at this moment (stored: %v)", entity, rep.FormAction, have)
			} else {
				okACS := false
				var acs []string
				for _, v := range regs {
					for _, ai := range idpsrv.Variants[v].ACS {
						acs = append(acs, idpsrv.ACS[ai])
						if idpsrv.ACS[ai] == rep.FormAction {
							okACS = true
						}
					}
				}
				if !okACS {
					fail(i, s, "SAMLResponse form action %q is not an ACS of the registration of %q at this moment (%v)", rep.FormAction, entity, acs)
				}
				if a.Destination != rep.FormAction || a.Recipient != rep.FormAction {
					fail(i, s, "form action %q, Destination %q and Recipient %q differ", rep.FormAction, a.Destination, a.Recipient)
				}
				if a.Audience != entity {
					fail(i, s, "audience %q is not the target entity %q", a.Audience, entity)
				}
				distinct := map[int]bool{}
				for _, v := range regs {
					distinct[v] = true
				}
				o.Amb = len(distinct) > 1
			}
			if s.Op == "sso" && a.InResponseTo != b.RequestID {
				fail(i, s, "InResponseTo %q is not the request id %q", a.InResponseTo, b.RequestID)
			}
		}
		if s.Op == "sso" || s.Op == "launch" {
			// ambiguity also matters when the reply is a refusal
			entity := ""
			if s.Op == "sso" {
				entity = idpsrv.Entities[clampI(s.Issuer, len(idpsrv.Entities))]
			} else if sc, ok := m.shortcuts[s.Name]; ok {
				entity = sc.entity
			}
			distinct := map[int]bool{}
			for _, v := range m.registrations(entity) {
				distinct[v] = true
			}
			if len(distinct) > 1 {
				o.Amb = true
				res.classes["svc:two-registrations-one-entity"] = true
			}
		}
		var names []string
		for n := range rep.Cookies {
			names = append(names, n)
		}
		sort.Strings(names)
		o.Cookies = strings.Join(names, ",")
		if rep.Kind == "json" && strings.HasPrefix(s.Op, "list_") {
			var doc map[string][]string
			if json.Unmarshal(rep.Body, &doc) == nil {
				for _, l := range doc {
					o.Items = len(l)
				}
			}
		}
		res.obs = append(res.obs, o)
		if p := env.Store.Problems(); len(p) > 0 {
			fail(i, s, "store: %s", p[0])
		}

		// ---- classes and the non-trivial rule
		res.classify(m, s, b, rep, formCreds, credsOK, cookieOK, stepFault)
		if res.err != "" {
			break
		}
	}
	res.stale = m.staleClass
	return
}

func (res *runResult) classify(m *model, s Step, b *idpsrv.Built, rep *idpsrv.Reply, formCreds, credsOK, cookieOK, stepFault bool) {
	cl := res.classes
	cl["op:"+s.Op] = true
	if s.Op != "sso" && s.Op != "launch" && s.Op != "login" {
		return
	}
	out := fmt.Sprintf("%s:%s-%d", s.Op, rep.Kind, rep.Status)
	cl[out] = true
	auth := "auth:none"
	if s.Op == "launch" {
		formCreds = false // the launch handler never reads form credentials; label by the cookie
	}
	switch {
	case formCreds && credsOK:
		auth = "auth:password-ok"
	case formCreds && m.users[s.User] == nil:
		auth = "auth:unknown-or-deleted-user"
	case formCreds && m.users[s.User].pw == -1:
		auth = "auth:user-without-password"
	case formCreds:
		auth = "auth:wrong-password"
	case b.HasCookie && cookieOK:
		auth = "auth:cookie-live"
	case b.HasCookie:
		ms := m.sessions[b.CookieVal]
		switch {
		case ms == nil:
			auth = "auth:cookie-forged"
		case ms.deleted:
			auth = "auth:cookie-deleted-session"
		default:
			auth = "auth:cookie-expired-session"
		}
	}
	cl[auth] = true
	if s.Op == "login" {
		return
	}
	if rep.Kind == "assertion" {
		cl[auth+"->assertion"] = true
	} else {
		cl[auth+"->refused"] = true
	}
	// non-trivial: an SSO / launch after a delete, overwrite, expiry or fault affecting what it needs
	nt := m.faultSeen
	if formCreds && m.touchedUsers[s.User] {
		nt = true
	}
	if b.HasCookie && m.touchedSessions[b.CookieVal] {
		nt = true
	}
	if s.Op == "sso" && m.touchedEntities[idpsrv.Entities[clampI(s.Issuer, len(idpsrv.Entities))]] {
		nt = true
	}
	if s.Op == "launch" {
		if m.touchedShortcuts[s.Name] {
			nt = true
		}
		if sc, ok := m.shortcuts[s.Name]; ok && m.touchedEntities[sc.entity] {
			nt = true
		}
	}
	if nt {
		res.nonTrivial = true
	}
	_ = stepFault
}

// formPassword is the password the form of the step carries (an absent field reads as "").
func formPassword(s Step) string {
	if s.Pw < 0 {
		return ""
	}
	return idpsrv.Passwords[clampI(s.Pw, len(idpsrv.Passwords))]
}

func subjectMatches(a *idpsrv.Assertion, user string, profile int) bool {
	p := idpsrv.ProfileOf(user, profile)
	return a.NameID == p.Email && idpsrv.AttrsEqual(a.Attrs, idpsrv.ExpectedAttrs(user, profile))
}

func (m *model) describeUser(name string) string {
	u := m.users[name]
	if u == nil {
		return "no such user stored"
	}
	if u.pw == -1 {
		return "user stored without a password"
	}
	return fmt.Sprintf("stored with pw#%d", u.pw)
}

func (m *model) describeSession(id string) string {
	ms := m.sessions[id]
	switch {
	case ms == nil:
		return "names no session ever stored"
	case ms.deleted:
		return fmt.Sprintf("names session #%d, which was deleted", ms.idx)
	case m.now.After(ms.expire):
		return fmt.Sprintf("names session #%d, expired at %s (now %s)", ms.idx, ms.expire.Format(time.RFC3339), m.now.Format(time.RFC3339))
	}
	return fmt.Sprintf("names live session #%d", ms.idx)
}

// absorbSnapshot loads the seeded initial state into the model.
func (m *model) absorbSnapshot(st *idpsrv.Store) {
	for _, n := range st.Keys("/users/") {
		m.absorbSnapshotUsers(st, n)
	}
	for _, n := range st.Keys("/services/") {
		raw, _ := st.Raw("/services/" + n)
		var svc samlidp.Service
		_ = json.Unmarshal([]byte(raw), &svc)
		m.services[n] = idpsrv.VariantOfMetadata(&svc.Metadata)
	}
	for _, n := range st.Keys("/shortcuts/") {
		raw, _ := st.Raw("/shortcuts/" + n)
		var sc samlidp.Shortcut
		_ = json.Unmarshal([]byte(raw), &sc)
		m.shortcuts[n] = mShortcut{entity: sc.ServiceProviderID}
	}
}

func (m *model) absorbSnapshotUsers(st *idpsrv.Store, name string) {
	raw, ok := st.Raw("/users/" + name)
	if !ok {
		delete(m.users, name)
		return
	}
	var u samlidp.User
	_ = json.Unmarshal([]byte(raw), &u)
	u.Name = name
	nu := &mUser{pw: -2, profile: profileOfUser(&u), hash: string(u.HashedPassword)}
	if nu.hash == "" {
		nu.pw = -1
	}
	for i, h := range idpsrv.LowCostHashes {
		if nu.hash == h {
			nu.pw = i
		}
	}
	m.users[name] = nu
}

func clampI(i, n int) int {
	if i < 0 {
		return 0
	}
	if i >= n {
		return n - 1
	}
	return i
}

func short(s string) string {
	if len(s) > 8 {
		return s[:8]
	}
	return s
}

func trunc(b []byte) string {
	if len(b) > 300 {
		return string(b[:300]) + "…"
	}
	return string(b)
}

func check(c Case) pbt.Result {
	if len(c.Steps) == 0 {
		return pbt.Result{Skip: true}
	}
	a := run(c, false)
	if excludeStale() && a.stale {
		return pbt.Result{Skip: true}
	}
	res := pbt.Result{NonTrivial: a.nonTrivial}
	classes := a.classes
	if a.err != "" {
		res.Err = "run without restart: " + a.err
	}
	if len(c.Fault) > 0 {
		classes["faults:planned"] = true
	}
	if len(c.Restarts) > 0 && res.Err == "" {
		classes["restart"] = true
		if len(c.Restarts) > 1 {
			classes["restart:several"] = true
		}
		b := run(c, true)
		for k := range b.classes {
			classes[k] = true
		}
		if b.err != "" {
			res.Err = fmt.Sprintf("run with restarts before steps %v: %s", c.Restarts, b.err)
		} else {
			n := len(a.obs)
			if len(b.obs) < n {
				n = len(b.obs)
			}
			for i := 0; i < n; i++ {
				x, y := a.obs[i], b.obs[i]
				amb := x.Amb || y.Amb
				x.Amb, y.Amb = false, false
				if x == y {
					continue
				}
				if amb {
					// two stored services share the entity ID with different metadata: either
					// registration is valid, and the histories may legitimately part here
					classes["restart:parted-at-ambiguous-registration"] = true
					break
				}
				js, _ := json.Marshal(c.Steps[i])
				res.Err = fmt.Sprintf("a server re-created over the same store (restarts before steps %v) does not continue the history as the original: step %d %s\n  original : %+v\n  restarted: %+v", c.Restarts, i, js, x, y)
				break
			}
		}
	}
	for k := range classes {
		res.Classes = append(res.Classes, k)
	}
	sort.Strings(res.Classes)
	if res.Err != "" {
		res.NonTrivial = true
	}
	return res
}

// ---------------------------------------------------------------- generator

type gUser struct{ pw int }
type gSess struct {
	user    string
	at      int64
	deleted bool
}

type gModel struct {
	users     map[string]*gUser
	services  map[string]int
	shortcuts map[string]int
	sessions  []gSess
	now       int64
	costly    int
	follow    *Cookie // a session that just died: aim the next SSO / launch at it
}

func pick[T any](t *rapid.T, label string, xs []T) T { return rapid.SampledFrom(xs).Draw(t, label) }

func sortedKeys[V any](m map[string]V) []string {
	var out []string
	for k := range m {
		out = append(out, k)
	}
	sort.Strings(out)
	return out
}

func (g *gModel) genCookie(t *rapid.T) Cookie {
	var live, dead []int
	for i, s := range g.sessions {
		if !s.deleted && g.now-s.at <= 3600 && g.now >= s.at {
			live = append(live, i)
		} else {
			dead = append(dead, i)
		}
	}
	switch k := rapid.IntRange(0, 9).Draw(t, "cookie-class"); {
	case k <= 3 && len(live) > 0:
		return Cookie{Kind: "session", Idx: pick(t, "live", live)}
	case k <= 6 && len(dead) > 0: // expired or deleted session
		return Cookie{Kind: "session", Idx: pick(t, "dead", dead)}
	case k <= 7 && len(g.sessions) > 0:
		return Cookie{Kind: "session", Idx: rapid.IntRange(0, len(g.sessions)-1).Draw(t, "any")}
	case k == 8 || (k >= 6 && len(g.sessions) == 0):
		return Cookie{Kind: "forged", Val: pick(t, "forged", []string{"forged", "AAAAAAAAAAAAAAAAAAAAAAAAAAAAAAAAAAAAAAAAAAA=", "", "alice", "../users/alice", "%2e%2e/users/alice", "x y"})}
	}
	if len(g.sessions) > 0 {
		return Cookie{Kind: "session", Idx: rapid.IntRange(0, len(g.sessions)-1).Draw(t, "any")}
	}
	return Cookie{}
}

// genAuth fills the credential / cookie part of an sso, launch or login step.
func (g *gModel) genAuth(t *rapid.T, s *Step) {
	s.Pw = -1
	switch k := rapid.IntRange(0, 11).Draw(t, "auth-class"); {
	case k <= 3: // right password of a stored user
		var cands []string
		for _, n := range sortedKeys(g.users) {
			if g.users[n].pw >= 0 {
				cands = append(cands, n)
			}
		}
		if len(cands) > 0 {
			s.User = pick(t, "user", cands)
			s.Pw = g.users[s.User].pw
			s.Method = "POST"
			return
		}
		fallthrough
	case k == 4: // wrong password
		s.User = pick(t, "user", idpsrv.UserNames)
		s.Pw = rapid.IntRange(0, 3).Draw(t, "pw")
		s.Method = "POST"
	case k == 5: // user without password / absent user, any password incl. empty
		s.User = pick(t, "user", append([]string{"nobody"}, idpsrv.UserNames...))
		s.Pw = pick(t, "pw", []int{-1, 3, 0, 1})
		s.Method = "POST"
	case k == 6: // credentials and a cookie
		s.User = pick(t, "user", idpsrv.UserNames)
		s.Pw = rapid.IntRange(0, 3).Draw(t, "pw")
		s.Method = "POST"
		s.Cookie = g.genCookie(t)
	default:
		s.Cookie = g.genCookie(t)
		s.Method = pick(t, "method", []string{"GET", "GET", "POST"})
	}
}

func (g *gModel) step(t *rapid.T) Step {
	s := Step{Pw: -1}
	k := rapid.IntRange(0, 99).Draw(t, "op")
	follow := g.follow
	g.follow = nil
	if follow != nil && rapid.IntRange(0, 9).Draw(t, "follow-up") < 6 {
		k = pick(t, "follow-op", []int{0, 0, 25})
	} else {
		follow = nil
	}
	switch {
	case k < 22: // SSO
		s.Op = "sso"
		if follow != nil {
			s.Cookie, s.Method = *follow, pick(t, "method", []string{"GET", "POST"})
		} else {
			g.genAuth(t, &s)
		}
		// issuer: mostly one that is (or was) registered
		var ents []int
		for _, n := range sortedKeys(g.services) {
			if v := g.services[n]; v >= 0 {
				ents = append(ents, idpsrv.Variants[v].Entity)
			}
		}
		if len(ents) > 0 && rapid.IntRange(0, 9).Draw(t, "issuer-class") < 6 {
			s.Issuer = pick(t, "issuer", ents)
		} else {
			s.Issuer = rapid.IntRange(0, 2).Draw(t, "issuer")
		}
		// ACS: mostly one the entity's variants know
		var acs []int
		for _, v := range idpsrv.Variants {
			if v.Entity == s.Issuer {
				acs = append(acs, v.ACS...)
			}
		}
		if len(acs) > 0 && rapid.IntRange(0, 9).Draw(t, "acs-class") < 7 {
			s.ACS = pick(t, "acs", acs)
		} else {
			s.ACS = rapid.IntRange(-1, len(idpsrv.ACS)-1).Draw(t, "acs")
		}
		s.Relay = rapid.IntRange(0, 2).Draw(t, "relay")
	case k < 31: // launch
		s.Op = "launch"
		if follow != nil {
			s.Cookie, s.Method = *follow, "GET"
		} else if rapid.IntRange(0, 4).Draw(t, "launch-auth") == 0 {
			g.genAuth(t, &s)
		} else {
			s.Cookie = g.genCookie(t)
			s.Method = "GET"
		}
		s.Name = pick(t, "shortcut", idpsrv.ShortcutNames)
		if st := sortedKeys(g.shortcuts); len(st) > 0 && rapid.IntRange(0, 4).Draw(t, "stored-shortcut") > 0 {
			s.Name = pick(t, "shortcut", st)
		}
		if rapid.Bool().Draw(t, "suffix?") {
			s.Suffix = "sfx"
		}
	case k < 40: // login
		s.Op = "login"
		g.genAuth(t, &s)
		if s.User == "" && s.Method == "POST" {
			s.Method = "GET"
		}
	case k < 44: // put user through the API
		s.Op = "put_user"
		s.Name = pick(t, "user", idpsrv.UserNames)
		s.Profile = rapid.IntRange(0, 2).Draw(t, "profile")
		if g.costly < 2 && rapid.IntRange(0, 2).Draw(t, "with-password") == 0 {
			s.Pw = rapid.IntRange(0, 3).Draw(t, "pw")
			g.costly++
		}
	case k < 49: // seed user directly (low-cost hash)
		s.Op = "seed_user"
		s.Name = pick(t, "user", idpsrv.UserNames)
		s.Profile = rapid.IntRange(0, 2).Draw(t, "profile")
		s.Pw = pick(t, "pw", []int{0, 1, 2, 3, -1, 0, 1})
	case k < 53:
		s.Op = "del_user"
		s.Name = pick(t, "user", idpsrv.UserNames)
	case k < 55:
		s.Op = "get_user"
		s.Name = pick(t, "user", idpsrv.UserNames)
	case k < 56:
		s.Op = "list_users"
	case k < 66: // put service
		s.Op = "put_service"
		s.Name = pick(t, "service", idpsrv.ServiceNames)
		s.MD = pick(t, "md", []int{0, 1, 2, 3, 0, 2, 1, 3, -1})
		s.Method = pick(t, "method", []string{"PUT", "POST"})
		if excludeStale() {
			if old, ok := g.services[s.Name]; ok && old >= 0 && s.MD >= 0 && idpsrv.Variants[old].Entity != idpsrv.Variants[s.MD].Entity {
				s.MD = old ^ 1 // the other ACS set of the same entity
			}
		}
	case k < 71:
		s.Op = "del_service"
		s.Name = pick(t, "service", idpsrv.ServiceNames)
	case k < 73:
		s.Op = "get_service"
		s.Name = pick(t, "service", idpsrv.ServiceNames)
	case k < 74:
		s.Op = "list_services"
	case k < 78:
		s.Op = "put_shortcut"
		s.Name = pick(t, "shortcut", idpsrv.ShortcutNames)
		s.Issuer = pick(t, "sp", []int{0, 1, 0, 1, 2})
		s.Relay = rapid.IntRange(0, 2).Draw(t, "relay")
		if rapid.Bool().Draw(t, "suffix-relay") {
			s.Suffix = "y"
		}
	case k < 80:
		s.Op = "del_shortcut"
		s.Name = pick(t, "shortcut", idpsrv.ShortcutNames)
	case k < 81:
		s.Op = pick(t, "sc-read", []string{"get_shortcut", "list_shortcuts"})
		s.Name = pick(t, "shortcut", idpsrv.ShortcutNames)
	case k < 87:
		s.Op = "del_session"
		if len(g.sessions) > 0 && rapid.IntRange(0, 4).Draw(t, "real") > 0 {
			s.Session = Cookie{Kind: "session", Idx: rapid.IntRange(0, len(g.sessions)-1).Draw(t, "sess")}
		} else {
			s.Session = Cookie{Kind: "forged", Val: "nope"}
		}
	case k < 89:
		s.Op = pick(t, "sess-read", []string{"get_session", "list_sessions"})
		if len(g.sessions) > 0 {
			s.Session = Cookie{Kind: "session", Idx: rapid.IntRange(0, len(g.sessions)-1).Draw(t, "sess")}
		}
	case k < 99:
		s.Op = "clock"
		s.Delta = pick(t, "delta", []int64{3601, 3601, 3599, 1800, 60, 7200, -1800, 3600 * 24, 1, -3601, 100, 3601})
	default:
		s.Op = "metadata"
	}
	g.apply(s)
	return s
}

// apply advances the generator's light model (fault-free guess; the check never trusts it).
func (g *gModel) apply(s Step) {
	switch s.Op {
	case "put_user":
		u := g.users[s.Name]
		if u == nil {
			u = &gUser{pw: -1}
			g.users[s.Name] = u
		}
		if s.Pw >= 0 {
			u.pw = s.Pw
		}
	case "seed_user":
		g.users[s.Name] = &gUser{pw: s.Pw}
	case "del_user":
		delete(g.users, s.Name)
	case "put_service":
		if s.MD >= 0 {
			g.services[s.Name] = s.MD
		}
	case "del_service":
		delete(g.services, s.Name)
	case "put_shortcut":
		g.shortcuts[s.Name] = s.Issuer
	case "del_shortcut":
		delete(g.shortcuts, s.Name)
	case "del_session":
		if s.Session.Kind == "session" && s.Session.Idx < len(g.sessions) {
			g.sessions[s.Session.Idx].deleted = true
			g.follow = &Cookie{Kind: "session", Idx: s.Session.Idx}
		}
	case "clock":
		for i, x := range g.sessions {
			if !x.deleted && g.now-x.at <= 3600 && g.now+s.Delta-x.at > 3600 {
				g.follow = &Cookie{Kind: "session", Idx: i}
			}
		}
		g.now += s.Delta
	case "login", "sso":
		if s.User != "" && s.Method == "POST" {
			if u := g.users[s.User]; u != nil && u.pw >= 0 && u.pw == s.Pw {
				if s.Op == "login" || g.registered(s.Issuer) {
					g.sessions = append(g.sessions, gSess{user: s.User, at: g.now})
				}
			}
		}
	}
}

func (g *gModel) registered(ent int) bool {
	for _, v := range g.services {
		if v >= 0 && idpsrv.Variants[v].Entity == ent {
			return true
		}
	}
	return false
}

func maxSteps() int {
	if pbt.Thorough() {
		return 60
	}
	return 25
}

func gen(t *rapid.T) Case {
	c := Case{Seed: rapid.Uint64().Draw(t, "seed")}
	g := &gModel{users: map[string]*gUser{}, services: map[string]int{}, shortcuts: map[string]int{}}
	// initial state: mostly populated so that histories start in the middle of things
	if rapid.IntRange(0, 9).Draw(t, "populated") < 8 {
		nu := rapid.IntRange(1, 3).Draw(t, "nusers")
		for i := 0; i < nu; i++ {
			s := Step{Op: "seed_user", Name: idpsrv.UserNames[i], Pw: pick(t, "pw", []int{0, 1, 2, -1, 0, 1, 3}), Profile: rapid.IntRange(0, 2).Draw(t, "profile")}
			c.Init = append(c.Init, s)
			g.apply(s)
		}
		ns := rapid.IntRange(0, 3).Draw(t, "nservices")
		for i := 0; i < ns; i++ {
			s := Step{Op: "put_service", Name: idpsrv.ServiceNames[i], MD: rapid.IntRange(0, 3).Draw(t, "md"), Pw: -1}
			c.Init = append(c.Init, s)
			g.apply(s)
		}
		nc := rapid.IntRange(0, 2).Draw(t, "nshortcuts")
		for i := 0; i < nc; i++ {
			s := Step{Op: "put_shortcut", Name: idpsrv.ShortcutNames[i], Issuer: pick(t, "sp", []int{0, 1, 0, 1, 2}), Relay: rapid.IntRange(0, 2).Draw(t, "relay"), Pw: -1}
			c.Init = append(c.Init, s)
			g.apply(s)
		}
	}
	n := rapid.IntRange(1, maxSteps()).Draw(t, "len")
	for i := 0; i < n; i++ {
		if i == 0 && n > 2 && rapid.IntRange(0, 9).Draw(t, "login-first") < 6 {
			// start with a proper login so that the history has a session to lose
			var cands []string
			for _, u := range sortedKeys(g.users) {
				if g.users[u].pw >= 0 {
					cands = append(cands, u)
				}
			}
			if len(cands) > 0 {
				u := pick(t, "user", cands)
				s := Step{Op: "login", Method: "POST", User: u, Pw: g.users[u].pw}
				g.apply(s)
				c.Steps = append(c.Steps, s)
				continue
			}
		}
		c.Steps = append(c.Steps, g.step(t))
	}
	// store faults
	if rapid.IntRange(0, 9).Draw(t, "faulty") < 5 {
		nf := rapid.IntRange(1, 3).Draw(t, "nfaults")
		for i := 0; i < nf; i++ {
			c.Fault = append(c.Fault, Fault{At: rapid.IntRange(0, 2*n+2).Draw(t, "at"), Kind: pick(t, "kind", []string{"notfound", "io"})})
		}
	}
	// restarts
	switch k := rapid.IntRange(0, 9).Draw(t, "restart-class"); {
	case k == 0:
	case k <= 4:
		c.Restarts = []int{rapid.IntRange(0, n).Draw(t, "pos")}
	case k <= 6:
		m := map[int]bool{}
		for i := rapid.IntRange(2, 3).Draw(t, "nrestarts"); i > 0; i-- {
			m[rapid.IntRange(0, n).Draw(t, "pos")] = true
		}
		for p := range m {
			c.Restarts = append(c.Restarts, p)
		}
		sort.Ints(c.Restarts)
	default:
		for p := 0; p <= n; p++ {
			c.Restarts = append(c.Restarts, p)
		}
	}
	return c
}

// ---------------------------------------------------------------- bounded-exhaustive part

// reducedAlphabet: 1 user, 2 passwords, 2 services (2 entity IDs / ACS sets), 1 shortcut.
func reducedAlphabet() []Step {
	c0 := Cookie{Kind: "session", Idx: 0}
	return []Step{
		{Op: "seed_user", Name: "alice", Pw: 0, Profile: 0},
		{Op: "seed_user", Name: "alice", Pw: 1, Profile: 1},
		{Op: "put_user", Name: "alice", Pw: -1, Profile: 2},
		{Op: "del_user", Name: "alice", Pw: -1},
		{Op: "put_service", Name: "svc-a", MD: 0, Pw: -1},
		{Op: "put_service", Name: "svc-a", MD: 2, Pw: -1},
		{Op: "put_service", Name: "svc-b", MD: 1, Pw: -1},
		{Op: "del_service", Name: "svc-a", Pw: -1},
		{Op: "put_shortcut", Name: "sc-x", Issuer: 0, Pw: -1},
		{Op: "del_shortcut", Name: "sc-x", Pw: -1},
		{Op: "sso", Method: "POST", User: "alice", Pw: 0, Issuer: 0, ACS: 0},
		{Op: "sso", Method: "POST", User: "alice", Pw: 1, Issuer: 0, ACS: 0},
		{Op: "sso", Method: "GET", Pw: -1, Issuer: 0, ACS: 0, Cookie: c0},
		{Op: "launch", Name: "sc-x", Method: "GET", Pw: -1, Cookie: c0},
		{Op: "del_session", Pw: -1, Session: c0},
		{Op: "clock", Delta: 3601, Pw: -1},
		{Op: "login", Method: "POST", User: "alice", Pw: 0},
	}
}

func populatedInit() []Step {
	return []Step{
		{Op: "seed_user", Name: "alice", Pw: 0, Profile: 0},
		{Op: "put_service", Name: "svc-a", MD: 0, Pw: -1},
		{Op: "put_shortcut", Name: "sc-x", Issuer: 0, Pw: -1},
	}
}

func enumHistories(init []Step, maxLen int, emit func(Case)) {
	alpha := reducedAlphabet()
	var rec func(prefix []Step)
	rec = func(prefix []Step) {
		if len(prefix) > 0 {
			n := len(prefix)
			all := make([]int, 0, n+1)
			for p := 0; p <= n; p++ {
				all = append(all, p)
			}
			steps := append([]Step(nil), prefix...)
			// restart at every position at once: the restarted run then always works on a
			// registry freshly derived from the store
			emit(Case{Seed: 7, Init: init, Steps: steps, Restarts: all})
			// and a single restart before the last step
			emit(Case{Seed: 7, Init: init, Steps: steps, Restarts: []int{n - 1}})
		}
		if len(prefix) == maxLen {
			return
		}
		for _, a := range alpha {
			rec(append(prefix, a))
		}
	}
	rec(nil)
}

func enumPopulated(tier string, emit func(Case)) {
	n := 3
	if tier == "thorough" {
		n = 4
	}
	enumHistories(populatedInit(), n, emit)
}

func enumEmpty(tier string, emit func(Case)) {
	n := 2
	if tier == "thorough" {
		n = 3
	}
	enumHistories(nil, n, emit)
}

// enumPasswordReplacement: a user is created with password a (every alphabet member incl. the
// empty one, or none) and then PUT again with password b; afterwards a login / SSO is tried with
// every password.  "Current password" is what the second PUT set (no password field keeps ...
// whatever the model says; the model is the judge), so stale passwords must stop working.
func enumPasswordReplacement(_ string, emit func(Case)) {
	pws := []int{0, 1, 3, -1}
	svc := idpsrv.Step{Op: "put_service", Name: "svc-a", Pw: -1, MD: 0}
	for _, seeded := range []bool{true, false} {
		for _, a := range pws {
			for _, b := range pws {
				for _, try := range []int{0, 1, 3} {
					for _, op := range []string{"login", "sso"} {
						c := Case{Seed: 11, Init: []idpsrv.Step{svc}}
						if seeded {
							c.Init = append([]idpsrv.Step{{Op: "seed_user", Name: "alice", Pw: a, Profile: 0}}, c.Init...)
						} else {
							c.Steps = append(c.Steps, idpsrv.Step{Op: "put_user", Name: "alice", Pw: a, Profile: 0})
						}
						c.Steps = append(c.Steps, idpsrv.Step{Op: "put_user", Name: "alice", Pw: b, Profile: 1})
						st := idpsrv.Step{Op: op, Method: "POST", User: "alice", Pw: try, Issuer: 0, ACS: 0}
						c.Steps = append(c.Steps, st, st)
						c.Restarts = []int{len(c.Steps) - 1}
						emit(c)
					}
				}
			}
		}
	}
}

// enumFaultPositions: short canonical histories (login, SSO with credentials, SSO with cookie,
// shortcut launch, management calls) with one store fault of each kind at every store-operation
// position 0..11 - so that every single store access of these flows fails once.
func enumFaultPositions(_ string, emit func(Case)) {
	init := []idpsrv.Step{{Op: "seed_user", Name: "alice", Pw: 0, Profile: 0}, {Op: "put_service", Name: "svc-a", Pw: -1, MD: 0}, {Op: "put_shortcut", Name: "sc-a", Pw: -1, Issuer: 0, Relay: 1}}
	sess0 := idpsrv.Cookie{Kind: "session", Idx: 0}
	histories := [][]idpsrv.Step{
		{{Op: "login", Method: "POST", User: "alice", Pw: 0}},
		{{Op: "sso", Method: "POST", User: "alice", Pw: 0, Issuer: 0, ACS: 0}},
		{{Op: "sso", Method: "GET", User: "alice", Pw: 0, Issuer: 0, ACS: 0}},
		{{Op: "login", Method: "POST", User: "alice", Pw: 0}, {Op: "sso", Method: "GET", Pw: -1, Issuer: 0, ACS: 0, Cookie: sess0}},
		{{Op: "login", Method: "POST", User: "alice", Pw: 0}, {Op: "launch", Name: "sc-a", Pw: -1, Cookie: sess0}},
		{{Op: "launch", Name: "sc-a", User: "alice", Pw: 0}},
		{{Op: "put_user", Name: "bob", Pw: 1, Profile: 1}, {Op: "login", Method: "POST", User: "bob", Pw: 1}},
		{{Op: "put_service", Name: "svc-b", Pw: -1, MD: 1}, {Op: "sso", Method: "POST", User: "alice", Pw: 0, Issuer: 1, ACS: 0}},
		{{Op: "login", Method: "POST", User: "alice", Pw: 0}, {Op: "del_session", Pw: -1, Session: sess0}, {Op: "sso", Method: "GET", Pw: -1, Issuer: 0, ACS: 0, Cookie: sess0}},
	}
	for _, h := range histories {
		for at := 0; at < 12; at++ {
			for _, kind := range []string{"notfound", "io"} {
				emit(Case{Seed: 12, Init: init, Steps: h, Fault: []Fault{{At: at, Kind: kind}}})
				emit(Case{Seed: 12, Init: init, Steps: h, Fault: []Fault{{At: at, Kind: kind}}, Restarts: []int{len(h)}})
			}
		}
	}
}

var prop = &pbt.Prop[Case]{
	ID: "C19",
	Rule: "cases: a seeded store (0-3 users with low-cost bcrypt hashes or none, 0-3 services over 4 metadata variants = 2 entity IDs x 2 ACS sets, 0-2 shortcuts) plus a history of 1..25 (thorough 60) steps over " +
		"{put/seed/delete/get/list user, put/delete/get/list service, put/delete/get/list shortcut, login, SSO GET/POST with right/wrong/absent credentials and live/expired/deleted/forged/no cookie, shortcut launch, " +
		"delete/get/list session, clock +-, metadata}, 0-3 store faults (not-found / I/O error at the n-th operation) and a set of restart positions; every case is run without and with its restarts. " +
		"Exhaustive: all histories of length <= 3 (thorough 4) over a 17-action reduced alphabet from a populated and (length <= 2, thorough 3) an empty store, each with a restart at every position and before the last step. " +
		"non-trivial: the history contains an SSO or shortcut launch after a delete / overwrite / expiry of the user, session, service or shortcut it needs, or after an injected store fault. distinct: sha256 of the JSON case.",
	Gen:   gen,
	Check: check,
	Reset: fix.Reset,
	Enums: []pbt.Enum[Case]{
		{Name: "histories-reduced-alphabet-populated-store", Each: enumPopulated},
		{Name: "histories-reduced-alphabet-empty-store", Each: enumEmpty},
		{Name: "password-replacement-grid", Each: enumPasswordReplacement},
		{Name: "fault-at-every-store-operation-of-canonical-histories", Each: enumFaultPositions},
	},
	Assumptions: []string{
		"requests are served by calling the server's http.Handler directly with a counting ResponseWriter (no network)",
		"injected store faults fail the operation without performing it; start-up (samlidp.New) is not faulted",
		"the session lifetime is one hour on the library clock saml.TimeNow (cookie Max-Age 3600); the instant exactly at expiry is not judged",
		"AuthnRequests are built by a library saml.ServiceProvider at the instant of the request; assertions are read with the fixture SP key",
		"what is stored is what passed through the harness-owned Store wrapper (shadow map), cross-checked against MemoryStore on every Get/List",
		"when two stored services share an entity ID with different metadata either registration is a valid target and the run-vs-restarted-run comparison stops at the first reply that differs there",
	},
}

func TestCheck(t *testing.T) { pbt.Run(t, prop) }

func FuzzCheck(f *testing.F) { pbt.Fuzz(f, prop) }

var _ = saml.HTTPPostBinding
