// Package c07: the IdP-to-SP round trip preserves the authenticated identity exactly.
package c07

import (
	"encoding/base64"
	"encoding/xml"
	"errors"
	"fmt"
	"net/http"
	"net/http/httptest"
	"net/url"
	"os"
	"regexp"
	"runtime/debug"
	"strings"
	"testing"
	"time"

	"github.com/crewjam/saml"
	dsig "github.com/russellhaering/goxmldsig"
	"pgregory.net/rapid"

	"verif/harness/internal/fix"
	"verif/harness/internal/idpkit"
	"verif/harness/internal/pbt"
	"verif/harness/internal/xgen"
)

// SPConf is the service provider configuration.
type SPConf struct {
	EntityID string `json:"entity_id,omitempty"` // "" = unset (metadata URL is used)
	Key      string `json:"key"`                 // sp (RSA-2048) | spec (ECDSA P-256)
	Cert     bool   `json:"cert"`                // Certificate set => encryption key published
	Signed   bool   `json:"signed,omitempty"`    // SignatureMethod set (requires Cert)
	Binding  string `json:"binding"`             // redirect | post
	// fields no clause mentions: varied, never judged by themselves
	NameIDFormat  string `json:"nameid_format,omitempty"`   // AuthnNameIDFormat
	ForceAuthn    int    `json:"force_authn,omitempty"`     // 0 unset, 1 true, 2 false
	AuthnContext  bool   `json:"authn_context,omitempty"`   // RequestedAuthnContext set
	LogoutBinding int    `json:"logout_bindings,omitempty"` // 0 none, 1 POST, 2 POST+Redirect
	ValidHours    int    `json:"valid_hours,omitempty"`     // MetadataValidDuration
	AllowInit     bool   `json:"allow_idp_initiated,omitempty"`
	AcsQuery      bool   `json:"acs_query,omitempty"` // ACS URL carries a query string
	// CertRender: how the base64 text of X509Certificate elements is laid out in the metadata document the SP
	// hands to the IdP operator (0 single line, 1 wrapped at 64 with LF, 2 wrapped at 76 with CRLF, 3 wrapped and
	// indented with spaces, 4 wrapped and indented with tabs, 5 blank lines around, 6 all of it).
	CertRender int `json:"cert_render,omitempty"`
}

// RichNameID is a NameID nested in an attribute value (the eduPersonTargetedID form).
type RichNameID struct {
	NameQualifier   string `json:"name_qualifier,omitempty"`
	SPNameQualifier string `json:"sp_name_qualifier,omitempty"`
	Format          string `json:"format,omitempty"`
	SPProvidedID    string `json:"sp_provided_id,omitempty"`
	Value           string `json:"value,omitempty"`
}

// RichVal is one attribute value in every shape saml.AttributeValue supports.
type RichVal struct {
	Type   string      `json:"type,omitempty"`
	Value  string      `json:"value,omitempty"`
	NameID *RichNameID `json:"name_id,omitempty"`
}

// RichAttr is a custom attribute with such values; it follows the session's plain custom attributes.
type RichAttr struct {
	Name         string    `json:"name"`
	FriendlyName string    `json:"friendly_name,omitempty"`
	NameFormat   string    `json:"name_format,omitempty"`
	Values       []RichVal `json:"values"`
}

// Case is one login: SP request -> IdP response -> SP parse.
type Case struct {
	IDP   idpkit.IDPConf `json:"idp"`
	SP    SPConf         `json:"sp"`
	Sess  idpkit.Sess    `json:"session"`
	Relay string         `json:"relay,omitempty"`
	// Sess2, when set, logs a second user in through the SAME IdentityProvider and ServiceProvider values.
	Sess2 *idpkit.Sess `json:"session2,omitempty"`
	// Rich are further custom attributes of every session of the case, with typed values and nested NameIDs.
	Rich []RichAttr `json:"rich_attributes,omitempty"`
	// Pending is the number of OTHER AuthnRequests the SP has outstanding when the response arrives (several
	// tabs / flows, as samlsp's request tracker reports them); the answered request sits at position
	// AnswerPos (mod Pending+1) of the list of possible request IDs.
	Pending   int `json:"pending,omitempty"`
	AnswerPos int `json:"answer_pos,omitempty"`
	// Steps are further logins on the same long-lived IdentityProvider, registry and ServiceProvider values;
	// before a step the SP may re-configure itself (new key pair, certificate dropped or added, entity ID
	// set / unset, request signing) and re-register its freshly published metadata.
	Steps []Step `json:"steps,omitempty"`
}

// Step is one further login of a sequence.
type Step struct {
	SP *SPConf `json:"sp,omitempty"` // nil = configuration and registration unchanged
	// IDP, when set, re-configures the public fields of the same IdentityProvider value before this login
	// (signature method, key pair, Key / Signer, intermediates, ...; same base URL); the SP then refreshes the
	// IdP metadata it trusts from what the IdP publishes now.
	IDP       *idpkit.IDPConf `json:"idp,omitempty"`
	Sess      idpkit.Sess     `json:"session"`
	Pending   int             `json:"pending,omitempty"`
	AnswerPos int             `json:"answer_pos,omitempty"`
}

func excluded(slug string) bool { return os.Getenv("VERIF_EXCLUDE_"+slug) == "1" }

// ---------------------------------------------------------------- generator

func text(t *rapid.T, label string) string {
	s := xgen.Text().Draw(t, label)
	if excluded("CR") {
		s = strings.ReplaceAll(s, "\r", "")
	}
	return s
}

func genSess(t *rapid.T) idpkit.Sess {
	s := idpkit.Sess{ID: "sessionhandle0" + rapid.StringMatching(`[a-z0-9]{8}`).Draw(t, "session-id"), Index: "idx-" + rapid.StringMatching(`[a-z0-9]{6}`).Draw(t, "index")}
	s.NameID = text(t, "nameid")
	s.NameIDFormat = rapid.SampledFrom([]string{"", string(saml.EmailAddressNameIDFormat), string(saml.PersistentNameIDFormat), string(saml.UnspecifiedNameIDFormat), string(saml.TransientNameIDFormat)}).Draw(t, "nameid-format")
	opt := func(label string) string {
		if rapid.IntRange(0, 2).Draw(t, label+"?") == 0 {
			return ""
		}
		return text(t, label)
	}
	s.UserName, s.Email, s.CommonName, s.Surname, s.GivenName = opt("username"), opt("email"), opt("cn"), opt("sn"), opt("givenname")
	s.Affiliation, s.EPPN, s.SubjectID = opt("affiliation"), opt("eppn"), opt("subject-id")
	ng := rapid.IntRange(0, 3).Draw(t, "ngroups")
	for i := 0; i < ng; i++ {
		s.Groups = append(s.Groups, text(t, "group"))
	}
	nc := rapid.IntRange(0, 3).Draw(t, "ncustom")
	for i := 0; i < nc; i++ {
		a := idpkit.Attr{Name: text(t, "custom-name"), FriendlyName: text(t, "custom-friendly"),
			NameFormat: rapid.SampledFrom([]string{"", "urn:oasis:names:tc:SAML:2.0:attrname-format:uri", "urn:oasis:names:tc:SAML:2.0:attrname-format:basic"}).Draw(t, "nameformat")}
		nv := rapid.IntRange(0, 3).Draw(t, "nvalues")
		for j := 0; j < nv; j++ {
			a.Values = append(a.Values, text(t, "custom-value"))
		}
		s.Custom = append(s.Custom, a)
	}
	return s
}

func gen(t *rapid.T) Case {
	c := Case{}
	c.IDP = idpkit.IDPConf{
		Base:          rapid.SampledFrom([]string{"https://idp.example.com", "https://idp.example.com:8443/auth"}).Draw(t, "base"),
		MetaSuffix:    rapid.SampledFrom([]string{"", "", "", "?tenant=acme", "?a=1&b=2", "#idp", "?t=1#x"}).Draw(t, "metasuffix"),
		Signer:        rapid.Bool().Draw(t, "signer"),
		SigMethod:     rapid.SampledFrom(idpkit.RSAMethods).Draw(t, "sigmethod"),
		Intermediates: rapid.SampledFrom([]int{0, 0, 1}).Draw(t, "intermediates"),
	}.WithExtras(rapid.Bool().Draw(t, "logoutURL"), rapid.Bool().Draw(t, "loginURL"), rapid.SampledFrom([]int{0, 0, 1, 8760}).Draw(t, "validHours"),
		rapid.IntRange(0, 2).Draw(t, "template") == 0, rapid.IntRange(0, 2).Draw(t, "maker") == 0)
	if rapid.IntRange(0, 7).Draw(t, "idp-ecdsa") == 0 {
		// an ECDSA IdP key can only be given as crypto.Signer
		c.IDP.KeyName, c.IDP.Signer = "idpec", true
		c.IDP.SigMethod = rapid.SampledFrom([]string{dsig.ECDSASHA1SignatureMethod, dsig.ECDSASHA256SignatureMethod, dsig.ECDSASHA384SignatureMethod, dsig.ECDSASHA512SignatureMethod}).Draw(t, "ec-method")
	}
	c.SP = SPConf{
		EntityID: rapid.SampledFrom([]string{"", "", "urn:example:sp", "https://sp.example.com/entity?a=1&b=<2>", " sp with spaces "}).Draw(t, "entity"),
		Key:      rapid.SampledFrom([]string{"sp", "sp", "sp", "spec"}).Draw(t, "spkey"),
		Cert:     rapid.IntRange(0, 2).Draw(t, "cert") != 0,
		Binding:  rapid.SampledFrom([]string{"redirect", "post"}).Draw(t, "binding"),
	}
	c.SP.Signed = c.SP.Cert && rapid.Bool().Draw(t, "signed")
	c.SP.NameIDFormat = rapid.SampledFrom([]string{"", "", string(saml.EmailAddressNameIDFormat), string(saml.PersistentNameIDFormat), string(saml.UnspecifiedNameIDFormat), string(saml.TransientNameIDFormat)}).Draw(t, "sp-nameid-format")
	c.SP.ForceAuthn = rapid.SampledFrom([]int{0, 0, 1, 2}).Draw(t, "force-authn")
	c.SP.AuthnContext = rapid.IntRange(0, 3).Draw(t, "authn-context") == 0
	c.SP.LogoutBinding = rapid.IntRange(0, 2).Draw(t, "logout-bindings")
	c.SP.ValidHours = rapid.SampledFrom([]int{0, 0, 1, 8760}).Draw(t, "sp-valid-hours")
	c.SP.AllowInit = rapid.IntRange(0, 3).Draw(t, "allow-idp-initiated") == 0
	c.SP.AcsQuery = rapid.IntRange(0, 3).Draw(t, "acs-query") == 0
	if c.SP.Key == "spec" && excluded("ECENC") {
		c.SP.Cert, c.SP.Signed = false, false
	}
	c.Relay = rapid.SampledFrom([]string{"", "rs1", "relay-xyz"}).Draw(t, "relay")
	c.Sess = genSess(t)
	if rapid.IntRange(0, 2).Draw(t, "second-login") == 0 {
		s2 := genSess(t)
		c.Sess2 = &s2
	}
	c.SP.CertRender = rapid.SampledFrom([]int{0, 0, 1, 2, 3, 4, 5, 6}).Draw(t, "cert-render")
	if rapid.IntRange(0, 2).Draw(t, "rich-attributes") == 0 {
		for n := rapid.IntRange(1, 2).Draw(t, "nrich"); n > 0; n-- {
			a := RichAttr{Name: text(t, "rich-name"), FriendlyName: text(t, "rich-friendly"), NameFormat: rapid.SampledFrom([]string{"", "urn:oasis:names:tc:SAML:2.0:attrname-format:uri"}).Draw(t, "rich-format")}
			for k := rapid.IntRange(1, 3).Draw(t, "rich-nvalues"); k > 0; k-- {
				v := RichVal{Type: rapid.SampledFrom([]string{"xs:string", "xs:string", "xs:anyURI", "", "xs:base64Binary"}).Draw(t, "rich-type")}
				if rapid.Bool().Draw(t, "rich-nested") {
					v.NameID = &RichNameID{NameQualifier: text(t, "rich-nq"), SPNameQualifier: text(t, "rich-spnq"),
						Format:       rapid.SampledFrom([]string{"", string(saml.PersistentNameIDFormat), "urn:x"}).Draw(t, "rich-nameid-format"),
						SPProvidedID: text(t, "rich-spprovided"), Value: text(t, "rich-nameid-value")}
				}
				if v.NameID == nil || rapid.IntRange(0, 3).Draw(t, "rich-text-too") == 0 {
					v.Value = text(t, "rich-value")
				}
				a.Values = append(a.Values, v)
			}
			c.Rich = append(c.Rich, a)
		}
	}
	if rapid.IntRange(0, 2).Draw(t, "pending") == 0 {
		c.Pending = rapid.IntRange(1, 3).Draw(t, "npending")
		c.AnswerPos = rapid.IntRange(0, c.Pending).Draw(t, "answer-pos")
	}
	if rapid.IntRange(0, 3).Draw(t, "steps") == 0 {
		cur := c.SP
		for n := rapid.IntRange(1, 3).Draw(t, "nsteps"); n > 0; n-- {
			st := Step{Sess: genSess(t)}
			if rapid.IntRange(0, 3).Draw(t, "step-reconfigure") != 0 {
				next := cur
				switch rapid.IntRange(0, 4).Draw(t, "step-change") {
				case 0: // key rotation
					next.Key = map[string]string{"sp": "sp2", "sp2": "sp", "spec": "sp"}[cur.Key]
					next.Cert = true
				case 1: // certificate dropped
					next.Cert, next.Signed = false, false
				case 2: // certificate (re-)published
					next.Cert = true
				case 3: // entity ID set / unset / changed
					next.EntityID = rapid.SampledFrom([]string{"", "urn:example:sp", "urn:example:sp:v2"}).Draw(t, "step-entity")
				default:
					next.Key = rapid.SampledFrom([]string{"sp", "sp2", "spec"}).Draw(t, "step-key")
					next.Signed = next.Cert && rapid.Bool().Draw(t, "step-signed")
					next.Binding = rapid.SampledFrom([]string{"redirect", "post"}).Draw(t, "step-binding")
				}
				if next.Key == "spec" && excluded("ECENC") {
					next.Cert, next.Signed = false, false
				}
				if !next.Cert {
					next.Signed = false
				}
				st.SP, cur = &next, next
			}
			if rapid.IntRange(0, 2).Draw(t, "step-idp") == 0 {
				x := idpkit.IDPConf{KeyName: rapid.SampledFrom([]string{"", "", "idp2"}).Draw(t, "step-idp-key"), Signer: rapid.Bool().Draw(t, "step-idp-signer"),
					SigMethod: rapid.SampledFrom(idpkit.RSAMethods).Draw(t, "step-idp-method"), Intermediates: rapid.SampledFrom([]int{0, 1, 2}).Draw(t, "step-idp-intermediates")}.
					WithExtras(rapid.Bool().Draw(t, "step-idp-logout"), rapid.Bool().Draw(t, "step-idp-login"), rapid.SampledFrom([]int{0, 1}).Draw(t, "step-idp-valid"), rapid.Bool().Draw(t, "step-idp-template"), false)
				if rapid.IntRange(0, 5).Draw(t, "step-idp-ecdsa") == 0 {
					x.KeyName, x.Signer, x.SigMethod = "idpec", true, dsig.ECDSASHA256SignatureMethod
				}
				st.IDP = &x
			}
			if rapid.IntRange(0, 2).Draw(t, "step-pending") == 0 {
				st.Pending = rapid.IntRange(1, 3).Draw(t, "step-npending")
				st.AnswerPos = rapid.IntRange(0, st.Pending).Draw(t, "step-answer-pos")
			}
			c.Steps = append(c.Steps, st)
		}
	}
	return c
}

// ---------------------------------------------------------------- run + oracle

func (c Case) buildSP() *saml.ServiceProvider {
	sp := &saml.ServiceProvider{}
	c.SP.configure(sp)
	return sp
}

// configure (re-)configures the long-lived ServiceProvider value in place; IDPMetadata is kept.
func (conf SPConf) configure(dst *saml.ServiceProvider) {
	c := Case{SP: conf}
	idpMD := dst.IDPMetadata
	defer func() { dst.IDPMetadata = idpMD }()
	mu, _ := url.Parse("https://sp.example.com/saml/metadata")
	au, _ := url.Parse("https://sp.example.com/saml/acs")
	su, _ := url.Parse("https://sp.example.com/saml/slo")
	kp := fix.Get(c.SP.Key)
	if c.SP.AcsQuery {
		au, _ = url.Parse("https://sp.example.com/saml/acs?tenant=t1&x=a%20b")
	}
	sp := &saml.ServiceProvider{EntityID: c.SP.EntityID, Key: kp.Key, MetadataURL: *mu, AcsURL: *au, SloURL: *su,
		AuthnNameIDFormat: saml.NameIDFormat(c.SP.NameIDFormat), AllowIDPInitiated: c.SP.AllowInit, MetadataValidDuration: time.Duration(c.SP.ValidHours) * time.Hour}
	switch c.SP.ForceAuthn {
	case 1:
		b := true
		sp.ForceAuthn = &b
	case 2:
		b := false
		sp.ForceAuthn = &b
	}
	if c.SP.AuthnContext {
		sp.RequestedAuthnContext = &saml.RequestedAuthnContext{Comparison: "exact", AuthnContextClassRef: "urn:oasis:names:tc:SAML:2.0:ac:classes:PasswordProtectedTransport"}
	}
	switch c.SP.LogoutBinding {
	case 1:
		sp.LogoutBindings = []string{saml.HTTPPostBinding}
	case 2:
		sp.LogoutBindings = []string{saml.HTTPPostBinding, saml.HTTPRedirectBinding}
	}
	if c.SP.Cert {
		sp.Certificate = kp.Cert
	}
	if c.SP.Signed {
		if kp.RSA() != nil {
			sp.SignatureMethod = dsig.RSASHA256SignatureMethod
		} else {
			sp.SignatureMethod = dsig.ECDSASHA256SignatureMethod
		}
	}
	*dst = *sp
}

func privateErr(err error) string {
	var ire *saml.InvalidResponseError
	if errors.As(err, &ire) && ire.PrivateErr != nil {
		return ire.PrivateErr.Error()
	}
	return err.Error()
}

func q(s string) string { return fmt.Sprintf("%q", s) }

func check(c Case) (res pbt.Result) {
	fix.SetNow(fix.Epoch)
	cl := []string{"spkey:" + c.SP.Key, "binding:" + c.SP.Binding, "sig:" + c.IDP.EffectiveMethod()[strings.LastIndex(c.IDP.EffectiveMethod(), "#")+1:]}
	flag := func(b bool, yes, no string) {
		if b {
			cl = append(cl, yes)
		} else {
			cl = append(cl, no)
		}
	}
	flag(c.SP.Cert, "encryption:on", "encryption:off")
	flag(c.SP.Signed, "request:signed", "request:unsigned")
	flag(c.SP.EntityID != "", "entity-id:set", "entity-id:unset")
	flag(c.IDP.Signer, "key:signer", "key:private")
	seen := map[string]bool{}
	nonPlain := false
	for _, s := range c.Sess.IdentityStrings() {
		if !xgen.Plain(s) {
			nonPlain = true
		}
		for _, k := range xgen.Classify(s) {
			if !seen[k] {
				seen[k] = true
				cl = append(cl, k)
			}
		}
	}
	res.Classes = cl
	res.NonTrivial = nonPlain
	fail := func(f string, a ...any) pbt.Result {
		res.Err = fmt.Sprintf(f, a...)
		res.NonTrivial = true
		return res
	}

	reg := &idpkit.Registry{M: map[string]*saml.EntityDescriptor{}}
	sessions := &idpkit.Sessions{S: c.Sess.Session(fix.Epoch.Add(-1e9))}
	idp := c.IDP.Build(reg, sessions)
	sp := c.buildSP()

	// each side learns about the other from published metadata, serialised and re-parsed
	idpMD, _, err := idpkit.RoundTrip(idp.Metadata())
	if err != nil {
		return fail("IdP metadata does not survive xml.Marshal/Unmarshal: %v", err)
	}
	sp.IDPMetadata = idpMD
	spMD, spXML, err := publish(sp, c.SP.CertRender)
	if err != nil {
		return fail("SP metadata does not survive xml.Marshal/Unmarshal: %v\n%s", err, spXML)
	}
	reg.M[spMD.EntityID] = spMD
	res.Classes = append(res.Classes, fmt.Sprintf("metadata-certificate-layout:%d", c.SP.CertRender))

	if c.Pending > 0 {
		res.Classes = append(res.Classes, fmt.Sprintf("pending-requests:%d", c.Pending), fmt.Sprintf("answered-position:%d/%d", c.AnswerPos%(c.Pending+1), c.Pending+1))
	}
	res = c.login(idp, sp, sessions, c.Sess, c.SP, c.Pending, c.AnswerPos, res)
	if res.Err != "" {
		return res
	}
	steps := c.Steps
	if c.Sess2 != nil {
		steps = append([]Step{{Sess: *c.Sess2}}, steps...)
	}
	// further logins through the same IdentityProvider, registry and ServiceProvider values
	conf := c.SP
	for i, st := range steps {
		res.Classes = append(res.Classes, "sequence:further-login")
		res.NonTrivial = true
		what := "unchanged registration"
		if st.IDP != nil {
			x := *st.IDP
			x.Base = c.IDP.Base
			x.Apply(idp)
			md, _, err := idpkit.RoundTrip(idp.Metadata())
			if err != nil {
				return fail("IdP metadata does not survive xml.Marshal/Unmarshal: %v", err)
			}
			sp.IDPMetadata = md
			res.Classes = append(res.Classes, "sequence:idp-reconfigured")
			what = "IdP re-configured, SP refreshed its metadata"
		}
		if st.SP != nil {
			was := conf
			conf = *st.SP
			conf.configure(sp)
			md, mdXML, err := publish(sp, conf.CertRender)
			if err != nil {
				return fail("SP metadata does not survive xml.Marshal/Unmarshal: %v\n%s", err, mdXML)
			}
			for k := range reg.M {
				delete(reg.M, k)
			}
			reg.M[md.EntityID] = md
			what += fmt.Sprintf("; SP re-registered: key %s->%s, certificate %v->%v, entity ID %q->%q", was.Key, conf.Key, was.Cert, conf.Cert, was.EntityID, conf.EntityID)
			switch {
			case was.Cert && conf.Cert && was.Key != conf.Key:
				res.Classes = append(res.Classes, "re-registration:key-rotated")
			case was.Cert && !conf.Cert:
				res.Classes = append(res.Classes, "re-registration:certificate-dropped")
			case !was.Cert && conf.Cert:
				res.Classes = append(res.Classes, "re-registration:certificate-added")
			}
			if was.EntityID != conf.EntityID {
				res.Classes = append(res.Classes, "re-registration:entity-id-changed")
			}
		}
		idp.Logger.(*idpkit.Quiet).Lines = nil
		r := c.login(idp, sp, sessions, st.Sess, conf, st.Pending, st.AnswerPos, pbt.Result{})
		if r.Err != "" {
			res.Err = fmt.Sprintf("login %d on the same IdentityProvider and ServiceProvider values (%s): %s", i+2, what, r.Err)
			return res
		}
	}
	return res
}

// login runs one SP -> IdP -> SP login for sess and compares what the SP returns with sess.
func (c Case) login(idp *saml.IdentityProvider, sp *saml.ServiceProvider, sessions *idpkit.Sessions, sess idpkit.Sess, conf SPConf, pending, answerPos int, res pbt.Result) pbt.Result {
	fail := func(f string, a ...any) pbt.Result {
		res.Err = fmt.Sprintf(f, a...)
		res.NonTrivial = true
		return res
	}
	sessions.S = sess.Session(fix.Epoch.Add(-1e9))
	for _, a := range c.Rich {
		at := saml.Attribute{Name: a.Name, FriendlyName: a.FriendlyName, NameFormat: a.NameFormat}
		for _, v := range a.Values {
			av := saml.AttributeValue{Type: v.Type, Value: v.Value}
			if v.NameID != nil {
				av.NameID = &saml.NameID{NameQualifier: v.NameID.NameQualifier, SPNameQualifier: v.NameID.SPNameQualifier, Format: v.NameID.Format, SPProvidedID: v.NameID.SPProvidedID, Value: v.NameID.Value}
			}
			at.Values = append(at.Values, av)
		}
		sessions.S.CustomAttributes = append(sessions.S.CustomAttributes, at)
	}
	var err error

	// the SP starts the login (and possibly has other logins outstanding)
	var httpReq *http.Request
	var reqID string
	var possible []string
	pos := answerPos % (pending + 1)
	if pos < 0 {
		pos = -pos
	}
	other := func() {
		if ar, err2 := sp.MakeAuthenticationRequest(sp.GetSSOBindingLocation(saml.HTTPRedirectBinding), saml.HTTPRedirectBinding, saml.HTTPPostBinding); err2 == nil {
			possible = append(possible, ar.ID)
		}
	}
	var stage string
	var panicked any
	var stack []byte
	rec := httptest.NewRecorder()
	func() {
		defer func() {
			if e := recover(); e != nil {
				panicked, stack = e, debug.Stack()
			}
		}()
		stage = "SP request construction"
		for i := 0; i < pos; i++ {
			other()
		}
		switch conf.Binding {
		case "redirect":
			ar, err2 := sp.MakeAuthenticationRequest(sp.GetSSOBindingLocation(saml.HTTPRedirectBinding), saml.HTTPRedirectBinding, saml.HTTPPostBinding)
			if err2 != nil {
				err = err2
				return
			}
			reqID = ar.ID
			u, err2 := ar.Redirect(c.Relay, sp)
			if err2 != nil {
				err = err2
				return
			}
			httpReq = httptest.NewRequest("GET", u.String(), nil)
		default:
			ar, err2 := sp.MakeAuthenticationRequest(sp.GetSSOBindingLocation(saml.HTTPPostBinding), saml.HTTPPostBinding, saml.HTTPPostBinding)
			if err2 != nil {
				err = err2
				return
			}
			reqID = ar.ID
			form, err2 := idpkit.ReadForm(ar.Post(c.Relay))
			if err2 != nil {
				err = err2
				return
			}
			vals := url.Values{}
			for _, k := range form.Order {
				vals.Set(k, form.Fields[k])
			}
			httpReq = httptest.NewRequest("POST", form.Action, strings.NewReader(vals.Encode()))
			httpReq.Header.Set("Content-Type", "application/x-www-form-urlencoded")
		}
		httpReq.RemoteAddr = "192.0.2.7:4711"
		possible = append(possible, reqID)
		for i := pos; i < pending; i++ {
			other()
		}
		stage = "IdP ServeSSO"
		idp.ServeSSO(rec, httpReq)
	}()
	if panicked != nil {
		return fail("%s panicked: %v\n%s", stage, panicked, idpkit.CleanStack(stack, 8))
	}
	if err != nil {
		return fail("%s failed: %v", stage, err)
	}
	if rec.Code != 200 {
		res.Classes = append(res.Classes, "outcome:idp-error")
		return fail("the IdP, registered with the SP's own published metadata, answered status %d: %v", rec.Code, idp.Logger.(*idpkit.Quiet).Lines)
	}
	form, err := idpkit.ReadForm(rec.Body.Bytes())
	if err != nil {
		return fail("IdP page has no form: %v", err)
	}
	if form.Action != sp.AcsURL.String() {
		return fail("IdP posts to %q, the SP's ACS is %q", form.Action, sp.AcsURL.String())
	}
	if form.Fields["RelayState"] != c.Relay {
		return fail("RelayState %q came back as %q", c.Relay, form.Fields["RelayState"])
	}
	raw, err := base64.StdEncoding.DecodeString(form.Fields["SAMLResponse"])
	if err != nil {
		return fail("SAMLResponse is not base64: %v", err)
	}
	if len(sess.ID) >= 8 && (strings.Contains(string(raw), sess.ID) || strings.Contains(rec.Body.String(), sess.ID)) {
		return fail("the session's ID %q (the IdP's internal session handle, not an attribute of the user) appears in the emitted response", sess.ID)
	}

	var assertion *saml.Assertion
	func() {
		defer func() {
			if e := recover(); e != nil {
				panicked, stack = e, debug.Stack()
			}
		}()
		assertion, err = sp.ParseXMLResponse(raw, possible, sp.AcsURL)
	}()
	if panicked != nil {
		return fail("ParseXMLResponse panicked: %v\n%s", panicked, idpkit.CleanStack(stack, 8))
	}
	if err != nil {
		res.Classes = append(res.Classes, "outcome:sp-rejects")
		return fail("the SP, configured from the IdP's published metadata, rejects the IdP's response: %s%s", privateErr(err), idpkit.Detail("\n"+string(raw)))
	}
	if assertion == nil {
		return fail("ParseXMLResponse returned neither an assertion nor an error")
	}
	res.Classes = append(res.Classes, "outcome:accepted")

	// identity: name identifier
	if assertion.Subject == nil || assertion.Subject.NameID == nil {
		return fail("returned assertion has no NameID")
	}
	if got := assertion.Subject.NameID.Value; got != sess.NameID {
		return fail("NameID %s came back as %s", q(sess.NameID), q(got))
	}
	if sess.NameIDFormat != "" && assertion.Subject.NameID.Format != sess.NameIDFormat {
		return fail("NameID format %q came back as %q", sess.NameIDFormat, assertion.Subject.NameID.Format)
	}
	// the subject NameID comes back field by field as the IdP issued it (qualifiers name the IdP and the SP; the session
	// provides no SPProvidedID)
	if len(sessions.Seen) == 1 && sessions.Seen[0].Assertion != nil && sessions.Seen[0].Assertion.Subject != nil && sessions.Seen[0].Assertion.Subject.NameID != nil {
		issued, back := *sessions.Seen[0].Assertion.Subject.NameID, *assertion.Subject.NameID
		if issued != back {
			return fail("subject NameID issued as %+v came back as %+v", issued, back)
		}
	}
	if id := assertion.Subject.NameID.SPProvidedID; id != "" {
		return fail("subject NameID came back with SPProvidedID %s, the session has none", q(id))
	}
	// identity: ordered (name, friendly name, values), every value field by field
	plain := sess.ExpectedAttributes()
	var want []RichAttr
	for _, a := range plain {
		w := RichAttr{Name: a.Name, FriendlyName: a.FriendlyName}
		for _, v := range a.Values {
			w.Values = append(w.Values, RichVal{Type: "xs:string", Value: v})
		}
		want = append(want, w)
	}
	at := len(want)
	if sess.SubjectID != "" {
		at--
	}
	if len(sess.Groups) > 0 {
		at--
	}
	want = append(want[:at:at], append(append([]RichAttr{}, c.Rich...), want[at:]...)...)
	var got []RichAttr
	for _, st := range assertion.AttributeStatements {
		for _, a := range st.Attributes {
			w := RichAttr{Name: a.Name, FriendlyName: a.FriendlyName}
			for _, v := range a.Values {
				rv := RichVal{Type: v.Type, Value: v.Value}
				if v.NameID != nil {
					rv.NameID = &RichNameID{NameQualifier: v.NameID.NameQualifier, SPNameQualifier: v.NameID.SPNameQualifier, Format: v.NameID.Format, SPProvidedID: v.NameID.SPProvidedID, Value: v.NameID.Value}
				}
				w.Values = append(w.Values, rv)
			}
			got = append(got, w)
		}
	}
	if len(got) != len(want) {
		return fail("session dictates %d attributes %s, the SP returned %d %s", len(want), names(want), len(got), names(got))
	}
	for i := range want {
		if got[i].Name != want[i].Name || got[i].FriendlyName != want[i].FriendlyName {
			return fail("attribute %d: (name %s, friendly name %s) came back as (%s, %s)", i, q(want[i].Name), q(want[i].FriendlyName), q(got[i].Name), q(got[i].FriendlyName))
		}
		if len(got[i].Values) != len(want[i].Values) {
			return fail("attribute %d %s: %d values came back as %d", i, q(want[i].Name), len(want[i].Values), len(got[i].Values))
		}
		for j := range want[i].Values {
			w, g := want[i].Values[j], got[i].Values[j]
			if g.Value != w.Value {
				return fail("attribute %d %s value %d: %s came back as %s", i, q(want[i].Name), j, q(w.Value), q(g.Value))
			}
			if g.Type != w.Type {
				return fail("attribute %d %s value %d: type %s came back as %s", i, q(want[i].Name), j, q(w.Type), q(g.Type))
			}
			if (g.NameID == nil) != (w.NameID == nil) || (w.NameID != nil && *g.NameID != *w.NameID) {
				return fail("attribute %d %s value %d: nested NameID %s came back as %s", i, q(want[i].Name), j, nameIDText(w.NameID), nameIDText(g.NameID))
			}
		}
	}
	return res
}

func nameIDText(n *RichNameID) string {
	if n == nil {
		return "<none>"
	}
	return fmt.Sprintf("%+q", *n)
}

var certText = regexp.MustCompile(`(<X509Certificate[^>]*>)([^<]*)(</X509Certificate>)`)

// layout re-renders base64 text the way metadata tools do.
func layout(b64 string, mode int) string {
	wrap := func(n int, nl, indent string) string {
		var sb strings.Builder
		for i := 0; i < len(b64); i += n {
			e := i + n
			if e > len(b64) {
				e = len(b64)
			}
			sb.WriteString(nl + indent + b64[i:e])
		}
		return sb.String() + nl
	}
	switch mode {
	case 1:
		return wrap(64, "\n", "")
	case 2:
		return wrap(76, "\r\n", "")
	case 3:
		return wrap(64, "\n", "          ")
	case 4:
		return wrap(64, "\n", "\t\t\t")
	case 5:
		return "\n\n" + b64 + "\n\n"
	case 6:
		return "\n \t" + strings.TrimLeft(wrap(60, "\r\n", " \t "), "\r\n") + " \n"
	}
	return b64
}

// publish is what registration sees: the SP's metadata serialised to an XML document (with the certificate
// text laid out as requested) and parsed again.
func publish(sp *saml.ServiceProvider, mode int) (*saml.EntityDescriptor, []byte, error) {
	buf, err := xml.Marshal(sp.Metadata())
	if err != nil {
		return nil, nil, err
	}
	if mode != 0 {
		buf = certText.ReplaceAllFunc(buf, func(m []byte) []byte {
			p := certText.FindSubmatch(m)
			return []byte(string(p[1]) + layout(string(p[2]), mode) + string(p[3]))
		})
	}
	var md saml.EntityDescriptor
	if err := xml.Unmarshal(buf, &md); err != nil {
		return nil, buf, err
	}
	return &md, buf, nil
}

func names(l []RichAttr) string {
	var out []string
	for _, a := range l {
		out = append(out, q(a.Name))
	}
	return "[" + strings.Join(out, " ") + "]"
}

// ---------------------------------------------------------------- exhaustive part

// enumCR: a carriage return in each kind of position, plain and encrypted.
func enumCR(_ string, emit func(Case)) {
	if excluded("CR") {
		return
	}
	for _, enc := range []bool{false, true} {
		for _, pos := range []string{"nameid", "value", "name"} {
			s := idpkit.Sess{ID: "s", Index: "i", NameID: "alice"}
			switch pos {
			case "nameid":
				s.NameID = "ali\rce"
			case "value":
				s.Custom = []idpkit.Attr{{Name: "n", Values: []string{"a\r\nb"}}}
			case "name":
				s.Custom = []idpkit.Attr{{Name: "n\rm", FriendlyName: "f\r", Values: []string{"v"}}}
			}
			emit(Case{IDP: idpkit.IDPConf{Base: "https://idp.example.com"}, SP: SPConf{Key: "sp", Cert: enc, Binding: "post"}, Sess: s})
		}
	}
}

// enumConfigs: SP config lattice x IdP signature method, with one session that
// carries one representative of every character class (except CR) in every position.
func enumConfigs(key string) func(string, func(Case)) {
	return func(_ string, emit func(Case)) {
		probe := "a<b>&\"'c ]]> <!-- --> <?x?> \t\n é 日本 😀   end"
		sess := idpkit.Sess{ID: "s", Index: "i", NameID: " " + probe + " ", UserName: probe, Email: "", CommonName: "  ", Surname: probe, GivenName: "x", EPPN: probe,
			SubjectID: probe, Groups: []string{probe, "", " g "},
			Custom: []idpkit.Attr{{Name: probe, FriendlyName: probe, Values: []string{probe, "", "\n"}}, {Name: "", FriendlyName: "", Values: nil}, {Name: "n", Values: []string{"]]>", "&amp;", "&#13;"}}}}
		for _, m := range idpkit.RSAMethods {
			for _, signer := range []bool{false, true} {
				for _, ent := range []string{"", "urn:example:sp"} {
					for _, cert := range []bool{false, true} {
						for _, signed := range []bool{false, true} {
							if signed && !cert {
								continue
							}
							if key == "spec" && cert && excluded("ECENC") {
								continue
							}
							for _, b := range []string{"redirect", "post"} {
								emit(Case{IDP: idpkit.IDPConf{Base: "https://idp.example.com", Signer: signer, SigMethod: m},
									SP: SPConf{EntityID: ent, Key: key, Cert: cert, Signed: signed, Binding: b}, Sess: sess, Relay: "rs"})
							}
						}
					}
				}
			}
		}
	}
}

// enumSequences: logins on one long-lived IdentityProvider / registry / ServiceProvider with the SP re-registering
// in between (key rotation, certificate dropped / added, entity ID set / unset), and several outstanding request
// IDs on the SP side with the answered one at every position.
func enumSequences(_ string, emit func(Case)) {
	user := func(i int) idpkit.Sess {
		return idpkit.Sess{ID: fmt.Sprintf("sessionhandle0enum%04d", i), Index: fmt.Sprintf("i%d", i), NameID: fmt.Sprintf("user%d <&> \"q\"", i), UserName: fmt.Sprintf("u%d", i),
			SubjectID: fmt.Sprintf("subject-%d", i), Groups: []string{"g", fmt.Sprintf("g%d", i)}, Custom: []idpkit.Attr{{Name: "n", FriendlyName: "f", Values: []string{fmt.Sprintf(" v%d ", i)}}}}
	}
	conf := func(key string, cert bool, ent string) *SPConf {
		return &SPConf{Key: key, Cert: cert, EntityID: ent, Binding: "post"}
	}
	plans := [][]*SPConf{
		{conf("sp", true, ""), conf("sp2", true, "")},                                                   // key rotation
		{conf("sp", true, ""), conf("sp", false, "")},                                                   // certificate dropped
		{conf("sp", false, ""), conf("sp", true, ""), conf("sp2", true, "")},                            // certificate added, then rotated
		{conf("sp", true, ""), nil, conf("sp2", true, ""), nil},                                         // logins before and after the rotation
		{conf("sp", true, ""), conf("sp", true, "urn:example:sp"), conf("sp2", true, "urn:example:sp")}, // entity ID set, then key rotated under it
		{conf("sp", true, "urn:example:sp"), conf("sp2", true, ""), conf("sp", true, "urn:example:sp")}, // entity ID unset and set again with another key
		{conf("sp", true, ""), conf("sp2", false, ""), conf("sp2", true, "")},
	}
	n := 0
	for _, plan := range plans {
		for _, binding := range []string{"redirect", "post"} {
			for _, signer := range []bool{false, true} {
				c := Case{IDP: idpkit.IDPConf{Base: "https://idp.example.com", Signer: signer}, SP: *plan[0], Sess: user(n), Relay: "rs"}
				c.SP.Binding = binding
				n++
				for _, st := range plan[1:] {
					step := Step{Sess: user(n)}
					n++
					if st != nil {
						x := *st
						x.Binding = binding
						step.SP = &x
					}
					c.Steps = append(c.Steps, step)
				}
				emit(c)
			}
		}
	}
	// the IdP re-configures itself between logins (the SP refreshes the metadata it trusts)
	idpPlans := [][]idpkit.IDPConf{
		{{}, {SigMethod: dsig.RSASHA256SignatureMethod}, {}},
		{{SigMethod: dsig.RSASHA512SignatureMethod}, {KeyName: "idp2"}, {KeyName: "idp2", Signer: true, SigMethod: dsig.RSASHA256SignatureMethod}},
		{{Signer: true}, {Intermediates: 2}, {KeyName: "idpec", Signer: true, SigMethod: dsig.ECDSASHA256SignatureMethod}, {}},
	}
	for _, plan := range idpPlans {
		for _, cert := range []bool{false, true} {
			first := plan[0]
			first.Base = "https://idp.example.com"
			c := Case{IDP: first, SP: SPConf{Key: "sp", Cert: cert, Binding: "post"}, Sess: user(n), Relay: "rs"}
			n++
			for k := range plan[1:] {
				x := plan[1+k]
				c.Steps = append(c.Steps, Step{IDP: &x, Sess: user(n)})
				n++
			}
			emit(c)
		}
	}
	for pending := 1; pending <= 3; pending++ {
		for pos := 0; pos <= pending; pos++ {
			for _, cert := range []bool{false, true} {
				for _, binding := range []string{"redirect", "post"} {
					emit(Case{IDP: idpkit.IDPConf{Base: "https://idp.example.com"}, SP: SPConf{Key: "sp", Cert: cert, Binding: binding}, Sess: user(n), Pending: pending, AnswerPos: pos,
						Steps: []Step{{Sess: user(n + 1), Pending: pending, AnswerPos: pending - pos}}})
					n += 2
				}
			}
		}
	}
}

// enumShapes: every layout of the certificate text in the published metadata, and custom attribute values of
// every shape (typed text, nested NameID with each qualifier field set to a value of its own, both).
func enumShapes(_ string, emit func(Case)) {
	rich := []RichAttr{
		{Name: "urn:oid:1.3.6.1.4.1.5923.1.1.1.10", FriendlyName: "eduPersonTargetedID", NameFormat: "urn:oasis:names:tc:SAML:2.0:attrname-format:uri", Values: []RichVal{
			{Type: "", NameID: &RichNameID{NameQualifier: "https://idp.example.com/nq", SPNameQualifier: "https://sp.example.com/spnq", Format: string(saml.PersistentNameIDFormat), SPProvidedID: "sp-provided-7", Value: "targeted-id-1"}},
			{Type: "xs:string", NameID: &RichNameID{SPProvidedID: "only <provided> & \"id\"", Value: ""}},
			{Type: "xs:string", NameID: &RichNameID{NameQualifier: "nq only"}},
			{Type: "xs:string", NameID: &RichNameID{SPNameQualifier: "spnq only", Value: " v "}},
		}},
		{Name: "typed", FriendlyName: "", Values: []RichVal{{Type: "xs:anyURI", Value: "urn:x:y"}, {Type: "", Value: "untyped"}, {Type: "xs:base64Binary", Value: "AAEC"}, {Type: "xs:string", Value: ""},
			{Type: "xs:string", Value: "text beside", NameID: &RichNameID{Format: "urn:x", Value: "nested"}}}},
	}
	sess := idpkit.Sess{ID: "sessionhandle0shapes01", Index: "i", NameID: "alice", UserName: "u", Groups: []string{"g1", "g1"}, SubjectID: "subject-1",
		Custom: []idpkit.Attr{{Name: "plain", FriendlyName: "p", Values: []string{"v"}}}}
	for mode := 0; mode <= 6; mode++ {
		for _, key := range []string{"sp", "sp2"} {
			for _, signed := range []bool{false, true} {
				for _, binding := range []string{"redirect", "post"} {
					for _, withRich := range []bool{false, true} {
						c := Case{IDP: idpkit.IDPConf{Base: "https://idp.example.com"}, SP: SPConf{Key: key, Cert: true, Signed: signed, Binding: binding, CertRender: mode}, Sess: sess, Relay: "rs"}
						if withRich {
							c.Rich = rich
							// a second login after re-registering with another layout and key
							other := SPConf{Key: map[string]string{"sp": "sp2", "sp2": "sp"}[key], Cert: true, Binding: binding, CertRender: (mode + 3) % 7}
							c.Steps = []Step{{SP: &other, Sess: idpkit.Sess{ID: "sessionhandle0shapes02", Index: "j", NameID: "bob"}}}
						}
						emit(c)
					}
				}
			}
		}
	}
}

var prop = &pbt.Prop[Case]{
	ID: "C07",
	Rule: "cases: one login SP -> IdP -> SP per case: session strings from every XML-1.0 class (markup, quotes, CR/LF/TAB, edge white space, CDATA/comment look-alikes, non-BMP, empty) in NameID, user fields, groups, custom attribute names / friendly names / values " +
		"x SP config (entity ID set/unset, RSA-2048 / ECDSA P-256 key, certificate published or not = encryption on/off, redirect / POST request binding, signed / unsigned requests) x IdP config (Key or crypto.Signer, default + each RSA method, ECDSA methods through a Signer, intermediates); " +
		"configuration fields no clause mentions are varied on both sides (SP: AuthnNameIDFormat, ForceAuthn, RequestedAuthnContext, LogoutBindings, MetadataValidDuration, AllowIDPInitiated, ACS URL with a query; IdP: LogoutURL, LoginURL, ValidDuration, form template, explicit assertion maker), and a third of the cases log a second user in through the same IdentityProvider and ServiceProvider values; " +
		"a quarter of the cases continue with 1-3 further logins on the same long-lived IdentityProvider, registry and ServiceProvider values, the SP re-configuring itself in place (key rotation, certificate dropped / added, entity ID set / unset / changed, signing, binding) and re-registering its freshly published metadata in between; a third of the logins have 1-3 other request IDs outstanding on the SP side with the answered one at any position; the session ID (internal handle) must not appear in the emitted response; " +
		"a third of the cases add custom attributes whose values have every shape saml.AttributeValue supports (xsi:type, text, nested NameID with NameQualifier / SPNameQualifier / Format / SPProvidedID / Value), compared field by field with what the SP returns, as is the subject NameID; the SP's metadata is registered from an XML document in which the X509Certificate text is laid out as tools do (single line, wrapped at 64/76 with LF/CRLF, indented with spaces or tabs, blank lines around); " +
		"both sides are configured from xml.Unmarshal(xml.Marshal(peer.Metadata())); exhaustive: the configuration lattice with one session holding every character class in every position. " +
		"non-trivial: at least one identity string outside plain ASCII. distinct: sha256 of the JSON case.",
	Gen:   gen,
	Check: check,
	Reset: fix.Reset,
	Enums: []pbt.Enum[Case]{{Name: "config-lattice-rsa-sp", Each: enumConfigs("sp")}, {Name: "config-lattice-ecdsa-sp", Each: enumConfigs("spec")}, {Name: "carriage-return-positions", Each: enumCR}, {Name: "re-registration-and-pending-requests", Each: enumSequences}, {Name: "value-shapes-and-metadata-layouts", Each: enumShapes}},
	Assumptions: []string{
		"strings XML 1.0 cannot represent are outside the domain (xgen produces representable ones only)",
		"the expected attribute list is a reference mapping written from the documented default assertion maker: standard LDAP/eduPerson OIDs for the user fields that are set, custom attributes as given, groups, subject-id; the registered SP requests no attributes",
		"session index and attribute NameFormat are kept to plain values (the property names neither)",
		"relay state is plain (C12 owns relay-state transport)",
		"ECDSA IdP keys are exercised through the crypto.Signer option with the ECDSA signature methods goxmldsig implements",
	},
}

func TestCheck(t *testing.T) { pbt.Run(t, prop) }

func FuzzCheck(f *testing.F) { pbt.Fuzz(f, prop) }
