// Package c17: through the middleware a SAML response establishes a session only
// for the browser that presents the authentic, unexpired tracking cookie of the
// request the response answers, and that browser lands only on a URL it asked for.
//
// A Case is DATA: a deployment configuration plus a list of actions (get a page,
// let the IdP answer a flow, deliver a response with a described cookie jar and
// RelayState, advance the clock).  check() executes the history against a real
// samlsp.Middleware through httptest and, in lock step, against an executable
// model of the browser's cookie jar and the pending flows; status, Location and
// Set-Cookie of every middleware response are compared with the model.
package c17

import (
	"crypto"
	"crypto/ecdsa"
	"crypto/rand"
	"crypto/rsa"
	"crypto/sha256"
	"crypto/sha512"
	"crypto/tls"
	"encoding/base64"
	"encoding/hex"
	"encoding/json"
	"encoding/xml"
	"fmt"
	"io"
	"log"
	"net/http"
	"net/http/httptest"
	"net/url"
	"os"
	"strings"
	"testing"
	"time"

	"github.com/crewjam/saml"
	"github.com/crewjam/saml/samlsp"
	"github.com/golang-jwt/jwt/v4"
	"golang.org/x/net/html"
	"pgregory.net/rapid"

	"verif/harness/internal/fix"
	"verif/harness/internal/pbt"
)

// ---------------------------------------------------------------- case

// Config is the deployment under test.
type Config struct {
	Key            string `json:"key"`             // sp | spec
	Root           string `json:"root"`            // root URL (scheme decides the Secure flag)
	Binding        string `json:"binding"`         // redirect | post
	RelayMode      string `json:"relay_mode"`      // "" (library random index) | counter | byurl | empty : custom RelayStateFunc
	DefaultURI     string `json:"default_uri"`     // "" = library default "/"
	CookieName     string `json:"cookie_name"`     // "" = library default
	LifetimeS      int    `json:"lifetime_s"`      // saml.MaxIssueDelay while the middleware is built and used = tracking lifetime
	SignReq        bool   `json:"sign_request"`    // Options.SignRequest
	BrowserExpires bool   `json:"browser_expires"` // the model browser drops cookies after Max-Age (else it keeps them: worst case)

	// public configuration the property's clauses do not mention: varied, must not change any verdict
	EntityID       string `json:"entity_id,omitempty"`       // Options.EntityID
	SameSite       int    `json:"same_site,omitempty"`       // Options.CookieSameSite (http.SameSite value)
	ForceAuthn     bool   `json:"force_authn,omitempty"`     // Options.ForceAuthn
	LogoutRedirect bool   `json:"logout_redirect,omitempty"` // Options.LogoutBindings = [HTTP-Redirect]
	Artifact       bool   `json:"artifact,omitempty"`        // Options.UseArtifactResponse (the IdP still answers by POST)
	CtxClass       bool   `json:"ctx_class,omitempty"`       // Options.RequestedAuthnContext set

	// public fields of the tracker / codecs; the model takes its expectations from THESE values
	TrackPrefix  string `json:"track_prefix,omitempty"`   // CookieRequestTracker.NamePrefix: "" = "saml_", "-" = empty prefix, else the prefix
	TrackLifeS   int    `json:"track_life_s,omitempty"`   // JWTTrackedRequestCodec.MaxAge (0 = LifetimeS): THE tracking lifetime
	TrackCookieS int    `json:"track_cookie_s,omitempty"` // CookieRequestTracker.MaxAge (0 = tracking lifetime): browser-side only
	TrackAlg     string `json:"track_alg,omitempty"`      // JWTTrackedRequestCodec.SigningMethod ("" = default for the key)
	TrackAud     string `json:"track_aud,omitempty"`      // JWTTrackedRequestCodec.Audience ("" = root URL)
	TrackIss     string `json:"track_iss,omitempty"`      // JWTTrackedRequestCodec.Issuer ("" = root URL)
	SessLifeS    int    `json:"sess_life_s,omitempty"`    // JWTSessionCodec.MaxAge and CookieSessionProvider.MaxAge (0 = 3600)
	SessDomain   string `json:"sess_domain,omitempty"`    // CookieSessionProvider.Domain override

	// the transport between browser and middleware, and what the CLIENT controls in it
	BehindProxy   bool     `json:"behind_proxy,omitempty"`   // https deployment behind a TLS-terminating proxy: requests arrive without TLS
	ClientHeaders []string `json:"client_headers,omitempty"` // "Name: value" headers on EVERY request the browser sends (Host: overrides the Host header)
}

// Action is one step of a history.  Flow / Resp / Other are resolved modulo the
// number of flows / responses that exist when the step runs; a step that needs a
// flow or a response when there is none is skipped.
type Action struct {
	Op string `json:"op"` // get | answer | deliver | advance

	// get: request a protected page
	URL string `json:"url,omitempty"`
	Jar string `json:"jar,omitempty"` // faithful | no-session | tracking-as-session | tampered-session

	// answer: the IdP answers flow Flow for User (or sends an unsolicited response aimed at it)
	Flow        int    `json:"flow,omitempty"`
	User        string `json:"user,omitempty"`
	Unsolicited bool   `json:"unsolicited,omitempty"`
	UnsolRelay  string `json:"unsol_relay,omitempty"` // "" | flow | attacker : RelayState the IdP attaches

	// deliver: post response Resp to the ACS with jar' = Cookies and RelayState' = Relay
	Resp    int    `json:"resp,omitempty"`
	Cookies string `json:"cookies,omitempty"`
	Relay   string `json:"relay,omitempty"`
	Other   int    `json:"other,omitempty"` // which other flow "other" modes refer to

	// advance
	Seconds int `json:"seconds,omitempty"`
}

// Case = configuration + history.
type Case struct {
	Config  Config   `json:"config"`
	Actions []Action `json:"actions"`
}

// client-controlled request headers: none of them may change cookie attributes or redirect targets
var clientHeaderPool = []string{"X-Forwarded-Proto: http", "X-Forwarded-Proto: https, http", "X-Forwarded-Proto: https", "X-Forwarded-Proto: HTTP", "X-Forwarded-Host: evil.example", "X-Forwarded-For: 10.0.0.1",
	"Forwarded: for=10.0.0.1;proto=http;host=evil.example", "X-Forwarded-Scheme: http", "X-Forwarded-Ssl: off", "Front-End-Https: off", "X-Forwarded-Port: 80", "X-Forwarded-Prefix: //evil.example",
	"Origin: https://evil.example", "Origin: null", "Referer: https://evil.example/landing", "Host: evil.example", "Host: SP.EXAMPLE.COM", "X-Original-URL: //evil.example/x", "X-Rewrite-URL: /admin"}

var (
	cookieModes = []string{"faithful", "none", "only-own", "only-other", "all-but-own", "tampered-own", "renamed-own", "swapped", "session-as-tracking", "own-plus-junk", "resurrect-own", "forged-own", "alg-none-own", "swap-alg-own", "alias"}
	relayModes  = []string{"echo", "other", "absent", "arbitrary", "attacker", "prefixed", "subject", "own-url", "request-id", "session-cookie", "acs-url"}
	getJars     = []string{"faithful", "no-session", "tracking-as-session", "tampered-session"}
	users       = []string{"alice", "bob", "mallory"}
	roots       = []string{"https://sp.example.com/", "http://sp.example.com/", "https://sp.example.com:8443/", "https://sp.example.com/app/", "http://localhost:8000/"}
	pageURLs    = []string{"/", "/a", "/a/b?x=1&y=2", "/page/", "/p?next=%2Fq", "/caf%C3%A9?q=%26", "/app/page", "/deep/er/path.html?u=https%3A%2F%2Fevil.example%2F", "/x?RelayState=zzz", "//evil.example/x", "///evil.example/x", "////evil.example/x?y=1", "/a:b/c",
		// percent-encoded reserved characters: the URL asked for is the ESCAPED one, "/wiki/AC%2FDC" is not "/wiki/AC/DC"
		"/wiki/AC%2FDC", "/a%3Fb/c%23d?x=1", "/100%25/x%3By", "/caf%C3%A9/%E2%9C%93?q=%E2%9C%93", "/a+b/c;d=e,f", "/lower/ac%2fdc", "/p%2F%2Fevil.example/x",
		"/search?q=a%26b%3Dc&r=%2F&s=1+2", "/cb?next=%2F%2Fevil.example%2Fx&sig=a%3D%3D", "/wiki/AC%2FDC?title=AC%2FDC%3F"}
)

const attackerURL = "https://evil.example/landing"

// slashHost is the class of requested URLs whose path starts with two slashes (see
// proposed_fixes/C17-scheme-relative-redirect.diff); VERIF_EXCLUDE_C17_SLASHSLASH=1
// removes exactly that class so that the rest of the space can be explored.
func excludeSlashSlash() bool { return os.Getenv("VERIF_EXCLUDE_C17_SLASHSLASH") == "1" }

// ---------------------------------------------------------------- generator (light model: only counts)

func gen(t *rapid.T) Case {
	var c Case
	c.Config.Key = rapid.SampledFrom([]string{"sp", "sp", "spec"}).Draw(t, "key")
	c.Config.Root = rapid.SampledFrom(roots).Draw(t, "root")
	c.Config.Binding = rapid.SampledFrom([]string{"redirect", "post"}).Draw(t, "binding")
	c.Config.RelayMode = rapid.SampledFrom([]string{"", "", "counter", "byurl", "empty", "special", "special"}).Draw(t, "relaymode")
	c.Config.DefaultURI = rapid.SampledFrom([]string{"", "", "/home", "/app/start?x=1", "home", "ABS", "https://portal.example.net/start"}).Draw(t, "defaulturi")
	c.Config.CookieName = rapid.SampledFrom([]string{"", "", "sess", "saml_session"}).Draw(t, "cookiename")
	c.Config.LifetimeS = rapid.SampledFrom([]int{90, 90, 30, 600}).Draw(t, "lifetime")
	c.Config.SignReq = rapid.IntRange(0, 3).Draw(t, "signreq") == 0
	c.Config.BrowserExpires = rapid.IntRange(0, 2).Draw(t, "browserexpires") == 0
	if rapid.Bool().Draw(t, "vary-unmentioned") {
		c.Config.EntityID = rapid.SampledFrom([]string{"", "urn:example:sp", "https://sp.example.com/entity"}).Draw(t, "entityid")
		c.Config.SameSite = rapid.IntRange(0, 4).Draw(t, "samesite")
		c.Config.ForceAuthn = rapid.Bool().Draw(t, "forceauthn")
		c.Config.LogoutRedirect = rapid.Bool().Draw(t, "logoutredirect")
		c.Config.Artifact = rapid.Bool().Draw(t, "artifact")
		c.Config.CtxClass = rapid.Bool().Draw(t, "ctxclass")
		c.Config.SessDomain = rapid.SampledFrom([]string{"", "", "example.com"}).Draw(t, "sessdomain")
	}
	if rapid.Bool().Draw(t, "vary-transport") {
		c.Config.BehindProxy = rapid.Bool().Draw(t, "behindproxy")
		c.Config.ClientHeaders = rapid.SliceOfNDistinct(rapid.SampledFrom(clientHeaderPool), 0, 3, func(s string) string { return strings.SplitN(s, ":", 2)[0] }).Draw(t, "clientheaders")
	}
	if rapid.Bool().Draw(t, "vary-codecs") {
		c.Config.TrackPrefix = rapid.SampledFrom([]string{"", "trk-", "-", "saml_x_"}).Draw(t, "trackprefix")
		c.Config.TrackLifeS = rapid.SampledFrom([]int{0, 0, 20, 45, 300}).Draw(t, "tracklife")
		c.Config.TrackCookieS = rapid.SampledFrom([]int{0, 0, 15, 1000}).Draw(t, "trackcookie")
		if c.Config.Key == "sp" {
			c.Config.TrackAlg = rapid.SampledFrom([]string{"", "RS512", "PS256", "RS384"}).Draw(t, "trackalg")
		}
		c.Config.TrackAud = rapid.SampledFrom([]string{"", "", "urn:track:aud"}).Draw(t, "trackaud")
		c.Config.TrackIss = rapid.SampledFrom([]string{"", "", "urn:track:iss"}).Draw(t, "trackiss")
		c.Config.SessLifeS = rapid.SampledFrom([]int{0, 0, 120, 7200}).Draw(t, "sesslife")
	}

	urls := pageURLs
	if excludeSlashSlash() {
		urls = nil
		for _, u := range pageURLs {
			if !strings.HasPrefix(u, "//") {
				urls = append(urls, u)
			}
		}
	}
	n := rapid.IntRange(3, 12).Draw(t, "steps")
	nflows, nresps, sess := 0, 0, false
	unanswered, undelivered := 0, 0
	L := c.Config.LifetimeS
	if c.Config.TrackLifeS > 0 {
		L = c.Config.TrackLifeS
	}
	S := 3600
	if c.Config.SessLifeS > 0 {
		S = c.Config.SessLifeS
	}
	for i := 0; i < n; i++ {
		var ops []string
		add := func(op string, weight int) {
			for k := 0; k < weight; k++ {
				ops = append(ops, op)
			}
		}
		switch {
		case nflows == 0:
			add("start", 6)
		case nflows < 3:
			add("start", 2)
		}
		if nflows > 0 {
			add("answer", 1+3*min(unanswered, 1))
		}
		if nresps > 0 {
			add("deliver", 2+4*min(undelivered, 1))
		}
		add("get", 1)
		if sess {
			add("get", 1)
		}
		add("advance", 1)
		var a Action
		switch rapid.SampledFrom(ops).Draw(t, "op") {
		case "start":
			a = Action{Op: "get", URL: rapid.SampledFrom(urls).Draw(t, "url"), Jar: "no-session"}
			nflows++
			unanswered++
		case "get":
			a = Action{Op: "get", URL: rapid.SampledFrom(urls).Draw(t, "url")}
			jars := []string{"faithful", "faithful"}
			if nflows > 0 {
				jars = append(jars, "tracking-as-session")
			}
			if sess {
				jars = append(jars, "tampered-session")
			}
			a.Jar = rapid.SampledFrom(jars).Draw(t, "jar")
			if a.Jar == "tracking-as-session" {
				a.Flow = rapid.IntRange(0, nflows-1).Draw(t, "flow")
			}
			if a.Jar != "faithful" || !sess {
				nflows++
			}
		case "answer":
			a = Action{Op: "answer", Flow: rapid.IntRange(0, nflows-1).Draw(t, "flow"), User: rapid.SampledFrom(users).Draw(t, "user")}
			if rapid.IntRange(0, 5).Draw(t, "unsol") == 0 {
				a.Unsolicited = true
				a.UnsolRelay = rapid.SampledFrom([]string{"", "flow", "attacker"}).Draw(t, "unsolrelay")
			}
			nresps++
			undelivered++
			if unanswered > 0 {
				unanswered--
			}
		case "deliver":
			a = Action{Op: "deliver"}
			if rapid.Bool().Draw(t, "latest") {
				a.Resp = nresps - 1
			} else {
				a.Resp = rapid.IntRange(0, nresps-1).Draw(t, "resp")
			}
			if rapid.IntRange(0, 2).Draw(t, "faithfulcookies") == 0 {
				a.Cookies = "faithful"
			} else {
				a.Cookies = rapid.SampledFrom(cookieModes).Draw(t, "cookies")
			}
			if rapid.IntRange(0, 1).Draw(t, "echo") == 0 {
				a.Relay = "echo"
			} else {
				a.Relay = rapid.SampledFrom(relayModes).Draw(t, "relay")
			}
			a.Other = rapid.IntRange(0, 2).Draw(t, "other")
			if undelivered > 0 {
				undelivered--
			}
			if a.Cookies == "faithful" || a.Cookies == "only-own" || a.Cookies == "own-plus-junk" || a.Cookies == "resurrect-own" {
				sess = true
			}
		default:
			a = Action{Op: "advance"}
			switch rapid.IntRange(0, 5).Draw(t, "advclass") {
			case 0, 1, 2:
				a.Seconds = rapid.IntRange(1, L/3).Draw(t, "below")
			case 3, 4:
				a.Seconds = L + rapid.IntRange(2, 100).Draw(t, "above")
			default:
				a.Seconds = S + rapid.IntRange(2, 100).Draw(t, "far")
			}
		}
		c.Actions = append(c.Actions, a)
	}
	return c
}

// ---------------------------------------------------------------- world: real middleware + model

type kv struct{ name, value string }

type jarCookie struct {
	name, value, path string
	secure            bool
	maxAge            int // seconds, 0 = session cookie
	setAt             time.Time
}

type flow struct {
	idx       string // relay state / cookie name suffix
	tok       string // authentic tracking token
	target    string // requested URL (origin form)
	startedAt time.Time
	method    string // GET | POST : how the AuthnRequest travels
	location  string // redirect binding: the IdP URL
	form      url.Values
}

type response struct {
	issuedAt     time.Time
	flow         int
	user         string
	unsolicited  bool
	samlResponse string
	relay        string
	delivered    int
}

type sessInfo struct {
	user string
	at   time.Time
}

type appObs struct {
	ran     bool
	subject string
}

type world struct {
	cfg      Config
	m        *samlsp.Middleware
	forger   *samlsp.Middleware // another deployment: same URL, different key
	idp      *saml.IdentityProvider
	handler  http.Handler
	root     *url.URL
	https    bool
	acsPath  string
	sessName string
	defURI   string
	life     int    // tracking lifetime = configured JWTTrackedRequestCodec.MaxAge
	issueDly int    // saml.MaxIssueDelay: freshness window of requests and responses
	sessLife int    // configured session lifetime
	prefix   string // configured tracking-cookie name prefix
	entity   string // the SP's entity ID as configured
	now      time.Time
	counter  int
	idpUser  string
	app      appObs

	jar      []jarCookie
	flows    []*flow
	resps    []*response
	sessions map[string]sessInfo

	classes map[string]bool
	nontriv bool
	advSeen bool
}

type spProvider struct{ ed *saml.EntityDescriptor }

func (p spProvider) GetServiceProvider(_ *http.Request, id string) (*saml.EntityDescriptor, error) {
	if id == p.ed.EntityID {
		return p.ed, nil
	}
	return nil, os.ErrNotExist
}

type sessProvider struct{ w *world }

func (p sessProvider) GetSession(_ http.ResponseWriter, _ *http.Request, _ *saml.IdpAuthnRequest) *saml.Session {
	u := p.w.idpUser
	return &saml.Session{ID: "sid-" + u, NameID: u, UserName: u, UserEmail: u + "@example.org", Index: "idx-" + u,
		CreateTime: p.w.now, ExpireTime: p.w.now.Add(time.Hour)}
}

var quiet = log.New(io.Discard, "", 0)

func (w *world) setNow(t time.Time) { w.now = t; fix.SetNow(t) }

func newWorld(cfg Config) (*world, error) {
	w := &world{cfg: cfg, sessions: map[string]sessInfo{}, classes: map[string]bool{}}
	root, err := url.Parse(cfg.Root)
	if err != nil {
		return nil, err
	}
	w.root = root
	w.https = root.Scheme == "https"
	w.life, w.issueDly, w.sessLife, w.prefix = cfg.LifetimeS, cfg.LifetimeS, 3600, "saml_"
	if cfg.TrackLifeS > 0 {
		w.life = cfg.TrackLifeS
	}
	if cfg.SessLifeS > 0 {
		w.sessLife = cfg.SessLifeS
	}
	switch cfg.TrackPrefix {
	case "":
	case "-":
		w.prefix = ""
	default:
		w.prefix = cfg.TrackPrefix
	}
	w.entity = cfg.EntityID
	if w.entity == "" {
		w.entity = root.String() + "saml/metadata"
	}
	saml.MaxIssueDelay = time.Duration(cfg.LifetimeS) * time.Second
	w.setNow(fix.Epoch.Add(1234 * time.Second))

	ik := fix.Get("idp")
	w.idp = &saml.IdentityProvider{Key: ik.Key, Certificate: ik.Cert, Logger: quiet,
		MetadataURL:     url.URL{Scheme: "https", Host: "idp.example.org", Path: "/metadata"},
		SSOURL:          url.URL{Scheme: "https", Host: "idp.example.org", Path: "/sso"},
		SessionProvider: sessProvider{w}}
	var idpMeta saml.EntityDescriptor
	if err := reparse(w.idp.Metadata(), &idpMeta); err != nil {
		return nil, err
	}

	mk := func(key *fix.KeyPair) (*samlsp.Middleware, error) {
		opts := samlsp.Options{URL: *root, Key: key.Key, Certificate: key.Cert, IDPMetadata: &idpMeta,
			CookieName: cfg.CookieName, DefaultRedirectURI: cfg.DefaultURI, SignRequest: cfg.SignReq,
			EntityID: cfg.EntityID, CookieSameSite: http.SameSite(cfg.SameSite), ForceAuthn: cfg.ForceAuthn, UseArtifactResponse: cfg.Artifact}
		if cfg.DefaultURI == "ABS" {
			opts.DefaultRedirectURI = root.String() + "landing?x=1"
		}
		if cfg.LogoutRedirect {
			opts.LogoutBindings = []string{saml.HTTPRedirectBinding}
		}
		if cfg.CtxClass {
			opts.RequestedAuthnContext = &saml.RequestedAuthnContext{Comparison: "exact", AuthnContextClassRef: "urn:oasis:names:tc:SAML:2.0:ac:classes:PasswordProtectedTransport"}
		}
		switch cfg.RelayMode {
		case "special":
			opts.RelayStateFunc = func(http.ResponseWriter, *http.Request) string { w.counter++; return specialRelay(w.counter) }
		case "counter":
			opts.RelayStateFunc = func(http.ResponseWriter, *http.Request) string { w.counter++; return fmt.Sprintf("rs-%d", w.counter) }
		case "byurl":
			opts.RelayStateFunc = func(_ http.ResponseWriter, r *http.Request) string {
				h := sha256.Sum256([]byte(r.URL.String()))
				return "u" + hex.EncodeToString(h[:6])
			}
		case "empty":
			opts.RelayStateFunc = func(http.ResponseWriter, *http.Request) string { return "" }
		}
		m, err := samlsp.New(opts)
		if err != nil {
			return nil, err
		}
		if cfg.Binding == "post" {
			m.Binding = saml.HTTPPostBinding
		} else {
			m.Binding = saml.HTTPRedirectBinding
		}
		// public fields of the tracker, the session provider and their codecs
		tr, ok1 := m.RequestTracker.(samlsp.CookieRequestTracker)
		tc, ok2 := tr.Codec.(samlsp.JWTTrackedRequestCodec)
		sp, ok3 := m.Session.(samlsp.CookieSessionProvider)
		sc, ok4 := sp.Codec.(samlsp.JWTSessionCodec)
		if !ok1 || !ok2 || !ok3 || !ok4 {
			return nil, fmt.Errorf("unexpected default provider types")
		}
		tr.NamePrefix = w.prefix
		if cfg.TrackLifeS > 0 {
			tc.MaxAge = time.Duration(cfg.TrackLifeS) * time.Second
			tr.MaxAge = tc.MaxAge
		}
		if cfg.TrackCookieS > 0 {
			tr.MaxAge = time.Duration(cfg.TrackCookieS) * time.Second
		}
		if cfg.TrackAlg != "" {
			tc.SigningMethod = jwt.GetSigningMethod(cfg.TrackAlg)
		}
		if cfg.TrackAud != "" {
			tc.Audience = cfg.TrackAud
		}
		if cfg.TrackIss != "" {
			tc.Issuer = cfg.TrackIss
		}
		tr.Codec = tc
		m.RequestTracker = tr
		if cfg.SessLifeS > 0 {
			sc.MaxAge = time.Duration(cfg.SessLifeS) * time.Second
			sp.MaxAge = sc.MaxAge
		}
		if cfg.SessDomain != "" && strings.HasSuffix(root.Hostname(), "."+cfg.SessDomain) {
			sp.Domain = cfg.SessDomain
		}
		sp.Codec = sc
		m.Session = sp
		return m, nil
	}
	key := fix.Get(cfg.Key)
	if w.m, err = mk(key); err != nil {
		return nil, err
	}
	other := "sp2"
	if key.EC() != nil {
		other = "idpec"
	}
	if w.forger, err = mk(fix.Get(other)); err != nil {
		return nil, err
	}
	w.acsPath = w.m.ServiceProvider.AcsURL.Path
	w.sessName = cfg.CookieName
	if w.sessName == "" {
		w.sessName = "token"
	}
	w.defURI = cfg.DefaultURI
	switch w.defURI {
	case "":
		w.defURI = "/"
	case "ABS":
		w.defURI = root.String() + "landing?x=1"
	}

	// the IdP knows the SP by its metadata as published (re-parsed from XML).  An EC
	// certificate cannot be an RSA-OAEP key-transport target (that is C07's finding),
	// so for EC SP keys the encryption descriptor is withheld and assertions travel signed only.
	var spMeta saml.EntityDescriptor
	if err := reparse(w.m.ServiceProvider.Metadata(), &spMeta); err != nil {
		return nil, err
	}
	if key.EC() != nil {
		for i := range spMeta.SPSSODescriptors {
			var keep []saml.KeyDescriptor
			for _, kd := range spMeta.SPSSODescriptors[i].KeyDescriptors {
				if kd.Use != "encryption" {
					keep = append(keep, kd)
				}
			}
			spMeta.SPSSODescriptors[i].KeyDescriptors = keep
		}
	}
	w.idp.ServiceProviderProvider = spProvider{&spMeta}

	app := http.HandlerFunc(func(rw http.ResponseWriter, r *http.Request) {
		w.app.ran = true
		if jc, ok := samlsp.SessionFromContext(r.Context()).(samlsp.JWTSessionClaims); ok {
			w.app.subject = jc.Subject
		}
		rw.WriteHeader(http.StatusOK)
		_, _ = rw.Write([]byte("application page"))
	})
	protected := w.m.RequireAccount(app)
	w.handler = http.HandlerFunc(func(rw http.ResponseWriter, r *http.Request) {
		if r.URL.Path == w.acsPath || r.URL.Path == w.m.ServiceProvider.MetadataURL.Path {
			w.m.ServeHTTP(rw, r)
			return
		}
		protected.ServeHTTP(rw, r)
	})
	return w, nil
}

// specialRelay is a RelayStateFunc value made of characters that are valid in a
// cookie name but must be escaped in a URL query ("+", "&", "#", "%41").
func specialRelay(n int) string { return fmt.Sprintf("flow+%d&b#c%%41!~", n) }

// requestID reads the SAML request id out of a flow's tracking token (public data).
func requestID(f *flow) string {
	if p := strings.Split(f.tok, "."); len(p) == 3 {
		if raw, err := base64.RawURLEncoding.DecodeString(p[1]); err == nil {
			var m map[string]any
			if json.Unmarshal(raw, &m) == nil {
				id, _ := m["id"].(string)
				return id
			}
		}
	}
	return ""
}

func reparse(in *saml.EntityDescriptor, out *saml.EntityDescriptor) error {
	buf, err := xml.Marshal(in)
	if err != nil {
		return err
	}
	return xml.Unmarshal(buf, out)
}

// do sends one request to the deployment the way a server would see it (origin-form target).
func (w *world) do(method, target string, form url.Values, cookies []kv) (rec *httptest.ResponseRecorder, panicked any) {
	var body io.Reader
	if form != nil {
		body = strings.NewReader(form.Encode())
	}
	req := httptest.NewRequest(method, "/", body)
	u, err := url.ParseRequestURI(target)
	if err != nil {
		panic("harness: bad target " + target)
	}
	req.URL = u
	req.RequestURI = target
	req.Host = w.root.Host
	if w.https && !w.cfg.BehindProxy {
		req.TLS = &tls.ConnectionState{}
	} else {
		req.TLS = nil
	}
	for _, h := range w.cfg.ClientHeaders {
		if kv := strings.SplitN(h, ":", 2); len(kv) == 2 {
			if strings.EqualFold(kv[0], "Host") {
				req.Host = strings.TrimSpace(kv[1])
			} else {
				req.Header.Set(kv[0], strings.TrimSpace(kv[1]))
			}
		}
	}
	if form != nil {
		req.Header.Set("Content-Type", "application/x-www-form-urlencoded")
	}
	if len(cookies) > 0 {
		var parts []string
		for _, c := range cookies {
			parts = append(parts, c.name+"="+c.value)
		}
		req.Header.Set("Cookie", strings.Join(parts, "; "))
	}
	rec = httptest.NewRecorder()
	w.app = appObs{}
	func() {
		defer func() { panicked = recover() }()
		w.handler.ServeHTTP(rec, req)
	}()
	return rec, panicked
}

// ---- model browser

func pathMatch(cookiePath, reqPath string) bool {
	if cookiePath == "" || cookiePath == "/" || cookiePath == reqPath {
		return true
	}
	if strings.HasPrefix(reqPath, cookiePath) {
		return strings.HasSuffix(cookiePath, "/") || reqPath[len(cookiePath)] == '/'
	}
	return false
}

func (w *world) expireJar() {
	if !w.cfg.BrowserExpires {
		return
	}
	var keep []jarCookie
	for _, c := range w.jar {
		if c.maxAge > 0 && w.now.Sub(c.setAt) >= time.Duration(c.maxAge)*time.Second {
			continue
		}
		keep = append(keep, c)
	}
	w.jar = keep
}

// faithful is what the browser sends to reqPath.
func (w *world) faithful(reqPath string) []kv {
	w.expireJar()
	var out []kv
	for _, c := range w.jar {
		if c.secure && !w.https {
			continue
		}
		if !pathMatch(c.path, reqPath) {
			continue
		}
		out = append(out, kv{c.name, c.value})
	}
	return out
}

// absorb applies the Set-Cookie headers of a response to the jar (RFC 6265 storage
// model: a cookie is identified by name, domain and path; the middleware only uses
// the request host as domain, so name+path identify it here).
func (w *world) absorb(rec *httptest.ResponseRecorder) []*http.Cookie {
	cks := rec.Result().Cookies()
	for _, ck := range cks {
		p := ck.Path
		if p == "" {
			p = "/"
		}
		var keep []jarCookie
		for _, c := range w.jar {
			if c.name == ck.Name && c.path == p {
				continue
			}
			keep = append(keep, c)
		}
		w.jar = keep
		deleted := ck.MaxAge < 0 || (!ck.Expires.IsZero() && !ck.Expires.After(w.now))
		if deleted {
			continue
		}
		w.jar = append(w.jar, jarCookie{name: ck.Name, value: ck.Value, path: p, secure: ck.Secure, maxAge: ck.MaxAge, setAt: w.now})
	}
	return cks
}

func setKV(list []kv, name, value string) []kv {
	for i := range list {
		if list[i].name == name {
			list[i].value = value
			return list
		}
	}
	return append(list, kv{name, value})
}

func dropKV(list []kv, name string) []kv {
	var out []kv
	for _, c := range list {
		if c.name != name {
			out = append(out, c)
		}
	}
	return out
}

func getKV(list []kv, name string) (string, bool) {
	for _, c := range list {
		if c.name == name {
			return c.value, true
		}
	}
	return "", false
}

// tamper changes one character in the middle of the claims segment (never a
// trailing character whose low bits base64 ignores).
func tamper(tok string) string {
	p := strings.Split(tok, ".")
	if len(p) != 3 || len(p[1]) < 8 {
		return tok + "x"
	}
	i := len(p[1]) / 2
	r := byte('A')
	if p[1][i] == 'A' {
		r = 'B'
	}
	p[1] = p[1][:i] + string(r) + p[1][i+1:]
	return strings.Join(p, ".")
}

func algNone(tok string) string {
	p := strings.Split(tok, ".")
	if len(p) != 3 {
		return tok
	}
	return base64.RawURLEncoding.EncodeToString([]byte(`{"alg":"none","typ":"JWT"}`)) + "." + p[1] + "."
}

// swapAlg re-signs the claims of tok with the same private key under RS384 (RSA) or
// ES384 (ECDSA; raw r||s of 48 bytes each, which the library's verifier accepts for any curve).
//
// A deployment that CONFIGURES another RSA algorithm gets the library default RS256
// instead: the token a default deployment with the same key would have issued.
func swapAlg(tok string, kp *fix.KeyPair, configured string) (string, error) {
	p := strings.Split(tok, ".")
	if len(p) != 3 {
		return "", fmt.Errorf("not a three-segment token")
	}
	alg := "RS384"
	if kp.EC() != nil {
		alg = "ES384"
	} else if configured != "" && configured != "RS256" {
		alg = "RS256"
	}
	hdr := base64.RawURLEncoding.EncodeToString([]byte(`{"alg":"` + alg + `","typ":"JWT"}`))
	digest := sha512.Sum384([]byte(hdr + "." + p[1]))
	var sig []byte
	if k := kp.RSA(); k != nil {
		var err error
		if alg == "RS256" {
			d256 := sha256.Sum256([]byte(hdr + "." + p[1]))
			sig, err = rsa.SignPKCS1v15(rand.Reader, k, crypto.SHA256, d256[:])
		} else {
			sig, err = rsa.SignPKCS1v15(rand.Reader, k, crypto.SHA384, digest[:])
		}
		if err != nil {
			return "", err
		}
	} else {
		r, s2, err := ecdsa.Sign(rand.Reader, kp.EC(), digest[:])
		if err != nil {
			return "", err
		}
		sig = make([]byte, 96)
		r.FillBytes(sig[:48])
		s2.FillBytes(sig[48:])
	}
	return hdr + "." + p[1] + "." + base64.RawURLEncoding.EncodeToString(sig), nil
}

// authentic reports which flow a (name, value) pair is the authentic tracking cookie of.
func (w *world) authentic(name, value string) (int, bool) {
	for i, f := range w.flows {
		if f.tok == value && name == w.prefix+f.idx {
			return i, true
		}
	}
	return 0, false
}

// ageClass of a flow's tracking token: fresh | boundary | stale.
func (w *world) ageClass(f *flow) string {
	age := int(w.now.Sub(f.startedAt) / time.Second)
	switch {
	case age < w.life-1:
		return "fresh"
	case age > w.life+1:
		return "stale"
	}
	return "boundary"
}

// resolve interprets a Location header the way a browser at the deployment's origin does.
func (w *world) resolve(loc string) string {
	origin := w.root.Scheme + "://" + w.root.Host
	switch {
	case strings.HasPrefix(loc, "//"):
		return w.root.Scheme + ":" + loc
	case strings.HasPrefix(loc, "/"):
		return origin + loc
	case strings.Contains(loc, "://"):
		return loc
	}
	// relative reference: resolved against the ACS URL, where the browser received it
	return origin + w.acsPath[:strings.LastIndex(w.acsPath, "/")+1] + loc
}

// collapseLeadingSlashes: a requested path "//x/y" and the path "/x/y" name the
// same resource for every server that cleans paths (net/http's mux does); landing
// on the cleaned form at the deployment's own origin still is the page asked for.
func collapseLeadingSlashes(w *world, abs string) string {
	origin := w.root.Scheme + "://" + w.root.Host
	if !strings.HasPrefix(abs, origin+"//") {
		return abs
	}
	return origin + "/" + strings.TrimLeft(abs[len(origin):], "/")
}

func (w *world) absolute(target string) string { return w.root.Scheme + "://" + w.root.Host + target }

// ---- reading the middleware's flow-start replies

type formData struct {
	action string
	fields map[string]string
	nforms int
}

func readForm(body string) (formData, error) {
	doc, err := html.Parse(strings.NewReader(body))
	if err != nil {
		return formData{}, err
	}
	fd := formData{fields: map[string]string{}}
	var walk func(n *html.Node, inForm bool)
	walk = func(n *html.Node, inForm bool) {
		if n.Type == html.ElementNode && n.Data == "form" {
			fd.nforms++
			inForm = true
			for _, a := range n.Attr {
				if a.Key == "action" {
					fd.action = a.Val
				}
			}
		}
		if n.Type == html.ElementNode && n.Data == "input" && inForm {
			var name, val string
			for _, a := range n.Attr {
				switch a.Key {
				case "name":
					name = a.Val
				case "value":
					val = a.Val
				}
			}
			if name != "" {
				fd.fields[name] = val
			}
		}
		for c := n.FirstChild; c != nil; c = c.NextSibling {
			walk(c, inForm)
		}
	}
	walk(doc, false)
	if fd.nforms != 1 {
		return fd, fmt.Errorf("expected exactly one form, found %d", fd.nforms)
	}
	return fd, nil
}

const stop = "\x00stop" // the history entered a region the property leaves open; nothing after it is judged

// expectStart checks that rec is a flow start for target and registers the flow.
func (w *world) expectStart(rec *httptest.ResponseRecorder, target string, why string) string {
	cks := w.absorb(rec)
	f := &flow{target: target, startedAt: w.now}
	sso := w.idp.SSOURL.String()
	if w.cfg.Binding == "redirect" {
		if rec.Code != http.StatusFound {
			return fmt.Sprintf("GET %s (%s): expected the start of a login flow (302 to the IdP), got status %d", target, why, rec.Code)
		}
		loc := rec.Header().Get("Location")
		u, err := url.Parse(loc)
		if err != nil || !strings.HasPrefix(loc, sso+"?") {
			return fmt.Sprintf("GET %s (%s): flow start redirects to %q, not to the IdP %s", target, why, loc, sso)
		}
		q := u.Query()
		if q.Get("SAMLRequest") == "" {
			return fmt.Sprintf("GET %s: flow start redirect carries no SAMLRequest: %q", target, loc)
		}
		f.idx = q.Get("RelayState")
		f.method, f.location = "GET", loc
	} else {
		if rec.Code != http.StatusOK {
			return fmt.Sprintf("GET %s (%s): expected the start of a login flow (200 with POST form), got status %d", target, why, rec.Code)
		}
		fd, err := readForm(rec.Body.String())
		if err != nil || fd.action != sso || fd.fields["SAMLRequest"] == "" {
			return fmt.Sprintf("GET %s (%s): flow start page is not a single POST form to the IdP (%v, action %q)", target, why, err, fd.action)
		}
		f.idx = fd.fields["RelayState"]
		f.method = "POST"
		f.form = url.Values{"SAMLRequest": {fd.fields["SAMLRequest"]}, "RelayState": {f.idx}}
	}
	if w.app.ran {
		return fmt.Sprintf("GET %s (%s): the application handler ran although no valid session was presented", target, why)
	}
	if f.idx == "" {
		return fmt.Sprintf("GET %s: flow start carries no RelayState", target)
	}
	// the index is what the CONFIGURED RelayStateFunc returned, not what the reply happens to carry
	want := ""
	switch w.cfg.RelayMode {
	case "counter":
		want = fmt.Sprintf("rs-%d", w.counter)
	case "special":
		want = specialRelay(w.counter)
		w.classes["relay:needs-url-escaping"] = true
	case "byurl":
		h := sha256.Sum256([]byte(target))
		want = "u" + hex.EncodeToString(h[:6])
	}
	if want != "" {
		if f.idx != want {
			return fmt.Sprintf("GET %s: the %s-binding reply carries RelayState %q, the RelayStateFunc returned %q", target, w.cfg.Binding, f.idx, want)
		}
		f.idx = want
		if f.form != nil {
			f.form.Set("RelayState", want)
		}
	}
	found := false
	for _, ck := range cks {
		if ck.Name == w.prefix+f.idx && ck.Value != "" {
			f.tok = ck.Value
			found = true
			if !pathMatch(ck.Path, w.acsPath) {
				return fmt.Sprintf("GET %s: tracking cookie path %q does not cover the ACS %s", target, ck.Path, w.acsPath)
			}
		}
	}
	if !found {
		return fmt.Sprintf("GET %s: flow start sets no tracking cookie %s%s (Set-Cookie: %q)", target, w.prefix, f.idx, rec.Header().Values("Set-Cookie"))
	}
	for _, g := range w.flows {
		if g.tok == f.tok {
			return "two flows received the same tracking token"
		}
		if g.idx == f.idx && w.cfg.RelayMode != "byurl" {
			return fmt.Sprintf("two flows received the same index %q", f.idx)
		}
	}
	w.flows = append(w.flows, f)
	pending := 0
	for _, g := range w.flows {
		if w.ageClass(g) == "fresh" {
			pending++
		}
	}
	if pending >= 2 {
		w.nontriv = true
		w.classes["concurrent-flows>=2"] = true
	}
	if pending >= 3 {
		w.classes["concurrent-flows>=3"] = true
	}
	return ""
}

// ---- actions

func (w *world) get(a Action) string {
	if strings.HasPrefix(a.URL, "//") {
		w.classes["url:slash-slash"] = true
	}
	u, err := url.ParseRequestURI(a.URL)
	if err != nil || u.Path == w.acsPath || u.Path == w.m.ServiceProvider.MetadataURL.Path {
		return "" // not a protected page of the application
	}
	cookies := w.faithful(u.Path)
	jarMode := a.Jar
	switch jarMode {
	case "no-session":
		cookies = dropKV(cookies, w.sessName)
	case "tracking-as-session":
		if len(w.flows) == 0 {
			jarMode = "no-session"
			cookies = dropKV(cookies, w.sessName)
		} else {
			cookies = setKV(cookies, w.sessName, w.flows[a.Flow%len(w.flows)].tok)
			w.nontriv = true
		}
	case "tampered-session":
		if v, ok := getKV(cookies, w.sessName); ok {
			cookies = setKV(cookies, w.sessName, tamper(v))
			w.nontriv = true
		}
	default:
		jarMode = "faithful"
	}
	w.classes["get:"+jarMode] = true
	// model: authenticated iff the presented session cookie is one this deployment minted, still alive
	expectUser, authed := "", false
	if v, ok := getKV(cookies, w.sessName); ok {
		if si, ok := w.sessions[v]; ok {
			age := int(w.now.Sub(si.at) / time.Second)
			switch {
			case age < w.sessLife-1:
				authed, expectUser = true, si.user
			case age <= w.sessLife+1:
				rec, _ := w.do("GET", a.URL, nil, cookies)
				w.absorb(rec)
				return stop
			}
		}
	}
	rec, p := w.do("GET", a.URL, nil, cookies)
	if p != nil {
		return fmt.Sprintf("GET %s: middleware panicked: %v", a.URL, p)
	}
	if authed {
		w.absorb(rec)
		w.classes["get:authenticated"] = true
		if !w.app.ran || rec.Code != http.StatusOK {
			return fmt.Sprintf("GET %s with the live session cookie of %q: application handler did not run (status %d)", a.URL, expectUser, rec.Code)
		}
		if w.app.subject != expectUser {
			return fmt.Sprintf("GET %s: application saw subject %q, the session was established for %q", a.URL, w.app.subject, expectUser)
		}
		return ""
	}
	return w.expectStart(rec, a.URL, "jar="+jarMode)
}

func (w *world) answer(a Action) string {
	if len(w.flows) == 0 {
		return ""
	}
	k := a.Flow % len(w.flows)
	f := w.flows[k]
	w.idpUser = a.User
	if w.idpUser == "" {
		w.idpUser = "alice"
	}
	rec := httptest.NewRecorder()
	r := &response{flow: k, user: w.idpUser, unsolicited: a.Unsolicited, issuedAt: w.now}
	if a.Unsolicited {
		relay := ""
		switch a.UnsolRelay {
		case "flow":
			relay = f.idx
		case "attacker":
			relay = attackerURL
		}
		req := httptest.NewRequest("GET", "https://idp.example.org/launch", nil)
		w.idp.ServeIDPInitiated(rec, req, w.entity, relay)
		w.classes["answer:unsolicited"] = true
	} else {
		var req *http.Request
		if f.method == "GET" {
			req = httptest.NewRequest("GET", f.location, nil)
		} else {
			req = httptest.NewRequest("POST", w.idp.SSOURL.String(), strings.NewReader(f.form.Encode()))
			req.Header.Set("Content-Type", "application/x-www-form-urlencoded")
		}
		// a user may sit on the IdP's login page for longer than the SP's tracking
		// lifetime: the IdP (a tool here) accepts the old request and issues a FRESH response.
		late := w.now.Sub(f.startedAt) > saml.MaxIssueDelay-2*time.Second
		saved := saml.MaxIssueDelay
		if late {
			saml.MaxIssueDelay = 1000 * time.Hour
			w.classes["answer:after-tracking-lifetime"] = true
		}
		w.idp.ServeSSO(rec, req)
		saml.MaxIssueDelay = saved
		w.classes["answer:solicited"] = true
	}
	if rec.Code != http.StatusOK {
		return fmt.Sprintf("HARNESS: the IdP did not answer flow %d (status %d, unsolicited=%v)", k, rec.Code, a.Unsolicited)
	}
	fd, err := readForm(rec.Body.String())
	if err != nil || fd.fields["SAMLResponse"] == "" {
		return fmt.Sprintf("HARNESS: cannot read the IdP's response form: %v", err)
	}
	if au, err := url.Parse(fd.action); err != nil || au.Path != w.acsPath {
		return fmt.Sprintf("HARNESS: the IdP posts to %q, not to the ACS", fd.action)
	}
	r.samlResponse = fd.fields["SAMLResponse"]
	r.relay = fd.fields["RelayState"]
	w.resps = append(w.resps, r)
	return ""
}

func (w *world) otherFlow(k, other int) (int, bool) {
	n := len(w.flows)
	if n < 2 {
		return 0, false
	}
	return (k + 1 + other%(n-1)) % n, true
}

func (w *world) deliver(a Action) string {
	if len(w.resps) == 0 {
		return ""
	}
	r := w.resps[a.Resp%len(w.resps)]
	k := r.flow
	f := w.flows[k]
	own := w.prefix + f.idx
	j, hasOther := w.otherFlow(k, a.Other)
	var g *flow
	if hasOther {
		g = w.flows[j]
	}

	// ---- jar'
	base := w.faithful(w.acsPath)
	mode := a.Cookies
	var jar []kv
	switch mode {
	case "none":
	case "only-own":
		jar = []kv{{own, f.tok}}
	case "only-other":
		if g != nil {
			jar = []kv{{w.prefix + g.idx, g.tok}}
		}
	case "all-but-own":
		jar = dropKV(base, own)
	case "tampered-own":
		jar = setKV(base, own, tamper(f.tok))
	case "renamed-own":
		name := w.prefix + "zzz"
		if g != nil && g.idx != f.idx {
			name = w.prefix + g.idx
		}
		jar = setKV(dropKV(base, own), name, f.tok)
	case "swapped":
		if g != nil && g.idx != f.idx {
			jar = setKV(setKV(base, own, g.tok), w.prefix+g.idx, f.tok)
		} else {
			jar = dropKV(base, own)
		}
	case "session-as-tracking":
		// a valid session token of this SP under the tracking-cookie name saml_<its subject>
		tok, user := "", ""
		for v, si := range w.sessions {
			if int(w.now.Sub(si.at)/time.Second) < w.sessLife-1 && (tok == "" || v < tok) {
				tok, user = v, si.user
			}
		}
		if tok == "" {
			user = r.user
			t, err := w.mintSession(user)
			if err != nil {
				return "HARNESS: cannot mint a session token: " + err.Error()
			}
			tok = t
		}
		jar = setKV(dropKV(base, own), w.prefix+user, tok)
	case "own-plus-junk":
		jar = setKV(setKV(setKV(base, own, f.tok), w.prefix+"junk", "AAAA.BBBB.CCCC"), "other", "x")
	case "resurrect-own":
		jar = setKV(base, own, f.tok)
	case "forged-own":
		// same index, request id and URL, minted by another deployment (other key)
		t, err := w.forgeTracking(f)
		if err != nil {
			return "HARNESS: cannot forge a tracking token: " + err.Error()
		}
		jar = setKV(base, own, t)
	case "alg-none-own":
		jar = setKV(base, own, algNone(f.tok))
	case "swap-alg-own":
		// the flow's own claims under another algorithm of the same family, signed with the SP's key:
		// not the cookie the middleware issued
		t, err := swapAlg(f.tok, fix.Get(w.cfg.Key), w.cfg.TrackAlg)
		if err != nil {
			return "HARNESS: cannot re-sign: " + err.Error()
		}
		jar = setKV(base, own, t)
	case "alias":
		// an authentic tracking token (the other flow's, else the own) ALSO stored under the name saml_zzz
		src := f
		if g != nil {
			src = g
		}
		jar = setKV(base, w.prefix+"zzz", src.tok)
	default:
		mode = "faithful"
		jar = base
	}

	// ---- RelayState'
	rmode := a.Relay
	var rs string
	switch rmode {
	case "other":
		if g != nil {
			rs = g.idx
		} else {
			rs = "nosuchindex"
		}
	case "absent":
		rs = ""
	case "arbitrary":
		rs = "zzz"
	case "attacker":
		rs = attackerURL
	case "prefixed":
		rs = own
	case "subject":
		rs = r.user // names the cookie saml_<subject> of the session-as-tracking jar
	// other identifiers of the SAME deployment / flow: none of them is the index
	case "own-url":
		rs = f.target
	case "request-id":
		rs = requestID(f)
	case "session-cookie":
		rs = strings.TrimPrefix(w.sessName, w.prefix) // names the session cookie when it shares the prefix
	case "acs-url":
		rs = w.m.ServiceProvider.AcsURL.String()
	default:
		rmode = "echo"
		rs = r.relay
	}
	w.classes["deliver:cookies="+mode] = true
	w.classes["deliver:relay="+rmode] = true
	if r.delivered > 0 {
		w.classes["deliver:replay"] = true
	}
	r.delivered++
	faithfulDelivery := mode == "faithful" && rmode == "echo"
	if !faithfulDelivery || w.advSeen {
		w.nontriv = true
	}

	// ---- model verdict
	verdict, why := "accept", ""
	wantLoc, clearName := "", ""
	ownPresent := false
	for _, c := range jar {
		if i, ok := w.authentic(c.name, c.value); ok && i == k {
			ownPresent = true
		}
	}
	switch {
	case r.unsolicited:
		verdict, why = "refuse", "the response is unsolicited (no InResponseTo) and IdP-initiated login is disabled"
	case !ownPresent:
		verdict, why = "refuse", "jar' does not contain the authentic tracking cookie of the flow the response answers"
	case w.ageClass(f) == "stale":
		verdict, why = "refuse", "the tracking cookie of the flow is past its lifetime"
	case w.ageClass(f) == "boundary":
		verdict = "open"
	case int(w.now.Sub(r.issuedAt)/time.Second) >= w.issueDly-1:
		// the response itself is older than MaxIssueDelay (possible when the configured
		// tracking lifetime is longer): C02's matter, this property is silent
		verdict = "open"
	case rs == "":
		wantLoc = w.resolve(w.defURI)
		why = "no RelayState: configured default"
	default:
		v, ok := getKV(jar, w.prefix+rs)
		if !ok {
			verdict, why = "refuse", "RelayState' names no cookie in jar'"
			break
		}
		i, ok := w.authentic(w.prefix+rs, v)
		switch {
		case !ok:
			verdict, why = "refuse", "the cookie named by RelayState' is not an authentic tracking cookie"
		case w.ageClass(w.flows[i]) == "stale":
			verdict, why = "refuse", "the tracking cookie named by RelayState' is past its lifetime"
		case w.ageClass(w.flows[i]) == "boundary":
			verdict = "open"
		default:
			wantLoc = w.absolute(w.flows[i].target)
			clearName = w.prefix + rs
			why = fmt.Sprintf("RelayState' names the authentic tracking cookie of flow %d", i)
			if i != k {
				w.classes["deliver:lands-on-other-flows-url"] = true
			}
		}
	}
	w.classes["expect:"+verdict] = true
	if w.ageClass(f) == "stale" && !r.unsolicited && ownPresent {
		w.classes["deliver:stale-cookie-presented"] = true
	}

	// ---- execute
	form := url.Values{"SAMLResponse": {r.samlResponse}}
	if rs != "" {
		form.Set("RelayState", rs)
	}
	rec, p := w.do("POST", w.acsPath, form, jar)
	if p != nil {
		return fmt.Sprintf("deliver(resp of flow %d, cookies=%s, relay=%s): middleware panicked: %v", k, mode, rmode, p)
	}
	cks := w.absorb(rec)
	var sessCk *http.Cookie
	cleared := map[string]bool{}
	for _, ck := range cks {
		if ck.Name == w.sessName && ck.Value != "" {
			sessCk = ck
		}
		if ck.Name != w.sessName && strings.HasPrefix(ck.Name, w.prefix) && ck.Value == "" && (ck.MaxAge < 0 || (!ck.Expires.IsZero() && !ck.Expires.After(w.now))) {
			cleared[ck.Name] = true
		}
	}
	loc := rec.Header().Get("Location")
	if sessCk != nil {
		// whatever the verdict, remember the token: it is one this deployment minted for that user
		w.sessions[sessCk.Value] = sessInfo{user: r.user, at: w.now}
	}
	desc := fmt.Sprintf("deliver(response for flow %d user %s unsolicited=%v, cookies=%s, relay=%s %q) at +%ds of the flow (lifetime %ds)", k, r.user, r.unsolicited, mode, rmode, rs, int(w.now.Sub(f.startedAt)/time.Second), w.life)
	switch verdict {
	case "open":
		return stop
	case "refuse":
		if sessCk != nil {
			return fmt.Sprintf("%s: a session cookie was set although %s (status %d, Location %q)", desc, why, rec.Code, loc)
		}
		if rec.Code < 400 {
			return fmt.Sprintf("%s: expected a refusal because %s, got status %d Location %q", desc, why, rec.Code, loc)
		}
		if loc != "" {
			return fmt.Sprintf("%s: refusal carries a Location %q", desc, loc)
		}
		return ""
	}
	// accept
	if rec.Code != http.StatusFound || sessCk == nil {
		return fmt.Sprintf("%s: expected 302 with a session cookie (%s), got status %d, session cookie set: %v", desc, why, rec.Code, sessCk != nil)
	}
	altLoc := wantLoc
	if rs == "" && !strings.HasPrefix(w.defURI, "/") && !strings.Contains(w.defURI, "://") {
		altLoc = w.root.String() + w.defURI // a relative default may as well be meant relative to the root URL
	}
	if got := w.resolve(loc); got != wantLoc && got != altLoc && got != collapseLeadingSlashes(w, wantLoc) {
		return fmt.Sprintf("%s: the browser is sent to %q (Location %q), expected %q (%s)", desc, got, loc, wantLoc, why)
	}
	if !sessCk.HttpOnly {
		return fmt.Sprintf("%s: session cookie is not HttpOnly", desc)
	}
	if w.https && !sessCk.Secure {
		return fmt.Sprintf("%s: session cookie is not Secure on an https deployment", desc)
	}
	if clearName != "" && !cleared[clearName] {
		return fmt.Sprintf("%s: tracking cookie %s named by the RelayState was not cleared (Set-Cookie: %q)", desc, clearName, rec.Header().Values("Set-Cookie"))
	}
	for name := range cleared {
		if name != clearName {
			return fmt.Sprintf("%s: tracking cookie %s was cleared although RelayState' does not name it", desc, name)
		}
	}
	if faithfulDelivery {
		w.classes["deliver:faithful-completes"] = true
	}
	return ""
}

func (w *world) mintSession(user string) (string, error) {
	rec := httptest.NewRecorder()
	req := httptest.NewRequest("POST", w.acsPath, nil)
	as := &saml.Assertion{Subject: &saml.Subject{NameID: &saml.NameID{Value: user}}}
	if err := w.m.Session.CreateSession(rec, req, as); err != nil {
		return "", err
	}
	for _, ck := range rec.Result().Cookies() {
		if ck.Name == w.sessName {
			w.sessions[ck.Value] = sessInfo{user: user, at: w.now}
			return ck.Value, nil
		}
	}
	return "", fmt.Errorf("no session cookie")
}

// forgeTracking mints, through ANOTHER deployment's codec (same URL, other key), a
// tracking token with the same index, URL and request id as flow f.
func (w *world) forgeTracking(f *flow) (string, error) {
	tr, ok := w.forger.RequestTracker.(samlsp.CookieRequestTracker)
	if !ok {
		return "", fmt.Errorf("unexpected tracker type %T", w.forger.RequestTracker)
	}
	// request id: read it from the authentic token's claims (middle segment; public data)
	id := ""
	if p := strings.Split(f.tok, "."); len(p) == 3 {
		if raw, err := base64.RawURLEncoding.DecodeString(p[1]); err == nil {
			var m map[string]any
			if json.Unmarshal(raw, &m) == nil {
				id, _ = m["id"].(string)
			}
		}
	}
	return tr.Codec.Encode(samlsp.TrackedRequest{Index: f.idx, SAMLRequestID: id, URI: f.target})
}

func (w *world) advance(a Action) string {
	s := a.Seconds
	if s < 1 {
		s = 1
	}
	w.setNow(w.now.Add(time.Duration(s) * time.Second))
	w.advSeen = true
	switch {
	case s > w.sessLife:
		w.classes["advance:past-session-lifetime"] = true
	case s > w.life:
		w.classes["advance:above-tracking-lifetime"] = true
	default:
		w.classes["advance:below-tracking-lifetime"] = true
	}
	return ""
}

// ---------------------------------------------------------------- check

func validConfig(c Config) bool {
	if c.Key != "sp" && c.Key != "spec" {
		return false
	}
	if c.Binding != "redirect" && c.Binding != "post" {
		return false
	}
	if c.LifetimeS < 10 || c.LifetimeS > 3000 {
		return false
	}
	u, err := url.Parse(c.Root)
	if err != nil || (u.Scheme != "http" && u.Scheme != "https") || u.Host == "" || !strings.HasSuffix(u.Path, "/") {
		return false
	}
	switch c.RelayMode {
	case "", "counter", "byurl", "empty", "special":
	default:
		return false
	}
	switch c.TrackAlg {
	case "":
	case "RS256", "RS384", "RS512", "PS256", "PS384", "PS512":
		if c.Key != "sp" {
			return false
		}
	default:
		return false
	}
	if len(c.ClientHeaders) > 8 {
		return false
	}
	for _, h := range c.ClientHeaders {
		kv := strings.SplitN(h, ":", 2)
		if len(kv) != 2 || kv[0] == "" || strings.ContainsAny(h, "\r\n") || strings.EqualFold(kv[0], "Cookie") || strings.EqualFold(kv[0], "Content-Type") || strings.EqualFold(kv[0], "Content-Length") {
			return false
		}
	}
	if (c.TrackLifeS != 0 && (c.TrackLifeS < 10 || c.TrackLifeS > 3000)) || (c.SessLifeS != 0 && c.SessLifeS < 60) || c.TrackCookieS < 0 || c.SameSite < 0 || c.SameSite > 4 {
		return false
	}
	for _, r := range c.TrackPrefix {
		if !(r == '-' || r == '_' || (r >= 'a' && r <= 'z') || (r >= '0' && r <= '9')) {
			return false
		}
	}
	return true
}

func check(c Case) (res pbt.Result) {
	if !validConfig(c.Config) || len(c.Actions) == 0 || len(c.Actions) > 40 {
		return pbt.Result{Skip: true}
	}
	if excludeSlashSlash() {
		for _, a := range c.Actions {
			if a.Op == "get" && strings.HasPrefix(a.URL, "//") {
				return pbt.Result{Skip: true}
			}
		}
	}
	w, err := newWorld(c.Config)
	if err != nil {
		return pbt.Result{Skip: true}
	}
	w.classes["binding:"+c.Config.Binding] = true
	w.classes["scheme:"+w.root.Scheme] = true
	w.classes["key:"+c.Config.Key] = true
	if c.Config.RelayMode != "" {
		w.classes["relayfunc:"+c.Config.RelayMode] = true
	}
	if c.Config.BrowserExpires {
		w.classes["browser:expires-cookies"] = true
	}
	if c.Config.EntityID != "" {
		w.classes["cfg:entity-id"] = true
	}
	if c.Config.BehindProxy && w.https {
		w.classes["transport:https-behind-proxy"] = true
	}
	for _, h := range c.Config.ClientHeaders {
		w.classes["client-header:"+strings.SplitN(h, ":", 2)[0]] = true
	}
	if c.Config.TrackPrefix != "" {
		w.classes["cfg:track-prefix="+c.Config.TrackPrefix] = true
	}
	if c.Config.TrackAlg != "" {
		w.classes["cfg:track-alg"] = true
	}
	if c.Config.TrackLifeS != 0 && c.Config.TrackLifeS != c.Config.LifetimeS {
		w.classes["cfg:track-lifetime!=issue-delay"] = true
	}
	if c.Config.TrackAud != "" || c.Config.TrackIss != "" {
		w.classes["cfg:track-aud-iss"] = true
	}
	if c.Config.SessLifeS != 0 {
		w.classes["cfg:session-lifetime"] = true
	}
	if c.Config.SameSite != 0 || c.Config.ForceAuthn || c.Config.LogoutRedirect || c.Config.Artifact || c.Config.CtxClass || c.Config.SessDomain != "" {
		w.classes["cfg:unmentioned-options-varied"] = true
	}
	if d := c.Config.DefaultURI; d != "" && !strings.HasPrefix(d, "/") {
		w.classes["cfg:default-uri-relative-or-absolute"] = true
	}
	for i, a := range c.Actions {
		var msg string
		switch a.Op {
		case "get":
			msg = w.get(a)
		case "answer":
			msg = w.answer(a)
		case "deliver":
			msg = w.deliver(a)
		case "advance":
			msg = w.advance(a)
		default:
			return pbt.Result{Skip: true}
		}
		if msg == stop {
			w.classes["stopped-at-boundary"] = true
			break
		}
		if msg != "" {
			res.Err = fmt.Sprintf("step %d: %s", i, msg)
			break
		}
	}
	for k := range w.classes {
		res.Classes = append(res.Classes, k)
	}
	sortStrings(res.Classes)
	res.NonTrivial = w.nontriv
	return res
}

func sortStrings(s []string) {
	for i := 1; i < len(s); i++ {
		for j := i; j > 0 && s[j] < s[j-1]; j-- {
			s[j], s[j-1] = s[j-1], s[j]
		}
	}
}

// ---------------------------------------------------------------- bounded-exhaustive DFS (thorough)

// enumDFS emits every history of exactly `depth` enabled actions over an action
// alphabet for at most two flows (flow 0 is the one started first).  Histories are
// prefix-closed under check (the first failing step ends a history), so shorter
// histories are covered by their extensions.
//
//	quick:    depth 4, reduced alphabet (9 jar modes x 5 relay modes), RSA/https/redirect;
//	          depth 3, reduced alphabet, ECDSA/http/POST/custom relay state
//	thorough: depth 4, FULL alphabet (15 jar modes x 7 relay modes), three configurations;
//	          depth 5, minimal alphabet (7 jar modes x 4 relay modes), RSA/https/redirect
func enumDFS(tier string, emit func(Case)) {
	cfgA := Config{Key: "sp", Root: "https://sp.example.com/", Binding: "redirect", LifetimeS: 90}
	cfgB := Config{Key: "spec", Root: "http://sp.example.com/", Binding: "post", RelayMode: "counter", LifetimeS: 90, DefaultURI: "/home"}
	cfgC := Config{Key: "sp", Root: "https://sp.example.com:8443/app/", Binding: "post", RelayMode: "byurl", LifetimeS: 30, CookieName: "saml_session", SignReq: true, BrowserExpires: true}
	cfgD := Config{Key: "sp", Root: "https://sp.example.com/", Binding: "redirect", RelayMode: "special", LifetimeS: 90, TrackLifeS: 45, TrackPrefix: "trk-", TrackAlg: "RS512", TrackAud: "urn:track:aud",
		EntityID: "urn:example:sp", DefaultURI: "home", SameSite: 2, ForceAuthn: true, Artifact: true, SessLifeS: 120,
		BehindProxy: true, ClientHeaders: []string{"X-Forwarded-Proto: http", "X-Forwarded-Host: evil.example", "Origin: https://evil.example", "Forwarded: for=10.0.0.1;proto=http;host=evil.example"}}
	redCM := []string{"faithful", "none", "only-own", "only-other", "tampered-own", "renamed-own", "session-as-tracking", "alias", "swap-alg-own"}
	redRM := []string{"echo", "other", "absent", "attacker", "arbitrary"}
	minCM := []string{"faithful", "none", "only-own", "only-other", "tampered-own", "renamed-own", "session-as-tracking"}
	minRM := []string{"echo", "other", "absent", "attacker"}
	type job struct {
		cfg    Config
		depth  int
		cm, rm []string
	}
	cfgE := cfgD
	cfgE.Binding = "post"
	jobs := []job{{cfgA, 4, redCM, redRM}, {cfgB, 3, redCM, redRM}, {cfgD, 3, redCM, relayModes}, {cfgE, 3, minCM, minRM}}
	if tier == "thorough" {
		jobs = []job{{cfgA, 4, cookieModes, relayModes}, {cfgB, 4, minCM, relayModes}, {cfgC, 4, cookieModes, minRM}, {cfgD, 4, cookieModes, relayModes}, {cfgE, 3, cookieModes, relayModes}, {cfgA, 5, minCM, minRM}}
	}
	urls := []string{"/wiki/AC%2FDC?q=a%26b%3Dc", "/b%3Fx/y?x=1"} // encoded reserved characters in path and query
	type st struct{ nflows, nresps int }
	for _, jb := range jobs {
		jb := jb
		var rec func(s st, hist []Action)
		rec = func(s st, hist []Action) {
			if len(hist) == jb.depth {
				emit(Case{Config: jb.cfg, Actions: append([]Action(nil), hist...)})
				return
			}
			next := func(a Action, s2 st) { rec(s2, append(hist[:len(hist):len(hist)], a)) }
			if s.nflows < 2 {
				next(Action{Op: "get", URL: urls[s.nflows], Jar: "no-session"}, st{s.nflows + 1, s.nresps})
			}
			for k := 0; k < s.nflows; k++ {
				next(Action{Op: "answer", Flow: k, User: users[k]}, st{s.nflows, s.nresps + 1})
			}
			if s.nflows > 0 && s.nresps == 0 {
				next(Action{Op: "answer", Flow: 0, User: "mallory", Unsolicited: true, UnsolRelay: "flow"}, st{s.nflows, s.nresps + 1})
			}
			for r := 0; r < s.nresps; r++ {
				for _, cm := range jb.cm {
					for _, rm := range jb.rm {
						next(Action{Op: "deliver", Resp: r, Cookies: cm, Relay: rm}, s)
					}
				}
			}
			if s.nflows > 0 {
				next(Action{Op: "advance", Seconds: jb.cfg.LifetimeS / 3}, s)
				next(Action{Op: "advance", Seconds: jb.cfg.LifetimeS + 5}, s)
				next(Action{Op: "get", URL: "/a", Jar: "faithful"}, s)
			}
		}
		rec(st{}, nil)
	}
}

var prop = &pbt.Prop[Case]{
	ID: "C17",
	Rule: "cases: a deployment (RSA/ECDSA key, http/https root, redirect/POST request binding, custom RelayStateFunc, default URI, cookie name, tracking lifetime, signed requests, browser honouring Max-Age or not) and a history of 3..12 actions " +
		"{get page (faithful jar / without session / tracking token as session cookie / tampered session), IdP answers flow k for user x (solicited or unsolicited), deliver response with jar' in 15 modes and RelayState' in 7 modes, advance clock below/above tracking lifetime or past the session lifetime}; " +
		"plus a bounded-exhaustive DFS over the same action alphabet for 2 flows (quick: depth 4 reduced alphabet; thorough: depth 4 full alphabet on three configurations and depth 5 on a 7x4 alphabet). " +
		"non-trivial: >=2 flows pending at once, or a delivery whose jar'/RelayState' differs from the faithful one, or a delivery after a clock advance, or a cross-kind cookie. distinct: sha256 of the JSON case.",
	Gen:   gen,
	Check: check,
	Reset: fix.Reset,
	Enums: []pbt.Enum[Case]{{Name: "dfs-2-flows", Each: enumDFS}},
	Assumptions: []string{
		"the model browser follows RFC 6265: a cookie is identified by name, domain and path, a Set-Cookie with a Domain attribute equal to the request host replaces the host-only cookie of the same name and path",
		"AllowIDPInitiated is false; the ACS receives HTTP-POST responses minted by the library's own IdP (key 'idp'), unsolicited ones by ServeIDPInitiated",
		"instants within 1 s of the tracking lifetime or of the session lifetime end the judged part of a history",
		"requested URLs are in normal form (no dot segments, no empty inner segments) and may carry percent-encoded reserved characters in path and query, which must come back exactly as asked (escaped form compared); a Location is resolved as a browser at the deployment's origin would; for a requested path with leading double slashes landing on the same path with them collapsed, at the deployment's origin, is accepted too",
		"for ECDSA SP keys the IdP is given the SP metadata without the encryption key descriptor (an EC certificate cannot receive RSA-OAEP; see C07)",
		"custom RelayStateFunc values are valid cookie names (they may need URL escaping: \"flow+1&b#c%41!~\")",
		"a relative DefaultRedirectURI (\"home\") may be resolved against the ACS URL (as the browser would) or against the root URL",
		"the browser may add any client-controlled request header (X-Forwarded-*, Forwarded, Origin, Referer, another Host) to every request, and an https deployment may sit behind a TLS-terminating proxy (requests arrive without TLS): neither changes an expectation - Secure follows the CONFIGURED root URL",
		"every public Options / tracker / codec field a clause does not mention is varied and must not change a verdict; the tracking lifetime is the CONFIGURED JWTTrackedRequestCodec.MaxAge, the session lifetime the configured JWTSessionCodec.MaxAge; a response older than MaxIssueDelay presented with a still-fresh tracking cookie is not judged (C02)",
		"when the user answers later than the tracking lifetime the IdP tool still accepts the old AuthnRequest (its own freshness limit is lifted for that call) and issues a fresh response",
	},
}

func TestCheck(t *testing.T) { pbt.Run(t, prop) }

func FuzzCheck(f *testing.F) { pbt.Fuzz(f, prop) }

func TestMain(m *testing.M) {
	log.SetOutput(io.Discard)
	os.Exit(m.Run())
}
