// Copyright 2010 The Go Authors. All rights reserved.
// Use of this source code is governed by a BSD-style
// license that can be found in the LICENSE file.

// Package rmd160 is a private copy of golang.org/x/crypto/ripemd160 (v0.33.0)
// for the harness's independent XML-Encryption reference.  The ONLY change is
// that the copy does not call crypto.RegisterHash: the reference must be able to
// compute RIPEMD-160 OAEP without making crypto.RIPEMD160 available to the
// library under test as a side effect of being linked into the same test binary.
package rmd160

// RIPEMD-160 is designed by Hans Dobbertin, Antoon Bosselaers, and Bart
// Preneel with specifications available at:
// http://homes.esat.kuleuven.be/~cosicart/pdf/AB-9601/AB-9601.pdf.

import (
	"hash"
)

// The size of the checksum in bytes.
const Size = 20

// The block size of the hash algorithm in bytes.
const BlockSize = 64

const (
	_s0 = 0x67452301
	_s1 = 0xefcdab89
	_s2 = 0x98badcfe
	_s3 = 0x10325476
	_s4 = 0xc3d2e1f0
)

// digest represents the partial evaluation of a checksum.
type digest struct {
	s  [5]uint32       // running context
	x  [BlockSize]byte // temporary buffer
	nx int             // index into x
	tc uint64          // total count of bytes processed
}

func (d *digest) Reset() {
	d.s[0], d.s[1], d.s[2], d.s[3], d.s[4] = _s0, _s1, _s2, _s3, _s4
	d.nx = 0
	d.tc = 0
}

// New returns a new hash.Hash computing the checksum.
func New() hash.Hash {
	result := new(digest)
	result.Reset()
	return result
}

func (d *digest) Size() int { return Size }

func (d *digest) BlockSize() int { return BlockSize }

func (d *digest) Write(p []byte) (nn int, err error) {
	nn = len(p)
	d.tc += uint64(nn)
	if d.nx > 0 {
		n := len(p)
		if n > BlockSize-d.nx {
			n = BlockSize - d.nx
		}
		for i := 0; i < n; i++ {
			d.x[d.nx+i] = p[i]
		}
		d.nx += n
		if d.nx == BlockSize {
			_Block(d, d.x[0:])
			d.nx = 0
		}
		p = p[n:]
	}
	n := _Block(d, p)
	p = p[n:]
	if len(p) > 0 {
		d.nx = copy(d.x[:], p)
	}
	return
}

func (d0 *digest) Sum(in []byte) []byte {
	// Make a copy of d0 so that caller can keep writing and summing.
	d := *d0

	// Padding.  Add a 1 bit and 0 bits until 56 bytes mod 64.
	tc := d.tc
	var tmp [64]byte
	tmp[0] = 0x80
	if tc%64 < 56 {
		d.Write(tmp[0 : 56-tc%64])
	} else {
		d.Write(tmp[0 : 64+56-tc%64])
	}

	// Length in bits.
	tc <<= 3
	for i := uint(0); i < 8; i++ {
		tmp[i] = byte(tc >> (8 * i))
	}
	d.Write(tmp[0:8])

	if d.nx != 0 {
		panic("d.nx != 0")
	}

	var digest [Size]byte
	for i, s := range d.s {
		digest[i*4] = byte(s)
		digest[i*4+1] = byte(s >> 8)
		digest[i*4+2] = byte(s >> 16)
		digest[i*4+3] = byte(s >> 24)
	}

	return append(in, digest[:]...)
}
