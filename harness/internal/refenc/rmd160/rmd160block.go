// Copyright 2010 The Go Authors. All rights reserved.
// Use of this source code is governed by a BSD-style
// license that can be found in the LICENSE file.

// RIPEMD-160 block step.
// In its own file so that a faster assembly or C version
// can be substituted easily.

package rmd160

import (
	"math/bits"
)

// work buffer indices and roll amounts for one line
var _n = [80]uint{
	0, 1, 2, 3, 4, 5, 6, 7, 8, 9, 10, 11, 12, 13, 14, 15,
	7, 4, 13, 1, 10, 6, 15, 3, 12, 0, 9, 5, 2, 14, 11, 8,
	3, 10, 14, 4, 9, 15, 8, 1, 2, 7, 0, 6, 13, 11, 5, 12,
	1, 9, 11, 10, 0, 8, 12, 4, 13, 3, 7, 15, 14, 5, 6, 2,
	4, 0, 5, 9, 7, 12, 2, 10, 14, 1, 3, 8, 11, 6, 15, 13,
}

var _r = [80]uint{
	11, 14, 15, 12, 5, 8, 7, 9, 11, 13, 14, 15, 6, 7, 9, 8,
	7, 6, 8, 13, 11, 9, 7, 15, 7, 12, 15, 9, 11, 7, 13, 12,
	11, 13, 6, 7, 14, 9, 13, 15, 14, 8, 13, 6, 5, 12, 7, 5,
	11, 12, 14, 15, 14, 15, 9, 8, 9, 14, 5, 6, 8, 6, 5, 12,
	9, 15, 5, 11, 6, 8, 13, 12, 5, 12, 13, 14, 11, 8, 5, 6,
}

// same for the other parallel one
var n_ = [80]uint{
	5, 14, 7, 0, 9, 2, 11, 4, 13, 6, 15, 8, 1, 10, 3, 12,
	6, 11, 3, 7, 0, 13, 5, 10, 14, 15, 8, 12, 4, 9, 1, 2,
	15, 5, 1, 3, 7, 14, 6, 9, 11, 8, 12, 2, 10, 0, 4, 13,
	8, 6, 4, 1, 3, 11, 15, 0, 5, 12, 2, 13, 9, 7, 10, 14,
	12, 15, 10, 4, 1, 5, 8, 7, 6, 2, 13, 14, 0, 3, 9, 11,
}

var r_ = [80]uint{
	8, 9, 9, 11, 13, 15, 15, 5, 7, 7, 8, 11, 14, 14, 12, 6,
	9, 13, 15, 7, 12, 8, 9, 11, 7, 7, 12, 7, 6, 15, 13, 11,
	9, 7, 15, 11, 8, 6, 6, 14, 12, 13, 5, 14, 13, 13, 7, 5,
	15, 5, 8, 11, 14, 14, 6, 14, 6, 9, 12, 9, 12, 5, 15, 8,
	8, 5, 12, 9, 12, 5, 14, 6, 8, 13, 6, 5, 15, 13, 11, 11,
}

func _Block(md *digest, p []byte) int {
	n := 0
	var x [16]uint32
	var alpha, beta uint32
	for len(p) >= BlockSize {
		a, b, c, d, e := md.s[0], md.s[1], md.s[2], md.s[3], md.s[4]
		aa, bb, cc, dd, ee := a, b, c, d, e
		j := 0
		for i := 0; i < 16; i++ {
			x[i] = uint32(p[j]) | uint32(p[j+1])<<8 | uint32(p[j+2])<<16 | uint32(p[j+3])<<24
			j += 4
		}

		// round 1
		i := 0
		for i < 16 {
			alpha = a + (b ^ c ^ d) + x[_n[i]]
			s := int(_r[i])
			alpha = bits.RotateLeft32(alpha, s) + e
			beta = bits.RotateLeft32(c, 10)
			a, b, c, d, e = e, alpha, b, beta, d

			// parallel line
			alpha = aa + (bb ^ (cc | ^dd)) + x[n_[i]] + 0x50a28be6
			s = int(r_[i])
			alpha = bits.RotateLeft32(alpha, s) + ee
			beta = bits.RotateLeft32(cc, 10)
			aa, bb, cc, dd, ee = ee, alpha, bb, beta, dd

			i++
		}

		// round 2
		for i < 32 {
			alpha = a + (b&c | ^b&d) + x[_n[i]] + 0x5a827999
			s := int(_r[i])
			alpha = bits.RotateLeft32(alpha, s) + e
			beta = bits.RotateLeft32(c, 10)
			a, b, c, d, e = e, alpha, b, beta, d

			// parallel line
			alpha = aa + (bb&dd | cc&^dd) + x[n_[i]] + 0x5c4dd124
			s = int(r_[i])
			alpha = bits.RotateLeft32(alpha, s) + ee
			beta = bits.RotateLeft32(cc, 10)
			aa, bb, cc, dd, ee = ee, alpha, bb, beta, dd

			i++
		}

		// round 3
		for i < 48 {
			alpha = a + (b | ^c ^ d) + x[_n[i]] + 0x6ed9eba1
			s := int(_r[i])
			alpha = bits.RotateLeft32(alpha, s) + e
			beta = bits.RotateLeft32(c, 10)
			a, b, c, d, e = e, alpha, b, beta, d

			// parallel line
			alpha = aa + (bb | ^cc ^ dd) + x[n_[i]] + 0x6d703ef3
			s = int(r_[i])
			alpha = bits.RotateLeft32(alpha, s) + ee
			beta = bits.RotateLeft32(cc, 10)
			aa, bb, cc, dd, ee = ee, alpha, bb, beta, dd

			i++
		}

		// round 4
		for i < 64 {
			alpha = a + (b&d | c&^d) + x[_n[i]] + 0x8f1bbcdc
			s := int(_r[i])
			alpha = bits.RotateLeft32(alpha, s) + e
			beta = bits.RotateLeft32(c, 10)
			a, b, c, d, e = e, alpha, b, beta, d

			// parallel line
			alpha = aa + (bb&cc | ^bb&dd) + x[n_[i]] + 0x7a6d76e9
			s = int(r_[i])
			alpha = bits.RotateLeft32(alpha, s) + ee
			beta = bits.RotateLeft32(cc, 10)
			aa, bb, cc, dd, ee = ee, alpha, bb, beta, dd

			i++
		}

		// round 5
		for i < 80 {
			alpha = a + (b ^ (c | ^d)) + x[_n[i]] + 0xa953fd4e
			s := int(_r[i])
			alpha = bits.RotateLeft32(alpha, s) + e
			beta = bits.RotateLeft32(c, 10)
			a, b, c, d, e = e, alpha, b, beta, d

			// parallel line
			alpha = aa + (bb ^ cc ^ dd) + x[n_[i]]
			s = int(r_[i])
			alpha = bits.RotateLeft32(alpha, s) + ee
			beta = bits.RotateLeft32(cc, 10)
			aa, bb, cc, dd, ee = ee, alpha, bb, beta, dd

			i++
		}

		// combine results
		dd += c + md.s[1]
		md.s[1] = md.s[2] + d + ee
		md.s[2] = md.s[3] + e + aa
		md.s[3] = md.s[4] + a + bb
		md.s[4] = md.s[0] + b + cc
		md.s[0] = dd

		p = p[BlockSize:]
		n += BlockSize
	}
	return n
}
