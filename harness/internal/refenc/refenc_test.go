package refenc

import (
	"bytes"
	"crypto"
	"crypto/rand"
	"crypto/rsa"
	"crypto/sha1"
	"crypto/sha256"
	"crypto/x509"
	"encoding/hex"
	"encoding/pem"
	"os"
	"testing"

	"github.com/beevik/etree"

	"verif/harness/internal/fix"
)

// The reference is validated against the standard library's own OAEP / PKCS#1
// (which implement the same RFC 8017 primitives) and against the two captured
// third-party samples in the repository's testdata.

// Known answers from the RIPEMD-160 paper, for the private copy.
func TestRMD160KnownAnswers(t *testing.T) {
	for in, want := range map[string]string{
		"":                           "9c1185a5c5e9fc54612808977ee8f548b2258d31",
		"abc":                        "8eb208f7e05d987a9b044a8e98c6b087f15a0bfc",
		"message digest":             "5d0689ef49d2fae572b881b123a85ffa21595f36",
		"abcdefghijklmnopqrstuvwxyz": "f71c27109c692c1b56bbdceb5b9d2865b3708dbc",
	} {
		h, _ := HashByURI(DigestRIPEMD160)
		d := h()
		d.Write([]byte(in))
		if got := hex.EncodeToString(d.Sum(nil)); got != want {
			t.Fatalf("rmd160(%q) = %s, want %s", in, got, want)
		}
	}
}

func TestBlockRoundTrip(t *testing.T) {
	for alg, s := range blockSpecs {
		for n := 0; n <= 4*s.Block+1; n++ {
			key := bytes.Repeat([]byte{7}, s.KeyLen)
			iv := bytes.Repeat([]byte{9}, s.IVLen)
			p := bytes.Repeat([]byte{byte(n)}, n)
			v, err := EncryptBlock(alg, key, iv, p, []byte{0xAA, 0xBB, 0xCC})
			if err != nil {
				t.Fatal(err)
			}
			q, err := DecryptBlock(alg, key, v)
			if err != nil || !bytes.Equal(p, q) {
				t.Fatalf("%s len %d: %v %x", alg, n, err, q)
			}
			if !s.GCM && (len(v)-s.IVLen)%s.Block != 0 {
				t.Fatalf("%s: not aligned", alg)
			}
			if s.GCM && len(v) != 12+n+16 {
				t.Fatalf("%s: gcm length", alg)
			}
		}
	}
}

func TestOAEPAgainstStdlib(t *testing.T) {
	kp := fix.Get("sp")
	priv := kp.RSA()
	msg := []byte("0123456789abcdef")
	// ours -> stdlib, same hash for both
	ct, err := OAEPEncrypt(sha256.New, sha256.New, rand.Reader, &priv.PublicKey, msg, nil)
	if err != nil {
		t.Fatal(err)
	}
	got, err := rsa.DecryptOAEP(sha256.New(), nil, priv, ct, nil)
	if err != nil || !bytes.Equal(got, msg) {
		t.Fatalf("stdlib cannot open ours: %v", err)
	}
	// ours with SHA-256 digest and MGF1-SHA1 -> stdlib with OAEPOptions
	ct, err = OAEPEncrypt(sha256.New, sha1.New, rand.Reader, &priv.PublicKey, msg, []byte("lbl"))
	if err != nil {
		t.Fatal(err)
	}
	got, err = priv.Decrypt(nil, ct, &rsa.OAEPOptions{Hash: crypto.SHA256, MGFHash: crypto.SHA1, Label: []byte("lbl")})
	if err != nil || !bytes.Equal(got, msg) {
		t.Fatalf("stdlib cannot open ours (split hashes): %v", err)
	}
	// stdlib -> ours
	ct, err = rsa.EncryptOAEP(sha1.New(), rand.Reader, &priv.PublicKey, msg, nil)
	if err != nil {
		t.Fatal(err)
	}
	got, err = OAEPDecrypt(sha1.New, sha1.New, priv, ct, nil)
	if err != nil || !bytes.Equal(got, msg) {
		t.Fatalf("ours cannot open stdlib: %v", err)
	}
	if _, err = OAEPDecrypt(sha256.New, sha1.New, priv, ct, nil); err == nil {
		t.Fatal("wrong digest accepted")
	}
	// PKCS#1 v1.5 both ways
	ct, err = PKCS1Encrypt(rand.Reader, &priv.PublicKey, msg)
	if err != nil {
		t.Fatal(err)
	}
	got, err = rsa.DecryptPKCS1v15(nil, priv, ct)
	if err != nil || !bytes.Equal(got, msg) {
		t.Fatalf("stdlib cannot open our PKCS1: %v", err)
	}
	ct, err = rsa.EncryptPKCS1v15(rand.Reader, &priv.PublicKey, msg)
	if err != nil {
		t.Fatal(err)
	}
	got, err = PKCS1Decrypt(priv, ct)
	if err != nil || !bytes.Equal(got, msg) {
		t.Fatalf("ours cannot open stdlib PKCS1: %v", err)
	}
}

func TestElementRoundTrip(t *testing.T) {
	kp := fix.Get("sp")
	plain := []byte("<a>hello</a>")
	for _, blk := range []string{AES128CBC, AES192CBC, AES256CBC, TripleDESCBC, AES128GCM} {
		s, _ := Spec(blk)
		for _, tr := range []Options{
			{KeyTransport: RSA15},
			{KeyTransport: RSAOAEPMGF1P},
			{KeyTransport: RSAOAEPMGF1P, Digest: DigestSHA256, EmbedCert: true, WrapBase64: 64},
			{KeyTransport: RSAOAEPMGF1P, Digest: LibDigestRIPEMD160, OAEPParams: []byte{1, 2}},
			{KeyTransport: RSAOAEP11, Digest: DigestSHA512, MGF: MGF1SHA256},
			{KeyTransport: RSAOAEP11, Digest: DigestSHA256},
			{KeyTransport: RSAOAEPMGF1P, XencPrefix: "-", DsPrefix: "dsig", Extras: true, EmbedCert: true},
			{KeyTransport: RSA15, XencPrefix: "e", Extras: true, KeyID: "_k1", KeyIDRef: true, ID: "_d1"},
			{KeyTransport: RSAOAEP11, Digest: DigestSHA256, MGF: MGF1SHA512, XencPrefix: "-", DsPrefix: "-", Extras: true, EmbedCert: true, KeyID: "_k1", KeyIDRef: true, OAEPParams: []byte{}},
			{KeyTransport: RSAOAEPMGF1P, Digest: DigestSHA1, DsPrefix: "-", EmbedCert: true},
			{KeyTransport: RSA15, KeyID: "_k", DataKIBefore: []string{"keyname", "retrieval"}, DataKIAfter: []string{"foreign", "keyvalue"}, KeyKIBefore: []string{"keyname"}, KeyKIAfter: []string{"x509data"}, EmbedCert: true},
			{KeyTransport: RSAOAEPMGF1P, KeyID: "_k", DsPrefix: "-", XencPrefix: "-", DataKIBefore: []string{"x509data", "keyvalue"}, KeyKIAfter: []string{"keyvalue", "foreign"}},
		} {
			for _, sib := range []bool{false, true} {
				o := tr
				o.BlockAlg = blk
				o.Sibling = sib
				o.ContentKey = bytes.Repeat([]byte{3}, s.KeyLen)
				o.IV = bytes.Repeat([]byte{5}, s.IVLen)
				ea, err := EncryptedAssertion(plain, kp.Cert, o)
				if err != nil {
					t.Fatal(err)
				}
				el, _, err := Reparse(ea)
				if err != nil {
					t.Fatal(err)
				}
				got, err := DecryptElement(el, kp.RSA())
				if err != nil || !bytes.Equal(got, plain) {
					t.Fatalf("%s %+v: %v", blk, tr, err)
				}
				if !sib {
					got, err = DecryptElement(el.ChildElements()[0], kp.RSA())
					if err != nil || !bytes.Equal(got, plain) {
						t.Fatalf("%s %+v (EncryptedData itself): %v", blk, tr, err)
					}
				}
				if _, err = DecryptElement(el, fix.Get("sp2").RSA()); err == nil {
					t.Fatalf("%s %+v: opened with the wrong key", blk, tr)
				}
			}
		}
	}
}

// Third-party samples captured in the repository (an Okta-style CBC response and a
// GCM response): the reference must open them with the repository's test keys.
func TestRepositorySamples(t *testing.T) {
	repo := os.Getenv("VERIF_REPO")
	if repo == "" {
		repo = "/repo"
	}
	for _, c := range []struct{ xml, key string }{
		{"input.xml", "key.pem"},
		{"input_gcm.xml", "cert.key"},
	} {
		buf, err := os.ReadFile(repo + "/xmlenc/testdata/" + c.xml)
		if err != nil {
			t.Skip(err)
		}
		kb, err := os.ReadFile(repo + "/xmlenc/testdata/" + c.key)
		if err != nil {
			t.Skip(err)
		}
		blk, _ := pem.Decode(kb)
		var priv *rsa.PrivateKey
		if k, err := x509.ParsePKCS1PrivateKey(blk.Bytes); err == nil {
			priv = k
		} else if k8, err := x509.ParsePKCS8PrivateKey(blk.Bytes); err == nil {
			priv = k8.(*rsa.PrivateKey)
		} else {
			t.Fatal(err)
		}
		doc := etree.NewDocument()
		if err := doc.ReadFromBytes(buf); err != nil {
			t.Fatal(err)
		}
		ea := doc.FindElement("//EncryptedAssertion")
		if ea == nil {
			ea = doc.FindElement("//EncryptedData").Parent()
		}
		p, err := DecryptElement(ea, priv)
		if err != nil {
			t.Fatalf("%s: %v", c.xml, err)
		}
		if !bytes.Contains(p, []byte("Assertion")) {
			t.Fatalf("%s: plaintext is not an assertion: %.80q", c.xml, p)
		}
	}
}
