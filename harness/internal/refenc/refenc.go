// Package refenc is an independent reference implementation of the parts of
// W3C XML Encryption (xmlenc-core 1.0 / 1.1) that SAML uses.  It is written only
// against the Go standard library (plus etree for the element tree and a private,
// non-registering copy of RIPEMD-160 in ./rmd160) and shares no code with
// github.com/crewjam/saml/xmlenc: block encryption, padding, OAEP and PKCS#1
// encoding and the raw RSA operation are all spelled out here, so that the
// library can be checked against it in both directions (C10), attacked with
// ciphertexts whose plaintext the harness controls (C11) and so that other
// checks (C06/C08) can open EncryptedAssertions emitted by the library IdP.
//
// Block encryption (xmlenc-core §5.2): the cipher value is IV || CBC(pad(p)) with
// the padding of §5.2.1 — N octets, 1 <= N <= block size, the last one holds N,
// the others are ARBITRARY (taken from the caller so they can come from rapid).
// Triple DES is DES-EDE3 with a 192-bit key and a 64-bit IV.  AES-GCM (1.1
// §5.2.4): 96-bit nonce || ciphertext || 128-bit tag, no padding, no AAD.
//
// Key transport (§5.5): RSA PKCS#1 v1.5, rsa-oaep-mgf1p (the mask generation
// function is MGF1 with SHA-1 WHATEVER the DigestMethod says, xmlenc-core 1.0
// §5.4.2 / 1.1 §5.5.2) and xmlenc11#rsa-oaep (MGF named by an xenc11:MGF child,
// default mgf1sha1).  DigestMethod absent = SHA-1.  OAEPparams, when present, is
// the OAEP label.
package refenc

import (
	"bytes"
	"crypto/aes"
	"crypto/cipher"
	"crypto/des"
	"crypto/rand"
	"crypto/rsa"
	"crypto/sha1"
	"crypto/sha256"
	"crypto/sha512"
	"crypto/x509"
	"encoding/base64"
	"errors"
	"fmt"
	"hash"
	"io"
	"math/big"
	"strings"

	"github.com/beevik/etree"

	"verif/harness/internal/refenc/rmd160"
)

// Namespaces.
const (
	NSXenc   = "http://www.w3.org/2001/04/xmlenc#"
	NSXenc11 = "http://www.w3.org/2009/xmlenc11#"
	NSDsig   = "http://www.w3.org/2000/09/xmldsig#"
	NSSAML   = "urn:oasis:names:tc:SAML:2.0:assertion"
)

// Block encryption algorithm identifiers.
const (
	AES128CBC    = NSXenc + "aes128-cbc"
	AES192CBC    = NSXenc + "aes192-cbc"
	AES256CBC    = NSXenc + "aes256-cbc"
	TripleDESCBC = NSXenc + "tripledes-cbc"
	AES128GCM    = NSXenc11 + "aes128-gcm"
	AES192GCM    = NSXenc11 + "aes192-gcm"
	AES256GCM    = NSXenc11 + "aes256-gcm"
)

// Key transport algorithm identifiers.
const (
	RSA15        = NSXenc + "rsa-1_5"
	RSAOAEPMGF1P = NSXenc + "rsa-oaep-mgf1p"
	RSAOAEP11    = NSXenc11 + "rsa-oaep"
)

// Digest identifiers.  The W3C identifiers of SHA-256, SHA-512 and RIPEMD-160
// live in the xmlenc namespace; crewjam/saml's registry spells them in the
// xmldsig namespace (Lib*), which no W3C document defines.  The reference
// understands both spellings (the hash is the one the fragment names).
const (
	DigestSHA1      = NSDsig + "sha1"
	DigestSHA224    = "http://www.w3.org/2001/04/xmldsig-more#sha224"
	DigestSHA256    = NSXenc + "sha256"
	DigestSHA384    = "http://www.w3.org/2001/04/xmldsig-more#sha384"
	DigestSHA512    = NSXenc + "sha512"
	DigestRIPEMD160 = NSXenc + "ripemd160"

	LibDigestSHA256    = NSDsig + "sha256"
	LibDigestSHA512    = NSDsig + "sha512"
	LibDigestRIPEMD160 = NSDsig + "ripemd160"
)

// Mask generation function identifiers (xmlenc-core 1.1 §5.5.2).
const (
	MGF1SHA1   = NSXenc11 + "mgf1sha1"
	MGF1SHA224 = NSXenc11 + "mgf1sha224"
	MGF1SHA256 = NSXenc11 + "mgf1sha256"
	MGF1SHA384 = NSXenc11 + "mgf1sha384"
	MGF1SHA512 = NSXenc11 + "mgf1sha512"
)

// TypeElement is the Type attribute value of an encrypted element.
const TypeElement = NSXenc + "Element"

// BlockSpec describes one block encryption algorithm.
type BlockSpec struct {
	Alg     string
	KeyLen  int // octets
	IVLen   int // IV (CBC) or nonce (GCM) octets prefixed to the cipher value
	Block   int // cipher block size
	GCM     bool
	TagLen  int // GCM only
	newCiph func([]byte) (cipher.Block, error)
}

var blockSpecs = map[string]BlockSpec{
	AES128CBC:    {Alg: AES128CBC, KeyLen: 16, IVLen: 16, Block: 16, newCiph: aes.NewCipher},
	AES192CBC:    {Alg: AES192CBC, KeyLen: 24, IVLen: 16, Block: 16, newCiph: aes.NewCipher},
	AES256CBC:    {Alg: AES256CBC, KeyLen: 32, IVLen: 16, Block: 16, newCiph: aes.NewCipher},
	TripleDESCBC: {Alg: TripleDESCBC, KeyLen: 24, IVLen: 8, Block: 8, newCiph: des.NewTripleDESCipher},
	AES128GCM:    {Alg: AES128GCM, KeyLen: 16, IVLen: 12, Block: 16, GCM: true, TagLen: 16, newCiph: aes.NewCipher},
	AES192GCM:    {Alg: AES192GCM, KeyLen: 24, IVLen: 12, Block: 16, GCM: true, TagLen: 16, newCiph: aes.NewCipher},
	AES256GCM:    {Alg: AES256GCM, KeyLen: 32, IVLen: 12, Block: 16, GCM: true, TagLen: 16, newCiph: aes.NewCipher},
}

// Spec returns the parameters of a block encryption algorithm identifier.
func Spec(alg string) (BlockSpec, bool) {
	s, ok := blockSpecs[alg]
	return s, ok
}

// HashByURI returns the hash constructor a DigestMethod identifier names.
func HashByURI(uri string) (func() hash.Hash, bool) {
	switch uri {
	case DigestSHA1:
		return sha1.New, true
	case DigestSHA224:
		return sha256.New224, true
	case DigestSHA256, LibDigestSHA256:
		return sha256.New, true
	case DigestSHA384:
		return sha512.New384, true
	case DigestSHA512, LibDigestSHA512:
		return sha512.New, true
	case DigestRIPEMD160, LibDigestRIPEMD160:
		return rmd160.New, true
	}
	return nil, false
}

// MGFHashByURI returns the hash of an xenc11:MGF identifier.
func MGFHashByURI(uri string) (func() hash.Hash, bool) {
	switch uri {
	case MGF1SHA1:
		return sha1.New, true
	case MGF1SHA224:
		return sha256.New224, true
	case MGF1SHA256:
		return sha256.New, true
	case MGF1SHA384:
		return sha512.New384, true
	case MGF1SHA512:
		return sha512.New, true
	}
	return nil, false
}

// ---------------------------------------------------------------- block encryption

// Pad appends the xmlenc padding: N = block - len(p)%block octets (1..block), the
// last is N, the first N-1 are taken from filler (zero when filler runs out).
func Pad(p []byte, block int, filler []byte) []byte {
	n := block - len(p)%block
	out := make([]byte, 0, len(p)+n)
	out = append(out, p...)
	for i := 0; i < n-1; i++ {
		if i < len(filler) {
			out = append(out, filler[i])
		} else {
			out = append(out, 0)
		}
	}
	return append(out, byte(n))
}

// Unpad removes the xmlenc padding strictly (1 <= N <= block size, N <= len).
func Unpad(p []byte, block int) ([]byte, error) {
	if len(p) == 0 || len(p)%block != 0 {
		return nil, errors.New("refenc: decrypted data is not a positive multiple of the block size")
	}
	n := int(p[len(p)-1])
	if n < 1 || n > block {
		return nil, fmt.Errorf("refenc: pad length %d outside 1..%d", n, block)
	}
	return p[:len(p)-n], nil
}

// EncryptBlock produces the octets of a CipherValue: iv || ciphertext [|| tag].
func EncryptBlock(alg string, key, iv, plaintext, filler []byte) ([]byte, error) {
	s, ok := blockSpecs[alg]
	if !ok {
		return nil, fmt.Errorf("refenc: unknown block algorithm %q", alg)
	}
	if len(key) != s.KeyLen {
		return nil, fmt.Errorf("refenc: %s needs a %d-octet key, got %d", alg, s.KeyLen, len(key))
	}
	if len(iv) != s.IVLen {
		return nil, fmt.Errorf("refenc: %s needs a %d-octet IV/nonce, got %d", alg, s.IVLen, len(iv))
	}
	blk, err := s.newCiph(key)
	if err != nil {
		return nil, err
	}
	if s.GCM {
		g, err := cipher.NewGCM(blk)
		if err != nil {
			return nil, err
		}
		out := append([]byte{}, iv...)
		return g.Seal(out, iv, plaintext, nil), nil
	}
	padded := Pad(plaintext, s.Block, filler)
	out := make([]byte, s.IVLen+len(padded))
	copy(out, iv)
	cipher.NewCBCEncrypter(blk, iv).CryptBlocks(out[s.IVLen:], padded)
	return out, nil
}

// EncryptBlockRaw CBC-encrypts data that is ALREADY a multiple of the block size
// without adding padding (C11 uses it to choose the final decrypted octet).
func EncryptBlockRaw(alg string, key, iv, blocks []byte) ([]byte, error) {
	s, ok := blockSpecs[alg]
	if !ok || s.GCM {
		return nil, fmt.Errorf("refenc: %q is not a CBC algorithm", alg)
	}
	if len(key) != s.KeyLen || len(iv) != s.IVLen || len(blocks)%s.Block != 0 {
		return nil, errors.New("refenc: bad raw CBC parameters")
	}
	blk, err := s.newCiph(key)
	if err != nil {
		return nil, err
	}
	out := make([]byte, s.IVLen+len(blocks))
	copy(out, iv)
	if len(blocks) > 0 {
		cipher.NewCBCEncrypter(blk, iv).CryptBlocks(out[s.IVLen:], blocks)
	}
	return out, nil
}

// DecryptBlockRaw CBC-decrypts a cipher value WITHOUT removing padding, so that a
// check can judge what any padding policy may return.  It fails when the value is
// not IV plus a positive whole number of blocks.
func DecryptBlockRaw(alg string, key, value []byte) ([]byte, error) {
	s, ok := blockSpecs[alg]
	if !ok || s.GCM {
		return nil, fmt.Errorf("refenc: %q is not a CBC algorithm", alg)
	}
	if len(key) != s.KeyLen {
		return nil, fmt.Errorf("refenc: %s needs a %d-octet key, got %d", alg, s.KeyLen, len(key))
	}
	if len(value) < s.IVLen+s.Block || (len(value)-s.IVLen)%s.Block != 0 {
		return nil, fmt.Errorf("refenc: CBC cipher value of %d octets is not IV plus a positive number of blocks", len(value))
	}
	blk, err := s.newCiph(key)
	if err != nil {
		return nil, err
	}
	body := make([]byte, len(value)-s.IVLen)
	cipher.NewCBCDecrypter(blk, value[:s.IVLen]).CryptBlocks(body, value[s.IVLen:])
	return body, nil
}

// DecryptBlock opens the octets of a CipherValue.
func DecryptBlock(alg string, key, value []byte) ([]byte, error) {
	s, ok := blockSpecs[alg]
	if !ok {
		return nil, fmt.Errorf("refenc: unknown block algorithm %q", alg)
	}
	if len(key) != s.KeyLen {
		return nil, fmt.Errorf("refenc: %s needs a %d-octet key, got %d", alg, s.KeyLen, len(key))
	}
	blk, err := s.newCiph(key)
	if err != nil {
		return nil, err
	}
	if s.GCM {
		if len(value) < s.IVLen+s.TagLen {
			return nil, errors.New("refenc: GCM cipher value shorter than nonce+tag")
		}
		g, err := cipher.NewGCM(blk)
		if err != nil {
			return nil, err
		}
		p, err := g.Open(nil, value[:s.IVLen], value[s.IVLen:], nil)
		if err != nil {
			return nil, err
		}
		if p == nil {
			p = []byte{}
		}
		return p, nil
	}
	if len(value) < s.IVLen+s.Block || (len(value)-s.IVLen)%s.Block != 0 {
		return nil, fmt.Errorf("refenc: CBC cipher value of %d octets is not IV plus a positive number of blocks", len(value))
	}
	body := make([]byte, len(value)-s.IVLen)
	cipher.NewCBCDecrypter(blk, value[:s.IVLen]).CryptBlocks(body, value[s.IVLen:])
	return Unpad(body, s.Block)
}

// ---------------------------------------------------------------- RSA key transport

func mgf1(newHash func() hash.Hash, seed []byte, n int) []byte {
	out := make([]byte, 0, n+64)
	var ctr [4]byte
	for c := uint32(0); len(out) < n; c++ {
		ctr[0], ctr[1], ctr[2], ctr[3] = byte(c>>24), byte(c>>16), byte(c>>8), byte(c)
		h := newHash()
		h.Write(seed)
		h.Write(ctr[:])
		out = h.Sum(out)
	}
	return out[:n]
}

func xorInto(dst, mask []byte) {
	for i := range dst {
		dst[i] ^= mask[i]
	}
}

func rsaPublic(pub *rsa.PublicKey, em []byte) []byte {
	k := (pub.N.BitLen() + 7) / 8
	m := new(big.Int).SetBytes(em)
	c := new(big.Int).Exp(m, big.NewInt(int64(pub.E)), pub.N)
	return c.FillBytes(make([]byte, k))
}

func rsaPrivate(priv *rsa.PrivateKey, ct []byte) ([]byte, error) {
	k := (priv.N.BitLen() + 7) / 8
	if len(ct) != k {
		return nil, fmt.Errorf("refenc: RSA ciphertext is %d octets, modulus has %d", len(ct), k)
	}
	c := new(big.Int).SetBytes(ct)
	if c.Cmp(priv.N) >= 0 {
		return nil, errors.New("refenc: RSA ciphertext representative out of range")
	}
	var m *big.Int
	if len(priv.Primes) == 2 {
		// CRT, spelled out (the reference is not constant time and need not be).
		p, q := priv.Primes[0], priv.Primes[1]
		one := big.NewInt(1)
		dp := new(big.Int).Mod(priv.D, new(big.Int).Sub(p, one))
		dq := new(big.Int).Mod(priv.D, new(big.Int).Sub(q, one))
		qinv := new(big.Int).ModInverse(q, p)
		m1 := new(big.Int).Exp(c, dp, p)
		m2 := new(big.Int).Exp(c, dq, q)
		h := new(big.Int).Sub(m1, m2)
		h.Mul(h, qinv)
		h.Mod(h, p)
		m = h.Mul(h, q)
		m.Add(m, m2)
	} else {
		m = new(big.Int).Exp(c, priv.D, priv.N)
	}
	return m.FillBytes(make([]byte, k)), nil
}

// OAEPEncrypt is RSAES-OAEP-ENCRYPT (RFC 8017 §7.1.1) with separate hash and MGF1 hash.
func OAEPEncrypt(newHash, newMGFHash func() hash.Hash, rnd io.Reader, pub *rsa.PublicKey, msg, label []byte) ([]byte, error) {
	k := (pub.N.BitLen() + 7) / 8
	h := newHash()
	hLen := h.Size()
	if len(msg) > k-2*hLen-2 {
		return nil, fmt.Errorf("refenc: message of %d octets too long for OAEP with a %d-octet modulus and a %d-octet hash", len(msg), k, hLen)
	}
	h.Write(label)
	lHash := h.Sum(nil)
	db := make([]byte, k-hLen-1)
	copy(db, lHash)
	db[len(db)-len(msg)-1] = 1
	copy(db[len(db)-len(msg):], msg)
	seed := make([]byte, hLen)
	if _, err := io.ReadFull(rnd, seed); err != nil {
		return nil, err
	}
	xorInto(db, mgf1(newMGFHash, seed, len(db)))
	xorInto(seed, mgf1(newMGFHash, db, hLen))
	em := make([]byte, 0, k)
	em = append(em, 0)
	em = append(em, seed...)
	em = append(em, db...)
	return rsaPublic(pub, em), nil
}

// OAEPDecrypt is RSAES-OAEP-DECRYPT with separate hash and MGF1 hash.
func OAEPDecrypt(newHash, newMGFHash func() hash.Hash, priv *rsa.PrivateKey, ct, label []byte) ([]byte, error) {
	em, err := rsaPrivate(priv, ct)
	if err != nil {
		return nil, err
	}
	h := newHash()
	hLen := h.Size()
	k := len(em)
	if k < 2*hLen+2 {
		return nil, errors.New("refenc: modulus too short for this OAEP hash")
	}
	h.Write(label)
	lHash := h.Sum(nil)
	seed := append([]byte{}, em[1:1+hLen]...)
	db := append([]byte{}, em[1+hLen:]...)
	xorInto(seed, mgf1(newMGFHash, db, hLen))
	xorInto(db, mgf1(newMGFHash, seed, len(db)))
	if em[0] != 0 || !bytes.Equal(db[:hLen], lHash) {
		return nil, errors.New("refenc: OAEP decoding error")
	}
	rest := db[hLen:]
	i := 0
	for i < len(rest) && rest[i] == 0 {
		i++
	}
	if i == len(rest) || rest[i] != 1 {
		return nil, errors.New("refenc: OAEP decoding error")
	}
	return rest[i+1:], nil
}

// PKCS1Encrypt is RSAES-PKCS1-v1_5-ENCRYPT (RFC 8017 §7.2.1).
func PKCS1Encrypt(rnd io.Reader, pub *rsa.PublicKey, msg []byte) ([]byte, error) {
	k := (pub.N.BitLen() + 7) / 8
	if len(msg) > k-11 {
		return nil, errors.New("refenc: message too long for PKCS#1 v1.5")
	}
	em := make([]byte, k)
	em[1] = 2
	ps := em[2 : k-len(msg)-1]
	if _, err := io.ReadFull(rnd, ps); err != nil {
		return nil, err
	}
	var one [1]byte
	for i := range ps {
		for ps[i] == 0 {
			if _, err := io.ReadFull(rnd, one[:]); err != nil {
				return nil, err
			}
			ps[i] = one[0]
		}
	}
	copy(em[k-len(msg):], msg)
	return rsaPublic(pub, em), nil
}

// PKCS1Decrypt is RSAES-PKCS1-v1_5-DECRYPT.
func PKCS1Decrypt(priv *rsa.PrivateKey, ct []byte) ([]byte, error) {
	em, err := rsaPrivate(priv, ct)
	if err != nil {
		return nil, err
	}
	if len(em) < 11 || em[0] != 0 || em[1] != 2 {
		return nil, errors.New("refenc: PKCS#1 v1.5 decoding error")
	}
	i := 2
	for i < len(em) && em[i] != 0 {
		i++
	}
	if i == len(em) || i < 10 {
		return nil, errors.New("refenc: PKCS#1 v1.5 decoding error")
	}
	return em[i+1:], nil
}

// Transport names the parameters of one RSA key transport.
type Transport struct {
	Alg    string // RSA15 | RSAOAEPMGF1P | RSAOAEP11
	Digest string // DigestMethod identifier; "" = element absent = SHA-1
	MGF    string // xenc11:MGF identifier (RSAOAEP11 only); "" = element absent = mgf1sha1
	Label  []byte // OAEPparams; nil = element absent
}

func (t Transport) hashes() (dg, mg func() hash.Hash, err error) {
	dg = sha1.New
	if t.Digest != "" {
		var ok bool
		if dg, ok = HashByURI(t.Digest); !ok {
			return nil, nil, fmt.Errorf("refenc: unknown DigestMethod %q", t.Digest)
		}
	}
	mg = sha1.New // rsa-oaep-mgf1p: always MGF1 with SHA-1
	if t.Alg == RSAOAEP11 && t.MGF != "" {
		var ok bool
		if mg, ok = MGFHashByURI(t.MGF); !ok {
			return nil, nil, fmt.Errorf("refenc: unknown MGF %q", t.MGF)
		}
	}
	return dg, mg, nil
}

// WrapKey encrypts a content key to pub.
func WrapKey(t Transport, rnd io.Reader, pub *rsa.PublicKey, key []byte) ([]byte, error) {
	if rnd == nil {
		rnd = rand.Reader
	}
	switch t.Alg {
	case RSA15:
		return PKCS1Encrypt(rnd, pub, key)
	case RSAOAEPMGF1P, RSAOAEP11:
		dg, mg, err := t.hashes()
		if err != nil {
			return nil, err
		}
		return OAEPEncrypt(dg, mg, rnd, pub, key, t.Label)
	}
	return nil, fmt.Errorf("refenc: unknown key transport %q", t.Alg)
}

// UnwrapKey decrypts a content key with priv.
func UnwrapKey(t Transport, priv *rsa.PrivateKey, ct []byte) ([]byte, error) {
	switch t.Alg {
	case RSA15:
		return PKCS1Decrypt(priv, ct)
	case RSAOAEPMGF1P, RSAOAEP11:
		dg, mg, err := t.hashes()
		if err != nil {
			return nil, err
		}
		return OAEPDecrypt(dg, mg, priv, ct, t.Label)
	}
	return nil, fmt.Errorf("refenc: unknown key transport %q", t.Alg)
}

// ---------------------------------------------------------------- writing elements

// Options selects what EncryptElement produces.  Everything random is supplied
// by the caller: IV, ContentKey, PadFiller and Rand (OAEP seed / PKCS#1 filler).
type Options struct {
	BlockAlg     string // default AES128CBC
	KeyTransport string // RSA15 | RSAOAEPMGF1P | RSAOAEP11; "" = no EncryptedKey (direct ContentKey)
	Digest       string // OAEP DigestMethod identifier; "" = omit the element (SHA-1)
	MGF          string // RSAOAEP11 only: xenc11:MGF identifier; "" = omit the element (mgf1sha1)
	OAEPParams   []byte // OAEP label; nil = omit the element
	IV           []byte // IV or GCM nonce (required, Spec(BlockAlg).IVLen octets)
	ContentKey   []byte // symmetric key (required, Spec(BlockAlg).KeyLen octets)
	PadFiller    []byte // the arbitrary padding octets of CBC modes
	Rand         io.Reader
	EmbedCert    bool   // put the recipient certificate into EncryptedKey/KeyInfo/X509Data
	Sibling      bool   // EncryptedAssertion only: EncryptedKey next to EncryptedData instead of inside its KeyInfo
	WrapBase64   int    // > 0: break base64 text into lines of this many characters
	ID           string // Id attribute of EncryptedData ("" = none)
	KeyID        string // Id attribute of EncryptedKey ("" = none)
	NoType       bool   // omit Type="…#Element"

	// Presentation variants every conforming reader must tolerate.
	XencPrefix string // namespace prefix of the xmlenc elements: "" = "xenc"; "-" = default namespace (no prefix)
	DsPrefix   string // namespace prefix of the xmldsig elements: "" = "ds"; "-" = default namespace declared on each outermost xmldsig element
	Extras     bool   // add the optional schema parts that carry no key material: KeySize, Recipient, ds:KeyName, CarriedKeyName, EncryptionProperties, MimeType
	// Other legal ds:KeyInfo children placed before / after the xenc:EncryptedKey inside
	// EncryptedData/KeyInfo (DataKI*) and before / after the X509Data inside the
	// EncryptedKey's own KeyInfo (KeyKI*).  Kinds: keyname | retrieval | x509data
	// (subject name only, no certificate) | keyvalue (RSAKeyValue of the recipient) |
	// foreign (an element of another namespace).  A KeyInfo is created when needed.
	DataKIBefore, DataKIAfter []string
	KeyKIBefore, KeyKIAfter   []string
	KeyIDRef                  bool // EncryptedData/KeyInfo carries a ds:RetrievalMethod URI="#<KeyID>" (sibling layout; needs KeyID)
}

type names struct{ xp, dp string }

func (o Options) names() names {
	n := names{xp: "xenc", dp: "ds"}
	if o.XencPrefix != "" {
		n.xp = o.XencPrefix
	}
	if o.DsPrefix != "" {
		n.dp = o.DsPrefix
	}
	return n
}

func (n names) x(tag string) string {
	if n.xp == "-" {
		return tag
	}
	return n.xp + ":" + tag
}
func (n names) d(tag string) string {
	if n.dp == "-" {
		return tag
	}
	return n.dp + ":" + tag
}

// dTop creates an xmldsig child under a parent that is NOT itself an xmldsig element:
// with the default-namespace spelling the child has to declare the namespace itself.
func (n names) dTop(parent *etree.Element, tag string) *etree.Element {
	e := parent.CreateElement(n.d(tag))
	if n.dp == "-" {
		e.CreateAttr("xmlns", NSDsig)
	}
	return e
}
func (n names) declX(e *etree.Element) {
	if n.xp == "-" {
		e.CreateAttr("xmlns", NSXenc)
	} else {
		e.CreateAttr("xmlns:"+n.xp, NSXenc)
	}
}
func (n names) declD(e *etree.Element) {
	if n.dp != "-" {
		e.CreateAttr("xmlns:"+n.dp, NSDsig)
	}
}

// KeyInfoElement returns an empty, detached ds:KeyInfo in the spelling o selects.
func (o Options) KeyInfoElement() *etree.Element {
	nm := o.names()
	ki := etree.NewElement(nm.d("KeyInfo"))
	if nm.dp == "-" {
		ki.CreateAttr("xmlns", NSDsig)
	} else {
		nm.declD(ki)
	}
	return ki
}

// DsTag spells an xmldsig element name (for children of a KeyInfoElement) the way o selects.
func (o Options) DsTag(tag string) string { return o.names().d(tag) }

// XencTag spells an xmlenc element name the way o selects; XencDecl declares the namespace on e.
func (o Options) XencTag(tag string) string { return o.names().x(tag) }

// XencDecl declares the xmlenc namespace on e in the spelling o selects.
func (o Options) XencDecl(e *etree.Element) { o.names().declX(e) }

func b64(b []byte, wrap int) string {
	s := base64.StdEncoding.EncodeToString(b)
	if wrap <= 0 || len(s) <= wrap {
		return s
	}
	var sb strings.Builder
	sb.WriteString("\n")
	for len(s) > wrap {
		sb.WriteString(s[:wrap])
		sb.WriteString("\n")
		s = s[wrap:]
	}
	sb.WriteString(s)
	sb.WriteString("\n")
	return sb.String()
}

// EncryptParts builds the EncryptedData element and — when a key transport is
// selected — a detached EncryptedKey element (each declares its namespaces).
// cert may be nil when no transport is selected.
func EncryptParts(plaintext []byte, cert *x509.Certificate, o Options) (data, key *etree.Element, err error) {
	if o.BlockAlg == "" {
		o.BlockAlg = AES128CBC
	}
	value, err := EncryptBlock(o.BlockAlg, o.ContentKey, o.IV, plaintext, o.PadFiller)
	if err != nil {
		return nil, nil, err
	}
	nm := o.names()
	data = etree.NewElement(nm.x("EncryptedData"))
	nm.declX(data)
	if o.ID != "" {
		data.CreateAttr("Id", o.ID)
	}
	if !o.NoType {
		data.CreateAttr("Type", TypeElement)
	}
	if o.Extras {
		data.CreateAttr("MimeType", "text/xml")
	}
	dem := data.CreateElement(nm.x("EncryptionMethod"))
	dem.CreateAttr("Algorithm", o.BlockAlg)
	if o.Extras {
		if bs, ok := blockSpecs[o.BlockAlg]; ok {
			dem.CreateElement(nm.x("KeySize")).SetText(fmt.Sprint(8 * bs.KeyLen))
		}
	}
	cd := data.CreateElement(nm.x("CipherData"))
	cd.CreateElement(nm.x("CipherValue")).SetText(b64(value, o.WrapBase64))
	if o.Extras {
		ep := data.CreateElement(nm.x("EncryptionProperties"))
		p := ep.CreateElement(nm.x("EncryptionProperty"))
		p.CreateAttr("Target", "#"+o.ID)
		p.CreateElement("note").SetText("produced by refenc")
	}
	if o.KeyTransport == "" {
		return data, nil, nil
	}
	if cert == nil {
		return nil, nil, errors.New("refenc: key transport needs the recipient certificate")
	}
	pub, ok := cert.PublicKey.(*rsa.PublicKey)
	if !ok {
		return nil, nil, errors.New("refenc: recipient certificate has no RSA key")
	}
	t := Transport{Alg: o.KeyTransport, Digest: o.Digest, MGF: o.MGF, Label: o.OAEPParams}
	wrapped, err := WrapKey(t, o.Rand, pub, o.ContentKey)
	if err != nil {
		return nil, nil, err
	}
	key = etree.NewElement(nm.x("EncryptedKey"))
	nm.declX(key)
	nm.declD(key)
	if o.KeyID != "" {
		key.CreateAttr("Id", o.KeyID)
	}
	if o.Extras {
		key.CreateAttr("Recipient", "https://sp.example.com/saml/metadata")
	}
	em := key.CreateElement(nm.x("EncryptionMethod"))
	em.CreateAttr("Algorithm", o.KeyTransport)
	if o.KeyTransport != RSA15 {
		if o.OAEPParams != nil {
			em.CreateElement(nm.x("OAEPparams")).SetText(b64(o.OAEPParams, 0))
		}
		if o.Digest != "" {
			nm.dTop(em, "DigestMethod").CreateAttr("Algorithm", o.Digest)
		}
		if o.KeyTransport == RSAOAEP11 && o.MGF != "" {
			m := em.CreateElement("xenc11:MGF")
			m.CreateAttr("xmlns:xenc11", NSXenc11)
			m.CreateAttr("Algorithm", o.MGF)
		}
	}
	if o.EmbedCert {
		ki := nm.dTop(key, "KeyInfo")
		if o.Extras {
			ki.CreateElement(nm.d("KeyName")).SetText("recipient key")
		}
		ki.CreateElement(nm.d("X509Data")).CreateElement(nm.d("X509Certificate")).SetText(b64(cert.Raw, o.WrapBase64))
	} else if o.Extras {
		nm.dTop(key, "KeyInfo").CreateElement(nm.d("KeyName")).SetText("recipient key")
	}
	kcd := key.CreateElement(nm.x("CipherData"))
	kcd.CreateElement(nm.x("CipherValue")).SetText(b64(wrapped, o.WrapBase64))
	if o.Extras {
		key.CreateElement(nm.x("CarriedKeyName")).SetText("content key")
	}
	if len(o.KeyKIBefore)+len(o.KeyKIAfter) > 0 {
		var ki *etree.Element
		for _, ch := range key.ChildElements() {
			if ch.Tag == "KeyInfo" {
				ki = ch
			}
		}
		if ki == nil {
			ki = o.KeyInfoElement()
			key.InsertChildAt(1, ki) // after EncryptionMethod
		}
		o.decorate(ki, o.KeyKIBefore, o.KeyKIAfter, cert)
	}
	return data, key, nil
}

// kiChild builds one optional KeyInfo child of the given kind (nil for an unknown kind).
func (o Options) kiChild(kind string, cert *x509.Certificate) *etree.Element {
	nm := o.names()
	switch kind {
	case "keyname":
		e := etree.NewElement(nm.d("KeyName"))
		e.SetText("recipient key")
		return e
	case "retrieval":
		e := etree.NewElement(nm.d("RetrievalMethod"))
		e.CreateAttr("Type", NSXenc+"EncryptedKey")
		e.CreateAttr("URI", "#"+o.KeyID)
		return e
	case "x509data":
		e := etree.NewElement(nm.d("X509Data"))
		e.CreateElement(nm.d("X509SubjectName")).SetText("CN=recipient")
		return e
	case "keyvalue":
		e := etree.NewElement(nm.d("KeyValue"))
		rk := e.CreateElement(nm.d("RSAKeyValue"))
		mod, exp := []byte{1}, []byte{1, 0, 1}
		if cert != nil {
			if pub, ok := cert.PublicKey.(*rsa.PublicKey); ok {
				mod, exp = pub.N.Bytes(), big.NewInt(int64(pub.E)).Bytes()
			}
		}
		rk.CreateElement(nm.d("Modulus")).SetText(base64.StdEncoding.EncodeToString(mod))
		rk.CreateElement(nm.d("Exponent")).SetText(base64.StdEncoding.EncodeToString(exp))
		return e
	case "foreign":
		e := etree.NewElement("ext:Hint")
		e.CreateAttr("xmlns:ext", "urn:example:refenc:ext")
		e.SetText("not a key")
		return e
	}
	return nil
}

// decorate puts the optional children around what ki already holds.
func (o Options) decorate(ki *etree.Element, before, after []string, cert *x509.Certificate) {
	for i := len(before) - 1; i >= 0; i-- {
		if e := o.kiChild(before[i], cert); e != nil {
			ki.InsertChildAt(0, e)
		}
	}
	for _, k := range after {
		if e := o.kiChild(k, cert); e != nil {
			ki.AddChild(e)
		}
	}
}

// EncryptElement returns a standard EncryptedData element whose content key is —
// when opts.KeyTransport is set — wrapped to cert in EncryptedData/KeyInfo/EncryptedKey.
func EncryptElement(plaintext []byte, cert *x509.Certificate, opts Options) (*etree.Element, error) {
	data, key, err := EncryptParts(plaintext, cert, opts)
	if err != nil {
		return nil, err
	}
	if key != nil {
		ki := opts.KeyInfoElement()
		ki.AddChild(key)
		opts.decorate(ki, opts.DataKIBefore, opts.DataKIAfter, cert)
		data.InsertChildAt(1, ki) // after EncryptionMethod, before CipherData
	} else if len(opts.DataKIBefore)+len(opts.DataKIAfter) > 0 {
		ki := opts.KeyInfoElement() // a directly shared key that is only named
		opts.decorate(ki, opts.DataKIBefore, opts.DataKIAfter, cert)
		data.InsertChildAt(1, ki)
	}
	return data, nil
}

// EncryptedAssertion wraps the ciphertext of plaintext into a saml:EncryptedAssertion,
// in the nested layout (library, Okta …) or the sibling layout (Shibboleth, ADFS …).
func EncryptedAssertion(plaintext []byte, cert *x509.Certificate, opts Options) (*etree.Element, error) {
	ea := etree.NewElement("saml:EncryptedAssertion")
	ea.CreateAttr("xmlns:saml", NSSAML)
	if !opts.Sibling {
		data, err := EncryptElement(plaintext, cert, opts)
		if err != nil {
			return nil, err
		}
		ea.AddChild(data)
		return ea, nil
	}
	data, key, err := EncryptParts(plaintext, cert, opts)
	if err != nil {
		return nil, err
	}
	ea.AddChild(data)
	if key != nil {
		var ki *etree.Element
		if opts.KeyIDRef && opts.KeyID != "" {
			nm := opts.names()
			ki = opts.KeyInfoElement()
			rm := ki.CreateElement(nm.d("RetrievalMethod"))
			rm.CreateAttr("Type", NSXenc+"EncryptedKey")
			rm.CreateAttr("URI", "#"+opts.KeyID)
		}
		if len(opts.DataKIBefore)+len(opts.DataKIAfter) > 0 {
			if ki == nil {
				ki = opts.KeyInfoElement()
			}
			opts.decorate(ki, opts.DataKIBefore, opts.DataKIAfter, cert)
		}
		if ki != nil {
			data.InsertChildAt(1, ki)
		}
		ea.AddChild(key)
	}
	return ea, nil
}

// ---------------------------------------------------------------- reading elements

func nsOK(e *etree.Element, ns string) bool {
	got := e.NamespaceURI()
	return got == ns
}

func child(e *etree.Element, ns, tag string) *etree.Element {
	if e == nil {
		return nil
	}
	for _, c := range e.ChildElements() {
		if c.Tag == tag && nsOK(c, ns) {
			return c
		}
	}
	return nil
}

func cipherValue(e *etree.Element) ([]byte, error) {
	cv := child(child(e, NSXenc, "CipherData"), NSXenc, "CipherValue")
	if cv == nil {
		return nil, errors.New("refenc: no CipherData/CipherValue")
	}
	txt := strings.Map(func(r rune) rune {
		switch r {
		case ' ', '\t', '\r', '\n':
			return -1
		}
		return r
	}, cv.Text())
	return base64.StdEncoding.DecodeString(txt)
}

func algorithm(e *etree.Element) (string, *etree.Element, error) {
	em := child(e, NSXenc, "EncryptionMethod")
	if em == nil {
		return "", nil, errors.New("refenc: no EncryptionMethod")
	}
	return em.SelectAttrValue("Algorithm", ""), em, nil
}

// DecryptData opens an EncryptedData element with a symmetric key.
func DecryptData(data *etree.Element, key []byte) ([]byte, error) {
	if data == nil || data.Tag != "EncryptedData" || !nsOK(data, NSXenc) {
		return nil, errors.New("refenc: not an xenc:EncryptedData element")
	}
	alg, _, err := algorithm(data)
	if err != nil {
		return nil, err
	}
	v, err := cipherValue(data)
	if err != nil {
		return nil, err
	}
	return DecryptBlock(alg, key, v)
}

// ReadTransport extracts the key-transport parameters of an EncryptedKey element.
func ReadTransport(encKey *etree.Element) (Transport, error) {
	alg, em, err := algorithm(encKey)
	if err != nil {
		return Transport{}, err
	}
	t := Transport{Alg: alg}
	if dm := child(em, NSDsig, "DigestMethod"); dm != nil {
		t.Digest = dm.SelectAttrValue("Algorithm", "")
		if t.Digest == "" {
			return t, errors.New("refenc: DigestMethod without Algorithm")
		}
	}
	if m := child(em, NSXenc11, "MGF"); m != nil {
		t.MGF = m.SelectAttrValue("Algorithm", "")
		if t.MGF == "" {
			return t, errors.New("refenc: MGF without Algorithm")
		}
	}
	if p := child(em, NSXenc, "OAEPparams"); p != nil {
		lab, err := base64.StdEncoding.DecodeString(strings.TrimSpace(p.Text()))
		if err != nil {
			return t, err
		}
		t.Label = lab
	}
	return t, nil
}

// DecryptKey opens an EncryptedKey element with the recipient's RSA key.
func DecryptKey(encKey *etree.Element, rsaKey *rsa.PrivateKey) ([]byte, error) {
	if encKey == nil || encKey.Tag != "EncryptedKey" || !nsOK(encKey, NSXenc) {
		return nil, errors.New("refenc: not an xenc:EncryptedKey element")
	}
	t, err := ReadTransport(encKey)
	if err != nil {
		return nil, err
	}
	v, err := cipherValue(encKey)
	if err != nil {
		return nil, err
	}
	return UnwrapKey(t, rsaKey, v)
}

// FindParts locates the EncryptedData and EncryptedKey elements: el is either an
// EncryptedData (key in EncryptedData/KeyInfo/EncryptedKey) or an element holding
// one (e.g. saml:EncryptedAssertion), in which case a sibling EncryptedKey is used
// when the nested one is absent.
func FindParts(el *etree.Element) (data, key *etree.Element, err error) {
	if el == nil {
		return nil, nil, errors.New("refenc: nil element")
	}
	if el.Tag == "EncryptedData" && nsOK(el, NSXenc) {
		data = el
	} else if data = child(el, NSXenc, "EncryptedData"); data == nil {
		return nil, nil, errors.New("refenc: no xenc:EncryptedData found")
	}
	key = child(child(data, NSDsig, "KeyInfo"), NSXenc, "EncryptedKey")
	if key == nil && data != el {
		key = child(el, NSXenc, "EncryptedKey")
	}
	return data, key, nil
}

// DecryptElement opens an EncryptedData element (or an element that contains one,
// such as saml:EncryptedAssertion) whose content key is wrapped for rsaKey in a
// nested or sibling EncryptedKey.  It returns the plaintext octets.
func DecryptElement(el *etree.Element, rsaKey *rsa.PrivateKey) ([]byte, error) {
	data, key, err := FindParts(el)
	if err != nil {
		return nil, err
	}
	if key == nil {
		return nil, errors.New("refenc: no xenc:EncryptedKey found")
	}
	ck, err := DecryptKey(key, rsaKey)
	if err != nil {
		return nil, err
	}
	return DecryptData(data, ck)
}

// Reparse serialises el as a document and parses it again (what a peer receives).
func Reparse(el *etree.Element) (*etree.Element, []byte, error) {
	doc := etree.NewDocument()
	doc.SetRoot(el.Copy())
	buf, err := doc.WriteToBytes()
	if err != nil {
		return nil, nil, err
	}
	d2 := etree.NewDocument()
	if err := d2.ReadFromBytes(buf); err != nil {
		return nil, buf, err
	}
	if d2.Root() == nil {
		return nil, buf, errors.New("refenc: no root after reparse")
	}
	return d2.Root(), buf, nil
}
