package spkit

import (
	"testing"

	"verif/harness/internal/fix"
	"verif/harness/internal/forge"
)

func TestSmoke(t *testing.T) {
	for _, trust := range Trusts {
		for _, layout := range []string{"resp", "assert", "both", "neither", "enc-assert", "enc-resp", "artifact"} {
			fix.Reset()
			sp := NewSP(Config{Trust: trust})
			r := Baseline(fix.Epoch, "id-req", "")
			sign := &forge.SignSpec{Key: "idp"}
			switch layout {
			case "resp":
				r.Sign = sign
			case "assert":
				r.Assertions[0].Sign = sign
			case "both":
				r.Sign = sign
				r.Assertions[0].Sign = sign
			case "enc-assert":
				r.Assertions[0].Sign = sign
				r.Assertions[0].Encrypt = &forge.EncSpec{To: "sp", Seed: 7}
			case "enc-resp":
				r.Sign = sign
				r.Assertions[0].Encrypt = &forge.EncSpec{To: "sp", Seed: 9, Layout: "sibling", EmbedCert: true}
			case "artifact":
				r.Assertions[0].Sign = sign
			}
			el, err := forge.BuildResponse(&r)
			if err != nil {
				t.Fatal(err)
			}
			var o Outcome
			if layout == "artifact" {
				env, err := forge.BuildArtifact(&forge.ArtifactSpec{ID: "id-art", InResponseTo: forge.S("id-artreq"), IssueInstant: forge.T(fix.Epoch), Issuer: forge.S(IDPEntity), Status: []string{forge.StatusOK}}, el)
				if err != nil {
					t.Fatal(err)
				}
				o = ParseArtifactXML(sp, forge.Bytes(env), []string{"id-req"}, "id-artreq", SPACS)
			} else {
				o = ParsePOST(sp, forge.Bytes(el), []string{"id-req"}, SPACS)
			}
			want := layout != "neither"
			if o.Accepted() != want {
				t.Errorf("trust=%s layout=%s: %s", trust, layout, o.Describe())
			}
		}
	}
}
