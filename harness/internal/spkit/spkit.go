// Package spkit builds the service provider under test in its trust
// configurations, a fully valid baseline message spec, and guarded calls into the
// response-parsing API.
package spkit

import (
	"bytes"
	"crypto/sha256"
	"crypto/sha512"
	"crypto/x509"
	"encoding/base64"
	"fmt"
	"net/http"
	"net/url"
	"runtime/debug"
	"strings"
	"time"

	"github.com/crewjam/saml"

	"verif/harness/internal/fix"
	"verif/harness/internal/forge"
)

// Deployment constants.
const (
	IDPEntity   = "https://idp.example.com/saml/metadata"
	IDPSSO      = "https://idp.example.com/saml/sso"
	IDPSLO      = "https://idp.example.com/saml/slo"
	IDPArtifact = "https://idp.example.com/saml/artifact"
	SPMetadata  = "https://sp.example.com/saml/metadata"
	SPACS       = "https://sp.example.com/saml/acs"
	SPSLO       = "https://sp.example.com/saml/slo"
	SPEntity    = "https://sp.example.com/entity"
)

// Trust configurations (C01 quantifies over them).
var Trusts = []string{"meta1", "meta2enc", "metanouse", "pinned", "fp256", "fp512", "meta2desc", "metamulti", "metaroles", "fpprefix", "fpempty", "metaski", "pinnedski"}

// TrustsIDP: the configurations under which the fixture key "idp" is trusted.
var TrustsIDP = []string{"meta1", "meta2enc", "metanouse", "pinned", "fp256", "fp512", "meta2desc", "metamulti", "metaroles"}

// TrustedKeys lists the fixture keys whose signatures a trust configuration accepts.
func TrustedKeys(trust string) []string {
	switch trust {
	case "fpprefix", "fpempty":
		// a fingerprint that is not the fingerprint of any certificate trusts nothing
		return nil
	case "metaski", "pinnedski":
		return []string{"idpski"}
	case "meta2enc", "meta2desc", "metamulti":
		return []string{"idp", "idp2"}
	default:
		return []string{"idp"}
	}
}

// Config selects how the SP is set up.
type Config struct {
	Trust        string `json:"trust"`                  // see Trusts
	NoEntityID   bool   `json:"no_entity_id,omitempty"` // audience falls back to the metadata URL
	SPKey        string `json:"sp_key,omitempty"`       // "" = sp
	AllowIDPInit bool   `json:"allow_idp_init,omitempty"`
	AcsURL       string `json:"acs_url,omitempty"`
}

func kd(use, cert string) saml.KeyDescriptor {
	return saml.KeyDescriptor{Use: use, KeyInfo: saml.KeyInfo{X509Data: saml.X509Data{X509Certificates: []saml.X509Certificate{{Data: cert}}}}}
}

func fingerprint(raw []byte, alg string) string {
	var sum []byte
	if alg == "sha256" {
		s := sha256.Sum256(raw)
		sum = s[:]
	} else {
		s := sha512.Sum512(raw)
		sum = s[:]
	}
	parts := make([]string, len(sum))
	for i, b := range sum {
		parts[i] = fmt.Sprintf("%02X", b)
	}
	return strings.Join(parts, ":")
}

func wrap64(b string) string {
	var sb strings.Builder
	sb.WriteString("\n")
	for len(b) > 64 {
		sb.WriteString(b[:64] + "\n")
		b = b[64:]
	}
	sb.WriteString(b + "\n")
	return sb.String()
}

func mustURL(s string) url.URL {
	u, err := url.Parse(s)
	if err != nil {
		panic(err)
	}
	return *u
}

// NewSP builds the service provider for c.
func NewSP(c Config) *saml.ServiceProvider {
	spKey := c.SPKey
	if spKey == "" {
		spKey = "sp"
	}
	kp := fix.Get(spKey)
	acs := c.AcsURL
	if acs == "" {
		acs = SPACS
	}
	sp := &saml.ServiceProvider{
		EntityID:          SPEntity,
		Key:               kp.Key,
		Certificate:       kp.Cert,
		MetadataURL:       mustURL(SPMetadata),
		AcsURL:            mustURL(acs),
		SloURL:            mustURL(SPSLO),
		AllowIDPInitiated: c.AllowIDPInit,
	}
	if c.NoEntityID {
		sp.EntityID = ""
	}
	md := &saml.EntityDescriptor{EntityID: IDPEntity}
	desc := saml.IDPSSODescriptor{
		SingleSignOnServices: []saml.Endpoint{{Binding: saml.HTTPRedirectBinding, Location: IDPSSO}, {Binding: saml.HTTPPostBinding, Location: IDPSSO}},
	}
	desc.SingleLogoutServices = []saml.Endpoint{{Binding: saml.HTTPRedirectBinding, Location: IDPSLO}, {Binding: saml.HTTPPostBinding, Location: IDPSLO}}
	idp := fix.Get("idp")
	switch c.Trust {
	case "", "meta1":
		desc.KeyDescriptors = []saml.KeyDescriptor{kd("signing", idp.CertB64())}
	case "meta2enc":
		desc.KeyDescriptors = []saml.KeyDescriptor{kd("signing", idp.CertB64()), kd("encryption", fix.Get("idpenc").CertB64()), kd("signing", "\n  "+fix.Get("idp2").CertB64()+"\n")}
	case "metanouse":
		desc.KeyDescriptors = []saml.KeyDescriptor{kd("", idp.CertB64()), kd("encryption", fix.Get("idpenc").CertB64())}
	case "meta2desc":
		// the second signing certificate lives in a second IDPSSODescriptor (added below)
		desc.KeyDescriptors = []saml.KeyDescriptor{kd("encryption", fix.Get("idpenc").CertB64()), kd("signing", idp.CertB64())}
	case "metamulti":
		// one key descriptor carrying two certificates, wrapped at 64 columns like PEM bodies
		multi := kd("signing", wrap64(idp.CertB64()))
		multi.KeyInfo.X509Data.X509Certificates = append(multi.KeyInfo.X509Data.X509Certificates, saml.X509Certificate{Data: wrap64(fix.Get("idp2").CertB64())})
		desc.KeyDescriptors = []saml.KeyDescriptor{multi, kd("encryption", fix.Get("idpenc").CertB64())}
	case "metaski":
		// the IdP's certificate carries key identifiers (most real ones do)
		desc.KeyDescriptors = []saml.KeyDescriptor{kd("signing", fix.Get("idpski").CertB64()), kd("encryption", fix.Get("idpenc").CertB64())}
	case "pinnedski":
		desc.KeyDescriptors = []saml.KeyDescriptor{kd("signing", fix.Get("idp2").CertB64())}
		s := fix.Get("idpski").CertB64()
		sp.IDPCertificate = &s
	case "metaroles":
		// the entity also acts in other roles, each with its own signing key: only the keys of the
		// IDPSSODescriptor vouch for single sign-on messages (the other roles are added below)
		desc.KeyDescriptors = []saml.KeyDescriptor{kd("signing", idp.CertB64())}
	case "fpprefix", "fpempty":
		// a truncated / empty fingerprint: it is no certificate's fingerprint.  The prefix is that of the
		// certificate of the untrusted fixture key, the most favourable case for a prefix comparison.
		desc.KeyDescriptors = []saml.KeyDescriptor{kd("encryption", fix.Get("idpenc").CertB64()), kd("signing", fix.Get("idp2").CertB64())}
		alg := "http://www.w3.org/2001/04/xmlenc#sha256"
		fp := ""
		if c.Trust == "fpprefix" {
			fp = fingerprint(fix.Get("attacker").Cert.Raw, "sha256")[:2]
		}
		sp.IDPCertificateFingerprint = &fp
		sp.IDPCertificateFingerprintAlgorithm = &alg
	case "pinned":
		// metadata carries decoys (the encryption-only key and ANOTHER signing key): the pinned
		// certificate is what counts, the metadata certificates must not be trusted beside it
		desc.KeyDescriptors = []saml.KeyDescriptor{kd("encryption", fix.Get("idpenc").CertB64()), kd("signing", fix.Get("idp2").CertB64())}
		s := idp.CertB64()
		sp.IDPCertificate = &s
	case "fp256", "fp512":
		desc.KeyDescriptors = []saml.KeyDescriptor{kd("encryption", fix.Get("idpenc").CertB64()), kd("signing", fix.Get("idp2").CertB64())}
		alg := "http://www.w3.org/2001/04/xmlenc#sha256"
		fp := fingerprint(idp.Cert.Raw, "sha256")
		if c.Trust == "fp512" {
			alg = "http://www.w3.org/2001/04/xmlenc#sha512"
			fp = fingerprint(idp.Cert.Raw, "sha512")
		}
		sp.IDPCertificateFingerprint = &fp
		sp.IDPCertificateFingerprintAlgorithm = &alg
	default:
		panic("unknown trust " + c.Trust)
	}
	desc.ArtifactResolutionServices = []saml.Endpoint{{Binding: saml.SOAPBinding, Location: IDPArtifact}}
	md.IDPSSODescriptors = []saml.IDPSSODescriptor{desc}
	if c.Trust == "meta2desc" {
		second := saml.IDPSSODescriptor{}
		second.KeyDescriptors = []saml.KeyDescriptor{kd("signing", fix.Get("idp2").CertB64())}
		md.IDPSSODescriptors = append(md.IDPSSODescriptors, second)
	}
	if c.Trust == "metaroles" {
		role := func(key string) saml.RoleDescriptor {
			return saml.RoleDescriptor{ProtocolSupportEnumeration: "urn:oasis:names:tc:SAML:2.0:protocol", KeyDescriptors: []saml.KeyDescriptor{kd("signing", fix.Get(key).CertB64()), kd("", fix.Get(key).CertB64())}}
		}
		md.RoleDescriptors = []saml.RoleDescriptor{role("idpenc")}
		md.AttributeAuthorityDescriptors = []saml.AttributeAuthorityDescriptor{{RoleDescriptor: role("idp2")}}
		md.AuthnAuthorityDescriptors = []saml.AuthnAuthorityDescriptor{{RoleDescriptor: role("idp2")}}
		md.PDPDescriptors = []saml.PDPDescriptor{{RoleDescriptor: role("attacker")}}
		md.SPSSODescriptors = []saml.SPSSODescriptor{{SSODescriptor: saml.SSODescriptor{RoleDescriptor: role("attacker")}}}
	}
	sp.IDPMetadata = md
	return sp
}

// Baseline returns a response spec that satisfies every condition of the SP at
// instant now for outstanding request reqID: one assertion with one bearer
// confirmation, both levels carrying issuer, destination, recipient, audience,
// InResponseTo and comfortable validity windows.  Nothing is signed yet.
// Retrust reconfigures a long-lived ServiceProvider value to another trust configuration,
// the way an application refreshes IdP metadata (key rotation, a retired key) or changes its
// pinning: the public trust fields are replaced, the ServiceProvider value stays the same.
// With inPlace the EntityDescriptor the SP already points to is overwritten (`*sp.IDPMetadata = *fresh`, what a
// metadata refresher that keeps the pointer does); otherwise the pointer is replaced.
func Retrust(sp *saml.ServiceProvider, trust string, inPlace bool) {
	n := NewSP(Config{Trust: trust})
	if inPlace && sp.IDPMetadata != nil {
		*sp.IDPMetadata = *n.IDPMetadata
	} else {
		sp.IDPMetadata = n.IDPMetadata
	}
	sp.IDPCertificate = n.IDPCertificate
	sp.IDPCertificateFingerprint = n.IDPCertificateFingerprint
	sp.IDPCertificateFingerprintAlgorithm = n.IDPCertificateFingerprintAlgorithm
}

// Noise sets public ServiceProvider options that have no bearing on how received messages are judged
// (they shape what the SP sends, or its own metadata); bit i of n switches option i on.  Whatever n is,
// a consuming API must reach the same verdict.
func Noise(sp *saml.ServiceProvider, n uint64) {
	yes := true
	if n&1 != 0 {
		sp.ForceAuthn = &yes
	}
	if n&2 != 0 {
		sp.SignatureMethod = "http://www.w3.org/2001/04/xmldsig-more#rsa-sha256"
	}
	if n&4 != 0 {
		sp.AuthnNameIDFormat = saml.EmailAddressNameIDFormat
	}
	if n&8 != 0 {
		sp.RequestedAuthnContext = &saml.RequestedAuthnContext{Comparison: "exact", AuthnContextClassRef: "urn:oasis:names:tc:SAML:2.0:ac:classes:PasswordProtectedTransport"}
	}
	if n&16 != 0 {
		sp.LogoutBindings = []string{saml.HTTPPostBinding}
	}
	if n&32 != 0 {
		sp.DefaultRedirectURI = "/after-login"
	}
	if n&64 != 0 {
		sp.MetadataValidDuration = time.Hour
	}
	if n&128 != 0 {
		sp.Intermediates = []*x509.Certificate{fix.Get("idp2").Cert, fix.Get("attacker").Cert}
	}
	// bits 8 and 9 (only drawn by checks whose oracle does not involve these rules): the application installed
	// its own accept-everything request-ID / audience validators
	if n&256 != 0 {
		sp.ValidateRequestID = func(saml.Response, []string) error { return nil }
	}
	if n&512 != 0 {
		sp.ValidateAudienceRestriction = func(*saml.Assertion) error { return nil }
	}
}

// WarmUp lets sp process one ordinary, valid, Response-signed message of its own (request "id-warm") at
// time now, the way a long-running SP has served other logins before the one under judgement.
func WarmUp(sp *saml.ServiceProvider, now time.Time) Outcome {
	r := Baseline(now, "id-warm", "")
	r.ID = "id-warm-resp"
	r.Assertions[0].ID = "id-warm-assert"
	r.Assertions[0].NameID = forge.S("warm-up-user@idp.example.com")
	r.Sign = &forge.SignSpec{Key: "idp"}
	el, err := forge.BuildResponse(&r)
	if err != nil {
		return Outcome{Err: err}
	}
	return ParseXML(sp, forge.Bytes(el), []string{"id-warm"}, SPACS)
}

func Baseline(now time.Time, reqID string, audience string) forge.ResponseSpec {
	if audience == "" {
		audience = SPEntity
	}
	return forge.ResponseSpec{
		ID:           "id-resp-1",
		InResponseTo: forge.S(reqID),
		Destination:  forge.S(SPACS),
		IssueInstant: forge.T(now.Add(-10 * time.Second)),
		Issuer:       forge.S(IDPEntity),
		Status:       []string{forge.StatusOK},
		Assertions:   []forge.AssertionSpec{BaselineAssertion(now, reqID, audience, "id-assert-1", "user-1@example.com")},
	}
}

// BaselineAssertion returns one valid assertion spec.
func BaselineAssertion(now time.Time, reqID, audience, id, nameID string) forge.AssertionSpec {
	if audience == "" {
		audience = SPEntity
	}
	return forge.AssertionSpec{
		ID:           id,
		IssueInstant: forge.T(now.Add(-10 * time.Second)),
		Issuer:       forge.S(IDPEntity),
		NameID:       forge.S(nameID),
		NameIDFormat: "urn:oasis:names:tc:SAML:2.0:nameid-format:transient",
		Confirmations: []forge.Confirmation{{
			Recipient:    forge.S(SPACS),
			InResponseTo: forge.S(reqID),
			NotOnOrAfter: forge.TP(now.Add(5 * time.Minute)),
		}},
		NotBefore:    forge.TP(now.Add(-5 * time.Minute)),
		NotOnOrAfter: forge.TP(now.Add(5 * time.Minute)),
		Audiences:    [][]string{{audience}},
		Authn:        []forge.Authn{{AuthnInstant: forge.T(now.Add(-20 * time.Second)), SessionIndex: forge.S("sess-" + id)}},
		Statements:   [][]forge.Attr{{{Name: "uid", Values: []string{nameID}}}},
	}
}

// Outcome of one guarded call into the parsing API.
type Outcome struct {
	Assertion *saml.Assertion
	Err       error
	Panic     string // non-empty when the call panicked
}

// Accepted reports whether an assertion was returned without error.
func (o Outcome) Accepted() bool { return o.Panic == "" && o.Err == nil && o.Assertion != nil }

// PrivateErr returns the detail of an InvalidResponseError, or nil.
func (o Outcome) PrivateErr() error {
	if ire, ok := o.Err.(*saml.InvalidResponseError); ok {
		return ire.PrivateErr
	}
	return nil
}

// Describe renders the outcome for messages.
func (o Outcome) Describe() string {
	switch {
	case o.Panic != "":
		return "PANIC: " + o.Panic
	case o.Err != nil:
		return fmt.Sprintf("rejected (%T): private=%v", o.Err, o.PrivateErr())
	case o.Assertion == nil:
		return "nil assertion and nil error"
	default:
		n := ""
		if o.Assertion.Subject != nil && o.Assertion.Subject.NameID != nil {
			n = o.Assertion.Subject.NameID.Value
		}
		return fmt.Sprintf("accepted assertion ID=%q nameID=%q", o.Assertion.ID, n)
	}
}

func guard(f func() (*saml.Assertion, error)) (o Outcome) {
	defer func() {
		if e := recover(); e != nil {
			o = Outcome{Panic: fmt.Sprintf("%v\n%s", e, debug.Stack())}
		}
	}()
	a, err := f()
	return Outcome{Assertion: a, Err: err}
}

// ParseXML calls ParseXMLResponse.
func ParseXML(sp *saml.ServiceProvider, doc []byte, ids []string, at string) Outcome {
	u := mustURL(at)
	return guard(func() (*saml.Assertion, error) { return sp.ParseXMLResponse(doc, ids, u) })
}

// ParsePOST calls ParseResponse with a POST form carrying the base64 document.
func ParsePOST(sp *saml.ServiceProvider, doc []byte, ids []string, at string) Outcome {
	form := url.Values{"SAMLResponse": {base64.StdEncoding.EncodeToString(doc)}}
	req, _ := http.NewRequest("POST", at, strings.NewReader(form.Encode()))
	req.Header.Set("Content-Type", "application/x-www-form-urlencoded")
	_ = req.ParseForm() // precondition every real caller (the middleware) establishes
	return guard(func() (*saml.Assertion, error) { return sp.ParseResponse(req, ids) })
}

// ParseArtifactXML calls ParseXMLArtifactResponse.
func ParseArtifactXML(sp *saml.ServiceProvider, soap []byte, ids []string, artifactReqID string, at string) Outcome {
	u := mustURL(at)
	return guard(func() (*saml.Assertion, error) { return sp.ParseXMLArtifactResponse(soap, ids, artifactReqID, u) })
}

// RoundTripFunc adapts a function to http.RoundTripper.
type RoundTripFunc func(*http.Request) (*http.Response, error)

// RoundTrip implements http.RoundTripper.
func (f RoundTripFunc) RoundTrip(r *http.Request) (*http.Response, error) { return f(r) }

// ParseArtifactHTTP calls ParseResponse with a SAMLart parameter; resolver
// receives the SOAP request body the SP sent and returns the HTTP response.
func ParseArtifactHTTP(sp *saml.ServiceProvider, ids []string, at string, resolver func(body []byte) (*http.Response, error)) Outcome {
	sp.HTTPClient = &http.Client{Transport: RoundTripFunc(func(r *http.Request) (*http.Response, error) {
		var buf bytes.Buffer
		if r.Body != nil {
			_, _ = buf.ReadFrom(r.Body)
		}
		return resolver(buf.Bytes())
	})}
	form := url.Values{"SAMLart": {"AAQAAMFbLinlXaCM+FIxiDwGOLAy2T71gbpO7ZhNzAgEANlB90ECfpNEVLg="}}
	req, _ := http.NewRequest("POST", at, strings.NewReader(form.Encode()))
	req.Header.Set("Content-Type", "application/x-www-form-urlencoded")
	_ = req.ParseForm()
	return guard(func() (*saml.Assertion, error) { return sp.ParseResponse(req, ids) })
}
