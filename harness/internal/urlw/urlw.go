// Package urlw is the harness's own reader for URLs as they appear on the wire
// (a Location header, a form action).  It deliberately does NOT use net/url's
// query parsing (url.ParseQuery, URL.Query, url.QueryUnescape): the code under
// test assembles and reads its queries with net/url, so the oracle must not.
//
// Conventions (decided here, explicitly):
//
//   - A wire URL is split at the FIRST '#' (everything after it is the fragment,
//     which a user agent never sends) and then at the FIRST '?'.
//   - The query is split on '&' only.  ';' is NOT a separator.  Empty segments
//     (from "a=1&&b=2" or a trailing '&') carry no parameter and are dropped.
//   - A segment is split at its FIRST '='; a segment without '=' is a key with
//     an empty value.
//   - Percent-decoding: "%XX" with two hex digits decodes to that octet; any
//     other use of '%' is an error in strict mode (Unescape) and stays literal in
//     lenient mode (UnescapeLenient).
//   - '+' in a query component means SPACE.  The redirect binding carries its
//     parameters in application/x-www-form-urlencoded form and every mainstream
//     receiver (Go's Request.URL.Query, the Java servlet API, PHP, .NET) reads '+'
//     as a space; an emitter that wants a literal plus must write "%2B".  The
//     functions take plusIsSpace as a parameter so that a caller who decides
//     otherwise has to say so.
package urlw

import (
	"fmt"
	"strings"
)

// Wire is a wire URL split into its three top-level parts.
type Wire struct {
	Base        string // everything before the first '?' (or '#')
	RawQuery    string // between the first '?' and the first '#', undecoded
	HasQuery    bool
	Fragment    string // after the first '#', undecoded
	HasFragment bool
}

// Split cuts a wire URL at the first '#' and then at the first '?'.
func Split(wire string) Wire {
	var w Wire
	rest := wire
	if i := strings.IndexByte(rest, '#'); i >= 0 {
		w.Fragment, w.HasFragment = rest[i+1:], true
		rest = rest[:i]
	}
	if i := strings.IndexByte(rest, '?'); i >= 0 {
		w.RawQuery, w.HasQuery = rest[i+1:], true
		rest = rest[:i]
	}
	w.Base = rest
	return w
}

// Param is one decoded query parameter together with its raw octets.
type Param struct {
	Key, Value       string
	RawKey, RawValue string
	HasEq            bool
	// Start and End delimit the raw segment ("key=value") inside the raw query.
	Start, End int
}

// ParseQuery splits a raw query into parameters (order preserved).  It fails on a
// malformed percent escape.
func ParseQuery(raw string, plusIsSpace bool) ([]Param, error) {
	var out []Param
	pos := 0
	for pos <= len(raw) {
		end := strings.IndexByte(raw[pos:], '&')
		if end < 0 {
			end = len(raw)
		} else {
			end += pos
		}
		seg := raw[pos:end]
		if seg != "" {
			p := Param{Start: pos, End: end}
			if i := strings.IndexByte(seg, '='); i >= 0 {
				p.RawKey, p.RawValue, p.HasEq = seg[:i], seg[i+1:], true
			} else {
				p.RawKey = seg
			}
			var err error
			if p.Key, err = Unescape(p.RawKey, plusIsSpace); err != nil {
				return nil, fmt.Errorf("parameter name %q: %v", p.RawKey, err)
			}
			if p.Value, err = Unescape(p.RawValue, plusIsSpace); err != nil {
				return nil, fmt.Errorf("value of parameter %q: %v", p.RawKey, err)
			}
			out = append(out, p)
		}
		pos = end + 1
	}
	return out, nil
}

func unhex(c byte) (byte, bool) {
	switch {
	case c >= '0' && c <= '9':
		return c - '0', true
	case c >= 'a' && c <= 'f':
		return c - 'a' + 10, true
	case c >= 'A' && c <= 'F':
		return c - 'A' + 10, true
	}
	return 0, false
}

func unescape(s string, plusIsSpace, lenient bool) (string, error) {
	if !strings.ContainsAny(s, "%+") {
		return s, nil
	}
	var b strings.Builder
	b.Grow(len(s))
	for i := 0; i < len(s); i++ {
		c := s[i]
		switch {
		case c == '%':
			ok := false
			if i+2 <= len(s)-1 {
				hi, ok1 := unhex(s[i+1])
				lo, ok2 := unhex(s[i+2])
				if ok1 && ok2 {
					b.WriteByte(hi<<4 | lo)
					i += 2
					ok = true
				}
			}
			if !ok {
				if !lenient {
					return "", fmt.Errorf("malformed percent escape at offset %d of %q", i, s)
				}
				b.WriteByte('%')
			}
		case c == '+' && plusIsSpace:
			b.WriteByte(' ')
		default:
			b.WriteByte(c)
		}
	}
	return b.String(), nil
}

// Unescape percent-decodes a query component strictly.
func Unescape(s string, plusIsSpace bool) (string, error) { return unescape(s, plusIsSpace, false) }

// UnescapeLenient percent-decodes what is a valid escape and keeps every other
// octet (a stray '%' included) as it is.
func UnescapeLenient(s string, plusIsSpace bool) string {
	out, _ := unescape(s, plusIsSpace, true)
	return out
}

// isQueryChar: RFC 3986 query = *( pchar / "/" / "?" ), pchar = unreserved /
// pct-encoded / sub-delims / ":" / "@".  '%' is judged separately.
func isQueryChar(c byte) bool {
	switch {
	case c >= 'a' && c <= 'z', c >= 'A' && c <= 'Z', c >= '0' && c <= '9':
		return true
	}
	return strings.IndexByte("-._~!$&'()*+,;=:@/?", c) >= 0
}

// BadQueryOctet returns the offset of the first octet of a raw query that RFC
// 3986 does not allow there (space, control, non-ASCII, '#', '"', '<', '>',
// a '%' not followed by two hex digits ...), or -1 when the query is clean.
func BadQueryOctet(raw string) int {
	for i := 0; i < len(raw); i++ {
		c := raw[i]
		if c == '%' {
			if i+2 <= len(raw)-1 {
				_, ok1 := unhex(raw[i+1])
				_, ok2 := unhex(raw[i+2])
				if ok1 && ok2 {
					i += 2
					continue
				}
			}
			return i
		}
		if !isQueryChar(c) {
			return i
		}
	}
	return -1
}

// Get returns the decoded values of every parameter called key, in order.
func Get(ps []Param, key string) []string {
	var out []string
	for _, p := range ps {
		if p.Key == key {
			out = append(out, p.Value)
		}
	}
	return out
}

// Without returns the parameters whose key is none of the given ones, as a
// key -> ordered values multimap plus the order in which keys first appear.
func Without(ps []Param, keys ...string) (map[string][]string, []string) {
	skip := map[string]bool{}
	for _, k := range keys {
		skip[k] = true
	}
	m := map[string][]string{}
	var order []string
	for _, p := range ps {
		if skip[p.Key] {
			continue
		}
		if _, ok := m[p.Key]; !ok {
			order = append(order, p.Key)
		}
		m[p.Key] = append(m[p.Key], p.Value)
	}
	return m, order
}

// Scheme extracts the scheme the way a user agent would see it in an attribute
// value (WHATWG URL: leading C0-control-or-space stripped, ASCII tab and newlines
// removed anywhere, then ALPHA *( ALPHA / DIGIT / "+" / "-" / "." ) ":").  It
// returns the lower-cased scheme, or "" when the value has no scheme (relative
// reference, fragment-only, empty).
func Scheme(v string) string {
	var b []byte
	lead := true
	for i := 0; i < len(v); i++ {
		c := v[i]
		if lead && c <= 0x20 {
			continue
		}
		lead = false
		if c == '\t' || c == '\n' || c == '\r' {
			continue
		}
		b = append(b, c)
	}
	for i, c := range b {
		switch {
		case c >= 'a' && c <= 'z', c >= 'A' && c <= 'Z':
		case i > 0 && (c >= '0' && c <= '9' || c == '+' || c == '-' || c == '.'):
		case c == ':' && i > 0:
			return strings.ToLower(string(b[:i]))
		default:
			return ""
		}
	}
	return ""
}
