// Package samlwire holds the harness's independent decoders for SAML binding
// payloads: base64, raw DEFLATE (redirect binding), and a small namespace-aware
// XML DOM built directly on encoding/xml's tokenizer.  It imports nothing from the
// code under test.
package samlwire

import (
	"bytes"
	"compress/flate"
	"encoding/base64"
	"encoding/xml"
	"fmt"
	"io"
	"strings"
)

// MaxInflate bounds what Inflate is willing to produce.
const MaxInflate = 4 << 20

// B64 decodes standard padded base64 strictly (no white space, no URL alphabet).
func B64(s string) ([]byte, error) { return base64.StdEncoding.Strict().DecodeString(s) }

// Inflate decodes a raw DEFLATE stream (RFC 1951, no zlib header) completely and
// fails on trailing garbage.
func Inflate(b []byte) ([]byte, error) {
	src := bytes.NewReader(b)
	r := flate.NewReader(src)
	out, err := io.ReadAll(io.LimitReader(r, MaxInflate+1))
	if err != nil {
		return nil, fmt.Errorf("inflate: %v", err)
	}
	if len(out) > MaxInflate {
		return nil, fmt.Errorf("inflate: more than %d bytes", MaxInflate)
	}
	if src.Len() != 0 {
		return nil, fmt.Errorf("inflate: %d bytes of trailing data after the DEFLATE stream", src.Len())
	}
	return out, nil
}

// RedirectPayload decodes the value of a SAMLRequest / SAMLResponse redirect
// parameter (already percent-decoded): base64 then raw DEFLATE.
func RedirectPayload(v string) ([]byte, error) {
	raw, err := B64(v)
	if err != nil {
		return nil, fmt.Errorf("base64: %v", err)
	}
	return Inflate(raw)
}

// Node is one element of the mini DOM.
type Node struct {
	Space, Local string // resolved namespace URI and local name
	Attrs        []Attr
	Children     []*Node
	// Text is the concatenation of the character data that are direct children.
	Text   string
	Parent *Node
}

// Attr is one attribute (namespace declarations are kept, Space = "xmlns").
type Attr struct {
	Space, Local, Value string
}

// ParseXML reads exactly one well-formed document: one root element, optionally
// surrounded by white space / comments / processing instructions, no DOCTYPE.
func ParseXML(b []byte) (*Node, error) {
	d := xml.NewDecoder(bytes.NewReader(b))
	d.Strict = true
	var root, cur *Node
	for {
		tok, err := d.Token()
		if err == io.EOF {
			break
		}
		if err != nil {
			return nil, err
		}
		switch t := tok.(type) {
		case xml.StartElement:
			n := &Node{Space: t.Name.Space, Local: t.Name.Local, Parent: cur}
			for _, a := range t.Attr {
				n.Attrs = append(n.Attrs, Attr{Space: a.Name.Space, Local: a.Name.Local, Value: a.Value})
			}
			if cur == nil {
				if root != nil {
					return nil, fmt.Errorf("second root element <%s>", t.Name.Local)
				}
				root = n
			} else {
				cur.Children = append(cur.Children, n)
			}
			cur = n
		case xml.EndElement:
			if cur == nil {
				return nil, fmt.Errorf("unbalanced end element")
			}
			cur = cur.Parent
		case xml.CharData:
			if cur == nil {
				if strings.TrimSpace(string(t)) != "" {
					return nil, fmt.Errorf("character data outside the root element")
				}
			} else {
				cur.Text += string(t)
			}
		case xml.Directive:
			return nil, fmt.Errorf("directive in document")
		}
	}
	if root == nil {
		return nil, fmt.Errorf("no root element")
	}
	if cur != nil {
		return nil, fmt.Errorf("unclosed element <%s>", cur.Local)
	}
	return root, nil
}

// Attr returns the value of the un-namespaced attribute and whether it exists.
func (n *Node) Attr(local string) (string, bool) {
	for _, a := range n.Attrs {
		if a.Space == "" && a.Local == local {
			return a.Value, true
		}
	}
	return "", false
}

// AttrOr returns the attribute value or "" when absent.
func (n *Node) AttrOr(local string) string { v, _ := n.Attr(local); return v }

// Kids returns the direct children with the given namespace and local name.
func (n *Node) Kids(space, local string) []*Node {
	var out []*Node
	for _, c := range n.Children {
		if c.Space == space && c.Local == local {
			out = append(out, c)
		}
	}
	return out
}

// Kid returns the only direct child of that name, nil when there is none, and an
// error when there are several.
func (n *Node) Kid(space, local string) (*Node, error) {
	k := n.Kids(space, local)
	switch len(k) {
	case 0:
		return nil, nil
	case 1:
		return k[0], nil
	}
	return nil, fmt.Errorf("%d <%s> children in <%s>", len(k), local, n.Local)
}

// Namespaces used by SAML messages.
const (
	NSProtocol  = "urn:oasis:names:tc:SAML:2.0:protocol"
	NSAssertion = "urn:oasis:names:tc:SAML:2.0:assertion"
	NSDsig      = "http://www.w3.org/2000/09/xmldsig#"
	NSMetadata  = "urn:oasis:names:tc:SAML:2.0:metadata"
)
