// Package xgen holds the shared rapid generators: XML-1.0 strings by class, URLs,
// near-miss variants of a correct value, and markers.
package xgen

import (
	"fmt"
	"strings"
	"unicode/utf8"

	"pgregory.net/rapid"
)

// IsXMLChar reports whether r is in the XML 1.0 Char production.
func IsXMLChar(r rune) bool {
	return r == 0x9 || r == 0xA || r == 0xD ||
		(r >= 0x20 && r <= 0xD7FF) ||
		(r >= 0xE000 && r <= 0xFFFD) ||
		(r >= 0x10000 && r <= 0x10FFFF)
}

// IsXMLString reports whether s is valid UTF-8 made of XML 1.0 characters only.
func IsXMLString(s string) bool {
	if !utf8.ValidString(s) {
		return false
	}
	for _, r := range s {
		if !IsXMLChar(r) {
			return false
		}
	}
	return true
}

var hostile = []string{
	"<", ">", "&", "\"", "'", "]]>", "<!--", "-->", "<?", "?>", "<![CDATA[", "&amp;", "&#13;", "&#x0;", "&lt;script&gt;",
	"\t", "\n", "\r", "\r\n", " ", "  ", "\u00a0", "\u2028", "\u2029", "\ufeff", "\ufffd",
	"é", "ß", "日本語", "😀", "𝔘", "é", "\U0010FFFD", "\ud7ff", "",
	"{{", "}}", "{{.}}", "</form>", "<script>", "javascript:", "%00", "%", "+", "=", "#", "?", ";", "/", "\\", "`", "$(", "xmlns:", ":",
}

// Token draws one fragment: an ASCII word, a hostile token or a random XML rune.
func Token() *rapid.Generator[string] {
	return rapid.OneOf(
		rapid.StringMatching(`[A-Za-z0-9]{1,8}`),
		rapid.SampledFrom(hostile),
		rapid.SampledFrom(hostile),
		rapid.Custom(func(t *rapid.T) string {
			for {
				r := rapid.Rune().Draw(t, "r")
				if IsXMLChar(r) && r != utf8.RuneError {
					return string(r)
				}
			}
		}),
	)
}

// Text draws an XML-1.0-representable string (possibly empty) from a mix of classes.
func Text() *rapid.Generator[string] {
	return rapid.Custom(func(t *rapid.T) string {
		switch rapid.IntRange(0, 9).Draw(t, "textclass") {
		case 0:
			return ""
		case 1, 2:
			return rapid.StringMatching(`[A-Za-z0-9 ._@-]{1,24}`).Draw(t, "plain")
		case 3:
			// leading / trailing white space
			ws := rapid.SampledFrom([]string{" ", "\t", "\n", "\r", "\r\n", "  "})
			return ws.Draw(t, "lead") + rapid.StringMatching(`[a-z]{0,6}`).Draw(t, "mid") + ws.Draw(t, "trail")
		default:
			parts := rapid.SliceOfN(Token(), 1, 8).Draw(t, "parts")
			return strings.Join(parts, "")
		}
	})
}

// TextNonEmpty is Text without the empty string.
func TextNonEmpty() *rapid.Generator[string] {
	return Text().Filter(func(s string) bool { return s != "" })
}

// Classify names the classes a string falls into (for histograms).
func Classify(s string) []string {
	var out []string
	if s == "" {
		return []string{"str:empty"}
	}
	ascii, markup, ws, nonbmp, cr := true, false, false, false, false
	for _, r := range s {
		if r > 0x7e || r < 0x20 {
			ascii = false
		}
		switch r {
		case '<', '>', '&', '"', '\'':
			markup = true
		case '\t', '\n', ' ':
			ws = true
		case '\r':
			cr = true
		}
		if r >= 0x10000 {
			nonbmp = true
		}
	}
	if ascii && !markup {
		out = append(out, "str:plain")
	}
	if markup {
		out = append(out, "str:markup")
	}
	if ws {
		out = append(out, "str:space")
	}
	if cr {
		out = append(out, "str:CR")
	}
	if nonbmp {
		out = append(out, "str:nonBMP")
	}
	if !ascii {
		out = append(out, "str:nonASCII")
	}
	if strings.TrimSpace(s) != s {
		out = append(out, "str:edge-space")
	}
	return out
}

// Plain reports whether s is plain printable ASCII without markup characters.
func Plain(s string) bool {
	for _, r := range s {
		if r > 0x7e || r < 0x20 || strings.ContainsRune(`<>&"'`, r) {
			return false
		}
	}
	return true
}

// Marker draws a unique-looking alphanumeric marker (immune to any escaping).
func Marker(prefix string) *rapid.Generator[string] {
	return rapid.Custom(func(t *rapid.T) string {
		return prefix + rapid.StringMatching(`[a-z0-9]{10}`).Draw(t, "marker")
	})
}

// HTTPURL draws an absolute http(s) URL with optional path, without query/fragment.
func HTTPURL() *rapid.Generator[string] {
	return rapid.Custom(func(t *rapid.T) string {
		scheme := rapid.SampledFrom([]string{"https", "http"}).Draw(t, "scheme")
		host := rapid.StringMatching(`[a-z]{1,8}(\.[a-z]{2,5}){1,2}(:[1-9][0-9]{1,3})?`).Draw(t, "host")
		path := rapid.StringMatching(`(/[a-zA-Z0-9_.~-]{1,8}){0,3}`).Draw(t, "path")
		return scheme + "://" + host + path
	})
}

// NearMiss lists variants of a correct URL-ish value that must not be treated as equal to it.
func NearMiss(v string) map[string]string {
	out := map[string]string{
		"trailing-slash": v + "/",
		"query":          v + "?q=1",
		"fragment":       v + "#f",
		"suffix-x":       v + "x",
		"userinfo":       strings.Replace(v, "://", "://"+hostOf(v)+"@evil.example/", 1),
		"space":          v + " ",
		"lead-space":     " " + v,
	}
	if len(v) > 1 {
		out["prefix"] = v[:len(v)-1]
		out["suffix"] = v[1:]
	}
	if up := strings.ToUpper(v); up != v {
		out["upper"] = up
	}
	if i := strings.Index(v, "://"); i > 0 {
		out["scheme-case"] = strings.ToUpper(v[:i]) + v[i:]
	}
	for k, x := range out {
		if x == v {
			delete(out, k)
		}
	}
	return out
}

func hostOf(v string) string {
	i := strings.Index(v, "://")
	if i < 0 {
		return "h"
	}
	rest := v[i+3:]
	if j := strings.IndexAny(rest, "/?#"); j >= 0 {
		rest = rest[:j]
	}
	return rest
}

// NearMissKeys is the deterministic order of NearMiss keys.
var NearMissKeys = []string{"trailing-slash", "query", "fragment", "suffix-x", "userinfo", "space", "lead-space", "prefix", "suffix", "upper", "scheme-case"}

// PickNearMiss draws one near-miss of v (kind, value).
func PickNearMiss(t *rapid.T, v string, label string) (string, string) {
	m := NearMiss(v)
	var keys []string
	for _, k := range NearMissKeys {
		if _, ok := m[k]; ok {
			keys = append(keys, k)
		}
	}
	if len(keys) == 0 {
		return "suffix-x", v + "x"
	}
	k := rapid.SampledFrom(keys).Draw(t, label)
	return k, m[k]
}

// Sprintf is a tiny helper so property packages need not import fmt for labels.
func Sprintf(f string, a ...any) string { return fmt.Sprintf(f, a...) }
