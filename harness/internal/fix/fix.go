// Package fix holds the fixed key material of the harness and the reset of the
// library's process-global knobs.  Keys are fixtures (generated once, committed),
// never generated per run.
package fix

import (
	"crypto"
	"crypto/ecdsa"
	"crypto/rsa"
	"crypto/x509"
	"embed"
	"encoding/base64"
	"encoding/pem"
	"sync"
	"time"

	"github.com/crewjam/saml"
	"github.com/crewjam/saml/xmlenc"
	"github.com/golang-jwt/jwt/v4"
	dsig "github.com/russellhaering/goxmldsig"
)

//go:embed pem/*.pem
var pems embed.FS

// KeyPair is one private key with its self-signed certificate.
type KeyPair struct {
	Name string
	Key  crypto.Signer
	Cert *x509.Certificate
}

// RSA returns the RSA private key (nil for EC pairs).
func (k *KeyPair) RSA() *rsa.PrivateKey { r, _ := k.Key.(*rsa.PrivateKey); return r }

// EC returns the ECDSA private key (nil for RSA pairs).
func (k *KeyPair) EC() *ecdsa.PrivateKey { r, _ := k.Key.(*ecdsa.PrivateKey); return r }

// CertB64 is the base64 DER of the certificate, as metadata carries it.
func (k *KeyPair) CertB64() string { return base64.StdEncoding.EncodeToString(k.Cert.Raw) }

var (
	mu    sync.Mutex
	cache = map[string]*KeyPair{}
)

// Names of all fixtures.
var Names = []string{"idp", "idp2", "idpenc", "attacker", "idpec", "sp", "sp2", "spec", "rsa1024", "rsa3072", "rsa4096", "p384", "p521", "idpski", "lookalike"}

// Get loads a fixture key pair:
//
//	idp      trusted IdP signing key (RSA-2048)          idp2   second trusted signing key
//	idpenc   IdP encryption-only key                     attacker  untrusted, same subject DN as idp
//	idpec    IdP ECDSA P-256 key
//	idpski   IdP signing key whose certificate carries subject / authority key identifiers (as most real ones do)
//	lookalike  untrusted key whose self-made certificate copies idpski's subject, serial, validity and key identifiers
//	sp, sp2  SP RSA-2048 keys      spec  SP ECDSA P-256 key
//	rsa1024 rsa3072 rsa4096 p384 p521   size variants
func Get(name string) *KeyPair {
	mu.Lock()
	defer mu.Unlock()
	if k, ok := cache[name]; ok {
		return k
	}
	kb, err := pems.ReadFile("pem/" + name + ".key.pem")
	if err != nil {
		panic(err)
	}
	cb, err := pems.ReadFile("pem/" + name + ".crt.pem")
	if err != nil {
		panic(err)
	}
	kblk, _ := pem.Decode(kb)
	cblk, _ := pem.Decode(cb)
	priv, err := x509.ParsePKCS8PrivateKey(kblk.Bytes)
	if err != nil {
		panic(err)
	}
	cert, err := x509.ParseCertificate(cblk.Bytes)
	if err != nil {
		panic(err)
	}
	k := &KeyPair{Name: name, Key: priv.(crypto.Signer), Cert: cert}
	cache[name] = k
	return k
}

// Epoch is the default instant of the controlled library clock.
var Epoch = time.Date(2020, 6, 15, 12, 0, 0, 0, time.UTC)

// What the library itself initialises its process-global knobs to, captured before the harness touches any of
// them (this package's variables are initialised after the imported library packages).  Reset restores these -
// not values the harness believes to be the defaults - so that a library whose own default is wrong (say, a
// random source that is not random) is judged as shipped.
var (
	LibSAMLRand      = saml.RandReader
	LibXMLEncRand    = xmlenc.RandReader
	LibMaxIssueDelay = saml.MaxIssueDelay
	LibMaxClockSkew  = saml.MaxClockSkew
)

// Reset restores every process-global knob the library reads to the library's own default,
// with the clock pinned at Epoch.
func Reset() {
	SetNow(Epoch)
	saml.RandReader = LibSAMLRand
	xmlenc.RandReader = LibXMLEncRand
	saml.MaxIssueDelay = LibMaxIssueDelay
	saml.MaxClockSkew = LibMaxClockSkew
	jwt.MarshalSingleStringAsArray = true
}

// SetNow pins the library clock (saml.TimeNow and jwt.TimeFunc).  The dsig clock,
// which only decides certificate validity (fixtures: 2000-2100), stays at Epoch so
// that far-away instants do not turn every case into a certificate-expiry case.
func SetNow(t time.Time) {
	saml.TimeNow = func() time.Time { return t }
	saml.Clock = dsig.NewFakeClockAt(Epoch)
	jwt.TimeFunc = func() time.Time { return t }
}
