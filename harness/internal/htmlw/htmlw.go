// Package htmlw is the harness's reader for HTML pages the library emits: a DOM
// skeleton (structure without the interpolated values) and form / input
// extraction, both on top of golang.org/x/net/html (an HTML5 parser that follows
// the same tree-construction rules as a browser).  Nothing here uses regular
// expressions on markup, and nothing here comes from the code under test.
package htmlw

import (
	"bytes"
	"fmt"
	"sort"
	"strings"

	"golang.org/x/net/html"
)

// Parse parses a complete page (a missing html/head/body is supplied by the
// parser exactly as a browser would).
func Parse(page []byte) (*html.Node, error) { return html.Parse(bytes.NewReader(page)) }

// Slot says which attribute values / text nodes are interpolation slots, i.e.
// positions whose *value* is expected to vary with the input strings.  Everything
// else (element names, attribute names, every other attribute value, script text)
// is structure and goes into the skeleton verbatim.
type Slot func(el *html.Node, attr string) bool

// FormSlots is the slot set of every auto-submit / login form in the library:
// the form's action, the value of every input, and the text inside <p>.
func FormSlots(el *html.Node, attr string) bool {
	switch el.Data {
	case "form":
		return attr == "action"
	case "input":
		return attr == "value" && Attr(el, "type") == "hidden"
	case "p":
		return attr == "#text"
	}
	return false
}

// Attr returns the value of the named attribute ("" when absent).
func Attr(n *html.Node, key string) string {
	for _, a := range n.Attr {
		if a.Key == key && a.Namespace == "" {
			return a.Val
		}
	}
	return ""
}

// HasAttr reports whether the attribute is present.
func HasAttr(n *html.Node, key string) bool {
	for _, a := range n.Attr {
		if a.Key == key && a.Namespace == "" {
			return true
		}
	}
	return false
}

// Skeleton renders the tree with slot values replaced by a placeholder.  Two
// pages have equal skeletons iff they have the same elements in the same nesting
// and order, the same attribute names on each (in source order), the same values
// for every non-slot attribute and the same non-slot text (script bodies
// included); comments and doctypes are part of the skeleton too.
func Skeleton(root *html.Node, slot Slot) string {
	var b strings.Builder
	var walk func(n *html.Node, depth int)
	walk = func(n *html.Node, depth int) {
		ind := strings.Repeat(" ", depth)
		switch n.Type {
		case html.DocumentNode:
			b.WriteString("#document\n")
		case html.DoctypeNode:
			fmt.Fprintf(&b, "%s<!doctype %q>\n", ind, n.Data)
		case html.CommentNode:
			fmt.Fprintf(&b, "%s<!-- %q -->\n", ind, n.Data)
		case html.TextNode:
			if n.Parent != nil && n.Parent.Type == html.ElementNode && slot != nil && slot(n.Parent, "#text") {
				fmt.Fprintf(&b, "%s#text <slot>\n", ind)
			} else {
				fmt.Fprintf(&b, "%s#text %q\n", ind, n.Data)
			}
		case html.ElementNode:
			fmt.Fprintf(&b, "%s<%s", ind, n.Data)
			if n.Namespace != "" {
				fmt.Fprintf(&b, " ns=%q", n.Namespace)
			}
			for _, a := range n.Attr {
				key := a.Key
				if a.Namespace != "" {
					key = a.Namespace + ":" + key
				}
				if slot != nil && a.Namespace == "" && slot(n, a.Key) {
					fmt.Fprintf(&b, " %s=<slot>", key)
				} else {
					fmt.Fprintf(&b, " %s=%q", key, a.Val)
				}
			}
			b.WriteString(">\n")
		default:
			fmt.Fprintf(&b, "%s#node(%d) %q\n", ind, n.Type, n.Data)
		}
		for c := n.FirstChild; c != nil; c = c.NextSibling {
			walk(c, depth+1)
		}
	}
	walk(root, 0)
	return b.String()
}

// Input is one <input> (or <button>/<textarea>/<select>: anything submittable).
type Input struct {
	Tag   string
	Type  string
	Name  string
	Value string
	// HasValue distinguishes value="" from no value attribute.
	HasValue bool
}

// Form is one <form> with its submittable controls in tree order.
type Form struct {
	Action    string
	HasAction bool
	Method    string
	ID        string
	Inputs    []Input
	// Attrs are all attribute names of the form element, sorted.
	Attrs []string
}

// Forms returns every form in the document, in tree order.
func Forms(root *html.Node) []Form {
	var out []Form
	var walk func(n *html.Node)
	walk = func(n *html.Node) {
		if n.Type == html.ElementNode && n.Data == "form" {
			f := Form{Action: Attr(n, "action"), HasAction: HasAttr(n, "action"), Method: Attr(n, "method"), ID: Attr(n, "id")}
			for _, a := range n.Attr {
				f.Attrs = append(f.Attrs, a.Key)
			}
			sort.Strings(f.Attrs)
			var inner func(m *html.Node)
			inner = func(m *html.Node) {
				if m.Type == html.ElementNode {
					switch m.Data {
					case "input", "button", "textarea", "select":
						f.Inputs = append(f.Inputs, Input{Tag: m.Data, Type: Attr(m, "type"), Name: Attr(m, "name"), Value: Attr(m, "value"), HasValue: HasAttr(m, "value")})
					}
				}
				for c := m.FirstChild; c != nil; c = c.NextSibling {
					inner(c)
				}
			}
			for c := n.FirstChild; c != nil; c = c.NextSibling {
				inner(c)
			}
			out = append(out, f)
		}
		for c := n.FirstChild; c != nil; c = c.NextSibling {
			walk(c)
		}
	}
	walk(root)
	return out
}

// Field returns the values of the hidden/text inputs called name, in order.
func (f Form) Field(name string) []string {
	var out []string
	for _, in := range f.Inputs {
		if in.Name == name {
			out = append(out, in.Value)
		}
	}
	return out
}

// Count returns the number of elements with the given tag name in the document.
func Count(root *html.Node, tag string) int {
	n := 0
	var walk func(m *html.Node)
	walk = func(m *html.Node) {
		if m.Type == html.ElementNode && m.Data == tag {
			n++
		}
		for c := m.FirstChild; c != nil; c = c.NextSibling {
			walk(c)
		}
	}
	walk(root)
	return n
}

// Texts returns the concatenated text of every element with the given tag.
func Texts(root *html.Node, tag string) []string {
	var out []string
	var walk func(m *html.Node)
	walk = func(m *html.Node) {
		if m.Type == html.ElementNode && m.Data == tag {
			var sb strings.Builder
			var t func(x *html.Node)
			t = func(x *html.Node) {
				if x.Type == html.TextNode {
					sb.WriteString(x.Data)
				}
				for c := x.FirstChild; c != nil; c = c.NextSibling {
					t(c)
				}
			}
			t(m)
			out = append(out, sb.String())
		}
		for c := m.FirstChild; c != nil; c = c.NextSibling {
			walk(c)
		}
	}
	walk(root)
	return out
}

// HTMLNormalize applies to s what the HTML input-stream preprocessing and the
// tokenizer do to any literal character data, independent of who wrote the page:
// CR LF and lone CR become LF, and U+0000 becomes U+FFFD.  A value placed in an
// attribute or text node verbatim comes back from any HTML parser in this form;
// that is a property of HTML, not of the emitter.
func HTMLNormalize(s string) string {
	s = strings.ReplaceAll(s, "\r\n", "\n")
	s = strings.ReplaceAll(s, "\r", "\n")
	s = strings.ReplaceAll(s, "\x00", "\uFFFD")
	return s
}
