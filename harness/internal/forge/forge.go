// Package forge is the signing oracle of the harness: it builds SAML Response,
// Assertion, ArtifactResponse and LogoutResponse documents element by element
// with etree from plain "spec" values, signs them through goxmldsig directly and
// encrypts them with the standard library — never through the code paths of
// crewjam/saml that are themselves under test.  The spec is the ground truth of
// what went into a message.
package forge

import (
	"bytes"
	"crypto/aes"
	"crypto/cipher"
	"crypto/rsa"
	"crypto/sha1"
	"encoding/base64"
	"fmt"
	"strings"
	"time"

	"github.com/beevik/etree"
	dsig "github.com/russellhaering/goxmldsig"

	"verif/harness/internal/fix"
)

// Namespaces.
const (
	NSAssertion = "urn:oasis:names:tc:SAML:2.0:assertion"
	NSProtocol  = "urn:oasis:names:tc:SAML:2.0:protocol"
	NSDsig      = "http://www.w3.org/2000/09/xmldsig#"
	NSXenc      = "http://www.w3.org/2001/04/xmlenc#"
	NSSoap      = "http://schemas.xmlsoap.org/soap/envelope/"
	StatusOK    = "urn:oasis:names:tc:SAML:2.0:status:Success"
	Bearer      = "urn:oasis:names:tc:SAML:2.0:cm:bearer"
)

// S returns a pointer to s (present attribute / element with that text).
func S(s string) *string { return &s }

// TimeFormat is the lexical form the library itself emits.
const TimeFormat = "2006-01-02T15:04:05.999Z07:00"

// T formats an instant the way the library does (millisecond UTC).
func T(t time.Time) string { return t.UTC().Format(TimeFormat) }

// TP is S(T(t)).
func TP(t time.Time) *string { return S(T(t)) }

// SignSpec says who signs an element and how.
type SignSpec struct {
	Key     string `json:"key"`                // fixture name: idp | idp2 | idpenc | attacker | idpec ...
	Method  string `json:"method,omitempty"`   // signature method URI; "" = rsa-sha256 / ecdsa-sha256 by key type
	Canon   string `json:"canon,omitempty"`    // "" | exc | exc-comments | c14n11 | c14n10
	KeyInfo string `json:"key_info,omitempty"` // "" = X509 certificate of Key | none | cert:<fixture> (certificate of another key) | chain:<fixture>,<fixture>
}

// Confirmation is one SubjectConfirmation.
type Confirmation struct {
	Method       string  `json:"method,omitempty"` // "" = bearer
	NoData       bool    `json:"no_data,omitempty"`
	Recipient    *string `json:"recipient"`
	InResponseTo *string `json:"in_response_to"`
	NotOnOrAfter *string `json:"not_on_or_after"`
	NotBefore    *string `json:"not_before,omitempty"`
	Address      *string `json:"address,omitempty"`
}

// Attr is one Attribute with its values.
type Attr struct {
	Name         string   `json:"name"`
	FriendlyName string   `json:"friendly_name,omitempty"`
	NameFormat   string   `json:"name_format,omitempty"`
	Values       []string `json:"values"`
}

// Authn is one AuthnStatement.
type Authn struct {
	AuthnInstant string  `json:"authn_instant"`
	SessionIndex *string `json:"session_index,omitempty"`
	ClassRef     *string `json:"class_ref,omitempty"`
	NoContext    bool    `json:"no_context,omitempty"`
}

// EncSpec asks for the assertion to be wrapped in an EncryptedAssertion.
type EncSpec struct {
	To        string `json:"to"`                   // fixture whose certificate receives the key: sp | sp2 ...
	Layout    string `json:"layout,omitempty"`     // "" = EncryptedKey inside EncryptedData/KeyInfo | sibling
	EmbedCert bool   `json:"embed_cert,omitempty"` // put the recipient certificate into the EncryptedKey KeyInfo
	Seed      uint64 `json:"seed,omitempty"`       // derives content key, IV and padding filler (no own RNG)
}

// AssertionSpec describes one Assertion.
type AssertionSpec struct {
	ID             string         `json:"id"`
	IssueInstant   string         `json:"issue_instant"`
	Version        *string        `json:"version,omitempty"`       // nil = "2.0"
	Issuer         *string        `json:"issuer"`                  // nil = no Issuer element
	IssuerFormat   string         `json:"issuer_format,omitempty"` // Format attribute of the Issuer: "" = entity | "-" = none | literal
	NoSubject      bool           `json:"no_subject,omitempty"`
	NameID         *string        `json:"name_id"`
	NameIDFormat   string         `json:"name_id_format,omitempty"`
	Confirmations  []Confirmation `json:"confirmations"`
	NoConditions   bool           `json:"no_conditions,omitempty"`
	NotBefore      *string        `json:"not_before"`
	NotOnOrAfter   *string        `json:"not_on_or_after"`
	Audiences      [][]string     `json:"audiences"` // one AudienceRestriction per inner list
	Authn          []Authn        `json:"authn,omitempty"`
	Statements     [][]Attr       `json:"statements,omitempty"` // one AttributeStatement per inner list
	Sign           *SignSpec      `json:"sign,omitempty"`
	Encrypt        *EncSpec       `json:"encrypt,omitempty"`
	SigAtEnd       bool           `json:"sig_at_end,omitempty"` // place Signature as last child instead of after Issuer
	ExtraNSDecl    bool           `json:"extra_ns_decl,omitempty"`
	OmitNSDeclSelf bool           `json:"omit_ns_decl_self,omitempty"` // rely on the Response's xmlns:saml
}

// ResponseSpec describes one Response.
type ResponseSpec struct {
	ID           string          `json:"id"`
	InResponseTo *string         `json:"in_response_to"`
	Destination  *string         `json:"destination"`
	IssueInstant string          `json:"issue_instant"`
	Version      *string         `json:"version,omitempty"`
	Issuer       *string         `json:"issuer"`
	IssuerFormat string          `json:"issuer_format,omitempty"` // Format attribute of the Issuer: "" = entity | "-" = none | literal
	Status       []string        `json:"status"`                  // nested status codes, outermost first; empty = no Status element
	StatusMsg    *string         `json:"status_msg,omitempty"`
	Assertions   []AssertionSpec `json:"assertions"`
	Sign         *SignSpec       `json:"sign,omitempty"`
}

// ArtifactSpec wraps a Response into ArtifactResponse + SOAP envelope.
type ArtifactSpec struct {
	ID           string    `json:"id"`
	InResponseTo *string   `json:"in_response_to"`
	IssueInstant string    `json:"issue_instant"`
	Issuer       *string   `json:"issuer"`
	IssuerFormat string    `json:"issuer_format,omitempty"` // Format attribute of the Issuer: "" = entity | "-" = none | literal
	Status       []string  `json:"status"`
	Sign         *SignSpec `json:"sign,omitempty"`
}

// LogoutSpec describes a LogoutResponse.
type LogoutSpec struct {
	ID           string    `json:"id"`
	InResponseTo *string   `json:"in_response_to"`
	Destination  *string   `json:"destination"`
	IssueInstant string    `json:"issue_instant"`
	Version      *string   `json:"version,omitempty"`
	Issuer       *string   `json:"issuer"`
	IssuerFormat string    `json:"issuer_format,omitempty"` // Format attribute of the Issuer: "" = entity | "-" = none | literal
	Status       []string  `json:"status"`
	Sign         *SignSpec `json:"sign,omitempty"`
}

func setAttr(el *etree.Element, name string, v *string) {
	if v != nil {
		el.CreateAttr(name, *v)
	}
}

// issuerEl: format "" = the entity format (what IdPs write), "-" = no Format attribute, else literal.
func issuerEl(v string, format string) *etree.Element {
	el := etree.NewElement("saml:Issuer")
	switch format {
	case "":
		el.CreateAttr("Format", "urn:oasis:names:tc:SAML:2.0:nameid-format:entity")
	case "-":
	default:
		el.CreateAttr("Format", format)
	}
	el.SetText(v)
	return el
}

func statusEl(codes []string, msg *string) *etree.Element {
	if len(codes) == 0 {
		return nil
	}
	st := etree.NewElement("samlp:Status")
	parent := st
	for _, c := range codes {
		sc := parent.CreateElement("samlp:StatusCode")
		sc.CreateAttr("Value", c)
		parent = sc
	}
	if msg != nil {
		m := st.CreateElement("samlp:StatusMessage")
		m.SetText(*msg)
	}
	return st
}

// AssertionElement builds the (unsigned) Assertion element.
func AssertionElement(a *AssertionSpec) *etree.Element {
	el := etree.NewElement("saml:Assertion")
	if !a.OmitNSDeclSelf {
		el.CreateAttr("xmlns:saml", NSAssertion)
	}
	if a.ExtraNSDecl {
		el.CreateAttr("xmlns:xs", "http://www.w3.org/2001/XMLSchema")
	}
	v := "2.0"
	if a.Version != nil {
		v = *a.Version
	}
	el.CreateAttr("Version", v)
	el.CreateAttr("ID", a.ID)
	if a.IssueInstant != "-" { // "-" = no IssueInstant attribute at all
		el.CreateAttr("IssueInstant", a.IssueInstant)
	}
	if a.Issuer != nil {
		el.AddChild(issuerEl(*a.Issuer, a.IssuerFormat))
	}
	if !a.NoSubject {
		sub := el.CreateElement("saml:Subject")
		if a.NameID != nil {
			n := sub.CreateElement("saml:NameID")
			if a.NameIDFormat != "" {
				n.CreateAttr("Format", a.NameIDFormat)
			}
			n.SetText(*a.NameID)
		}
		for _, c := range a.Confirmations {
			ce := sub.CreateElement("saml:SubjectConfirmation")
			m := c.Method
			if m == "" {
				m = Bearer
			}
			ce.CreateAttr("Method", m)
			if !c.NoData {
				d := ce.CreateElement("saml:SubjectConfirmationData")
				setAttr(d, "Address", c.Address)
				setAttr(d, "InResponseTo", c.InResponseTo)
				setAttr(d, "NotBefore", c.NotBefore)
				setAttr(d, "NotOnOrAfter", c.NotOnOrAfter)
				setAttr(d, "Recipient", c.Recipient)
			}
		}
	}
	if !a.NoConditions {
		cond := el.CreateElement("saml:Conditions")
		setAttr(cond, "NotBefore", a.NotBefore)
		setAttr(cond, "NotOnOrAfter", a.NotOnOrAfter)
		for _, ar := range a.Audiences {
			are := cond.CreateElement("saml:AudienceRestriction")
			for _, aud := range ar {
				are.CreateElement("saml:Audience").SetText(aud)
			}
		}
	}
	for _, as := range a.Authn {
		ae := el.CreateElement("saml:AuthnStatement")
		ae.CreateAttr("AuthnInstant", as.AuthnInstant)
		setAttr(ae, "SessionIndex", as.SessionIndex)
		if !as.NoContext {
			ac := ae.CreateElement("saml:AuthnContext")
			cr := "urn:oasis:names:tc:SAML:2.0:ac:classes:PasswordProtectedTransport"
			if as.ClassRef != nil {
				cr = *as.ClassRef
			}
			ac.CreateElement("saml:AuthnContextClassRef").SetText(cr)
		}
	}
	for _, st := range a.Statements {
		se := el.CreateElement("saml:AttributeStatement")
		for _, at := range st {
			ate := se.CreateElement("saml:Attribute")
			if at.FriendlyName != "" {
				ate.CreateAttr("FriendlyName", at.FriendlyName)
			}
			ate.CreateAttr("Name", at.Name)
			if at.NameFormat != "" {
				ate.CreateAttr("NameFormat", at.NameFormat)
			}
			for _, v := range at.Values {
				ve := ate.CreateElement("saml:AttributeValue")
				ve.CreateAttr("xmlns:xs", "http://www.w3.org/2001/XMLSchema")
				ve.CreateAttr("xmlns:xsi", "http://www.w3.org/2001/XMLSchema-instance")
				ve.CreateAttr("xsi:type", "xs:string")
				ve.SetText(v)
			}
		}
	}
	return el
}

func signingContext(s *SignSpec) (*dsig.SigningContext, error) {
	kp := fix.Get(s.Key)
	ctx, err := dsig.NewSigningContext(kp.Key, [][]byte{kp.Cert.Raw})
	if err != nil {
		return nil, err
	}
	switch s.Canon {
	case "", "exc":
		ctx.Canonicalizer = dsig.MakeC14N10ExclusiveCanonicalizerWithPrefixList("")
	case "exc-comments":
		ctx.Canonicalizer = dsig.MakeC14N10ExclusiveWithCommentsCanonicalizerWithPrefixList("")
	case "c14n11":
		ctx.Canonicalizer = dsig.MakeC14N11Canonicalizer()
	case "c14n10":
		ctx.Canonicalizer = dsig.MakeC14N10RecCanonicalizer()
	default:
		return nil, fmt.Errorf("unknown canonicaliser %q", s.Canon)
	}
	m := s.Method
	if m == "" {
		if kp.RSA() != nil {
			m = dsig.RSASHA256SignatureMethod
		} else {
			m = dsig.ECDSASHA256SignatureMethod
		}
	}
	if err := ctx.SetSignatureMethod(m); err != nil {
		return nil, err
	}
	return ctx, nil
}

// Sign adds an enveloped signature to el (in place) and returns the Signature element.
// The Signature is placed right after the Issuer child if there is one (schema
// order), else first, unless atEnd.
func Sign(el *etree.Element, s *SignSpec, atEnd bool) (*etree.Element, error) {
	ctx, err := signingContext(s)
	if err != nil {
		return nil, err
	}
	sig, err := ctx.ConstructSignature(el, true)
	if err != nil {
		return nil, err
	}
	switch {
	case s.KeyInfo == "none":
		if ki := sig.FindElement("./KeyInfo"); ki != nil {
			sig.RemoveChild(ki)
		}
	case len(s.KeyInfo) > 5 && s.KeyInfo[:5] == "cert:":
		if ce := sig.FindElement("./KeyInfo/X509Data/X509Certificate"); ce != nil {
			ce.SetText(fix.Get(s.KeyInfo[5:]).CertB64())
		}
	case len(s.KeyInfo) > 6 && s.KeyInfo[:6] == "chain:":
		// several certificates in one X509Data, in the given order (fixture names, comma separated)
		if xd := sig.FindElement("./KeyInfo/X509Data"); xd != nil {
			for _, ch := range xd.ChildElements() {
				xd.RemoveChild(ch)
			}
			for _, name := range strings.Split(s.KeyInfo[6:], ",") {
				ce := xd.CreateElement("X509Certificate")
				ce.Space = xd.Space
				ce.SetText(fix.Get(name).CertB64())
			}
		}
	}
	PlaceSignature(el, sig, atEnd)
	return sig, nil
}

// PlaceSignature inserts sig into el after the Issuer child (or first / last).
func PlaceSignature(el, sig *etree.Element, atEnd bool) {
	if atEnd {
		el.AddChild(sig)
		return
	}
	kids := el.ChildElements()
	for i, k := range kids {
		if k.Tag == "Issuer" {
			if i+1 < len(kids) {
				el.InsertChildAt(kids[i+1].Index(), sig)
			} else {
				el.AddChild(sig)
			}
			return
		}
	}
	if len(kids) > 0 {
		el.InsertChildAt(kids[0].Index(), sig)
		return
	}
	el.AddChild(sig)
}

// BuildAssertion returns the final element for a: signed if asked, wrapped in
// EncryptedAssertion if asked.
func BuildAssertion(a *AssertionSpec) (*etree.Element, error) {
	el := AssertionElement(a)
	if a.Sign != nil {
		if _, err := Sign(el, a.Sign, a.SigAtEnd); err != nil {
			return nil, fmt.Errorf("sign assertion: %w", err)
		}
	}
	if a.Encrypt != nil {
		if a.OmitNSDeclSelf {
			el.CreateAttr("xmlns:saml", NSAssertion)
		}
		return EncryptAssertion(Bytes(el), a.Encrypt)
	}
	return el, nil
}

// ResponseElement builds the Response with its (built) assertions, unsigned.
func ResponseElement(r *ResponseSpec) (*etree.Element, error) {
	el := etree.NewElement("samlp:Response")
	el.CreateAttr("xmlns:saml", NSAssertion)
	el.CreateAttr("xmlns:samlp", NSProtocol)
	el.CreateAttr("ID", r.ID)
	setAttr(el, "InResponseTo", r.InResponseTo)
	v := "2.0"
	if r.Version != nil {
		v = *r.Version
	}
	el.CreateAttr("Version", v)
	if r.IssueInstant != "-" { // "-" = no IssueInstant attribute at all
		el.CreateAttr("IssueInstant", r.IssueInstant)
	}
	setAttr(el, "Destination", r.Destination)
	if r.Issuer != nil {
		el.AddChild(issuerEl(*r.Issuer, r.IssuerFormat))
	}
	if st := statusEl(r.Status, r.StatusMsg); st != nil {
		el.AddChild(st)
	}
	for i := range r.Assertions {
		ae, err := BuildAssertion(&r.Assertions[i])
		if err != nil {
			return nil, err
		}
		el.AddChild(ae)
	}
	return el, nil
}

// BuildResponse returns the final Response element (signed if asked).
func BuildResponse(r *ResponseSpec) (*etree.Element, error) {
	el, err := ResponseElement(r)
	if err != nil {
		return nil, err
	}
	if r.Sign != nil {
		if _, err := Sign(el, r.Sign, false); err != nil {
			return nil, fmt.Errorf("sign response: %w", err)
		}
	}
	return el, nil
}

// Bytes serialises a root element as a document.
func Bytes(el *etree.Element) []byte {
	doc := etree.NewDocument()
	doc.SetRoot(el)
	b, err := doc.WriteToBytes()
	if err != nil {
		panic(err)
	}
	// a carriage return inside a value is spelled as a character reference: written literally, any XML
	// parser would read it back as a line feed and the receiver would see other content than was signed
	if bytes.IndexByte(b, '\r') >= 0 {
		b = bytes.ReplaceAll(b, []byte("\r"), []byte("&#xD;"))
	}
	return b
}

// ResponseBytes builds and serialises r.
func ResponseBytes(r *ResponseSpec) ([]byte, error) {
	el, err := BuildResponse(r)
	if err != nil {
		return nil, err
	}
	return Bytes(el), nil
}

// BuildArtifact wraps a built Response element into ArtifactResponse and a SOAP envelope.
func BuildArtifact(a *ArtifactSpec, response *etree.Element) (*etree.Element, error) {
	ar := etree.NewElement("samlp:ArtifactResponse")
	ar.CreateAttr("xmlns:saml", NSAssertion)
	ar.CreateAttr("xmlns:samlp", NSProtocol)
	ar.CreateAttr("ID", a.ID)
	setAttr(ar, "InResponseTo", a.InResponseTo)
	ar.CreateAttr("Version", "2.0")
	if a.IssueInstant != "-" { // "-" = no IssueInstant attribute at all
		ar.CreateAttr("IssueInstant", a.IssueInstant)
	}
	if a.Issuer != nil {
		ar.AddChild(issuerEl(*a.Issuer, a.IssuerFormat))
	}
	if st := statusEl(a.Status, nil); st != nil {
		ar.AddChild(st)
	}
	if response != nil {
		ar.AddChild(response)
	}
	if a.Sign != nil {
		if _, err := Sign(ar, a.Sign, false); err != nil {
			return nil, fmt.Errorf("sign artifact response: %w", err)
		}
	}
	env := etree.NewElement("soap:Envelope")
	env.CreateAttr("xmlns:soap", NSSoap)
	body := env.CreateElement("soap:Body")
	body.AddChild(ar)
	return env, nil
}

// BuildLogout returns the final LogoutResponse element.
func BuildLogout(l *LogoutSpec) (*etree.Element, error) {
	el := etree.NewElement("samlp:LogoutResponse")
	el.CreateAttr("xmlns:saml", NSAssertion)
	el.CreateAttr("xmlns:samlp", NSProtocol)
	el.CreateAttr("ID", l.ID)
	setAttr(el, "InResponseTo", l.InResponseTo)
	v := "2.0"
	if l.Version != nil {
		v = *l.Version
	}
	el.CreateAttr("Version", v)
	if l.IssueInstant != "-" { // "-" = no IssueInstant attribute at all
		el.CreateAttr("IssueInstant", l.IssueInstant)
	}
	setAttr(el, "Destination", l.Destination)
	if l.Issuer != nil {
		el.AddChild(issuerEl(*l.Issuer, l.IssuerFormat))
	}
	if st := statusEl(l.Status, nil); st != nil {
		el.AddChild(st)
	}
	if l.Sign != nil {
		if _, err := Sign(el, l.Sign, false); err != nil {
			return nil, err
		}
	}
	return el, nil
}

// ---------------------------------------------------------------- encryption (stdlib only)

type prng struct{ x uint64 }

func (p *prng) next() byte {
	p.x += 0x9e3779b97f4a7c15
	z := p.x
	z = (z ^ (z >> 30)) * 0xbf58476d1ce4e5b9
	z = (z ^ (z >> 27)) * 0x94d049bb133111eb
	return byte((z ^ (z >> 31)) >> 24)
}

func (p *prng) bytes(n int) []byte {
	b := make([]byte, n)
	for i := range b {
		b[i] = p.next()
	}
	return b
}

func (p *prng) Read(b []byte) (int, error) {
	for i := range b {
		b[i] = p.next()
	}
	return len(b), nil
}

// EncryptAssertion wraps plaintext bytes (any bytes) into an EncryptedAssertion
// addressed to e.To: AES-128-CBC content encryption (IV prefix, xmlenc padding)
// and RSA-OAEP (SHA-1, MGF1-SHA-1) key transport.
func EncryptAssertion(plain []byte, e *EncSpec) (*etree.Element, error) {
	p := &prng{x: e.Seed ^ 0x5eed}
	key := p.bytes(16)
	iv := p.bytes(16)
	blk, err := aes.NewCipher(key)
	if err != nil {
		return nil, err
	}
	pad := 16 - len(plain)%16
	buf := append([]byte{}, plain...)
	buf = append(buf, p.bytes(pad-1)...)
	buf = append(buf, byte(pad))
	ct := make([]byte, len(buf))
	cipher.NewCBCEncrypter(blk, iv).CryptBlocks(ct, buf)
	ct = append(append([]byte{}, iv...), ct...)

	kp := fix.Get(e.To)
	pub, ok := kp.Cert.PublicKey.(*rsa.PublicKey)
	if !ok {
		return nil, fmt.Errorf("recipient %s has no RSA key", e.To)
	}
	wrapped, err := rsa.EncryptOAEP(sha1.New(), p, pub, key, nil)
	if err != nil {
		return nil, err
	}

	ek := etree.NewElement("xenc:EncryptedKey")
	ek.CreateAttr("xmlns:xenc", NSXenc)
	em := ek.CreateElement("xenc:EncryptionMethod")
	em.CreateAttr("Algorithm", "http://www.w3.org/2001/04/xmlenc#rsa-oaep-mgf1p")
	dm := em.CreateElement("ds:DigestMethod")
	dm.CreateAttr("xmlns:ds", NSDsig)
	dm.CreateAttr("Algorithm", "http://www.w3.org/2000/09/xmldsig#sha1")
	if e.EmbedCert {
		ki := ek.CreateElement("ds:KeyInfo")
		ki.CreateAttr("xmlns:ds", NSDsig)
		ki.CreateElement("ds:X509Data").CreateElement("ds:X509Certificate").SetText(kp.CertB64())
	}
	ek.CreateElement("xenc:CipherData").CreateElement("xenc:CipherValue").SetText(base64.StdEncoding.EncodeToString(wrapped))

	ed := etree.NewElement("xenc:EncryptedData")
	ed.CreateAttr("xmlns:xenc", NSXenc)
	ed.CreateAttr("Type", "http://www.w3.org/2001/04/xmlenc#Element")
	ed.CreateElement("xenc:EncryptionMethod").CreateAttr("Algorithm", "http://www.w3.org/2001/04/xmlenc#aes128-cbc")
	ea := etree.NewElement("saml:EncryptedAssertion")
	ea.CreateAttr("xmlns:saml", NSAssertion)
	if e.Layout == "sibling" {
		ed.CreateElement("xenc:CipherData").CreateElement("xenc:CipherValue").SetText(base64.StdEncoding.EncodeToString(ct))
		ea.AddChild(ed)
		ea.AddChild(ek)
	} else {
		ki := ed.CreateElement("ds:KeyInfo")
		ki.CreateAttr("xmlns:ds", NSDsig)
		ki.AddChild(ek)
		ed.CreateElement("xenc:CipherData").CreateElement("xenc:CipherValue").SetText(base64.StdEncoding.EncodeToString(ct))
		ea.AddChild(ed)
	}
	return ea, nil
}

// DecryptAssertion is the independent (standard library only) inverse of what a
// conforming IdP emits: EncryptedAssertion > EncryptedData (AES-128/192/256-CBC, IV
// prefix, last-octet padding) whose key is wrapped with RSA-OAEP (SHA-1, MGF1-SHA-1)
// in an EncryptedKey nested in EncryptedData/KeyInfo or placed as sibling.
// It returns the plaintext, the content key and the IV.
func DecryptAssertion(ea *etree.Element, priv *rsa.PrivateKey) (plain, key, iv []byte, err error) {
	ed := ea.FindElement("./EncryptedData")
	if ed == nil {
		if ea.Tag == "EncryptedData" {
			ed = ea
		} else {
			return nil, nil, nil, fmt.Errorf("no EncryptedData")
		}
	}
	ek := ed.FindElement("./KeyInfo/EncryptedKey")
	if ek == nil {
		ek = ea.FindElement("./EncryptedKey")
	}
	if ek == nil {
		return nil, nil, nil, fmt.Errorf("no EncryptedKey")
	}
	cv := ek.FindElement("./CipherData/CipherValue")
	if cv == nil {
		return nil, nil, nil, fmt.Errorf("no key CipherValue")
	}
	wrapped, err := base64.StdEncoding.DecodeString(strings.TrimSpace(cv.Text()))
	if err != nil {
		return nil, nil, nil, err
	}
	key, err = rsa.DecryptOAEP(sha1.New(), nil, priv, wrapped, nil)
	if err != nil {
		return nil, nil, nil, fmt.Errorf("key transport: %w", err)
	}
	dv := ed.FindElement("./CipherData/CipherValue")
	if dv == nil {
		return nil, nil, nil, fmt.Errorf("no data CipherValue")
	}
	ct, err := base64.StdEncoding.DecodeString(strings.TrimSpace(dv.Text()))
	if err != nil {
		return nil, nil, nil, err
	}
	blk, err := aes.NewCipher(key)
	if err != nil {
		return nil, nil, nil, err
	}
	if len(ct) < 32 || len(ct)%16 != 0 {
		return nil, nil, nil, fmt.Errorf("cipher value length %d", len(ct))
	}
	iv = ct[:16]
	out := make([]byte, len(ct)-16)
	cipher.NewCBCDecrypter(blk, iv).CryptBlocks(out, ct[16:])
	pad := int(out[len(out)-1])
	if pad < 1 || pad > 16 || pad > len(out) {
		return nil, nil, nil, fmt.Errorf("bad padding %d", pad)
	}
	return out[:len(out)-pad], key, iv, nil
}
