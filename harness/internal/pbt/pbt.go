// Package pbt is the shared runner for every property package.
//
// A property package declares a Prop[C]: a JSON-serialisable case type C, a
// rapid generator, optional exhaustive enumerators and a Check function that
// executes the case against /repo and judges it with the property's oracle.
// pbt owns everything else: seeds, sharding, corpus replay, counting of
// evaluations / distinct non-trivial cases / classes, samples, known findings,
// replay files and the VIOLATION / KNOWN-FINDING lines.
//
// One test binary process = one shard.  Nothing here reads the wall clock for a
// decision or draws randomness outside rapid.
package pbt

import (
	"crypto/sha256"
	"encoding/binary"
	"encoding/json"
	"flag"
	"fmt"
	"os"
	"path/filepath"
	"runtime/debug"
	"sort"
	"strconv"
	"strings"
	"sync"
	"testing"
	"time"

	"pgregory.net/rapid"
)

// Result is the verdict of one executed case.
type Result struct {
	// Err is non-empty when the oracle judged the case a violation.
	Err string
	// NonTrivial states whether the case satisfies the property's non-trivial rule.
	NonTrivial bool
	// Classes are the generator/oracle classes this case falls into (histogram).
	Classes []string
	// Skip marks a case outside the property's domain (not counted, never judged).
	Skip bool
}

// Enum is one exhaustively enumerated finite sub-domain.
type Enum[C any] struct {
	Name string
	// Tiers restricts the enumeration to the named tiers ("" = both).
	Tiers string
	// Each must call emit for every member, in a deterministic order.
	Each func(tier string, emit func(C))
}

// Prop describes one property check.
type Prop[C any] struct {
	ID   string
	Rule string
	Gen  func(t *rapid.T) C
	// Check runs the case and applies the oracle.  It must recover panics of the
	// code under test itself where a panic is not by itself the violation; any
	// panic escaping Check is reported as a violation with its stack.
	Check func(c C) Result
	Enums []Enum[C]
	// Known maps a known-finding id (see /verif/known_findings.json) to the
	// predicate deciding whether a failing case is an instance of that finding.
	Known map[string]func(c C, r Result) bool
	// Reset restores process-global state before every case.
	Reset func()
	// Key, when set, replaces the JSON encoding of the case as distinctness key.
	Key func(c C) string
	// Assumptions copied into the evidence file.
	Assumptions []string
}

type knownEntry struct {
	Property string `json:"property"`
	ID       string `json:"id"`
	Status   string `json:"status"`
	What     string `json:"what"`
}

type violation struct {
	Replay string `json:"replay"`
	Err    string `json:"err"`
	Phase  string `json:"phase"`
}

type enumPart struct {
	Name       string `json:"name"`
	Size       int    `json:"size"`
	Exhaustive bool   `json:"exhaustive"`
}

// Report is what one shard writes to $VERIF_OUT/report.json.
type Report struct {
	ID             string            `json:"id"`
	Tier           string            `json:"tier"`
	Seed           int64             `json:"seed"`
	Shard          int               `json:"shard"`
	NShards        int               `json:"nshards"`
	RapidSeed      uint64            `json:"rapid_seed"`
	Evaluations    int               `json:"evaluations"`
	NonTrivial     int               `json:"nontrivial"`
	DistinctNT     int               `json:"distinct_nontrivial"`
	Skipped        int               `json:"skipped"`
	Classes        map[string]int    `json:"classes"`
	Samples        []json.RawMessage `json:"samples"`
	Parts          []enumPart        `json:"exhaustive_parts"`
	CorpusCases    int               `json:"corpus_cases"`
	RapidRequested int               `json:"rapid_requested"`
	RapidRan       int               `json:"rapid_ran"`
	KnownHits      map[string]int    `json:"known_hits"`
	KnownWhat      map[string]string `json:"known_what"`
	Violations     []violation       `json:"violations"`
	Rule           string            `json:"rule"`
	Assumptions    []string          `json:"assumptions"`
	Complete       bool              `json:"complete"`
}

type runner[C any] struct {
	p       *Prop[C]
	rep     Report
	hashes  map[uint64]struct{}
	perCls  map[string]int
	known   map[string]knownEntry
	out     string
	root    string
	phase   string
	mu      sync.Mutex
	fuzz    bool
	sinceFl int
	lastFl  time.Time

	inflightF   *os.File
	inflightOff bool
}

func envInt(name string, def int64) int64 {
	v := os.Getenv(name)
	if v == "" {
		return def
	}
	n, err := strconv.ParseInt(v, 10, 64)
	if err != nil {
		return def
	}
	return n
}

var fuzzing bool

// Fuzzing reports whether this process runs (or coordinates) a native fuzzing campaign.
// Generators use it to keep single cases cheap: the fuzzing engine kills a worker whose
// input takes longer than a few seconds, which would end the campaign without a verdict.
func Fuzzing() bool { return fuzzing }

// Tier returns the tier this process runs in ("quick" unless VERIF_TIER says otherwise).
func Tier() string {
	if os.Getenv("VERIF_TIER") == "thorough" {
		return "thorough"
	}
	return "quick"
}

// Thorough reports whether the thorough tier is running.
func Thorough() bool { return Tier() == "thorough" }

// Root is /verif (or $VERIF_ROOT).
func Root() string {
	if r := os.Getenv("VERIF_ROOT"); r != "" {
		return r
	}
	return "/verif"
}

func splitmix(x uint64) uint64 {
	x += 0x9e3779b97f4a7c15
	z := x
	z = (z ^ (z >> 30)) * 0xbf58476d1ce4e5b9
	z = (z ^ (z >> 27)) * 0x94d049bb133111eb
	return z ^ (z >> 31)
}

func rapidSeed(seed int64, id string, shard int) uint64 {
	h := sha256.Sum256([]byte(id))
	x := splitmix(uint64(seed) ^ binary.LittleEndian.Uint64(h[:8]))
	x = splitmix(x + uint64(shard)*0x1234567)
	x &= 0x7fffffffffffffff
	if x == 0 {
		x = 1
	}
	return x
}

func newRunner[C any](p *Prop[C]) *runner[C] {
	r := &runner[C]{p: p, hashes: map[uint64]struct{}{}, perCls: map[string]int{}, known: map[string]knownEntry{}}
	r.root = Root()
	r.out = os.Getenv("VERIF_OUT")
	r.rep = Report{
		ID: p.ID, Tier: Tier(), Seed: envInt("VERIF_SEED", 1),
		Shard: int(envInt("VERIF_SHARD", 0)), NShards: int(envInt("VERIF_NSHARDS", 1)),
		Classes: map[string]int{}, KnownHits: map[string]int{}, KnownWhat: map[string]string{},
		Rule: p.Rule, Assumptions: p.Assumptions,
	}
	if r.rep.NShards < 1 {
		r.rep.NShards = 1
	}
	r.rep.RapidSeed = rapidSeed(r.rep.Seed, p.ID, r.rep.Shard)
	// known findings: only entries listed as open in the committed file are active.
	if buf, err := os.ReadFile(filepath.Join(r.root, "known_findings.json")); err == nil {
		var f struct {
			Findings []knownEntry `json:"findings"`
		}
		if json.Unmarshal(buf, &f) == nil {
			for _, e := range f.Findings {
				if e.Property == p.ID && e.Status == "open" {
					r.known[e.ID] = e
				}
			}
		}
	}
	return r
}

func (r *runner[C]) key(c C) (string, []byte) {
	buf, err := json.Marshal(c)
	if err != nil {
		buf = []byte(fmt.Sprintf("%#v", c))
	}
	if r.p.Key != nil {
		return r.p.Key(c), buf
	}
	return string(buf), buf
}

// inflight records the case about to be judged in $VERIF_OUT/inflight.json, so that the driver can
// attribute a death of the whole process (a fatal runtime error such as a stack overflow cannot be
// recovered) to the input that caused it and replay that input in a fresh process.
func (r *runner[C]) inflight(raw []byte) {
	if r.fuzz || r.inflightOff {
		return
	}
	if r.inflightF == nil {
		out := os.Getenv("VERIF_OUT")
		if out == "" {
			r.inflightOff = true
			return
		}
		f, err := os.OpenFile(filepath.Join(out, "inflight.json"), os.O_CREATE|os.O_WRONLY|os.O_TRUNC, 0o644)
		if err != nil {
			r.inflightOff = true
			return
		}
		r.inflightF = f
	}
	_ = r.inflightF.Truncate(0)
	_, _ = r.inflightF.WriteAt(raw, 0)
}

// eval runs one case; it returns the failure text ("" when the case passed, was
// skipped or is an instance of an open known finding).
func (r *runner[C]) eval(c C) (fail string) {
	r.mu.Lock()
	defer r.mu.Unlock()
	if r.p.Reset != nil {
		r.p.Reset()
	}
	k, raw := r.key(c)
	r.inflight(raw)
	var res Result
	func() {
		defer func() {
			if e := recover(); e != nil {
				res = Result{Err: fmt.Sprintf("panic escaped the check: %v\n%s", e, debug.Stack()), NonTrivial: true, Classes: []string{"panic"}}
			}
		}()
		res = r.p.Check(c)
	}()
	if res.Skip {
		r.rep.Skipped++
		return ""
	}
	r.rep.Evaluations++
	for _, cl := range res.Classes {
		r.rep.Classes[cl]++
	}
	if res.NonTrivial {
		r.rep.NonTrivial++
		h := sha256.Sum256([]byte(k))
		r.hashes[binary.LittleEndian.Uint64(h[:8])] = struct{}{}
	}
	// samples: first case of every class (bounded), so the evidence shows one per class.
	if len(r.rep.Samples) < 12 && len(raw) <= 6000 && !(r.phase == "corpus" && r.rep.Shard != 0) {
		fresh := len(r.rep.Samples) == 0
		for _, cl := range res.Classes {
			if r.perCls[cl] == 0 {
				fresh = true
			}
			r.perCls[cl]++
		}
		if fresh && (res.NonTrivial || len(r.rep.Samples) == 0) {
			r.rep.Samples = append(r.rep.Samples, json.RawMessage(raw))
		}
	}
	if r.fuzz {
		// reporting only (never a verdict): flush the counters of this worker process now and then
		r.sinceFl++
		if r.sinceFl >= 2000 || time.Since(r.lastFl) > 2*time.Second {
			r.sinceFl = 0
			r.lastFl = time.Now()
			r.flush(false)
		}
	}
	if res.Err == "" {
		return ""
	}
	for id, e := range r.known {
		pred := r.p.Known[id]
		if pred != nil && pred(c, res) {
			r.rep.KnownHits[id]++
			r.rep.KnownWhat[id] = e.What
			return ""
		}
	}
	return res.Err
}

func (r *runner[C]) recordViolation(c C, msg string) {
	_, raw := r.key(c)
	h := sha256.Sum256(raw)
	dir := filepath.Join(r.root, "replays", r.p.ID)
	_ = os.MkdirAll(dir, 0o755)
	path := filepath.Join(dir, fmt.Sprintf("%x.json", h[:8]))
	_ = os.WriteFile(path, raw, 0o644)
	r.mu.Lock()
	r.rep.Violations = append(r.rep.Violations, violation{Replay: path, Err: firstLines(msg, 40), Phase: r.phase})
	r.mu.Unlock()
	text := fmt.Sprintf("VIOLATION property=%s replay=%s\nVIOLATION-DETAIL property=%s phase=%s %s\n", r.p.ID, path, r.p.ID, r.phase, strings.ReplaceAll(firstLines(msg, 40), "\n", "\n    "))
	fmt.Print(text)
	if r.out != "" {
		if f, err := os.OpenFile(filepath.Join(r.out, "violations.log"), os.O_APPEND|os.O_CREATE|os.O_WRONLY, 0o644); err == nil {
			_, _ = f.WriteString(text)
			_ = f.Close()
		}
	}
}

func firstLines(s string, n int) string {
	lines := strings.Split(s, "\n")
	if len(lines) > n {
		lines = lines[:n]
	}
	out := strings.Join(lines, "\n")
	if len(out) > 6000 {
		out = out[:6000]
	}
	return out
}

func (r *runner[C]) flush(complete bool) {
	if r.out == "" {
		return
	}
	_ = os.MkdirAll(r.out, 0o755)
	r.rep.DistinctNT = len(r.hashes)
	r.rep.Complete = complete
	name := "report.json"
	hname := "hashes.bin"
	if r.fuzz {
		name = fmt.Sprintf("fuzz-%d.json", os.Getpid())
		hname = fmt.Sprintf("fuzz-%d.bin", os.Getpid())
	}
	buf, _ := json.MarshalIndent(&r.rep, "", " ")
	tmp := filepath.Join(r.out, name+".tmp")
	if os.WriteFile(tmp, buf, 0o644) == nil {
		_ = os.Rename(tmp, filepath.Join(r.out, name))
	}
	hs := make([]uint64, 0, len(r.hashes))
	for h := range r.hashes {
		hs = append(hs, h)
	}
	sort.Slice(hs, func(i, j int) bool { return hs[i] < hs[j] })
	hb := make([]byte, 8*len(hs))
	for i, h := range hs {
		binary.LittleEndian.PutUint64(hb[8*i:], h)
	}
	tmp = filepath.Join(r.out, hname+".tmp")
	if os.WriteFile(tmp, hb, 0o644) == nil {
		_ = os.Rename(tmp, filepath.Join(r.out, hname))
	}
}

// Run is the single entry point of a property package's TestCheck.
func Run[C any](t *testing.T, p *Prop[C]) {
	r := newRunner(p)
	if path := os.Getenv("VERIF_REPLAY"); path != "" {
		r.replay(t, path)
		return
	}
	done := false
	defer func() {
		if !done {
			r.flush(false)
		}
	}()
	only := os.Getenv("VERIF_ONLY") // development aid: corpus|enum|rapid

	// 1. corpus (regression tier): every shard replays it; it is seconds.
	if only == "" || only == "corpus" {
		r.phase = "corpus"
		files, _ := filepath.Glob(filepath.Join(r.root, "corpus", p.ID, "*.json"))
		sort.Strings(files)
		for _, f := range files {
			buf, err := os.ReadFile(f)
			if err != nil {
				continue
			}
			var c C
			if err := json.Unmarshal(buf, &c); err != nil {
				t.Errorf("corpus file %s does not decode: %v", f, err)
				continue
			}
			if r.rep.Shard == 0 {
				r.rep.CorpusCases++
			}
			if msg := r.eval(c); msg != "" {
				if r.rep.Shard == 0 {
					r.recordViolation(c, msg)
				}
				t.Fail()
			}
		}
	}

	// 2. exhaustive enumerations, partitioned over shards by member index.
	if only == "" || only == "enum" {
		for _, e := range p.Enums {
			if e.Tiers != "" && e.Tiers != r.rep.Tier {
				continue
			}
			r.phase = "enum:" + e.Name
			idx, mine, failed := 0, 0, 0
			e.Each(r.rep.Tier, func(c C) {
				i := idx
				idx++
				if i%r.rep.NShards != r.rep.Shard {
					return
				}
				mine++
				if failed >= 3 {
					return
				}
				if msg := r.eval(c); msg != "" {
					failed++
					r.recordViolation(c, msg)
					t.Fail()
				}
			})
			r.rep.Parts = append(r.rep.Parts, enumPart{Name: e.Name, Size: mine, Exhaustive: true})
		}
	}

	// 3. random generation with rapid (shrinks; final minimal case is recorded).
	checks := int(envInt("VERIF_CHECKS", 100))
	if (only == "" || only == "rapid") && p.Gen != nil && checks > 0 {
		r.phase = "rapid"
		_ = os.RemoveAll("testdata/rapid")
		_ = flag.Set("rapid.checks", strconv.Itoa(checks))
		_ = flag.Set("rapid.seed", strconv.FormatUint(r.rep.RapidSeed, 10))
		_ = flag.Set("rapid.nofailfile", "true")
		if st := os.Getenv("VERIF_SHRINKTIME"); st != "" {
			_ = flag.Set("rapid.shrinktime", st)
		}
		r.rep.RapidRequested = checks
		var last *C
		var lastMsg string
		failedOnce := false
		t.Run("rapid", func(st *testing.T) {
			defer func() {
				// rapid ends a failing Check with t.FailNow (Goexit): the deferred
				// function still runs and sees the last (= minimal) failing case.
				if last != nil {
					r.recordViolation(*last, lastMsg)
				}
				_ = os.RemoveAll("testdata/rapid")
			}()
			rapid.Check(st, func(rt *rapid.T) {
				c := p.Gen(rt)
				if !failedOnce {
					r.rep.RapidRan++
				}
				if msg := r.eval(c); msg != "" {
					failedOnce = true
					cc := c
					last, lastMsg = &cc, msg
					rt.Fatalf("%s", firstLines(msg, 12))
				}
			})
		})
	}
	done = true
	r.flush(true)
}

func (r *runner[C]) replay(t *testing.T, path string) {
	buf, err := os.ReadFile(path)
	if err != nil {
		fmt.Printf("REPLAY-ERROR cannot read %s: %v\n", path, err)
		os.Exit(2)
	}
	var c C
	if err := json.Unmarshal(buf, &c); err != nil {
		fmt.Printf("REPLAY-ERROR %s does not decode as a %s case: %v\n", path, r.p.ID, err)
		os.Exit(2)
	}
	r.phase = "replay"
	msg := r.eval(c)
	for id, n := range r.rep.KnownHits {
		if n > 0 {
			fmt.Printf("KNOWN-FINDING: property=%s %s\n", r.p.ID, r.rep.KnownWhat[id])
		}
	}
	if msg != "" {
		fmt.Printf("VIOLATION property=%s replay=%s\n", r.p.ID, path)
		fmt.Printf("VIOLATION-DETAIL property=%s phase=replay %s\n", r.p.ID, strings.ReplaceAll(firstLines(msg, 60), "\n", "\n    "))
		t.Fail()
		return
	}
	fmt.Printf("REPLAY-OK property=%s %s\n", r.p.ID, path)
}

// Fuzz wires the same generator and oracle into Go's native coverage-guided
// fuzzer (thorough tier).  A failing input is written as a replay file at once,
// because the fuzzing worker is a separate process.
func Fuzz[C any](f *testing.F, p *Prop[C]) {
	fuzzing = true
	r := newRunner(p)
	r.fuzz = true
	r.phase = "fuzz"
	// Seeds: rapid.MakeFuzz reads its draws from the fuzz input; the fuzzer's own initial
	// inputs are too short for any structured generator, so long deterministic byte
	// strings of several textures are provided for it to mutate.
	for i := 0; i < 24; i++ {
		n := []int{512, 2048, 8192}[i%3]
		b := make([]byte, n)
		x := uint64(i+1) * 0x9e3779b97f4a7c15
		for j := range b {
			x = splitmix(x)
			switch i % 4 {
			case 0:
				b[j] = byte(x)
			case 1:
				b[j] = byte(x) & 0x0f // small draws: short collections, first alternatives
			case 2:
				b[j] = byte(x) | 0xc0 // large draws
			default:
				if j%8 < 7 {
					b[j] = 0
				} else {
					b[j] = byte(x)
				}
			}
		}
		f.Add(b)
	}
	f.Fuzz(rapid.MakeFuzz(func(rt *rapid.T) {
		c := p.Gen(rt)
		if msg := r.eval(c); msg != "" {
			r.recordViolation(c, msg)
			r.flush(false)
			rt.Fatalf("%s", firstLines(msg, 12))
		}
	}))
}
