// Package idpkit is the shared helper of the IdP-side checks C05, C06 and C07:
// IdP construction from fixture keys, ServiceProviderProvider / SessionProvider
// stubs, an AuthnRequest writer where every attribute and element is
// independently present or absent, the two request encodings, a reader of the
// emitted POST form (x/net/html), a stdlib-only opener for EncryptedAssertion,
// and signature verification through goxmldsig with nothing but the IdP
// certificate as trust root.  None of it calls into /repo except to construct
// the values the library's public API takes.
package idpkit

import (
	"bytes"
	"compress/flate"
	"crypto"
	"crypto/aes"
	"crypto/cipher"
	"crypto/rsa"
	_ "crypto/sha1"
	_ "crypto/sha256"
	_ "crypto/sha512"
	"crypto/x509"
	"encoding/base64"
	"encoding/xml"
	"errors"
	"fmt"
	"html/template"
	"io"
	"net/http"
	"net/http/httptest"
	"net/url"
	"os"
	"regexp"
	"sort"
	"strconv"
	"strings"
	"time"

	"github.com/beevik/etree"
	"github.com/crewjam/saml"
	dsig "github.com/russellhaering/goxmldsig"
	"github.com/russellhaering/goxmldsig/etreeutils"
	"golang.org/x/net/html"

	"verif/harness/internal/fix"
	"verif/harness/internal/idpkit/xmlw"
)

// TimeFormat is the xsd:dateTime form with millisecond resolution in UTC.
const TimeFormat = "2006-01-02T15:04:05.000Z"

// FormatTime writes t in TimeFormat.
func FormatTime(t time.Time) string { return t.UTC().Format(TimeFormat) }

// ---------------------------------------------------------------- stubs

// Quiet is a logger.Interface that discards everything and never exits.
type Quiet struct{ Lines []string }

func (q *Quiet) Printf(f string, v ...interface{}) { q.Lines = append(q.Lines, fmt.Sprintf(f, v...)) }
func (q *Quiet) Print(v ...interface{})            { q.Lines = append(q.Lines, fmt.Sprint(v...)) }
func (q *Quiet) Println(v ...interface{})          { q.Lines = append(q.Lines, fmt.Sprint(v...)) }
func (q *Quiet) Fatal(v ...interface{})            { panic("logger.Fatal: " + fmt.Sprint(v...)) }
func (q *Quiet) Fatalf(f string, v ...interface{}) { panic("logger.Fatalf: " + fmt.Sprintf(f, v...)) }
func (q *Quiet) Fatalln(v ...interface{})          { panic("logger.Fatalln: " + fmt.Sprint(v...)) }
func (q *Quiet) Panic(v ...interface{})            { panic("logger.Panic: " + fmt.Sprint(v...)) }
func (q *Quiet) Panicf(f string, v ...interface{}) { panic("logger.Panicf: " + fmt.Sprintf(f, v...)) }
func (q *Quiet) Panicln(v ...interface{})          { panic("logger.Panicln: " + fmt.Sprint(v...)) }

// Registry is a ServiceProviderProvider over a fixed map.
type Registry struct {
	M map[string]*saml.EntityDescriptor
	// Fault, when set for an id, is returned instead of a lookup result.
	Fault map[string]error
	Asked []string
}

// GetServiceProvider implements saml.ServiceProviderProvider.
func (r *Registry) GetServiceProvider(_ *http.Request, id string) (*saml.EntityDescriptor, error) {
	r.Asked = append(r.Asked, id)
	if err, ok := r.Fault[id]; ok {
		return nil, err
	}
	if md, ok := r.M[id]; ok {
		return md, nil
	}
	return nil, os.ErrNotExist
}

// Sessions is a SessionProvider that always answers with S and records the
// IdpAuthnRequest values the IdP showed it (the observation point for the
// selected ACS endpoint in the Serve* flows).
type Sessions struct {
	S    *saml.Session
	Seen []*saml.IdpAuthnRequest
}

// GetSession implements saml.SessionProvider.
func (s *Sessions) GetSession(_ http.ResponseWriter, _ *http.Request, req *saml.IdpAuthnRequest) *saml.Session {
	s.Seen = append(s.Seen, req)
	return s.S
}

// OpaqueSigner hides the concrete key type: only crypto.Signer is visible.
type OpaqueSigner struct{ inner crypto.Signer }

func (o OpaqueSigner) Public() crypto.PublicKey { return o.inner.Public() }
func (o OpaqueSigner) Sign(r io.Reader, digest []byte, opts crypto.SignerOpts) ([]byte, error) {
	return o.inner.Sign(r, digest, opts)
}

// ---------------------------------------------------------------- IdP

// RSA signature methods the IdP can be configured with ("" = library default, rsa-sha1).
var RSAMethods = []string{
	"",
	dsig.RSASHA1SignatureMethod,
	dsig.RSASHA256SignatureMethod,
	dsig.RSASHA384SignatureMethod,
	dsig.RSASHA512SignatureMethod,
}

// IDPConf is a generated IdP configuration.
type IDPConf struct {
	Base          string `json:"base"`                  // e.g. https://idp.example.com
	MetaSuffix    string `json:"meta_suffix,omitempty"` // query / fragment carried by the metadata URL, which is the entity ID
	KeyName       string `json:"key_name,omitempty"`    // fixture; "" = idp
	Signer        bool   `json:"signer,omitempty"`      // use an opaque crypto.Signer instead of Key
	StaleKey      bool   `json:"stale_key,omitempty"`   // with Signer: Key is ALSO set, to another (stale) private key; the Signer, whose public key the certificate carries, is what must be used
	SigMethod     string `json:"sig_method,omitempty"`
	Intermediates int    `json:"intermediates,omitempty"`
	// configuration fields no clause of C05-C07 mentions: varied, never judged by themselves
	Logout     bool `json:"logout,omitempty"`      // LogoutURL = Base + "/slo"
	Login      bool `json:"login,omitempty"`       // LoginURL = Base + "/login"
	ValidHours int  `json:"valid_hours,omitempty"` // ValidDuration (0 = unset)
	Template   bool `json:"template,omitempty"`    // an own ResponseFormTemplate with a different page layout
	Maker      bool `json:"maker,omitempty"`       // AssertionMaker set explicitly to DefaultAssertionMaker{}
}

// LogoutURL is the single-logout URL the IdP publishes when Logout is set.
func (c IDPConf) LogoutURL() string { return c.Base + "/slo" }

// LoginURL is the login page URL when Login is set.
func (c IDPConf) LoginURL() string { return c.Base + "/login" }

// OtherIdentifiers lists URLs of the same deployment that are NOT the SSO URL.
func (c IDPConf) OtherIdentifiers() []string {
	return []string{c.LogoutURL(), c.EntityID(), c.LoginURL(), c.Base, c.Base + "/"}
}

// an equivalent page with another layout: extra markup around, fields in another order
var altFormTemplate = template.Must(template.New("alt-saml-post-form").Parse(`<!DOCTYPE html><html><head><title>Continue</title></head><body>` +
	`<p>Signing you in &hellip;</p><form id="f" action="{{.URL}}" method="POST">` +
	`<div><input type="hidden" name="RelayState" value="{{.RelayState}}"></div>` +
	`<div><input type="hidden" name="SAMLResponse" value="{{.SAMLResponse}}"></div>` +
	`<noscript><button type="submit">Continue</button></noscript></form>` +
	`<script>document.getElementById('f').submit();</script></body></html>`))

// Keys returns the fixture pair of the configuration.
func (c IDPConf) Keys() *fix.KeyPair {
	if c.KeyName == "" {
		return fix.Get("idp")
	}
	return fix.Get(c.KeyName)
}

// EntityID is the IdP's entity ID (its metadata URL).
func (c IDPConf) EntityID() string { return c.Base + "/metadata" + c.MetaSuffix }

// SSOURL is the IdP's single sign-on URL.
func (c IDPConf) SSOURL() string { return c.Base + "/sso" }

// EffectiveMethod is the signature method URI the emitted signatures must name.
func (c IDPConf) EffectiveMethod() string {
	if c.SigMethod == "" {
		return dsig.RSASHA1SignatureMethod
	}
	return c.SigMethod
}

// Build constructs the IdP.
func (c IDPConf) Build(reg saml.ServiceProviderProvider, sess saml.SessionProvider) *saml.IdentityProvider {
	idp := &saml.IdentityProvider{Logger: &Quiet{}, ServiceProviderProvider: reg, SessionProvider: sess}
	c.Apply(idp)
	return idp
}

// Apply (re-)configures every public configuration field of a long-lived
// IdentityProvider value in place; Logger, ServiceProviderProvider and
// SessionProvider are kept.  What the IdP emits afterwards is judged against c.
func (c IDPConf) Apply(idp *saml.IdentityProvider) {
	kp := c.Keys()
	mu, _ := url.Parse(c.EntityID())
	su, _ := url.Parse(c.SSOURL())
	idp.Certificate = kp.Cert
	idp.MetadataURL = *mu
	idp.SSOURL = *su
	idp.SignatureMethod = c.SigMethod
	idp.Key, idp.Signer = nil, nil
	if c.Signer {
		idp.Signer = OpaqueSigner{kp.Key}
		if c.StaleKey {
			stale := "idp2"
			if kp.Name == "idp2" {
				stale = "idp"
			}
			idp.Key = fix.Get(stale).Key
		}
	} else {
		idp.Key = kp.Key
	}
	idp.Intermediates = nil
	extra := []string{"idp2", "idpenc"}
	for i := 0; i < c.Intermediates && i < len(extra); i++ {
		idp.Intermediates = append(idp.Intermediates, fix.Get(extra[i]).Cert)
	}
	idp.LogoutURL, idp.LoginURL = url.URL{}, url.URL{}
	if c.Logout {
		u, _ := url.Parse(c.LogoutURL())
		idp.LogoutURL = *u
	}
	if c.Login {
		u, _ := url.Parse(c.LoginURL())
		idp.LoginURL = *u
	}
	idp.ValidDuration = nil
	if c.ValidHours != 0 {
		d := time.Duration(c.ValidHours) * time.Hour
		idp.ValidDuration = &d
	}
	idp.ResponseFormTemplate = nil
	if c.Template {
		idp.ResponseFormTemplate = altFormTemplate
	}
	idp.AssertionMaker = nil
	if c.Maker {
		idp.AssertionMaker = saml.DefaultAssertionMaker{}
	}
}

// GenExtras fills the configuration fields no clause mentions from four drawn integers.
func (c IDPConf) WithExtras(logout, login bool, validHours int, tmpl, maker bool) IDPConf {
	c.Logout, c.Login, c.ValidHours, c.Template, c.Maker = logout, login, validHours, tmpl, maker
	return c
}

// ---------------------------------------------------------------- sessions

// Attr is a custom attribute of a session.
type Attr struct {
	Name         string   `json:"name"`
	FriendlyName string   `json:"friendly_name,omitempty"`
	NameFormat   string   `json:"name_format,omitempty"`
	Values       []string `json:"values"`
}

// Sess is the JSON form of a saml.Session.
type Sess struct {
	ID           string   `json:"id"`
	Index        string   `json:"index,omitempty"`
	NameID       string   `json:"name_id"`
	NameIDFormat string   `json:"name_id_format,omitempty"`
	SubjectID    string   `json:"subject_id,omitempty"`
	Groups       []string `json:"groups,omitempty"`
	UserName     string   `json:"user_name,omitempty"`
	Email        string   `json:"email,omitempty"`
	CommonName   string   `json:"common_name,omitempty"`
	Surname      string   `json:"surname,omitempty"`
	GivenName    string   `json:"given_name,omitempty"`
	Affiliation  string   `json:"affiliation,omitempty"`
	EPPN         string   `json:"eppn,omitempty"`
	Custom       []Attr   `json:"custom,omitempty"`
}

// Session converts to the library type.
func (s Sess) Session(created time.Time) *saml.Session {
	out := &saml.Session{
		ID: s.ID, CreateTime: created, ExpireTime: created.Add(time.Hour), Index: s.Index,
		NameID: s.NameID, NameIDFormat: s.NameIDFormat, SubjectID: s.SubjectID,
		Groups: s.Groups, UserName: s.UserName, UserEmail: s.Email, UserCommonName: s.CommonName,
		UserSurname: s.Surname, UserGivenName: s.GivenName, UserScopedAffiliation: s.Affiliation,
		EduPersonPrincipalName: s.EPPN,
	}
	for _, a := range s.Custom {
		at := saml.Attribute{Name: a.Name, FriendlyName: a.FriendlyName, NameFormat: a.NameFormat}
		for _, v := range a.Values {
			at.Values = append(at.Values, saml.AttributeValue{Type: "xs:string", Value: v})
		}
		out.CustomAttributes = append(out.CustomAttributes, at)
	}
	return out
}

// Strings lists every string of the session (all positions).
func (s Sess) Strings() []string {
	out := []string{s.ID, s.Index, s.NameID, s.NameIDFormat, s.SubjectID, s.UserName, s.Email, s.CommonName, s.Surname, s.GivenName, s.Affiliation, s.EPPN}
	out = append(out, s.Groups...)
	for _, a := range s.Custom {
		out = append(out, a.Name, a.FriendlyName, a.NameFormat)
		out = append(out, a.Values...)
	}
	return out
}

// IdentityStrings lists the strings the properties name: name identifier, user
// attributes, groups and custom attribute names / friendly names / values.
func (s Sess) IdentityStrings() []string {
	out := []string{s.NameID, s.SubjectID, s.UserName, s.Email, s.CommonName, s.Surname, s.GivenName, s.Affiliation, s.EPPN}
	out = append(out, s.Groups...)
	for _, a := range s.Custom {
		out = append(out, a.Name, a.FriendlyName)
		out = append(out, a.Values...)
	}
	return out
}

// WantAttr is one expected (name, friendly name, values) triple.
type WantAttr struct {
	Name, FriendlyName string
	Values             []string
}

// ExpectedAttributes is the reference mapping session -> ordered attribute list
// of the default assertion maker, for a registered SP that requests no
// attributes: the standard LDAP / eduPerson object identifiers for the user
// fields that are set, then the custom attributes as given, then the groups,
// then the subject-id.
func (s Sess) ExpectedAttributes() []WantAttr {
	var out []WantAttr
	add := func(name, friendly string, vals ...string) {
		out = append(out, WantAttr{name, friendly, vals})
	}
	if s.UserName != "" {
		add("urn:oid:0.9.2342.19200300.100.1.1", "uid", s.UserName)
	}
	if s.Email != "" {
		add("urn:oid:0.9.2342.19200300.100.1.3", "mail", s.Email)
	}
	if s.EPPN != "" {
		add("urn:oid:1.3.6.1.4.1.5923.1.1.1.6", "eduPersonPrincipalName", s.EPPN)
	} else if s.Email != "" {
		add("urn:oid:1.3.6.1.4.1.5923.1.1.1.6", "eduPersonPrincipalName", s.Email)
	}
	if s.Surname != "" {
		add("urn:oid:2.5.4.4", "sn", s.Surname)
	}
	if s.GivenName != "" {
		add("urn:oid:2.5.4.42", "givenName", s.GivenName)
	}
	if s.CommonName != "" {
		add("urn:oid:2.5.4.3", "cn", s.CommonName)
	}
	if s.Affiliation != "" {
		add("urn:oid:1.3.6.1.4.1.5923.1.1.1.9", "scopedAffiliation", s.Affiliation)
	}
	for _, a := range s.Custom {
		out = append(out, WantAttr{a.Name, a.FriendlyName, append([]string(nil), a.Values...)})
	}
	if len(s.Groups) > 0 {
		add("urn:oid:1.3.6.1.4.1.5923.1.1.1.1", "eduPersonAffiliation", s.Groups...)
	}
	if s.SubjectID != "" {
		add("urn:oasis:names:tc:SAML:attribute:subject-id", "", s.SubjectID)
	}
	return out
}

// ---------------------------------------------------------------- requests

// ReqSpec describes an AuthnRequest document; nil = attribute / element absent.
type ReqSpec struct {
	ID           *string `json:"id"`
	Version      *string `json:"version"`
	IssueInstant *string `json:"issue_instant"`
	Destination  *string `json:"destination"`
	Issuer       *string `json:"issuer"`
	ACSURL       *string `json:"acs_url"`
	ACSIndex     *string `json:"acs_index"`
	Binding      *string `json:"protocol_binding,omitempty"`
	// Style: 0 = samlp:/saml: prefixes, 1 = default namespace on the root and on Issuer,
	// 2 = unusual prefixes, 3 = prefixes plus XML declaration, comment and NameIDPolicy.
	Style int `json:"style,omitempty"`
	// Rot rotates the attribute order.
	Rot int `json:"rot,omitempty"`
	// Opt is the optional request content, all of it chosen by whoever builds the request.
	Opt ReqOptional `json:"optional"`
}

// ReqOptional is the optional content of an AuthnRequest (saml-core 3.4.1): the IdP
// does not verify request signatures, so every value here is attacker-controlled.
type ReqOptional struct {
	SubjectNameID       *string `json:"subject_name_id,omitempty"` // <saml:Subject><saml:NameID>
	SubjectFormat       string  `json:"subject_format,omitempty"`
	SubjectConfirmation bool    `json:"subject_confirmation,omitempty"` // bearer SubjectConfirmation inside the requested Subject
	Extensions          *string `json:"extensions,omitempty"`           // text of a foreign element inside samlp:Extensions
	PolicyFormat        *string `json:"policy_format,omitempty"`        // NameIDPolicy
	PolicySPNameQual    *string `json:"policy_sp_name_qualifier,omitempty"`
	PolicyAllowCreate   *string `json:"policy_allow_create,omitempty"`
	ConditionsAudience  *string `json:"conditions_audience,omitempty"` // saml:Conditions/AudienceRestriction/Audience
	AuthnContextClass   *string `json:"authn_context_class,omitempty"` // samlp:RequestedAuthnContext
	RequesterID         *string `json:"requester_id,omitempty"`        // samlp:Scoping/RequesterID
	ProviderName        *string `json:"provider_name,omitempty"`
	AttrSvcIndex        *string `json:"attribute_consuming_service_index,omitempty"`
	ForceAuthn          *string `json:"force_authn,omitempty"`
	IsPassive           *string `json:"is_passive,omitempty"`
	Consent             *string `json:"consent,omitempty"`
}

// Strings lists every value of the optional content (for containment checks).
func (o ReqOptional) Strings() []string {
	var out []string
	for _, p := range []*string{o.SubjectNameID, o.Extensions, o.PolicyFormat, o.PolicySPNameQual, o.ConditionsAudience, o.AuthnContextClass, o.RequesterID, o.ProviderName, o.Consent} {
		if p != nil && *p != "" {
			out = append(out, *p)
		}
	}
	return out
}

// P returns a pointer to s.
func P(s string) *string { return &s }

func escAttr(s string) string {
	var b strings.Builder
	for _, r := range s {
		switch r {
		case '&':
			b.WriteString("&amp;")
		case '<':
			b.WriteString("&lt;")
		case '>':
			b.WriteString("&gt;")
		case '"':
			b.WriteString("&quot;")
		case '\t':
			b.WriteString("&#x9;")
		case '\n':
			b.WriteString("&#xA;")
		case '\r':
			b.WriteString("&#xD;")
		default:
			b.WriteRune(r)
		}
	}
	return b.String()
}

func escText(s string) string {
	var b strings.Builder
	for _, r := range s {
		switch r {
		case '&':
			b.WriteString("&amp;")
		case '<':
			b.WriteString("&lt;")
		case '>':
			b.WriteString("&gt;")
		case '\r':
			b.WriteString("&#xD;")
		default:
			b.WriteRune(r)
		}
	}
	return b.String()
}

// XML writes the request document.
func (s ReqSpec) XML() []byte {
	type kv struct{ k, v string }
	var attrs []kv
	add := func(k string, v *string) {
		if v != nil {
			attrs = append(attrs, kv{k, *v})
		}
	}
	add("ID", s.ID)
	add("Version", s.Version)
	add("IssueInstant", s.IssueInstant)
	add("Destination", s.Destination)
	add("AssertionConsumerServiceURL", s.ACSURL)
	add("AssertionConsumerServiceIndex", s.ACSIndex)
	add("ProtocolBinding", s.Binding)
	add("ProviderName", s.Opt.ProviderName)
	add("AttributeConsumingServiceIndex", s.Opt.AttrSvcIndex)
	add("ForceAuthn", s.Opt.ForceAuthn)
	add("IsPassive", s.Opt.IsPassive)
	add("Consent", s.Opt.Consent)
	if n := len(attrs); n > 0 && s.Rot > 0 {
		r := s.Rot % n
		attrs = append(attrs[r:], attrs[:r]...)
	}
	var b strings.Builder
	p, a := "samlp", "saml"
	switch s.Style {
	case 1:
		p, a = "", ""
	case 2:
		p, a = "q", "zz9"
	case 3:
		b.WriteString("<?xml version=\"1.0\" encoding=\"UTF-8\"?>\n<!-- request -->\n")
	}
	name := func(prefix, local string) string {
		if prefix == "" {
			return local
		}
		return prefix + ":" + local
	}
	b.WriteString("<" + name(p, "AuthnRequest"))
	if p == "" {
		b.WriteString(` xmlns="` + xmlw.NSProtocol + `"`)
	} else {
		b.WriteString(` xmlns:` + p + `="` + xmlw.NSProtocol + `" xmlns:` + a + `="` + xmlw.NSAssertion + `"`)
	}
	for _, x := range attrs {
		b.WriteString(" " + x.k + `="` + escAttr(x.v) + `"`)
	}
	b.WriteString(">")
	if s.Issuer != nil {
		if a == "" {
			b.WriteString(`<Issuer xmlns="` + xmlw.NSAssertion + `">` + escText(*s.Issuer) + `</Issuer>`)
		} else {
			b.WriteString("<" + a + `:Issuer Format="urn:oasis:names:tc:SAML:2.0:nameid-format:entity">` + escText(*s.Issuer) + "</" + a + ":Issuer>")
		}
	}
	// open writes "<prefix:local" (or "<local xmlns=...") for an element of the protocol (proto) or assertion namespace
	open := func(proto bool, local string) string {
		pre, ns := a, xmlw.NSAssertion
		if proto {
			pre, ns = p, xmlw.NSProtocol
		}
		if pre == "" {
			return "<" + local + ` xmlns="` + ns + `"`
		}
		return "<" + pre + ":" + local
	}
	end := func(proto bool, local string) string {
		pre := a
		if proto {
			pre = p
		}
		return "</" + name(pre, local) + ">"
	}
	o := s.Opt
	if o.Extensions != nil {
		b.WriteString(open(true, "Extensions") + `><x:note xmlns:x="urn:example:extension" who="` + escAttr(*o.Extensions) + `">` + escText(*o.Extensions) + `</x:note>` + end(true, "Extensions"))
	}
	if o.SubjectNameID != nil {
		b.WriteString(open(false, "Subject") + ">" + open(false, "NameID"))
		if o.SubjectFormat != "" {
			b.WriteString(` Format="` + escAttr(o.SubjectFormat) + `"`)
		}
		b.WriteString(">" + escText(*o.SubjectNameID) + end(false, "NameID"))
		if o.SubjectConfirmation {
			b.WriteString(open(false, "SubjectConfirmation") + ` Method="urn:oasis:names:tc:SAML:2.0:cm:bearer">` + end(false, "SubjectConfirmation"))
		}
		b.WriteString(end(false, "Subject"))
	}
	if o.PolicyFormat != nil || o.PolicySPNameQual != nil || o.PolicyAllowCreate != nil {
		b.WriteString(open(true, "NameIDPolicy"))
		for _, x := range []kv{{"Format", ""}, {"SPNameQualifier", ""}, {"AllowCreate", ""}} {
			var v *string
			switch x.k {
			case "Format":
				v = o.PolicyFormat
			case "SPNameQualifier":
				v = o.PolicySPNameQual
			default:
				v = o.PolicyAllowCreate
			}
			if v != nil {
				b.WriteString(" " + x.k + `="` + escAttr(*v) + `"`)
			}
		}
		b.WriteString("/>")
	} else if s.Style == 3 {
		b.WriteString("<" + name(p, "NameIDPolicy") + ` AllowCreate="true" Format="urn:oasis:names:tc:SAML:2.0:nameid-format:transient"/>`)
	}
	if o.ConditionsAudience != nil {
		b.WriteString(open(false, "Conditions") + ">" + open(false, "AudienceRestriction") + ">" + open(false, "Audience") + ">" + escText(*o.ConditionsAudience) +
			end(false, "Audience") + end(false, "AudienceRestriction") + end(false, "Conditions"))
	}
	if o.AuthnContextClass != nil {
		b.WriteString(open(true, "RequestedAuthnContext") + ` Comparison="exact">` + open(false, "AuthnContextClassRef") + ">" + escText(*o.AuthnContextClass) +
			end(false, "AuthnContextClassRef") + end(true, "RequestedAuthnContext"))
	}
	if o.RequesterID != nil {
		b.WriteString(open(true, "Scoping") + ` ProxyCount="1">` + open(true, "RequesterID") + ">" + escText(*o.RequesterID) + end(true, "RequesterID") + end(true, "Scoping"))
	}
	b.WriteString("</" + name(p, "AuthnRequest") + ">")
	return []byte(b.String())
}

// Encode wraps a request document into an HTTP request to ssoURL using the
// HTTP-Redirect ("GET": raw deflate, base64, query) or HTTP-POST encoding.
func Encode(method string, doc []byte, relayState string, ssoURL string) *http.Request {
	switch method {
	case "GET":
		var z bytes.Buffer
		w, _ := flate.NewWriter(&z, flate.DefaultCompression)
		_, _ = w.Write(doc)
		_ = w.Close()
		q := "SAMLRequest=" + url.QueryEscape(base64.StdEncoding.EncodeToString(z.Bytes()))
		if relayState != "" {
			q += "&RelayState=" + url.QueryEscape(relayState)
		}
		sep := "?"
		if strings.Contains(ssoURL, "?") {
			sep = "&"
		}
		r := httptest.NewRequest("GET", ssoURL+sep+q, nil)
		r.RemoteAddr = "192.0.2.7:4711"
		return r
	default:
		form := url.Values{}
		form.Set("SAMLRequest", base64.StdEncoding.EncodeToString(doc))
		if relayState != "" {
			form.Set("RelayState", relayState)
		}
		r := httptest.NewRequest("POST", ssoURL, strings.NewReader(form.Encode()))
		r.Header.Set("Content-Type", "application/x-www-form-urlencoded")
		r.RemoteAddr = "192.0.2.7:4711"
		return r
	}
}

// ---------------------------------------------------------------- emitted form

// Form is what a browser would see in an emitted page.
type Form struct {
	NForms int
	Action string
	Method string
	Fields map[string]string // name -> value of <input> elements inside the first form
	Order  []string
}

// ReadForm parses an HTML page with x/net/html.
func ReadForm(page []byte) (*Form, error) {
	doc, err := html.Parse(bytes.NewReader(page))
	if err != nil {
		return nil, err
	}
	f := &Form{Fields: map[string]string{}}
	var walk func(n *html.Node, in bool)
	walk = func(n *html.Node, in bool) {
		if n.Type == html.ElementNode && n.Data == "form" {
			f.NForms++
			if f.NForms == 1 {
				in = true
				for _, a := range n.Attr {
					switch a.Key {
					case "action":
						f.Action = a.Val
					case "method":
						f.Method = a.Val
					}
				}
			} else {
				in = false
			}
		}
		if in && n.Type == html.ElementNode && n.Data == "input" {
			var name, val string
			has := false
			for _, a := range n.Attr {
				switch a.Key {
				case "name":
					name, has = a.Val, true
				case "value":
					val = a.Val
				}
			}
			if has {
				if _, dup := f.Fields[name]; !dup {
					f.Order = append(f.Order, name)
				}
				f.Fields[name] = val
			}
		}
		for c := n.FirstChild; c != nil; c = c.NextSibling {
			walk(c, in)
		}
	}
	walk(doc, false)
	if f.NForms == 0 {
		return nil, errors.New("no form element in the page")
	}
	return f, nil
}

// ---------------------------------------------------------------- EncryptedAssertion (stdlib only)

// ErrUnsupported is returned by OpenEncrypted for algorithms the local helper does not implement.
var ErrUnsupported = errors.New("idpkit: algorithm not implemented by the local reference")

func b64(s string) ([]byte, error) {
	s = strings.Map(func(r rune) rune {
		switch r {
		case ' ', '\t', '\n', '\r':
			return -1
		}
		return r
	}, s)
	return base64.StdEncoding.DecodeString(s)
}

// OpenEncrypted opens a saml:EncryptedAssertion (xenc:EncryptedData with an
// embedded RSA-OAEP EncryptedKey and an AES-CBC body: IV prefix, last octet =
// pad length) with the standard library only.
func OpenEncrypted(enc *xmlw.Node, key *rsa.PrivateKey) ([]byte, error) {
	ed := enc.Kid(xmlw.NSXenc, "EncryptedData")
	if ed == nil {
		return nil, errors.New("EncryptedAssertion without exactly one EncryptedData")
	}
	em := ed.Kid(xmlw.NSXenc, "EncryptionMethod")
	if em == nil {
		return nil, errors.New("EncryptedData without EncryptionMethod")
	}
	alg, _ := em.Attr("Algorithm")
	keyLen := map[string]int{
		"http://www.w3.org/2001/04/xmlenc#aes128-cbc": 16,
		"http://www.w3.org/2001/04/xmlenc#aes192-cbc": 24,
		"http://www.w3.org/2001/04/xmlenc#aes256-cbc": 32,
	}[alg]
	if keyLen == 0 {
		return nil, fmt.Errorf("%w: block cipher %q", ErrUnsupported, alg)
	}
	ek := ed.Path(xmlw.NSDsig, "KeyInfo", xmlw.NSXenc, "EncryptedKey")
	if ek == nil {
		return nil, errors.New("EncryptedData without KeyInfo/EncryptedKey")
	}
	kem := ek.Kid(xmlw.NSXenc, "EncryptionMethod")
	if kem == nil {
		return nil, errors.New("EncryptedKey without EncryptionMethod")
	}
	kalg, _ := kem.Attr("Algorithm")
	kcv := ek.Path(xmlw.NSXenc, "CipherData", xmlw.NSXenc, "CipherValue")
	if kcv == nil {
		return nil, errors.New("EncryptedKey without CipherValue")
	}
	wrapped, err := b64(kcv.Text)
	if err != nil {
		return nil, fmt.Errorf("EncryptedKey CipherValue: %v", err)
	}
	var cek []byte
	switch kalg {
	case "http://www.w3.org/2001/04/xmlenc#rsa-oaep-mgf1p":
		h := crypto.SHA1
		if dm := kem.Kid(xmlw.NSDsig, "DigestMethod"); dm != nil {
			d, _ := dm.Attr("Algorithm")
			switch d {
			case "http://www.w3.org/2000/09/xmldsig#sha1":
			case "http://www.w3.org/2001/04/xmlenc#sha256":
				h = crypto.SHA256
			case "http://www.w3.org/2001/04/xmlenc#sha512":
				h = crypto.SHA512
			default:
				return nil, fmt.Errorf("%w: OAEP digest %q", ErrUnsupported, d)
			}
		}
		// rsa-oaep-mgf1p: the mask generation function is MGF1 with SHA-1 (XML Encryption 1.0, 5.4.2);
		// MGF1 with the digest itself is tried as well so that the opener never depends on that detail.
		cek, err = key.Decrypt(nil, wrapped, &rsa.OAEPOptions{Hash: h, MGFHash: crypto.SHA1})
		if err != nil && h != crypto.SHA1 {
			cek, err = key.Decrypt(nil, wrapped, &rsa.OAEPOptions{Hash: h, MGFHash: h})
		}
	case "http://www.w3.org/2001/04/xmlenc#rsa-1_5":
		cek, err = rsa.DecryptPKCS1v15(nil, key, wrapped)
	default:
		return nil, fmt.Errorf("%w: key transport %q", ErrUnsupported, kalg)
	}
	if err != nil {
		return nil, fmt.Errorf("content key does not open with the SP key: %v", err)
	}
	if len(cek) != keyLen {
		return nil, fmt.Errorf("content key has %d octets, %s needs %d", len(cek), alg, keyLen)
	}
	cv := ed.Path(xmlw.NSXenc, "CipherData", xmlw.NSXenc, "CipherValue")
	if cv == nil {
		return nil, errors.New("EncryptedData without CipherValue")
	}
	body, err := b64(cv.Text)
	if err != nil {
		return nil, fmt.Errorf("EncryptedData CipherValue: %v", err)
	}
	if len(body) < 2*aes.BlockSize || len(body)%aes.BlockSize != 0 {
		return nil, fmt.Errorf("cipher value of %d octets is not IV + whole blocks", len(body))
	}
	blk, err := aes.NewCipher(cek)
	if err != nil {
		return nil, err
	}
	pt := make([]byte, len(body)-aes.BlockSize)
	cipher.NewCBCDecrypter(blk, body[:aes.BlockSize]).CryptBlocks(pt, body[aes.BlockSize:])
	pad := int(pt[len(pt)-1])
	if pad < 1 || pad > aes.BlockSize {
		return nil, fmt.Errorf("pad length octet %d outside 1..16", pad)
	}
	return pt[:len(pt)-pad], nil
}

// ---------------------------------------------------------------- signatures

// SigInfo is what an independent verifier sees of one enveloped signature.
type SigInfo struct {
	Method string
	Err    error
}

func validationContext(cert *x509.Certificate) *dsig.ValidationContext {
	ctx := dsig.NewDefaultValidationContext(&dsig.MemoryX509CertificateStore{Roots: []*x509.Certificate{cert}})
	ctx.IdAttribute = "ID"
	ctx.Clock = dsig.NewFakeClockAt(fix.Epoch)
	return ctx
}

func detached(el *etree.Element) (*etree.Element, error) {
	ctx, err := etreeutils.NSBuildParentContext(el)
	if err != nil {
		return nil, err
	}
	ctx, err = ctx.SubContext(el)
	if err != nil {
		return nil, err
	}
	return etreeutils.NSDetatch(ctx, el)
}

func methodOf(el *etree.Element) string {
	for _, c := range el.ChildElements() {
		if c.Tag == "Signature" {
			if sm := c.FindElement("./SignedInfo/SignatureMethod"); sm != nil {
				return sm.SelectAttrValue("Algorithm", "")
			}
		}
	}
	return ""
}

// VerifyRoot verifies the enveloped signature on the root element of doc with a
// fresh validation context that trusts only cert.
func VerifyRoot(doc []byte, cert *x509.Certificate) SigInfo {
	d := etree.NewDocument()
	if err := d.ReadFromBytes(doc); err != nil {
		return SigInfo{Err: err}
	}
	if d.Root() == nil {
		return SigInfo{Err: errors.New("no root")}
	}
	info := SigInfo{Method: methodOf(d.Root())}
	_, info.Err = validationContext(cert).Validate(d.Root())
	return info
}

// VerifyChild verifies the enveloped signature on the single direct child
// <local> (any prefix) of the root of doc, in its namespace context.
func VerifyChild(doc []byte, local string, cert *x509.Certificate) SigInfo {
	d := etree.NewDocument()
	if err := d.ReadFromBytes(doc); err != nil {
		return SigInfo{Err: err}
	}
	if d.Root() == nil {
		return SigInfo{Err: errors.New("no root")}
	}
	var target *etree.Element
	for _, c := range d.Root().ChildElements() {
		if c.Tag == local {
			if target != nil {
				return SigInfo{Err: fmt.Errorf("more than one %s", local)}
			}
			target = c
		}
	}
	if target == nil {
		return SigInfo{Err: fmt.Errorf("no %s child", local)}
	}
	info := SigInfo{Method: methodOf(target)}
	el, err := detached(target)
	if err != nil {
		info.Err = err
		return info
	}
	_, info.Err = validationContext(cert).Validate(el)
	return info
}

// ---------------------------------------------------------------- metadata helpers

// RoundTrip marshals md to XML and parses it back (how a peer would receive it).
func RoundTrip(md *saml.EntityDescriptor) (*saml.EntityDescriptor, []byte, error) {
	buf, err := xml.Marshal(md)
	if err != nil {
		return nil, nil, err
	}
	var out saml.EntityDescriptor
	if err := xml.Unmarshal(buf, &out); err != nil {
		return nil, buf, err
	}
	return &out, buf, nil
}

// EndpointKey is the by-value identity of an IndexedEndpoint.
func EndpointKey(e *saml.IndexedEndpoint) string {
	if e == nil {
		return "<nil>"
	}
	r, d := "-", "-"
	if e.ResponseLocation != nil {
		r = "=" + *e.ResponseLocation
	}
	if e.IsDefault != nil {
		d = fmt.Sprint(*e.IsDefault)
	}
	return fmt.Sprintf("%s|%s|%s|%d|%s", e.Binding, e.Location, r, e.Index, d)
}

// AllACS lists the ACS endpoints of md in document order.
func AllACS(md *saml.EntityDescriptor) []saml.IndexedEndpoint {
	var out []saml.IndexedEndpoint
	if md == nil {
		return nil
	}
	for _, d := range md.SPSSODescriptors {
		out = append(out, d.AssertionConsumerServices...)
	}
	return out
}

// SortedKeys returns the keys of m in order.
func SortedKeys[V any](m map[string]V) []string {
	out := make([]string, 0, len(m))
	for k := range m {
		out = append(out, k)
	}
	sort.Strings(out)
	return out
}

// ---------------------------------------------------------------- ACS selection oracle (C05, C06)

// CanonicalInt matches the canonical decimal spelling of an integer (what strconv.Itoa writes).
var CanonicalInt = regexp.MustCompile(`^(0|-?[1-9][0-9]*)$`)

// InSet reports whether b is one of set.
func InSet(b string, set ...string) bool {
	for _, x := range set {
		if b == x {
			return true
		}
	}
	return false
}

// Member reports whether sel equals (by value) one of list.
func Member(sel saml.IndexedEndpoint, list []saml.IndexedEndpoint) bool {
	k := EndpointKey(&sel)
	for i := range list {
		if EndpointKey(&list[i]) == k {
			return true
		}
	}
	return false
}

func isTrue(p *bool) bool  { return p != nil && *p }
func isFalse(p *bool) bool { return p != nil && !*p }

// Keys prints a list of endpoints.
func Keys(list []saml.IndexedEndpoint) string {
	var out []string
	for i := range list {
		out = append(out, EndpointKey(&list[i]))
	}
	return "[" + strings.Join(out, ", ") + "]"
}

// JudgeSelection judges the selected endpoint against the registered provider's
// endpoints; it returns "" or the complaint, and a label for the rule applied.
func JudgeSelection(sel *saml.IndexedEndpoint, md *saml.EntityDescriptor, reqIndex, reqURL *string) (string, string) {
	reg := AllACS(md)
	if sel == nil {
		return "processing succeeded with no ACS endpoint selected", "none"
	}
	if !Member(*sel, reg) {
		return fmt.Sprintf("selected endpoint %s is not one of the registered provider's endpoints %s", EndpointKey(sel), Keys(reg)), "membership"
	}
	idxPresent, urlPresent := reqIndex != nil, reqURL != nil
	if (idxPresent && *reqIndex == "") || (urlPresent && *reqURL == "") {
		return "", "open:empty-attribute"
	}
	if idxPresent {
		if !CanonicalInt.MatchString(*reqIndex) {
			return "", "open:index-not-canonical"
		}
		found := false
		for _, e := range reg {
			if strconv.Itoa(e.Index) == *reqIndex {
				found = true
			}
		}
		if found {
			if strconv.Itoa(sel.Index) != *reqIndex {
				return fmt.Sprintf("index %s requested and registered, but the selected endpoint %s has another index", *reqIndex, EndpointKey(sel)), "by-index"
			}
			return "", "by-index"
		}
	}
	if urlPresent {
		found := false
		for _, e := range reg {
			if e.Location == *reqURL {
				found = true
			}
		}
		if found {
			if sel.Location != *reqURL {
				return fmt.Sprintf("URL %q requested and registered, but the selected endpoint is %s", *reqURL, EndpointKey(sel)), "by-url"
			}
			return "", "by-url"
		}
	}
	if idxPresent || urlPresent {
		return "", "open:requested-not-found"
	}
	// neither requested: default, else first browser-binding endpoint
	if !InSet(sel.Binding, saml.HTTPPostBinding, saml.HTTPRedirectBinding, saml.HTTPArtifactBinding) {
		return fmt.Sprintf("nothing requested: selected endpoint %s is not a browser-binding endpoint", EndpointKey(sel)), "default"
	}
	var defStrict, defLoose []saml.IndexedEndpoint
	for _, e := range reg {
		if isTrue(e.IsDefault) && InSet(e.Binding, saml.HTTPPostBinding, saml.HTTPRedirectBinding) {
			defStrict = append(defStrict, e)
		}
		if isTrue(e.IsDefault) && InSet(e.Binding, saml.HTTPPostBinding, saml.HTTPRedirectBinding, saml.HTTPArtifactBinding) {
			defLoose = append(defLoose, e)
		}
	}
	if len(defStrict) > 0 {
		if !Member(*sel, defLoose) {
			return fmt.Sprintf("nothing requested and a default browser-binding endpoint exists %s, but %s was selected", Keys(defStrict), EndpointKey(sel)), "default"
		}
		return "", "default"
	}
	if len(defLoose) > 0 {
		return "", "open:artifact-default"
	}
	var cands []saml.IndexedEndpoint
	for _, set := range [][]string{{saml.HTTPPostBinding, saml.HTTPRedirectBinding}, {saml.HTTPPostBinding, saml.HTTPRedirectBinding, saml.HTTPArtifactBinding}} {
		for _, skipFalse := range []bool{false, true} {
			for _, e := range reg {
				if InSet(e.Binding, set...) && !(skipFalse && isFalse(e.IsDefault)) {
					cands = append(cands, e)
					break
				}
			}
		}
	}
	if !Member(*sel, cands) {
		return fmt.Sprintf("nothing requested, no default: selected %s is not the first browser-binding endpoint (candidates %s)", EndpointKey(sel), Keys(cands)), "first"
	}
	return "", "first"
}

// ---------------------------------------------------------------- deterministic failure texts

// Replaying reports whether a single case is being replayed (./check ID --replay F).
// rapid only shrinks a failure whose message is identical on every re-run, so
// texts that contain random identifiers, signatures or addresses are appended
// to a failure only when replaying.
func Replaying() bool { return os.Getenv("VERIF_REPLAY") != "" }

// Detail returns s when replaying and "" otherwise.
func Detail(s string) string {
	if Replaying() {
		return s
	}
	return " (replay the case for the emitted document)"
}

// CleanStack reduces a debug.Stack() dump to its function names inside the
// library (no addresses, no goroutine numbers): deterministic for one case.
func CleanStack(stack []byte, max int) string {
	var out []string
	for _, l := range strings.Split(string(stack), "\n") {
		if l == "" || strings.HasPrefix(l, "\t") || strings.HasPrefix(l, "goroutine ") {
			continue
		}
		if i := strings.LastIndex(l, "("); i > 0 {
			l = l[:i]
		}
		if !strings.Contains(l, "crewjam/saml") {
			continue
		}
		out = append(out, "  at "+l)
		if len(out) >= max {
			break
		}
	}
	return strings.Join(out, "\n")
}

// AllowedTargets derives, from the request and the registered metadata alone
// (nothing the implementation stored), the Locations a response form may be
// posted to: the Location of every registered HTTP-POST endpoint that the
// selection rule admits for this request.  initiated = IdP-initiated launch
// (any registered HTTP-POST endpoint).
func AllowedTargets(md *saml.EntityDescriptor, reqIndex, reqURL *string, initiated bool) []string {
	var out []string
	for _, e := range AllACS(md) {
		e := e
		if e.Binding != saml.HTTPPostBinding {
			continue
		}
		if !initiated {
			if complaint, _ := JudgeSelection(&e, md, reqIndex, reqURL); complaint != "" {
				continue
			}
		}
		out = append(out, e.Location)
	}
	return out
}
