// Package xmlw is a small independent XML reader used by the IdP-side oracles
// (C05-C07).  It builds a namespace-resolved element tree directly on top of
// encoding/xml's tokenizer; it shares no code with /repo, etree or goxmldsig.
package xmlw

import (
	"bytes"
	"encoding/xml"
	"fmt"
	"io"
	"strings"
)

// Namespaces used by the oracles.
const (
	NSAssertion = "urn:oasis:names:tc:SAML:2.0:assertion"
	NSProtocol  = "urn:oasis:names:tc:SAML:2.0:protocol"
	NSDsig      = "http://www.w3.org/2000/09/xmldsig#"
	NSXenc      = "http://www.w3.org/2001/04/xmlenc#"
	NSXSI       = "http://www.w3.org/2001/XMLSchema-instance"
)

// Attr is one attribute with its resolved namespace ("" for unqualified ones).
type Attr struct {
	Space, Local, Value string
}

// Node is one element.
type Node struct {
	Space, Local string
	Attrs        []Attr // namespace declarations are not listed
	Children     []*Node
	// Text is the concatenation of the element's own character data (not of descendants).
	Text   string
	Parent *Node
}

// Parse reads exactly one document: one root element, nothing but white space,
// comments and processing instructions around it.
func Parse(b []byte) (*Node, error) {
	d := xml.NewDecoder(bytes.NewReader(b))
	d.Strict = true
	var root, cur *Node
	for {
		tok, err := d.Token()
		if err == io.EOF {
			break
		}
		if err != nil {
			return nil, err
		}
		switch t := tok.(type) {
		case xml.StartElement:
			n := &Node{Space: t.Name.Space, Local: t.Name.Local, Parent: cur}
			for _, a := range t.Attr {
				if a.Name.Space == "xmlns" || (a.Name.Space == "" && a.Name.Local == "xmlns") {
					continue
				}
				n.Attrs = append(n.Attrs, Attr{a.Name.Space, a.Name.Local, a.Value})
			}
			if cur == nil {
				if root != nil {
					return nil, fmt.Errorf("xmlw: second root element <%s>", t.Name.Local)
				}
				root = n
			} else {
				cur.Children = append(cur.Children, n)
			}
			cur = n
		case xml.EndElement:
			if cur == nil {
				return nil, fmt.Errorf("xmlw: unbalanced end element")
			}
			cur = cur.Parent
		case xml.CharData:
			if cur == nil {
				if strings.TrimSpace(string(t)) != "" {
					return nil, fmt.Errorf("xmlw: text outside the root element")
				}
				continue
			}
			cur.Text += string(t)
		}
	}
	if root == nil {
		return nil, fmt.Errorf("xmlw: no root element")
	}
	if cur != nil {
		return nil, fmt.Errorf("xmlw: unexpected end of document")
	}
	return root, nil
}

// Is reports whether the element has the given expanded name.
func (n *Node) Is(space, local string) bool { return n != nil && n.Space == space && n.Local == local }

// Attr returns the value of the unqualified attribute.
func (n *Node) Attr(local string) (string, bool) {
	for _, a := range n.Attrs {
		if a.Space == "" && a.Local == local {
			return a.Value, true
		}
	}
	return "", false
}

// AttrNS returns the value of a namespace-qualified attribute.
func (n *Node) AttrNS(space, local string) (string, bool) {
	for _, a := range n.Attrs {
		if a.Space == space && a.Local == local {
			return a.Value, true
		}
	}
	return "", false
}

// Kids returns the direct children with the given expanded name.
func (n *Node) Kids(space, local string) []*Node {
	var out []*Node
	for _, c := range n.Children {
		if c.Space == space && c.Local == local {
			out = append(out, c)
		}
	}
	return out
}

// Kid returns the only direct child with that name, or nil when there is none or more than one.
func (n *Node) Kid(space, local string) *Node {
	k := n.Kids(space, local)
	if len(k) != 1 {
		return nil
	}
	return k[0]
}

// Path follows single children: Path(ns1, "A", ns2, "B") = n/A/B.
func (n *Node) Path(names ...string) *Node {
	cur := n
	for i := 0; i+1 < len(names) && cur != nil; i += 2 {
		cur = cur.Kid(names[i], names[i+1])
	}
	return cur
}

// All returns every descendant (document order, n excluded) with the given expanded name.
func (n *Node) All(space, local string) []*Node {
	var out []*Node
	var walk func(*Node)
	walk = func(x *Node) {
		for _, c := range x.Children {
			if c.Space == space && c.Local == local {
				out = append(out, c)
			}
			walk(c)
		}
	}
	walk(n)
	return out
}

// Walk calls f for n and every descendant in document order.
func (n *Node) Walk(f func(*Node)) {
	f(n)
	for _, c := range n.Children {
		c.Walk(f)
	}
}

// Strings returns every attribute value and every text of the subtree (for marker searches).
func (n *Node) Strings() []string {
	var out []string
	n.Walk(func(x *Node) {
		for _, a := range x.Attrs {
			out = append(out, a.Value)
		}
		if x.Text != "" {
			out = append(out, x.Text)
		}
	})
	return out
}
