// Package idpsrv is the shared driver for the bundled IdP server (samlidp) used by
// the C19 (histories) and C20 (schedules) checks: the small alphabets, requests as
// data, an in-process request executor with a counting response writer, the reply
// reader (x/net/html forms, SAMLResponse decoding) and the observing / fault
// injecting Store wrapper.
package idpsrv

import (
	"bytes"
	"crypto/sha256"
	"encoding/base64"
	"encoding/binary"
	"encoding/json"
	"encoding/xml"
	"errors"
	"fmt"
	"html/template"
	"io"
	"log"
	"net/http"
	"net/http/httptest"
	"net/url"
	"sort"
	"strings"
	"sync"
	"time"

	"github.com/beevik/etree"
	"github.com/crewjam/saml"
	"github.com/crewjam/saml/samlidp"
	"github.com/crewjam/saml/xmlenc"
	"golang.org/x/net/html"

	"verif/harness/internal/fix"
)

// ---------------------------------------------------------------- alphabets

// UserNames is the user alphabet.
// The last name needs escaping in a URL path and in a form.
// The names after it are near-misses of "alice": objects of their own that must never be
// confused with it (trailing blank, case, trailing slash).
var UserNames = []string{"alice", "bob", "carol", "d/e f+g%2Fh", "alice ", "Alice", "alice/"}

// Passwords is the password alphabet.  Index 3 is the empty password, 4 and 5 begin / end
// with white space (they must work exactly as given), 6.. are near-misses of the others
// (white space at either end, case, NUL, a Unicode look-alike of the hyphen, the trimmed
// forms of 4 and 5): none of them is the same password as its neighbour.
var Passwords = []string{"pw-zero", "pw-one", "pw-two", "", " pw lead", "pw trail ",
	"pw-zero ", " pw-zero", "pw-zero\n", "PW-ZERO", "pw-zero\x00", "pw\u2010zero", "pw lead", "pw trail", "\tpw-one\r\n",
	long72 + "tail-one", long72 + "tail-two", long72}

// long72 is 72 bytes long - the longest password bcrypt hashes.  Passwords 15 and 16 are longer and share
// it as their beginning (a server may refuse to store them; if it stores one, only that very string is the
// user's password), 17 is the 72-byte string itself.  They have no entry in LowCostHashes.
const long72 = "Lq7-Lq7-Lq7-Lq7-Lq7-Lq7-Lq7-Lq7-Lq7-Lq7-Lq7-Lq7-Lq7-Lq7-Lq7-Lq7-Lq7-Lq7-"

// NearMissPasswords lists, for a password index, the indices of its near-misses.
func NearMissPasswords(pw int) []int {
	switch pw {
	case 0:
		return []int{6, 7, 8, 9, 10, 11}
	case 1:
		return []int{14}
	case 4:
		return []int{12}
	case 5:
		return []int{13}
	case 6, 7, 8, 9, 10, 11:
		return []int{0}
	case 12:
		return []int{4}
	case 13:
		return []int{5}
	case 14:
		return []int{1}
	case 15:
		return []int{16, 17}
	case 16:
		return []int{15, 17}
	case 17:
		return []int{15, 16}
	}
	return nil
}

// LowCostHashes are bcrypt.MinCost hashes of Passwords (the hash carries its cost).
var LowCostHashes = []string{
	"$2a$04$TTLUvVOC0YVgSAKhKhDEQ.lnDVA.qN34AjSmwjLnK1eBk4kq4AkeG",
	"$2a$04$Qxd8V/XtDlwNsruGYvlc8.kRiQYYvzDrGwLv9W7Iper.tEYMgGTCa",
	"$2a$04$nqwAhgWYFkjA.zJHoHDurOlFIYd5EPhPQemIQyvNNlhdJOWIEg5yG",
	"$2a$04$DHPChXBcp5FvO9M3VP3tz.UuxFKK/0kdvpExcJq68ZO.TRiHOh.1y",
	"$2a$04$VQ.NkzHhLxM0cLJPcQnYKemjviTPlOHq7OAzygeVyov4bHIR37iky", // " pw lead"
	"$2a$04$IirpBGP7PipMrd2VCkE0uub3kor4iy2n/eegVNNJXkTDTauOwx3q.", // "pw trail "
	"$2a$04$39bkWb.bCTnyoEDQKRaqnuLC0kTF9FHXoRSzUZKK6MOvcZQXUfueu", // "pw-zero "
	"$2a$04$CFmC1OHmwL/OeZQcKGTG6uGv.wWTJz22RydjfEEZEBf93y9gSHd5u", // " pw-zero"
	"$2a$04$p7Zr6Gc2KIEAPhMUdErh5OZhZvuppISeXlR.wgyRjGcK1u1kIqlSa", // "pw-zero\n"
	"$2a$04$v/d89geJrWzJEzupCOWDLePrjAezNLlPiDDF7aEwZaVLkw7MLHWMK", // "PW-ZERO"
	"$2a$04$MmhAsg3OKw3gDp8AMCO6H.g1hgdxt.gDeAnhTv31.0SFJNfy234w2", // "pw-zero\x00"
	"$2a$04$/dDoXdN4qeUvvMt.PMqI0.Uasf8G.2nLlDxh4OVViGl/HJoBvQXru", // "pw\u2010zero"
	"$2a$04$L/ohmRESwUMC6Cgghf4SHOuC3UVHleIziBCzho90btsMLv89uWwt6", // "pw lead"
	"$2a$04$HAs.CTeYKGVuCDn2At2QdOoI0SLqvz6wZiq2YDqsgFCR.bppdc7dm", // "pw trail"
	"$2a$04$lUrV5qrB5geT9lK/LD1E6OFi9turTooAsup9UFNjIzjnJSyVLeaga", // "\tpw-one\r\n"
}

// Profile is the descriptive part of a user record.
type Profile struct {
	Email, CommonName, Surname, GivenName, ScopedAffiliation string
	Groups                                                   []string
}

// Profiles are the three profile variants a user record can carry.  The e-mail
// (= NameID) embeds the user name so that assertions name their user.
func ProfileOf(user string, variant int) Profile {
	switch variant {
	case 3: // markup characters, non-ASCII, inner double space (no leading / trailing white space, no CR)
		return Profile{Email: user + "+tag@\u00fc.example", CommonName: `O'Brien & <S\u00f6hne> "x"`, Surname: "\u00dcn\u00efcode \u65e5\u672c", GivenName: "a  b", ScopedAffiliation: "x&y@three.example", Groups: []string{"g&1", "<g2>", "g 3", "g0"}}
	case 1:
		return Profile{Email: user + "@one.example", CommonName: "Cn One " + user, Surname: "Sn1", GivenName: "Gn1-" + user, ScopedAffiliation: "staff@one.example", Groups: []string{"g1", "shared"}}
	case 2:
		return Profile{Email: user + "@two.example", CommonName: "", Surname: "Sn2", GivenName: "", ScopedAffiliation: "", Groups: nil}
	default:
		return Profile{Email: user + "@zero.example", CommonName: "Cn Zero " + user, Surname: "Sn0-" + user, GivenName: "Gn0", ScopedAffiliation: "member@zero.example", Groups: []string{"g0"}}
	}
}

// NProfiles is the number of profile variants.
const NProfiles = 4

// ServiceNames is the service-name alphabet.
var ServiceNames = []string{"svc-a", "svc-b", "svc-c", "svc d/\u00e9+%2F?x", "svc-a/", "SVC-A", "svc-a%2F"}

// ShortcutNames is the shortcut-name alphabet.
var ShortcutNames = []string{"sc-x", "sc-y", "sc z/+ q#r", "sc-x/", "SC-X", "sc-x "}

// Entities: two registrable entity IDs and one that is never registered.
// Indices 3.. are near-misses of entity 0 (trailing slash, case, a query, a trailing blank,
// percent-encoding): entity IDs are opaque strings, each of these is a different SP.
var Entities = []string{"https://sp-one.example/saml/metadata", "https://sp-two.example/saml/metadata", "https://sp-none.example/saml/metadata",
	"https://sp-one.example/saml/metadata/", "https://SP-ONE.example/saml/metadata", "https://sp-one.example/saml/metadata?v=1",
	"https://sp-one.example/saml/metadata ", "https://sp-one.example/saml%2Fmetadata"}

// NearMissEntities lists the entity indices that are near-misses of entity e.
func NearMissEntities(e int) []int {
	if e == 0 {
		return []int{3, 4, 5, 6, 7}
	}
	if e >= 3 {
		return []int{0}
	}
	return nil
}

// ACS URLs; the last one is in no metadata variant.
var ACS = []string{"https://sp-one.example/saml/acs", "https://sp-one.example/saml/acs-b", "https://sp-two.example/saml/acs", "https://sp-two.example/saml/acs-d", "https://evil.example/acs"}

// MDVariant is one metadata document a service can be stored with.
type MDVariant struct {
	Entity int
	// ACS is the set of ACS URLs (indices) of the registration, over all its descriptors.
	ACS     []int
	Encrypt bool
	// Layout, when set, spreads the endpoints over several SPSSODescriptors and decorates
	// them (binding, ResponseLocation, isDefault); otherwise one descriptor with POST endpoints.
	Layout [][]ACSSpec
	// Extras adds role descriptors, organisation and contact data no clause mentions.
	Extras bool
}

// ACSSpec is one assertion consumer endpoint of a Layout.
type ACSSpec struct {
	URL      int
	Redirect bool
	RespLoc  bool
	Default  bool
}

// Variants: two entity IDs x two ACS sets.
var Variants = []MDVariant{
	{Entity: 0, ACS: []int{0}},
	{Entity: 0, ACS: []int{1}},
	{Entity: 1, ACS: []int{2}, Encrypt: true},
	{Entity: 1, ACS: []int{3, 2}},
	// two SPSSODescriptors, endpoints with ResponseLocation, further role descriptors
	{Entity: 0, ACS: []int{1, 0}, Layout: [][]ACSSpec{{{URL: 1, RespLoc: true}}, {{URL: 0, RespLoc: true, Default: true}}}, Extras: true},
	// a POST endpoint followed by a redirect-bound default endpoint
	{Entity: 1, ACS: []int{2, 3}, Layout: [][]ACSSpec{{{URL: 2, RespLoc: true}, {URL: 3, Redirect: true, Default: true}}}, Extras: true},
	// registrations of the near-miss entity IDs of entity 0 (variants 6..10)
	{Entity: 3, ACS: []int{0}},
	{Entity: 4, ACS: []int{1}},
	{Entity: 5, ACS: []int{0}},
	{Entity: 6, ACS: []int{0}},
	{Entity: 7, ACS: []int{1}},
}

// RelayStates used in requests and shortcuts.
var RelayStates = []string{"", "rs1", "relayTWO"}

// MetadataXML renders variant v.
func MetadataXML(v int) []byte {
	if v < 0 || v >= len(Variants) {
		return []byte("<not-metadata")
	}
	mv := Variants[v]
	sp := fix.Get("sp")
	layout := mv.Layout
	if layout == nil {
		var one []ACSSpec
		for _, a := range mv.ACS {
			one = append(one, ACSSpec{URL: a})
		}
		layout = [][]ACSSpec{one}
	}
	e := saml.EntityDescriptor{EntityID: Entities[mv.Entity], ValidUntil: fix.Epoch.Add(10 * 365 * 24 * time.Hour)}
	idx := 0
	for _, specs := range layout {
		d := saml.SPSSODescriptor{}
		d.ProtocolSupportEnumeration = "urn:oasis:names:tc:SAML:2.0:protocol"
		kd := saml.KeyDescriptor{Use: "signing"}
		kd.KeyInfo.X509Data.X509Certificates = []saml.X509Certificate{{Data: sp.CertB64()}}
		d.KeyDescriptors = append(d.KeyDescriptors, kd)
		if mv.Encrypt {
			ke := saml.KeyDescriptor{Use: "encryption", EncryptionMethods: []saml.EncryptionMethod{
				{Algorithm: "http://www.w3.org/2001/04/xmlenc#aes128-cbc"},
				{Algorithm: "http://www.w3.org/2001/04/xmlenc#rsa-oaep-mgf1p"},
			}}
			ke.KeyInfo.X509Data.X509Certificates = []saml.X509Certificate{{Data: sp.CertB64()}}
			d.KeyDescriptors = append(d.KeyDescriptors, ke)
		}
		for _, a := range specs {
			idx++
			ep := saml.IndexedEndpoint{Binding: saml.HTTPPostBinding, Location: ACS[a.URL], Index: idx}
			if a.Redirect {
				ep.Binding = saml.HTTPRedirectBinding
			}
			if a.RespLoc {
				r := ACS[a.URL] + "/response"
				ep.ResponseLocation = &r
			}
			if a.Default {
				t := true
				ep.IsDefault = &t
			}
			d.AssertionConsumerServices = append(d.AssertionConsumerServices, ep)
		}
		if mv.Extras {
			d.SingleLogoutServices = []saml.Endpoint{{Binding: saml.HTTPPostBinding, Location: Entities[mv.Entity] + "/slo", ResponseLocation: Entities[mv.Entity] + "/slo-done"}}
			d.NameIDFormats = []saml.NameIDFormat{saml.EmailAddressNameIDFormat, saml.TransientNameIDFormat}
			// what real SPs publish: attribute consuming services whose requested attributes
			// come with and without NameFormat / FriendlyName / isRequired.  Their friendly
			// names start with "req-" so that the subject comparison can tell them apart.
			yes, no := true, false
			basic := "urn:oasis:names:tc:SAML:2.0:attrname-format:basic"
			ra := func(name, friendly, format string, required *bool) saml.RequestedAttribute {
				return saml.RequestedAttribute{Attribute: saml.Attribute{Name: name, FriendlyName: friendly, NameFormat: format}, IsRequired: required}
			}
			d.AttributeConsumingServices = []saml.AttributeConsumingService{
				{Index: 1, ServiceNames: []saml.LocalizedName{{Lang: "en", Value: "first"}},
					RequestedAttributes: []saml.RequestedAttribute{ra("email", "req-email", basic, &yes), ra("uid", "", "", nil), ra("cn", "req-cn", "", &no)}},
				{Index: 2, IsDefault: &yes, ServiceNames: []saml.LocalizedName{{Lang: "en", Value: "default"}},
					RequestedAttributes: []saml.RequestedAttribute{ra("surname", "req-sn", "", &yes), ra("givenName", "req-gn", basic, nil), ra("uid", "req-uid", "", nil),
						ra("email", "", "urn:oasis:names:tc:SAML:2.0:attrname-format:uri", &no), ra("telephone", "req-tel", "", nil)}},
			}
		}
		e.SPSSODescriptors = append(e.SPSSODescriptors, d)
	}
	if mv.Extras {
		e.Organization = &saml.Organization{OrganizationNames: []saml.LocalizedName{{Lang: "en", Value: "Org & Co"}}, OrganizationURLs: []saml.LocalizedURI{{Lang: "en", Value: "https://org.example/"}}}
		e.ContactPerson = &saml.ContactPerson{ContactType: "technical", GivenName: "T", EmailAddresses: []string{"t@org.example"}}
		rd := saml.RoleDescriptor{ProtocolSupportEnumeration: "urn:oasis:names:tc:SAML:2.0:protocol"}
		e.AttributeAuthorityDescriptors = []saml.AttributeAuthorityDescriptor{{RoleDescriptor: rd, AttributeServices: []saml.Endpoint{{Binding: saml.SOAPBinding, Location: Entities[mv.Entity] + "/aa"}}}}
	}
	b, err := xml.Marshal(&e)
	if err != nil {
		panic(err)
	}
	return b
}

// VariantOfMetadata recognises which variant a stored EntityDescriptor is (-1: none).
func VariantOfMetadata(e *saml.EntityDescriptor) int {
	var locs []string
	for _, d := range e.SPSSODescriptors {
		for _, a := range d.AssertionConsumerServices {
			locs = append(locs, a.Location)
		}
	}
	for i, mv := range Variants {
		if e.EntityID != Entities[mv.Entity] || len(locs) != len(mv.ACS) {
			continue
		}
		nd := 1
		if mv.Layout != nil {
			nd = len(mv.Layout)
		}
		ok := nd == len(e.SPSSODescriptors)
		for j, a := range mv.ACS {
			if locs[j] != ACS[a] {
				ok = false
			}
		}
		if ok {
			return i
		}
	}
	return -1
}

// ---------------------------------------------------------------- requests as data

// Cookie says which session cookie a request carries.
type Cookie struct {
	// Kind: "" / "none", "session" (Idx-th session created in this run, in creation order;
	// out of range = no cookie) or "forged" (Val verbatim).
	Kind string `json:"kind,omitempty"`
	Idx  int    `json:"idx,omitempty"`
	Val  string `json:"val,omitempty"`
}

// Step is one action of a history / one request of a schedule.
type Step struct {
	// Op: put_user seed_user del_user get_user list_users put_service del_service get_service
	// list_services put_shortcut del_shortcut get_shortcut list_shortcuts login sso launch
	// del_session get_session list_sessions clock metadata
	Op      string `json:"op"`
	Name    string `json:"name,omitempty"`    // user / service / shortcut name (put/del/get, launch)
	Pw      int    `json:"pw"`                // password index (put_user, seed_user, login, sso); -1 = none
	Profile int    `json:"profile,omitempty"` // profile variant (put_user, seed_user)
	MD      int    `json:"md,omitempty"`      // metadata variant (put_service); -1 = not metadata
	Method  string `json:"method,omitempty"`  // GET / POST / PUT where the route allows several
	Issuer  int    `json:"issuer,omitempty"`  // entity index (sso: request issuer; put_shortcut: target SP)
	ACS     int    `json:"acs,omitempty"`     // ACS index in the AuthnRequest; -1 = none in the request
	User    string `json:"user,omitempty"`    // credentials in the form (login, sso, launch); "" = none
	Cookie  Cookie `json:"cookie,omitempty"`
	Relay   int    `json:"relay,omitempty"`   // relay-state variant (sso, put_shortcut: 0 = nil, 1.. fixed)
	Suffix  string `json:"suffix,omitempty"`  // launch URL suffix; put_shortcut: "y" = url_suffix_as_relay_state
	Delta   int64  `json:"delta,omitempty"`   // clock: seconds
	Session Cookie `json:"session,omitempty"` // del_session / get_session: which session id
	Bad     bool   `json:"bad,omitempty"`     // put_user / put_shortcut / put_service: the body is not a document of its type
}

// IsRequest reports whether the step is an HTTP request (not a clock / seed step).
func (s Step) IsRequest() bool { return s.Op != "clock" && s.Op != "seed_user" }

// ---------------------------------------------------------------- store wrapper

// OpRec is one store operation seen by the wrapper.
type OpRec struct {
	Op    string // get put delete list
	Key   string
	Fault string // "" = passed through
	Value string // put: JSON written
	Err   bool   // the base store returned an error
}

// ErrIO is the injected I/O error.
var ErrIO = errors.New("injected i/o error")

// Store wraps a samlidp.Store: it keeps a shadow map of what has been written (the
// reference for "what is stored"), logs operations, fails chosen operations without
// performing them and optionally calls a hook before every operation (scheduling).
type Store struct {
	Base samlidp.Store

	mu       sync.Mutex
	shadow   map[string]string
	log      []OpRec
	n        int
	counting bool
	faults   map[int]string
	problems []string

	// Before, when set, is called before every operation while counting (C20 parks here).
	Before func(op, key string)
	// After, when set, is called after every operation that passed through while counting
	// (C20 parks here too: the window between a store access and what the handler does next).
	After func(op, key string)
}

// NewStore wraps base.
func NewStore(base samlidp.Store) *Store {
	return &Store{Base: base, shadow: map[string]string{}, faults: map[int]string{}}
}

// SetFaults installs the fault plan: the n-th counted operation (from 0) fails with kind.
func (s *Store) SetFaults(f map[int]string) { s.mu.Lock(); s.faults = f; s.mu.Unlock() }

// Counting switches operation counting / fault injection / logging on or off.
func (s *Store) Counting(on bool) { s.mu.Lock(); s.counting = on; s.mu.Unlock() }

// TakeLog returns and clears the operation log.
func (s *Store) TakeLog() []OpRec {
	s.mu.Lock()
	defer s.mu.Unlock()
	l := s.log
	s.log = nil
	return l
}

// Problems returns disagreements between the base store and the shadow map.
func (s *Store) Problems() []string {
	s.mu.Lock()
	defer s.mu.Unlock()
	return append([]string(nil), s.problems...)
}

// Snapshot returns a copy of the shadow map.
func (s *Store) Snapshot() map[string]string {
	s.mu.Lock()
	defer s.mu.Unlock()
	m := make(map[string]string, len(s.shadow))
	for k, v := range s.shadow {
		m[k] = v
	}
	return m
}

// Keys lists the shadow keys with the prefix (prefix stripped, sorted).
func (s *Store) Keys(prefix string) []string {
	s.mu.Lock()
	defer s.mu.Unlock()
	var out []string
	for k := range s.shadow {
		if strings.HasPrefix(k, prefix) {
			out = append(out, strings.TrimPrefix(k, prefix))
		}
	}
	sort.Strings(out)
	return out
}

// Raw returns the JSON stored under key.
func (s *Store) Raw(key string) (string, bool) {
	s.mu.Lock()
	defer s.mu.Unlock()
	v, ok := s.shadow[key]
	return v, ok
}

func (s *Store) enter(op, key string) (fault string, logging bool) {
	s.mu.Lock()
	counting := s.counting
	before := s.Before
	s.mu.Unlock()
	if !counting {
		return "", false
	}
	if before != nil {
		before(op, key)
	}
	s.mu.Lock()
	defer s.mu.Unlock()
	f := s.faults[s.n]
	s.n++
	return f, true
}

func faultErr(kind string) error {
	if kind == "notfound" {
		return samlidp.ErrNotFound
	}
	return ErrIO
}

func (s *Store) record(logging bool, r OpRec) {
	if !logging {
		return
	}
	s.mu.Lock()
	s.log = append(s.log, r)
	after := s.After
	s.mu.Unlock()
	if after != nil && r.Fault == "" {
		after(r.Op, r.Key)
	}
}

// Get implements samlidp.Store.
func (s *Store) Get(key string, value interface{}) error {
	f, lg := s.enter("get", key)
	if f != "" {
		s.record(lg, OpRec{Op: "get", Key: key, Fault: f})
		return faultErr(f)
	}
	err := s.Base.Get(key, value)
	if s.Before == nil { // sequential use only: compare with the shadow map
		s.mu.Lock()
		_, have := s.shadow[key]
		if have != (err == nil) && (err == nil || err == samlidp.ErrNotFound) {
			s.problems = append(s.problems, fmt.Sprintf("Get(%q): base store says present=%v, the map model says present=%v", key, err == nil, have))
		}
		s.mu.Unlock()
	}
	s.record(lg, OpRec{Op: "get", Key: key, Err: err != nil})
	return err
}

// Put implements samlidp.Store.
func (s *Store) Put(key string, value interface{}) error {
	f, lg := s.enter("put", key)
	if f != "" {
		s.record(lg, OpRec{Op: "put", Key: key, Fault: f})
		return faultErr(f)
	}
	buf, merr := json.Marshal(value)
	err := s.Base.Put(key, value)
	if err == nil && merr == nil {
		s.mu.Lock()
		s.shadow[key] = string(buf)
		s.mu.Unlock()
	}
	s.record(lg, OpRec{Op: "put", Key: key, Value: string(buf), Err: err != nil})
	return err
}

// Delete implements samlidp.Store.
func (s *Store) Delete(key string) error {
	f, lg := s.enter("delete", key)
	if f != "" {
		s.record(lg, OpRec{Op: "delete", Key: key, Fault: f})
		return faultErr(f)
	}
	err := s.Base.Delete(key)
	if err == nil {
		s.mu.Lock()
		delete(s.shadow, key)
		s.mu.Unlock()
	}
	s.record(lg, OpRec{Op: "delete", Key: key, Err: err != nil})
	return err
}

// List implements samlidp.Store.
func (s *Store) List(prefix string) ([]string, error) {
	f, lg := s.enter("list", prefix)
	if f != "" {
		s.record(lg, OpRec{Op: "list", Key: prefix, Fault: f})
		return nil, faultErr(f)
	}
	out, err := s.Base.List(prefix)
	if s.Before == nil && err == nil {
		got := append([]string(nil), out...)
		sort.Strings(got)
		want := s.Keys(prefix)
		if strings.Join(got, "\x00") != strings.Join(want, "\x00") {
			s.mu.Lock()
			s.problems = append(s.problems, fmt.Sprintf("List(%q): base store returns %q, the map model has %q", prefix, got, want))
			s.mu.Unlock()
		}
	}
	s.record(lg, OpRec{Op: "list", Key: prefix, Err: err != nil})
	return out, err
}

// ---------------------------------------------------------------- deterministic randomness

type prf struct {
	mu   sync.Mutex
	seed uint64
	ctr  uint64
	buf  []byte
}

func (p *prf) Read(b []byte) (int, error) {
	p.mu.Lock()
	defer p.mu.Unlock()
	for i := range b {
		if len(p.buf) == 0 {
			var in [16]byte
			binary.LittleEndian.PutUint64(in[:8], p.seed)
			binary.LittleEndian.PutUint64(in[8:], p.ctr)
			p.ctr++
			h := sha256.Sum256(in[:])
			p.buf = h[:]
		}
		b[i] = p.buf[0]
		p.buf = p.buf[1:]
	}
	return len(b), nil
}

// SeededReader is a deterministic byte stream keyed by seed (case data), installed as
// saml.RandReader so that session and request identifiers are functions of the case.
func SeededReader(seed uint64) io.Reader { return &prf{seed: seed} }

// ---------------------------------------------------------------- environment

// Env is one server instance over one wrapped store with a controlled clock.
// Opts varies the public fields of samlidp.Options that no clause mentions.
type Opts struct {
	URL      int  `json:"url,omitempty"`      // 0 https://idp.example  1 same with trailing slash  2 http://idp.test:8080/base/
	Signer   bool `json:"signer,omitempty"`   // pass the key as Options.Signer instead of Options.Key
	Cert     int  `json:"cert,omitempty"`     // 0 fixture "idp", 1 fixture "idp2"
	Template bool `json:"template,omitempty"` // a custom LoginFormTemplate
}

var baseURLs = []string{"https://idp.example", "https://idp.example/", "http://idp.test:8080/base/"}

var customLoginTemplate = template.Must(template.New("custom-login").Parse(`<html><body><h1>Sign in</h1><div class="toast">{{.Toast}}</div>` +
	`<form action="{{.URL}}" method="post"><label>User <input name="user"></label><label>Password <input type="password" name="password"></label>` +
	`<input type="hidden" name="SAMLRequest" value="{{.SAMLRequest}}"><input type="hidden" name="RelayState" value="{{.RelayState}}"><button>Go</button></form></body></html>`))

type Env struct {
	Opts  Opts
	Store *Store
	// Raw makes the server use the bare MemoryStore instead of the wrapper (free-running
	// race runs: the wrapper's own mutex would order the store operations).
	Raw      bool
	Base     *samlidp.MemoryStore
	Server   *samlidp.Server
	Now      time.Time
	Sessions []string // session ids in creation order
	known    map[string]bool
	mu       sync.Mutex
}

var quiet = log.New(io.Discard, "", 0)

// BaseURL of the server.
const BaseURL = "https://idp.example"

// NewEnv makes the wrapped store (over a fresh MemoryStore); call Start after seeding.
func NewEnv(seed uint64) *Env {
	saml.RandReader = SeededReader(seed)
	xmlenc.RandReader = SeededReader(seed ^ 0x5bd1e995)
	base := &samlidp.MemoryStore{}
	e := &Env{Store: NewStore(base), Base: base, Now: fix.Epoch, known: map[string]bool{}}
	fix.SetNow(e.Now)
	return e
}

// Start creates (or re-creates: restart) the server over the same store.  Store
// operations of start-up are neither counted nor faulted.
func (e *Env) Start() error {
	u, _ := url.Parse(baseURLs[clamp(e.Opts.URL, len(baseURLs))])
	idp := fix.Get("idp")
	if e.Opts.Cert == 1 {
		idp = fix.Get("idp2")
	}
	e.Store.Counting(false)
	var st samlidp.Store = e.Store
	if e.Raw {
		st = e.Base
	}
	o := samlidp.Options{URL: *u, Key: idp.Key, Certificate: idp.Cert, Logger: quiet, Store: st}
	if e.Opts.Signer {
		o.Key, o.Signer = nil, idp.Key
	}
	if e.Opts.Template {
		o.LoginFormTemplate = customLoginTemplate
	}
	srv, err := samlidp.New(o)
	if err != nil {
		return err
	}
	e.Server = srv
	return nil
}

// origin is scheme://host of the configured URL; the handler's routes are not prefixed by
// the URL's path (a front end is assumed to strip it), only the advertised URLs are.
func (e *Env) origin() string {
	u, _ := url.Parse(baseURLs[clamp(e.Opts.URL, len(baseURLs))])
	return u.Scheme + "://" + u.Host
}

// NoteSessionID records a session id learned from a Set-Cookie header (creation order).
func (e *Env) NoteSessionID(id string) bool {
	e.mu.Lock()
	defer e.mu.Unlock()
	if e.known[id] {
		return false
	}
	e.known[id] = true
	e.Sessions = append(e.Sessions, id)
	return true
}

// RegisteredXML is the metadata the running server holds for an entity ID, as XML ("" if
// none), read through the public ServiceProviderProvider method.
func (e *Env) RegisteredXML(entity string) string {
	md, err := e.Server.GetServiceProvider(nil, entity)
	if err != nil || md == nil {
		return ""
	}
	b, err := xml.Marshal(md)
	if err != nil {
		return "marshal error: " + err.Error()
	}
	return string(b)
}

// SeedUser writes a user record directly into the store (pw < 0: no hash).
func (e *Env) SeedUser(name string, pw, profile int) {
	p := ProfileOf(name, profile)
	u := samlidp.User{Name: name, Groups: p.Groups, Email: p.Email, CommonName: p.CommonName, Surname: p.Surname, GivenName: p.GivenName, ScopedAffiliation: p.ScopedAffiliation}
	if pw >= 0 && pw < len(LowCostHashes) {
		u.HashedPassword = []byte(LowCostHashes[pw])
	}
	e.Store.Counting(false)
	if err := e.Store.Put("/users/"+name, &u); err != nil {
		panic(err)
	}
}

// SeedService writes a service directly into the store (before Start only).
func (e *Env) SeedService(name string, md int) {
	var ed saml.EntityDescriptor
	if err := xml.Unmarshal(MetadataXML(md), &ed); err != nil {
		panic(err)
	}
	e.Store.Counting(false)
	if err := e.Store.Put("/services/"+name, &samlidp.Service{Metadata: ed}); err != nil {
		panic(err)
	}
}

// SeedSession writes a session for a stored user directly into the store (C20 only: the
// concurrency checks do not care how a session came to be).  age is seconds before now.
func (e *Env) SeedSession(id, user string, profile int, age int64) {
	p := ProfileOf(user, profile)
	created := e.Now.Add(-time.Duration(age) * time.Second)
	ss := saml.Session{ID: id, CreateTime: created, ExpireTime: created.Add(time.Hour), Index: "idx-" + id, NameID: p.Email, UserName: user,
		Groups: p.Groups, UserEmail: p.Email, UserCommonName: p.CommonName, UserSurname: p.Surname, UserGivenName: p.GivenName, UserScopedAffiliation: p.ScopedAffiliation}
	e.Store.Counting(false)
	if err := e.Store.Put("/sessions/"+id, &ss); err != nil {
		panic(err)
	}
	e.mu.Lock()
	if !e.known[id] {
		e.known[id] = true
		e.Sessions = append(e.Sessions, id)
	}
	e.mu.Unlock()
}

// SeedShortcut writes a shortcut directly into the store.
func (e *Env) SeedShortcut(s Step) {
	e.Store.Counting(false)
	sc := shortcutOf(s)
	sc.Name = s.Name
	if err := e.Store.Put("/shortcuts/"+s.Name, &sc); err != nil {
		panic(err)
	}
}

func shortcutOf(s Step) samlidp.Shortcut {
	sc := samlidp.Shortcut{ServiceProviderID: Entities[clamp(s.Issuer, len(Entities))]}
	if s.Relay > 0 {
		r := RelayStates[clamp(s.Relay, len(RelayStates))]
		sc.RelayState = &r
	}
	if s.Suffix == "y" {
		sc.URISuffixAsRelayState = true
	}
	return sc
}

func clamp(i, n int) int {
	if i < 0 {
		return 0
	}
	if i >= n {
		return n - 1
	}
	return i
}

// Advance moves the controlled clock.
func (e *Env) Advance(seconds int64) {
	e.Now = e.Now.Add(time.Duration(seconds) * time.Second)
	fix.SetNow(e.Now)
}

// CookieValue resolves a cookie reference ("" , false = no cookie).
func (e *Env) CookieValue(c Cookie) (string, bool) {
	switch c.Kind {
	case "session":
		e.mu.Lock()
		defer e.mu.Unlock()
		if c.Idx >= 0 && c.Idx < len(e.Sessions) {
			return e.Sessions[c.Idx], true
		}
		return "", false
	case "forged":
		return c.Val, true
	}
	return "", false
}

// NoteSessions appends session ids that appeared in the store since the last call.
func (e *Env) NoteSessions() []string {
	var fresh []string
	ids := e.Store.Keys("/sessions/")
	if e.Raw {
		ids, _ = e.Base.List("/sessions/")
		sort.Strings(ids)
	}
	for _, id := range ids {
		e.mu.Lock()
		if !e.known[id] {
			e.known[id] = true
			e.Sessions = append(e.Sessions, id)
			fresh = append(fresh, id)
		}
		e.mu.Unlock()
	}
	return fresh
}

// Built is a request ready to be served, with what the harness put into it.
type Built struct {
	Req       *http.Request
	RequestID string // sso: the AuthnRequest ID
	CookieVal string
	HasCookie bool
}

func userJSON(s Step) []byte {
	p := ProfileOf(s.Name, s.Profile)
	m := map[string]any{"name": "ignored-" + s.Name, "email": p.Email, "common_name": p.CommonName, "surname": p.Surname, "given_name": p.GivenName, "scoped_affiliation": p.ScopedAffiliation}
	if p.Groups != nil {
		m["groups"] = p.Groups
	}
	if s.Pw >= 0 {
		m["password"] = Passwords[clamp(s.Pw, len(Passwords))]
	}
	b, _ := json.Marshal(m)
	return b
}

// Build turns a step into an *http.Request (nil for non-request steps).  It must be
// called with the clock already at the instant of the request.
func (e *Env) Build(s Step) *Built {
	b := &Built{}
	b.CookieVal, b.HasCookie = e.CookieValue(s.Cookie)
	var r *http.Request
	mk := func(method, path string, body []byte, ctype string) *http.Request {
		var rd io.Reader
		if body != nil {
			rd = bytes.NewReader(body)
		}
		q := httptest.NewRequest(method, e.origin()+path, rd)
		if ctype != "" {
			q.Header.Set("Content-Type", ctype)
		}
		return q
	}
	form := func() url.Values {
		v := url.Values{}
		if s.User != "" {
			v.Set("user", s.User)
			if s.Pw >= 0 {
				v.Set("password", Passwords[clamp(s.Pw, len(Passwords))])
			}
		}
		return v
	}
	esc := url.PathEscape
	switch s.Op {
	case "put_user":
		body := userJSON(s)
		if s.Bad {
			body = []byte(`{"name": "x", "email": [`)
		}
		r = mk("PUT", "/users/"+esc(s.Name), body, "application/json")
	case "del_user":
		r = mk("DELETE", "/users/"+esc(s.Name), nil, "")
	case "get_user":
		r = mk("GET", "/users/"+esc(s.Name), nil, "")
	case "list_users":
		r = mk("GET", "/users/", nil, "")
	case "put_service":
		m := "PUT"
		if s.Method == "POST" {
			m = "POST"
		}
		md := MetadataXML(s.MD)
		if s.Bad {
			md = []byte(`{"not": "metadata"}`)
		}
		r = mk(m, "/services/"+esc(s.Name), md, "application/xml")
	case "del_service":
		r = mk("DELETE", "/services/"+esc(s.Name), nil, "")
	case "get_service":
		r = mk("GET", "/services/"+esc(s.Name), nil, "")
	case "list_services":
		r = mk("GET", "/services/", nil, "")
	case "put_shortcut":
		sc := shortcutOf(s)
		sc.Name = "ignored"
		body, _ := json.Marshal(&sc)
		if s.Bad {
			body = []byte(`<shortcut/>`)
		}
		r = mk("PUT", "/shortcuts/"+esc(s.Name), body, "application/json")
	case "del_shortcut":
		r = mk("DELETE", "/shortcuts/"+esc(s.Name), nil, "")
	case "get_shortcut":
		r = mk("GET", "/shortcuts/"+esc(s.Name), nil, "")
	case "list_shortcuts":
		r = mk("GET", "/shortcuts/", nil, "")
	case "del_session", "get_session":
		id, ok := e.CookieValue(s.Session)
		if !ok {
			id = "no-such-session"
		}
		m := "GET"
		if s.Op == "del_session" {
			m = "DELETE"
		}
		r = mk(m, "/sessions/"+esc(id), nil, "")
	case "list_sessions":
		r = mk("GET", "/sessions/", nil, "")
	case "metadata":
		r = mk("GET", "/metadata", nil, "")
	case "login":
		if s.Method == "GET" {
			r = mk("GET", "/login", nil, "")
		} else {
			r = mk("POST", "/login", []byte(form().Encode()), "application/x-www-form-urlencoded")
		}
	case "launch":
		path := "/login/" + esc(s.Name)
		if s.Suffix != "" && s.Suffix != "y" {
			path += "/" + esc(s.Suffix)
		}
		if s.Method == "POST" {
			r = mk("POST", path, []byte(form().Encode()), "application/x-www-form-urlencoded")
		} else {
			r = mk("GET", path, nil, "")
		}
	case "sso":
		ent := Entities[clamp(s.Issuer, len(Entities))]
		sp := saml.ServiceProvider{EntityID: ent, IDPMetadata: &saml.EntityDescriptor{}}
		if mu, err := url.Parse(strings.TrimSpace(ent)); err == nil {
			sp.MetadataURL = *mu
		}
		if s.ACS >= 0 {
			au, _ := url.Parse(ACS[clamp(s.ACS, len(ACS))])
			sp.AcsURL = *au
		}
		binding := saml.HTTPRedirectBinding
		if s.Method == "POST" {
			binding = saml.HTTPPostBinding
		}
		ar, err := sp.MakeAuthenticationRequest(e.Server.IDP.SSOURL.String(), binding, saml.HTTPPostBinding)
		if err != nil {
			panic(err)
		}
		if s.ACS < 0 {
			ar.AssertionConsumerServiceURL = ""
		}
		b.RequestID = ar.ID
		relay := RelayStates[clamp(s.Relay, len(RelayStates))]
		if s.Method == "POST" {
			doc := etree.NewDocument()
			doc.SetRoot(ar.Element())
			buf, err := doc.WriteToBytes()
			if err != nil {
				panic(err)
			}
			v := form()
			v.Set("SAMLRequest", base64.StdEncoding.EncodeToString(buf))
			v.Set("RelayState", relay)
			r = mk("POST", "/sso", []byte(v.Encode()), "application/x-www-form-urlencoded")
		} else {
			u, err := ar.Redirect(relay, &sp)
			if err != nil {
				panic(err)
			}
			r = mk("GET", "/sso?"+u.RawQuery, nil, "")
		}
	default:
		return nil
	}
	if b.HasCookie {
		r.AddCookie(&http.Cookie{Name: "session", Value: b.CookieVal})
	}
	r.RemoteAddr = "192.0.2.7:4711"
	b.Req = r
	return b
}

// ---------------------------------------------------------------- replies

// recorder counts how the handler used the ResponseWriter.
type recorder struct {
	hdr           http.Header
	status        int
	explicit      int  // WriteHeader calls
	lateHeader    bool // WriteHeader after the body had started
	body          bytes.Buffer
	snapshot      http.Header
	wroteHeader   bool
	informational int
}

func (r *recorder) Header() http.Header { return r.hdr }

func (r *recorder) commit(code int) {
	if r.wroteHeader {
		return
	}
	r.wroteHeader = true
	r.status = code
	r.snapshot = r.hdr.Clone()
}

func (r *recorder) WriteHeader(code int) {
	if code >= 100 && code < 200 {
		r.informational++
		return
	}
	r.explicit++
	if r.wroteHeader {
		r.lateHeader = true
		return
	}
	r.commit(code)
}

func (r *recorder) Write(b []byte) (int, error) {
	r.commit(200)
	return r.body.Write(b)
}

// Assertion is what the harness reads out of an emitted SAMLResponse.
type Assertion struct {
	Destination  string
	InResponseTo string
	Status       string
	Encrypted    bool
	NameID       string
	Audience     string
	Recipient    string
	Attrs        map[string][]string // by FriendlyName
	SPQualifier  string
}

// Reply is the observable outcome of one request.
type Reply struct {
	Status     int
	Explicit   int
	LateHeader bool
	NoReply    bool // the handler returned without writing anything
	Panic      string
	Header     http.Header
	Body       []byte
	Kind       string // assertion login-form html json xml text empty other
	Cookies    map[string]string
	FormAction string
	RelayState string
	Assertion  *Assertion
	Malformed  string // why the body is not well-formed for its kind
}

// Serve runs one request through the server's handler in the calling goroutine.
func (e *Env) Serve(b *Built) *Reply {
	rec := &recorder{hdr: http.Header{}}
	rep := &Reply{}
	func() {
		defer func() {
			if p := recover(); p != nil {
				rep.Panic = fmt.Sprint(p)
			}
		}()
		e.Server.ServeHTTP(rec, b.Req)
	}()
	if !rec.wroteHeader {
		// net/http would send 200 with an empty body
		rep.NoReply = true
		rec.commit(200)
	}
	rep.Status, rep.Explicit, rep.LateHeader = rec.status, rec.explicit, rec.lateHeader
	rep.Header = rec.snapshot
	rep.Body = rec.body.Bytes()
	rep.Cookies = map[string]string{}
	resp := http.Response{Header: rep.Header}
	for _, c := range resp.Cookies() {
		rep.Cookies[c.Name] = c.Value
	}
	classify(rep)
	return rep
}

func attr(n *html.Node, name string) string {
	for _, a := range n.Attr {
		if a.Key == name {
			return a.Val
		}
	}
	return ""
}

func classify(rep *Reply) {
	body := rep.Body
	trim := bytes.TrimSpace(body)
	switch {
	case len(trim) == 0:
		rep.Kind = "empty"
		return
	case trim[0] == '{' || trim[0] == '[':
		rep.Kind = "json"
		if !json.Valid(trim) {
			rep.Malformed = "body starts like JSON but does not parse"
		}
		return
	case bytes.HasPrefix(trim, []byte("<html>")):
		rep.Kind = "html"
	case trim[0] == '<':
		rep.Kind = "xml"
		if err := xml.Unmarshal(trim, new(struct{ XMLName xml.Name })); err != nil {
			rep.Malformed = "XML body does not parse: " + err.Error()
		}
		return
	default:
		rep.Kind = "text"
		// an error text followed by a form is two replies glued together: the form, and
		// above all a SAMLResponse inside it, must not be overlooked
		if !bytes.Contains(body, []byte("<form")) && !bytes.Contains(body, []byte("SAMLResponse")) {
			return
		}
		rep.Malformed = "body starts with plain text but also carries an HTML form: more than one reply in one body"
	}
	doc, err := html.Parse(bytes.NewReader(body))
	if err != nil {
		rep.Malformed = "HTML body does not parse: " + err.Error()
		return
	}
	var forms []*html.Node
	var walk func(n *html.Node)
	walk = func(n *html.Node) {
		if n.Type == html.ElementNode && n.Data == "form" {
			forms = append(forms, n)
		}
		for c := n.FirstChild; c != nil; c = c.NextSibling {
			walk(c)
		}
	}
	walk(doc)
	if len(forms) != 1 {
		if rep.Malformed == "" {
			rep.Malformed = fmt.Sprintf("HTML reply with %d forms", len(forms))
		}
		return
	}
	inputs := map[string]string{}
	var walkIn func(n *html.Node)
	walkIn = func(n *html.Node) {
		if n.Type == html.ElementNode && n.Data == "input" && attr(n, "name") != "" {
			inputs[attr(n, "name")] = attr(n, "value")
		}
		for c := n.FirstChild; c != nil; c = c.NextSibling {
			walkIn(c)
		}
	}
	walkIn(forms[0])
	rep.FormAction = attr(forms[0], "action")
	rep.RelayState = inputs["RelayState"]
	if _, ok := inputs["SAMLResponse"]; !ok {
		if _, ok := inputs["password"]; ok {
			rep.Kind = "login-form"
		}
		return
	}
	rep.Kind = "assertion"
	a, err := DecodeResponse(inputs["SAMLResponse"])
	if err != nil {
		rep.Malformed = "SAMLResponse does not decode: " + err.Error()
		return
	}
	rep.Assertion = a
}

// DecodeResponse reads a base64 SAMLResponse (decrypting with the fixture SP key).
func DecodeResponse(b64 string) (*Assertion, error) {
	raw, err := base64.StdEncoding.DecodeString(b64)
	if err != nil {
		return nil, err
	}
	doc := etree.NewDocument()
	if err := doc.ReadFromBytes(raw); err != nil {
		return nil, err
	}
	root := doc.Root()
	if root == nil || root.Tag != "Response" {
		return nil, fmt.Errorf("root element is not a Response")
	}
	a := &Assertion{Destination: root.SelectAttrValue("Destination", ""), InResponseTo: root.SelectAttrValue("InResponseTo", ""), Attrs: map[string][]string{}}
	if sc := root.FindElement("./Status/StatusCode"); sc != nil {
		a.Status = sc.SelectAttrValue("Value", "")
	}
	var asEl *etree.Element
	for _, ch := range root.ChildElements() {
		switch ch.Tag {
		case "Assertion":
			asEl = ch
		case "EncryptedAssertion":
			a.Encrypted = true
			var ed *etree.Element
			for _, c2 := range ch.ChildElements() {
				if c2.Tag == "EncryptedData" {
					ed = c2
				}
			}
			if ed == nil {
				return nil, fmt.Errorf("EncryptedAssertion without EncryptedData")
			}
			pt, err := xmlenc.Decrypt(fix.Get("sp").Key, ed)
			if err != nil {
				return nil, fmt.Errorf("cannot decrypt the assertion with the registered key: %v", err)
			}
			d2 := etree.NewDocument()
			if err := d2.ReadFromBytes(pt); err != nil {
				return nil, err
			}
			asEl = d2.Root()
		}
	}
	if asEl == nil {
		return nil, fmt.Errorf("response carries no assertion")
	}
	d3 := etree.NewDocument()
	d3.SetRoot(asEl.Copy())
	buf, err := d3.WriteToBytes()
	if err != nil {
		return nil, err
	}
	var as saml.Assertion
	if err := xml.Unmarshal(buf, &as); err != nil {
		return nil, fmt.Errorf("assertion does not unmarshal: %v", err)
	}
	if as.Subject == nil || as.Subject.NameID == nil {
		return nil, fmt.Errorf("assertion has no subject name id")
	}
	a.NameID = as.Subject.NameID.Value
	a.SPQualifier = as.Subject.NameID.SPNameQualifier
	for _, sc := range as.Subject.SubjectConfirmations {
		if sc.SubjectConfirmationData != nil {
			a.Recipient = sc.SubjectConfirmationData.Recipient
		}
	}
	if as.Conditions != nil {
		for _, ar := range as.Conditions.AudienceRestrictions {
			a.Audience = ar.Audience.Value
		}
	}
	for _, st := range as.AttributeStatements {
		for _, at := range st.Attributes {
			var vs []string
			for _, v := range at.Values {
				vs = append(vs, v.Value)
			}
			a.Attrs[at.FriendlyName] = vs
		}
	}
	return a, nil
}

// ExpectedAttrs lists the attributes (by FriendlyName) an assertion for a user stored
// as (name, profile) must carry.
func ExpectedAttrs(name string, profile int) map[string][]string {
	p := ProfileOf(name, profile)
	m := map[string][]string{}
	put := func(k, v string) {
		if v != "" {
			m[k] = []string{v}
		}
	}
	put("uid", name)
	put("mail", p.Email)
	put("eduPersonPrincipalName", p.Email)
	put("sn", p.Surname)
	put("givenName", p.GivenName)
	put("cn", p.CommonName)
	put("scopedAffiliation", p.ScopedAffiliation)
	if len(p.Groups) > 0 {
		m["eduPersonAffiliation"] = append([]string(nil), p.Groups...)
	}
	return m
}

// AttrsEqual compares attribute maps.
func AttrsEqual(a, b map[string][]string) bool {
	// attributes answering the SP's RequestedAttributes (friendly name "req-..." or none) are
	// extras the subject clauses do not speak about
	a2 := map[string][]string{}
	for k, v := range a {
		if k != "" && !strings.HasPrefix(k, "req-") {
			a2[k] = v
		}
	}
	a = a2
	if len(a) != len(b) {
		return false
	}
	for k, v := range a {
		w, ok := b[k]
		if !ok || strings.Join(v, "\x00") != strings.Join(w, "\x00") {
			return false
		}
	}
	return true
}

// LeaksHash reports whether data contains hash raw or in base64.
func LeaksHash(data []byte, hash []byte) bool {
	if len(hash) == 0 {
		return false
	}
	if bytes.Contains(data, hash) {
		return true
	}
	// base64 at the three alignments (a substring of a longer base64 text)
	for _, enc := range []*base64.Encoding{base64.StdEncoding, base64.URLEncoding} {
		if bytes.Contains(data, []byte(enc.EncodeToString(hash))) {
			return true
		}
		for off := 1; off < 3; off++ {
			pad := append(make([]byte, off), hash...)
			s := enc.EncodeToString(pad)
			// drop the characters influenced by the padding and the tail
			core := s[4 : len(s)-4]
			if len(core) >= 16 && bytes.Contains(data, []byte(core)) {
				return true
			}
		}
	}
	return false
}
