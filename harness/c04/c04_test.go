// Package c04: the SP accepts only responses to requests it has outstanding (unless IdP-initiated).
package c04

import (
	"bytes"
	"errors"
	"fmt"
	"io"
	"net/http"
	"strings"
	"testing"

	"github.com/beevik/etree"
	"github.com/crewjam/saml"
	"pgregory.net/rapid"

	"verif/harness/internal/fix"
	"verif/harness/internal/forge"
	"verif/harness/internal/pbt"
	"verif/harness/internal/spkit"
)

// Ref describes an InResponseTo value relative to the outstanding set.
type Ref struct {
	Class string `json:"class"`           // match | other | not | near | empty | absent | nodata (confirmations only: no SubjectConfirmationData element at all)
	Index int    `json:"index,omitempty"` // which outstanding ID is meant (match / near)
	Kind  string `json:"kind,omitempty"`  // near-miss kind: prefix | suffix | case | plusx | space
}

// Case is one response against one declared set of outstanding request IDs.
type Case struct {
	Outstanding []string `json:"outstanding"`
	Resp        Ref      `json:"resp"`
	Confs       []Ref    `json:"confs"`
	AllowIDP    bool     `json:"allow_idp_initiated,omitempty"`
	// Trust: the SP's trust configuration ("" = meta1; every configuration trusts the signing key used here).
	// Warm: the same ServiceProvider value has processed an ordinary valid login before this message.
	Trust string `json:"trust,omitempty"`
	Warm  bool   `json:"warm,omitempty"`
	// Noise: options of the SP that concern only what it sends (see spkit.Noise); the verdict must not depend on them
	Noise      uint64   `json:"noise,omitempty"`
	Validator  string   `json:"validator,omitempty"` // "" | accept | reject
	Entry      string   `json:"entry"`               // xml | post | artifact-xml | artifact-http
	Artifact   Ref      `json:"artifact"`            // InResponseTo of the ArtifactResponse vs. the issued ArtifactResolve ID
	RespSigned bool     `json:"resp_signed,omitempty"`
	ArtSigned  bool     `json:"artifact_signed,omitempty"`
	Encrypted  bool     `json:"encrypted,omitempty"`
	NoDest     bool     `json:"no_dest,omitempty"` // unsigned Response without Destination (legitimate: Destination is optional then)
	Methods    []string `json:"methods,omitempty"` // per confirmation: "" = bearer | hok | sv (every confirmation counts, whatever its method)
}

func methodURI(m string) string {
	switch m {
	case "hok":
		return "urn:oasis:names:tc:SAML:2.0:cm:holder-of-key"
	case "sv":
		return "urn:oasis:names:tc:SAML:2.0:cm:sender-vouches"
	}
	return ""
}

func nearOf(id, kind string) string {
	switch kind {
	case "prefix":
		if len(id) > 1 {
			return id[:len(id)-1]
		}
		return id + "p"
	case "suffix":
		if len(id) > 1 {
			return id[1:]
		}
		return "s" + id
	case "case":
		if u := strings.ToUpper(id); u != id {
			return u
		}
		return strings.ToLower(id) + "c"
	case "space":
		return id + " "
	default:
		return id + "x"
	}
}

// resolve turns a Ref into the attribute value (nil = absent) and says whether
// that value is a member of the outstanding set (absent counts as "").
func resolve(r Ref, outstanding []string) (*string, bool) {
	var v *string
	pick := func() string {
		if len(outstanding) == 0 {
			return "id-unknown"
		}
		return outstanding[r.Index%len(outstanding)]
	}
	switch r.Class {
	case "match", "other":
		v = forge.S(pick())
	case "not":
		v = forge.S("id-never-issued")
	case "near":
		v = forge.S(nearOf(pick(), r.Kind))
	case "empty":
		v = forge.S("")
	case "absent", "nodata":
		v = nil
	}
	eff := ""
	if v != nil {
		eff = *v
	}
	for _, o := range outstanding {
		if o == eff {
			return v, true
		}
	}
	return v, false
}

// artifactRef: the InResponseTo of the ArtifactResponse.  Class "authn" names an outstanding AuthnRequest ID (the
// one Index selects) instead of the ArtifactResolve the SP issued - a plausible value, and the wrong request.
func artifactRef(c Case, issued string) *string {
	if c.Artifact.Class == "authn" {
		if len(c.Outstanding) == 0 {
			return forge.S("id-unknown")
		}
		return forge.S(c.Outstanding[c.Artifact.Index%len(c.Outstanding)])
	}
	v, _ := resolve(c.Artifact, []string{issued})
	return v
}

func check(c Case) pbt.Result {
	now := fix.Epoch
	r := spkit.Baseline(now, "unused", "")
	var respIn bool
	r.InResponseTo, respIn = resolve(c.Resp, c.Outstanding)
	a := &r.Assertions[0]
	a.Confirmations = nil
	allConfIn := true
	bareConf := false // some confirmation has no data element: it cannot be said to answer any request, but
	// whether such an assertion is acceptable when "" is listed is not C04's to say
	for i, cf := range c.Confs {
		v, in := resolve(cf, c.Outstanding)
		if !in {
			allConfIn = false
		}
		bareConf = bareConf || cf.Class == "nodata"
		m := ""
		if i < len(c.Methods) {
			m = methodURI(c.Methods[i])
		}
		a.Confirmations = append(a.Confirmations, forge.Confirmation{Method: m, Recipient: forge.S(spkit.SPACS), InResponseTo: v, NotOnOrAfter: forge.TP(now.Add(300e9)), NoData: cf.Class == "nodata"})
	}
	if c.NoDest && !c.RespSigned {
		r.Destination = nil
	}
	sign := &forge.SignSpec{Key: "idp"}
	if c.RespSigned {
		r.Sign = sign
	} else {
		a.Sign = sign
	}
	if c.Encrypted {
		a.Sign = sign
		a.Encrypt = &forge.EncSpec{To: "sp", Seed: 5}
	}
	el, err := forge.BuildResponse(&r)
	if err != nil {
		return pbt.Result{Err: "harness: " + err.Error()}
	}
	sp := spkit.NewSP(spkit.Config{Trust: c.Trust, AllowIDPInit: c.AllowIDP})
	spkit.Noise(sp, c.Noise)
	if c.Warm {
		spkit.WarmUp(sp, fix.Epoch)
	}
	switch c.Validator {
	case "accept":
		sp.ValidateRequestID = func(saml.Response, []string) error { return nil }
	case "reject":
		sp.ValidateRequestID = func(saml.Response, []string) error { return errors.New("application says no") }
	}

	artifactOK := true
	var o spkit.Outcome
	switch c.Entry {
	case "post":
		o = spkit.ParsePOST(sp, forge.Bytes(el), c.Outstanding, spkit.SPACS)
	case "artifact-xml":
		issued := "id-artifact-resolve-1"
		v := artifactRef(c, issued)
		artifactOK = v != nil && *v == issued
		as := &forge.ArtifactSpec{ID: "id-art", InResponseTo: v, IssueInstant: forge.T(now), Issuer: forge.S(spkit.IDPEntity), Status: []string{forge.StatusOK}}
		if c.ArtSigned {
			as.Sign = sign
		}
		env, err := forge.BuildArtifact(as, el)
		if err != nil {
			return pbt.Result{Err: "harness: " + err.Error()}
		}
		o = spkit.ParseArtifactXML(sp, forge.Bytes(env), c.Outstanding, issued, spkit.SPACS)
	case "artifact-http":
		var buildErr error
		sawResolve := false
		o = spkit.ParseArtifactHTTP(sp, c.Outstanding, spkit.SPACS, func(body []byte) (*http.Response, error) {
			// read the ID of the ArtifactResolve the SP just issued from the SOAP request
			doc := etree.NewDocument()
			if err := doc.ReadFromBytes(body); err != nil {
				buildErr = fmt.Errorf("SP sent unparsable SOAP: %v", err)
				return nil, buildErr
			}
			ar := doc.FindElement("//ArtifactResolve")
			if ar == nil {
				buildErr = errors.New("SP sent no ArtifactResolve")
				return nil, buildErr
			}
			sawResolve = true
			issued := ar.SelectAttrValue("ID", "")
			v := artifactRef(c, issued)
			artifactOK = v != nil && *v == issued && issued != ""
			as := &forge.ArtifactSpec{ID: "id-art", InResponseTo: v, IssueInstant: forge.T(now), Issuer: forge.S(spkit.IDPEntity), Status: []string{forge.StatusOK}}
			if c.ArtSigned {
				as.Sign = sign
			}
			// the Response element must be rebuilt: an etree element has one parent only
			el2, err := forge.BuildResponse(&r)
			if err != nil {
				buildErr = err
				return nil, err
			}
			env, err := forge.BuildArtifact(as, el2)
			if err != nil {
				buildErr = err
				return nil, err
			}
			return &http.Response{StatusCode: 200, Status: "200 OK", Header: http.Header{"Content-Type": {"text/xml"}}, Body: io.NopCloser(bytes.NewReader(forge.Bytes(env)))}, nil
		})
		if buildErr != nil {
			return pbt.Result{Err: "harness: " + buildErr.Error()}
		}
		if !sawResolve {
			return pbt.Result{Err: "artifact entry point never contacted the resolver: " + o.Describe()}
		}
	default:
		o = spkit.ParseXML(sp, forge.Bytes(el), c.Outstanding, spkit.SPACS)
	}

	res := pbt.Result{Classes: []string{"entry:" + c.Entry, "resp:" + c.Resp.Class, fmt.Sprintf("outstanding:%d", len(c.Outstanding))}}
	if c.Trust != "" {
		res.Classes = append(res.Classes, "sp-trust:"+c.Trust)
	}
	if c.Noise != 0 {
		res.Classes = append(res.Classes, "sp-unrelated-options-set")
	}
	if c.Warm {
		res.Classes = append(res.Classes, "sp-served-a-login-before")
	}
	hasEmptyID, nearSet := false, false
	for i, x := range c.Outstanding {
		if x == "" {
			hasEmptyID = true
		}
		for j, y := range c.Outstanding {
			if i != j && x != y && (strings.HasPrefix(x, y) || strings.HasPrefix(y, x)) {
				nearSet = true
			}
		}
	}
	diffClass := false
	for _, cf := range c.Confs {
		res.Classes = append(res.Classes, "conf:"+cf.Class)
		if cf.Class != c.Resp.Class {
			diffClass = true
		}
	}
	res.NonTrivial = len(c.Outstanding) >= 2 || hasEmptyID || nearSet || diffClass || c.Resp.Class == "near" || strings.HasPrefix(c.Entry, "artifact")
	if hasEmptyID {
		res.Classes = append(res.Classes, "outstanding-has-empty")
	}
	if nearSet {
		res.Classes = append(res.Classes, "outstanding-near-miss-set")
	}
	if o.Panic != "" {
		res.Err = "panic: " + o.Panic
		return res
	}
	allIn := respIn && allConfIn
	isArtifact := strings.HasPrefix(c.Entry, "artifact")
	desc := func() string {
		return fmt.Sprintf("outstanding=%q response-level member=%v all confirmation-level members=%v artifact answers issued request=%v; outcome: %s", c.Outstanding, respIn, allConfIn, artifactOK, o.Describe())
	}
	switch {
	case len(c.Confs) == 0:
		// zero confirmations: only the clauses that do not depend on them are judged
		res.Classes = append(res.Classes, "no-confirmation")
		if !c.AllowIDP && c.Validator == "" && (!respIn || (isArtifact && !artifactOK)) && o.Accepted() {
			res.Err = "accepted although the response does not answer an outstanding request: " + desc()
		}
	case isArtifact && !artifactOK:
		res.Classes = append(res.Classes, "model:must-reject")
		if o.Accepted() {
			res.Err = "artifact response accepted although it does not answer the ArtifactResolve just issued: " + desc()
		}
	case c.AllowIDP || c.Validator != "":
		// only the positive clause remains: a valid response to an outstanding request is accepted
		if allIn && c.Validator != "reject" && !bareConf {
			res.Classes = append(res.Classes, "model:must-accept")
			if !o.Accepted() {
				res.Err = "valid response to an outstanding request rejected: " + desc()
			}
		} else {
			res.Classes = append(res.Classes, "model:dont-care")
		}
	case allIn && bareConf:
		res.Classes = append(res.Classes, "model:dont-care")
	case allIn:
		res.Classes = append(res.Classes, "model:must-accept")
		if !o.Accepted() {
			res.Err = "valid response to an outstanding request rejected: " + desc()
		}
	default:
		res.Classes = append(res.Classes, "model:must-reject")
		if o.Accepted() {
			res.Err = "accepted although InResponseTo is not an outstanding request ID at every level: " + desc()
		}
	}
	return res
}

// ---------------------------------------------------------------- generators

var outstandingSets = [][]string{
	{},
	{"id-aaaa1111"},
	{"id-aaaa1111", "id-bbbb2222", "id-cccc3333"},
	{""},
	{"id-aaaa1111", ""},
	{"id-aaaa1111", "id-aaaa11110", "id-aaaa111"}, // near-miss set: prefix / extension of each other
	{"ID-AAAA1111", "id-aaaa1111x"},               // case / plus-x
	{"id-aaaa1111", "id-aaaa1111", "d-aaaa1111"},  // duplicate + suffix
}

var refClasses = []string{"match", "match", "match", "other", "not", "near", "empty", "absent"}
var confClasses = append(append([]string{}, refClasses...), "nodata")
var nearKindsList = []string{"prefix", "suffix", "case", "plusx", "space"}

func genRef(t *rapid.T, label string) Ref {
	r := Ref{Class: rapid.SampledFrom(refClasses).Draw(t, label)}
	r.Index = rapid.IntRange(0, 2).Draw(t, label+"idx")
	if r.Class == "near" {
		r.Kind = rapid.SampledFrom(nearKindsList).Draw(t, label+"kind")
	}
	return r
}

func gen(t *rapid.T) Case {
	c := Case{
		Outstanding: append([]string{}, rapid.SampledFrom(outstandingSets).Draw(t, "set")...),
		Resp:        genRef(t, "resp"),
		AllowIDP:    rapid.IntRange(0, 4).Draw(t, "allow") == 0,
		Validator:   rapid.SampledFrom([]string{"", "", "", "", "accept", "reject"}).Draw(t, "validator"),
		Entry:       rapid.SampledFrom([]string{"xml", "post", "artifact-xml", "artifact-http"}).Draw(t, "entry"),
		Artifact:    Ref{Class: "match"},
		RespSigned:  rapid.Bool().Draw(t, "respSigned"),
		ArtSigned:   rapid.Bool().Draw(t, "artSigned"),
		Encrypted:   rapid.IntRange(0, 4).Draw(t, "enc") == 0,
	}
	if rapid.IntRange(0, 2).Draw(t, "othertrust") == 0 {
		c.Trust = rapid.SampledFrom(spkit.TrustsIDP).Draw(t, "trust")
	}
	c.Warm = rapid.IntRange(0, 3).Draw(t, "warm") == 0
	if rapid.IntRange(0, 2).Draw(t, "noise?") == 0 {
		c.Noise = rapid.Uint64Range(1, 255).Draw(t, "noise")
	}
	if rapid.IntRange(0, 3).Draw(t, "randset") == 0 {
		// random IDs, possibly sharing prefixes
		n := rapid.IntRange(0, 4).Draw(t, "n")
		c.Outstanding = nil
		for i := 0; i < n; i++ {
			c.Outstanding = append(c.Outstanding, rapid.StringMatching(`(id-)?[a-c]{0,3}`).Draw(t, "id"))
		}
	}
	n := rapid.SampledFrom([]int{1, 1, 2, 3, 0}).Draw(t, "nconf")
	for i := 0; i < n; i++ {
		if rapid.IntRange(0, 2).Draw(t, "same") != 0 {
			c.Confs = append(c.Confs, c.Resp)
		} else {
			cr := genRef(t, "conf")
			if rapid.IntRange(0, 7).Draw(t, "bare") == 0 {
				cr = Ref{Class: "nodata"}
			}
			c.Confs = append(c.Confs, cr)
		}
	}
	for range c.Confs {
		c.Methods = append(c.Methods, rapid.SampledFrom([]string{"", "", "", "hok", "sv"}).Draw(t, "method"))
	}
	c.NoDest = !c.RespSigned && rapid.IntRange(0, 2).Draw(t, "nodest") == 0
	if strings.HasPrefix(c.Entry, "artifact") && rapid.IntRange(0, 1).Draw(t, "artbad") == 0 {
		c.Artifact = Ref{Class: rapid.SampledFrom([]string{"not", "near", "empty", "absent", "authn", "authn"}).Draw(t, "art"), Index: rapid.IntRange(0, 2).Draw(t, "artidx")}
		if c.Artifact.Class == "near" {
			c.Artifact.Kind = rapid.SampledFrom(nearKindsList).Draw(t, "artkind")
		}
	}
	return c
}

// enumClassProduct: outstanding sets x response-level class x confirmation-level class
// (1 and 2 confirmations, the second varied) x AllowIDPInitiated x validator x entry point.
// enumArtifactAnswersAuthn: the ArtifactResponse names an outstanding AuthnRequest ID (each position of each set)
// instead of the ArtifactResolve, everything else answering that AuthnRequest.
func enumArtifactAnswersAuthn(_ string, emit func(Case)) {
	for _, set := range outstandingSets {
		for i := range set {
			for _, entry := range []string{"artifact-xml", "artifact-http"} {
				for _, rs := range []bool{false, true} {
					for _, as := range []bool{false, true} {
						m := Ref{Class: "match", Index: i}
						emit(Case{Outstanding: append([]string{}, set...), Resp: m, Confs: []Ref{m}, Methods: []string{""}, Entry: entry, Artifact: Ref{Class: "authn", Index: i}, RespSigned: rs, ArtSigned: as})
					}
				}
			}
		}
	}
}

// enumBareConfirmations: a confirmation without any SubjectConfirmationData, alone or beside one that answers an
// outstanding request, for every outstanding set, entry point, signing layout, plain and encrypted.
func enumBareConfirmations(_ string, emit func(Case)) {
	bare, match := Ref{Class: "nodata"}, Ref{Class: "match"}
	for _, set := range outstandingSets {
		for _, entry := range []string{"xml", "post", "artifact-xml", "artifact-http"} {
			for _, confs := range [][]Ref{{bare}, {match, bare}, {bare, match}, {bare, bare}} {
				for _, rs := range []bool{false, true} {
					for _, enc := range []bool{false, true} {
						for _, m := range []string{"", "hok"} {
							c := Case{Outstanding: append([]string{}, set...), Resp: match, Confs: confs, Entry: entry, Artifact: match, RespSigned: rs, ArtSigned: !rs, Encrypted: enc}
							for range confs {
								c.Methods = append(c.Methods, m)
							}
							emit(c)
						}
					}
				}
			}
		}
	}
}

func enumClassProduct(tier string, emit func(Case)) {
	var refs []Ref
	for _, cl := range []string{"match", "other", "not", "empty", "absent"} {
		refs = append(refs, Ref{Class: cl, Index: 0})
	}
	refs[1].Index = 1
	for _, k := range nearKindsList {
		refs = append(refs, Ref{Class: "near", Kind: k})
	}
	crefs := append(append([]Ref{}, refs...), Ref{Class: "nodata"})
	entries := []string{"xml", "post", "artifact-xml", "artifact-http"}
	arts := []Ref{{Class: "match"}, {Class: "not"}, {Class: "near", Kind: "prefix"}, {Class: "near", Kind: "plusx"}, {Class: "empty"}, {Class: "absent"}, {Class: "authn"}, {Class: "authn", Index: 1}}
	idx := 0
	for _, set := range outstandingSets {
		for _, rr := range refs {
			for _, cr := range crefs {
				for _, two := range []bool{false, true} {
					for _, allow := range []bool{false, true} {
						for _, val := range []string{"", "accept", "reject"} {
							for _, entry := range entries {
								al := arts[:1]
								if strings.HasPrefix(entry, "artifact") && !allow && val == "" {
									al = arts
								}
								for _, ar := range al {
									idx++
									if tier != "thorough" && idx%7 != 0 {
										continue
									}
									c := Case{Outstanding: append([]string{}, set...), Resp: rr, Confs: []Ref{cr}, AllowIDP: allow, Validator: val, Entry: entry, Artifact: ar, RespSigned: idx%2 == 0, ArtSigned: idx%3 == 0}
									c.NoDest = !c.RespSigned && idx%4 == 1
									c.Methods = []string{[]string{"", "hok", "sv", ""}[idx%4]}
									if two {
										c.Confs = []Ref{rr, cr}
										c.Methods = []string{"", []string{"hok", "", "sv", ""}[idx%4]}
									}
									emit(c)
								}
							}
						}
					}
				}
			}
		}
	}
}

var prop = &pbt.Prop[Case]{
	ID: "C04",
	Rule: "cases: a genuinely IdP-signed, otherwise valid response whose InResponseTo at the Response and at each of 0-3 subject confirmations is {matching, other outstanding, not outstanding, near-miss (prefix/suffix/case/+x/space), empty, absent, or - for a confirmation - no SubjectConfirmationData element at all} (confirmations of any method: bearer, holder-of-key, sender-vouches; unsigned Responses with and without Destination) relative to a declared outstanding set " +
		"({}, {a}, {a,b,c}, {\"\"}, {a,\"\"}, near-miss sets, random sets), crossed with AllowIDPInitiated, custom ValidateRequestID {none, accept, reject} and entry point {XML, POST, ParseXMLArtifactResponse, ParseResponse+SAMLart with a harness resolver that reads the ArtifactResolve ID the SP just issued; the ArtifactResponse answers that ID, another, a near-miss, nothing, or an outstanding AuthnRequest ID}; " +
		"class product enumerated completely in thorough (every 7th member in quick) plus rapid draws. oracle: reference model (absent = \"\"); with AllowIDPInitiated / custom validator only the positive clause is judged; zero confirmations judged on the response-level clause only; a confirmation without data counts as absent for must-reject and makes must-accept a don't-care. " +
		"non-trivial: outstanding set with >= 2 members, \"\" or near-miss members, response- and confirmation-level classes differ, near-miss value, or artifact entry. distinct: sha256 of the JSON case.",
	Gen:         gen,
	Check:       check,
	Reset:       fix.Reset,
	Enums:       []pbt.Enum[Case]{{Name: "class-product", Each: enumClassProduct}, {Name: "confirmations-without-data", Each: enumBareConfirmations}, {Name: "artifact-response-answers-the-authn-request", Each: enumArtifactAnswersAuthn}},
	Assumptions: []string{"all other conditions (addressing, instants, signatures) are valid in every case"},
}

func TestCheck(t *testing.T) { pbt.Run(t, prop) }

func FuzzCheck(f *testing.F) { pbt.Fuzz(f, prop) }
