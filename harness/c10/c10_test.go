// Package c10: XML encryption round-trips for every offered algorithm and interoperates.
//
// Each case fixes ONE direction so that a failure names exactly what broke:
//
//	self      pkg.Encrypt -> serialise/parse -> pkg.Decrypt        == plaintext
//	pkg2ref   pkg.Encrypt -> serialise/parse -> refenc.Decrypt     == plaintext
//	ref2pkg   refenc.Encrypt -> serialise/parse -> pkg.Decrypt     == plaintext
//	idp2ref   IdpAuthnRequest.MakeAssertionEl (how the IdP uses xmlenc) -> refenc.Decrypt
//	ref2sp    refenc.EncryptedAssertion around an IdP-signed assertion -> ServiceProvider.ParseXMLResponse
//	          (how the SP uses xmlenc: nested and sibling EncryptedKey layouts)
//	seq       several self / ref2pkg operations in a row, results compared after the last one
//
// refenc (internal/refenc) is the independent standard-library reference.
package c10

import (
	"bytes"
	"crypto/sha256"
	"crypto/x509"
	"encoding/binary"
	"fmt"
	"net/http"
	"net/url"
	"os"
	"runtime/debug"
	"strings"
	"testing"

	"github.com/beevik/etree"
	"github.com/crewjam/saml"
	"github.com/crewjam/saml/xmlenc"
	"pgregory.net/rapid"

	"verif/harness/internal/fix"
	"verif/harness/internal/pbt"
	"verif/harness/internal/refenc"
)

// Case is one (direction, algorithm combination, key, plaintext) tuple.
type Case struct {
	// Dir "seq": Steps are run one after the other in the same process (each a self or ref2pkg
	// case of its own); ALL results are held and compared only after the last operation, and
	// after every call the caller-owned inputs (key, nonce, plaintext buffer, element) are
	// overwritten: a returned plaintext must neither change later nor alias an input.
	Steps []Case `json:"steps,omitempty"`

	Dir       string `json:"dir"`                  // self | pkg2ref | ref2pkg | idp2ref | ref2sp
	Block     string `json:"block"`                // aes128-cbc | aes192-cbc | aes256-cbc | tripledes-cbc | aes128-gcm
	Transport string `json:"transport"`            // direct | oaep-mgf1p | oaep11 | pkcs1
	Digest    string `json:"digest,omitempty"`     // OAEP: sha1 | sha256 | sha512 | ripemd160 | default (constructor's own) | absent (ref: no DigestMethod element)
	RSAKey    string `json:"rsa_key,omitempty"`    // recipient fixture (sp | sp2 | rsa1024 | rsa3072 | rsa4096)
	PtrDigest bool   `json:"ptr_digest,omitempty"` // assign &xmlenc.SHA1 style pointer (what identity_provider.go does)

	// plaintext = body(kind, seed, len) with its last len(Tail) octets replaced by Tail
	PlainLen  int    `json:"plain_len"`
	PlainKind string `json:"plain_kind"` // zeros | ff | stream | xml | ascii
	PlainSeed []byte `json:"plain_seed,omitempty"`
	Tail      []byte `json:"tail,omitempty"`

	Key    []byte `json:"key,omitempty"`    // content key: direct transport (both sides) and the reference side of RSA transports
	IV     []byte `json:"iv,omitempty"`     // reference side IV / nonce
	Filler []byte `json:"filler,omitempty"` // reference side arbitrary padding octets
	Seed   []byte `json:"seed,omitempty"`   // expands into xmlenc.RandReader / saml.RandReader and the reference's OAEP seed + PKCS#1 filler

	NonceNil bool   `json:"nonce_nil,omitempty"` // nonce argument of pkg Encrypt is nil (library-generated)
	Nonce    []byte `json:"nonce,omitempty"`     // else this (GCM: 12 octets; CBC: ignored by the package)

	// reference-side presentation variants
	RefEmbedCert bool   `json:"ref_embed_cert,omitempty"`
	RefWrap      int    `json:"ref_wrap,omitempty"`    // base64 line length (0 = one line)
	RefSibling   bool   `json:"ref_sibling,omitempty"` // ref2sp: EncryptedKey next to EncryptedData
	RefPrefix    string `json:"ref_prefix,omitempty"`  // "" (xenc:/ds:) | default (xmlenc as default namespace, dsig:) | other (e:/sig:) | dsdefault (xenc:, xmldsig as default namespace) | bothdefault
	RefExtras    bool   `json:"ref_extras,omitempty"`  // optional schema parts without key material: KeySize, Recipient, KeyName, CarriedKeyName, EncryptionProperties, MimeType
	RefIndent    bool   `json:"ref_indent,omitempty"`  // pretty-printed document (white space between elements)
	RefKeyRef    bool   `json:"ref_key_ref,omitempty"` // ref2sp sibling layout: EncryptedData/KeyInfo/RetrievalMethod URI="#<Id of the EncryptedKey>"
	// optional children of the reference EncryptedKey's EncryptionMethod, varied independently of each other:
	// RefMGF (xmlenc11 rsa-oaep): "" = named after the digest unless RefDefaultMGF | omit (element absent = mgf1sha1) | sha1 | sha224 | sha256 | sha384 | sha512 (explicit element)
	// RefOAEPParams: "" = element absent | empty (<OAEPparams/>, the same null label) | label (a non-empty label: don't-care, the property is silent)
	// other legal ds:KeyInfo children (keyname | retrieval | x509data | keyvalue | foreign) before / after the
	// EncryptedKey inside EncryptedData/KeyInfo, and before / after the X509Data inside the EncryptedKey's own KeyInfo
	RefKIBefore    []string `json:"ref_ki_before,omitempty"`
	RefKIAfter     []string `json:"ref_ki_after,omitempty"`
	RefKeyKIBefore []string `json:"ref_key_ki_before,omitempty"`
	RefKeyKIAfter  []string `json:"ref_key_ki_after,omitempty"`
	RefMGF         string   `json:"ref_mgf,omitempty"`
	RefOAEPParams  string   `json:"ref_oaep_params,omitempty"`
	RefDefaultMGF  bool     `json:"ref_default_mgf,omitempty"` // xmlenc11 rsa-oaep: no xenc11:MGF element, mask function = the W3C default MGF1-SHA-1
	RefStdURI      bool     `json:"ref_std_uri,omitempty"`     // spell SHA-256/512/RIPEMD-160 with the W3C xmlenc# identifiers (don't-care: not in the package's registry)
	Marker         string   `json:"marker,omitempty"`          // idp2ref / ref2sp: the NameID that must come out
}

// ---------------------------------------------------------------- tables

var blocks = []string{"aes128-cbc", "aes192-cbc", "aes256-cbc", "tripledes-cbc", "aes128-gcm"}

func blockURI(b string) string {
	switch b {
	case "aes128-cbc":
		return refenc.AES128CBC
	case "aes192-cbc":
		return refenc.AES192CBC
	case "aes256-cbc":
		return refenc.AES256CBC
	case "tripledes-cbc":
		return refenc.TripleDESCBC
	case "aes128-gcm":
		return refenc.AES128GCM
	}
	return ""
}

func pkgBlock(b string) xmlenc.BlockCipher {
	switch b {
	case "aes128-cbc":
		return xmlenc.AES128CBC
	case "aes192-cbc":
		return xmlenc.AES192CBC
	case "aes256-cbc":
		return xmlenc.AES256CBC
	case "tripledes-cbc":
		return xmlenc.TripleDES
	case "aes128-gcm":
		return xmlenc.AES128GCM
	}
	return nil
}

type combo struct{ transport, digest string }

// what the package's constructors offer (pubkey.go): OAEP() with any registered
// digest, OAEP_SHA256(), OAEP_SHA512() (plus SHA-1 assigned to the xmlenc11 one,
// whose MGF then coincides with the W3C default), PKCS1v15(), and a direct key.
var pkgCombos = []combo{
	{"direct", ""},
	{"oaep-mgf1p", "sha1"}, {"oaep-mgf1p", "sha256"}, {"oaep-mgf1p", "sha512"}, {"oaep-mgf1p", "ripemd160"},
	{"oaep11", "sha256"}, {"oaep11", "sha512"}, {"oaep11", "sha1"},
	{"pkcs1", ""},
}

func hashLen(d string) int {
	switch d {
	case "sha1", "ripemd160", "absent":
		return 20
	case "sha256", "default":
		return 32
	case "sha512":
		return 64
	}
	return 0
}

func modLen(k string) int {
	switch k {
	case "rsa1024":
		return 128
	case "rsa3072":
		return 384
	case "rsa4096":
		return 512
	}
	return 256
}

// fits reports whether a content key of n octets can be transported at all.
func fits(transport, digest, rsaKey string, n int) bool {
	switch transport {
	case "direct":
		return true
	case "pkcs1":
		return n <= modLen(rsaKey)-11
	}
	return n <= modLen(rsaKey)-2*hashLen(digest)-2
}

func pkgDigest(d string, ptr bool) xmlenc.DigestMethod {
	switch d {
	case "sha1":
		if ptr {
			return &xmlenc.SHA1
		}
		return xmlenc.SHA1
	case "sha256":
		if ptr {
			return &xmlenc.SHA256
		}
		return xmlenc.SHA256
	case "sha512":
		if ptr {
			return &xmlenc.SHA512
		}
		return xmlenc.SHA512
	case "ripemd160":
		if ptr {
			return &xmlenc.RIPEMD160
		}
		return xmlenc.RIPEMD160
	}
	return nil
}

// refDigestURI: identifiers as the package's registry declares them, unless the
// case asks for the W3C spellings (don't-care).
func refDigestURI(d string, std bool) string {
	switch d {
	case "sha1":
		return refenc.DigestSHA1
	case "sha256", "default":
		if std {
			return refenc.DigestSHA256
		}
		return refenc.LibDigestSHA256
	case "sha512":
		if std {
			return refenc.DigestSHA512
		}
		return refenc.LibDigestSHA512
	case "ripemd160":
		if std {
			return refenc.DigestRIPEMD160
		}
		return refenc.LibDigestRIPEMD160
	}
	return "" // absent
}

func refMGF(d string) string {
	switch d {
	case "sha256":
		return refenc.MGF1SHA256
	case "sha512":
		return refenc.MGF1SHA512
	}
	return "" // sha1: the default, element omitted
}

// ---------------------------------------------------------------- deterministic octet streams

type stream struct {
	seed []byte
	ctr  uint64
	buf  []byte
}

func newStream(seed []byte, label string) *stream {
	h := sha256.Sum256(append(append([]byte{}, seed...), label...))
	return &stream{seed: h[:]}
}

func (s *stream) Read(p []byte) (int, error) {
	for i := range p {
		if len(s.buf) == 0 {
			var c [8]byte
			binary.BigEndian.PutUint64(c[:], s.ctr)
			s.ctr++
			h := sha256.Sum256(append(append([]byte{}, s.seed...), c[:]...))
			s.buf = h[:]
		}
		p[i] = s.buf[0]
		s.buf = s.buf[1:]
	}
	return len(p), nil
}

func expand(seed []byte, label string, n int) []byte {
	out := make([]byte, n)
	_, _ = newStream(seed, label).Read(out)
	return out
}

func (c Case) plaintext() []byte {
	n := c.PlainLen
	var p []byte
	switch c.PlainKind {
	case "zeros":
		p = make([]byte, n)
	case "ff":
		p = bytes.Repeat([]byte{0xff}, n)
	case "xml":
		unit := "<saml:Attribute Name=\"uid\"><saml:AttributeValue>é&amp;x</saml:AttributeValue></saml:Attribute>\n"
		p = []byte(strings.Repeat(unit, n/len(unit)+1))[:n]
	case "ascii":
		p = expand(c.PlainSeed, "ascii", n)
		for i := range p {
			p[i] = 0x20 + p[i]%95
		}
	default:
		p = expand(c.PlainSeed, "plain", n)
	}
	if len(c.Tail) > 0 && len(c.Tail) <= n {
		copy(p[n-len(c.Tail):], c.Tail)
	}
	return p
}

// ---------------------------------------------------------------- defect classes (for VERIF_EXCLUDE_* and known findings)

func pkgEncrypts(dir string) bool { return dir == "self" || dir == "pkg2ref" || dir == "idp2ref" }
func pkgDecrypts(dir string) bool { return dir == "self" || dir == "ref2pkg" || dir == "ref2sp" }

func (c Case) inGCMEncrypt() bool { return c.Block == "aes128-gcm" && pkgEncrypts(c.Dir) }
func (c Case) in3DES() bool       { return c.Block == "tripledes-cbc" }
func (c Case) inEmpty() bool {
	return c.PlainLen == 0 && c.Block != "aes128-gcm" && pkgDecrypts(c.Dir) && c.Dir != "ref2sp"
}
func (c Case) inOAEP11() bool { return c.Transport == "oaep11" }
func (c Case) inMGF1PDigest() bool {
	return c.Transport == "oaep-mgf1p" && c.Digest != "sha1" && c.Digest != "absent" && c.Dir != "self"
}

func excluded(c Case) bool {
	for _, st := range c.Steps {
		if excluded(st) {
			return true
		}
	}
	on := func(n string) bool { return os.Getenv("VERIF_EXCLUDE_"+n) == "1" }
	return (on("GCM_ENCRYPT") && c.inGCMEncrypt()) ||
		(on("3DES") && c.in3DES()) ||
		(on("EMPTY_PLAINTEXT") && c.inEmpty()) ||
		(on("OAEP11") && c.inOAEP11()) ||
		(on("MGF1P_DIGEST") && c.inMGF1PDigest())
}

// ---------------------------------------------------------------- execution

func guard(f func() error) (err error) {
	defer func() {
		if e := recover(); e != nil {
			st := strings.Split(string(debug.Stack()), "\n")
			if len(st) > 24 {
				st = st[:24]
			}
			err = fmt.Errorf("PANIC: %v\n%s", e, strings.Join(st, "\n"))
		}
	}()
	return f()
}

func reparse(el *etree.Element) (*etree.Element, error) {
	r, _, err := refenc.Reparse(el)
	return r, err
}

// wire serialises a reference-built element the way the case says (compact or
// pretty-printed) and parses it again.
func (c Case) wire(el *etree.Element) (*etree.Element, error) {
	doc := etree.NewDocument()
	doc.SetRoot(el.Copy())
	if c.RefIndent {
		doc.Indent(2)
	}
	buf, err := doc.WriteToBytes()
	if err != nil {
		return nil, err
	}
	d2 := etree.NewDocument()
	if err := d2.ReadFromBytes(buf); err != nil {
		return nil, err
	}
	if d2.Root() == nil {
		return nil, fmt.Errorf("no root after reparse")
	}
	return d2.Root(), nil
}

func (c Case) pkgRSA() (xmlenc.RSA, error) {
	var e xmlenc.RSA
	switch c.Transport {
	case "oaep-mgf1p":
		e = xmlenc.OAEP()
		if c.Digest != "default" {
			e.DigestMethod = pkgDigest(c.Digest, c.PtrDigest)
		}
	case "oaep11":
		switch c.Digest {
		case "sha512":
			e = xmlenc.OAEP_SHA512()
		case "sha256":
			e = xmlenc.OAEP_SHA256()
		default:
			e = xmlenc.OAEP_SHA256()
			e.DigestMethod = pkgDigest(c.Digest, c.PtrDigest)
		}
	case "pkcs1":
		e = xmlenc.PKCS1v15()
	default:
		return e, fmt.Errorf("harness: no RSA transport %q", c.Transport)
	}
	e.BlockCipher = pkgBlock(c.Block)
	return e, nil
}

func (c Case) nonceArg() []byte {
	if c.NonceNil {
		return nil
	}
	return c.Nonce
}

// pkgEncrypt runs the package's encrypter and returns the element as a peer would receive it.
func (c Case) pkgEncrypt(plain []byte) (*etree.Element, error) {
	var el *etree.Element
	err := guard(func() error {
		var err error
		if c.Transport == "direct" {
			el, err = pkgBlock(c.Block).Encrypt(c.Key, plain, c.nonceArg())
			return err
		}
		e, err := c.pkgRSA()
		if err != nil {
			return err
		}
		el, err = e.Encrypt(fix.Get(c.RSAKey).Cert, plain, c.nonceArg())
		return err
	})
	if err != nil {
		return nil, fmt.Errorf("package Encrypt failed: %v", err)
	}
	if el == nil {
		return nil, fmt.Errorf("package Encrypt returned a nil element and a nil error")
	}
	return reparse(el)
}

func (c Case) pkgDecrypt(el *etree.Element) ([]byte, error) {
	var out []byte
	err := guard(func() error {
		var err error
		if c.Transport == "direct" {
			out, err = xmlenc.Decrypt(c.Key, el)
		} else {
			out, err = xmlenc.Decrypt(fix.Get(c.RSAKey).RSA(), el)
		}
		return err
	})
	return out, err
}

func (c Case) refOptions() refenc.Options {
	o := refenc.Options{
		BlockAlg: blockURI(c.Block), IV: c.IV, ContentKey: c.Key, PadFiller: c.Filler,
		Rand: newStream(c.Seed, "ref"), EmbedCert: c.RefEmbedCert, WrapBase64: c.RefWrap, Sibling: c.RefSibling,
		ID: "_ref-data", KeyID: "_ref-key", Extras: c.RefExtras, KeyIDRef: c.RefKeyRef && c.RefSibling,
		DataKIBefore: c.RefKIBefore, DataKIAfter: c.RefKIAfter, KeyKIBefore: c.RefKeyKIBefore, KeyKIAfter: c.RefKeyKIAfter,
	}
	if c.Transport == "direct" {
		// no EncryptedKey exists: a RetrievalMethod pointing at one would dangle, which is not a conformant document
		keep := func(l []string) (out []string) {
			for _, k := range l {
				if k != "retrieval" {
					out = append(out, k)
				}
			}
			return out
		}
		o.DataKIBefore, o.DataKIAfter, o.KeyKIBefore, o.KeyKIAfter = keep(o.DataKIBefore), keep(o.DataKIAfter), nil, nil
	}
	switch c.RefPrefix {
	case "default":
		o.XencPrefix, o.DsPrefix = "-", "dsig"
	case "other":
		o.XencPrefix, o.DsPrefix = "e", "sig"
	case "dsdefault": // xenc: prefix, xmldsig as default namespace on KeyInfo / DigestMethod (ADFS style)
		o.DsPrefix = "-"
	case "bothdefault":
		o.XencPrefix, o.DsPrefix = "-", "-"
	}
	switch c.Transport {
	case "oaep-mgf1p":
		o.KeyTransport = refenc.RSAOAEPMGF1P
		o.Digest = refDigestURI(c.Digest, c.RefStdURI)
	case "oaep11":
		o.KeyTransport = refenc.RSAOAEP11
		o.Digest = refDigestURI(c.Digest, c.RefStdURI)
		// The package's xmlenc11 constructors tie the mask function to the digest;
		// the standard way to say so is an explicit xenc11:MGF element.
		o.MGF = refMGF(c.Digest)
		if c.RefDefaultMGF {
			o.MGF = "" // element omitted: MGF1 with SHA-1 (xmlenc-core 1.1 section 5.5.2)
		}
		switch c.RefMGF {
		case "omit":
			o.MGF = ""
		case "sha1":
			o.MGF = refenc.MGF1SHA1
		case "sha224":
			o.MGF = refenc.MGF1SHA224
		case "sha256":
			o.MGF = refenc.MGF1SHA256
		case "sha384":
			o.MGF = refenc.MGF1SHA384
		case "sha512":
			o.MGF = refenc.MGF1SHA512
		}
	case "pkcs1":
		o.KeyTransport = refenc.RSA15
	}
	if o.KeyTransport == refenc.RSAOAEPMGF1P || o.KeyTransport == refenc.RSAOAEP11 {
		switch c.RefOAEPParams {
		case "empty":
			o.OAEPParams = []byte{}
		case "label":
			o.OAEPParams = []byte("c10 label")
		}
	}
	return o
}

// labelled: the reference used a non-empty OAEP label (OAEPparams); the property does
// not speak about it, so such a case is exercised but not judged.
func (c Case) labelled() bool {
	return c.RefOAEPParams == "label" && (c.Transport == "oaep-mgf1p" || c.Transport == "oaep11")
}

func (c Case) refDecrypt(el *etree.Element) ([]byte, error) {
	if c.Transport == "direct" {
		return refenc.DecryptData(el, c.Key)
	}
	return refenc.DecryptElement(el, fix.Get(c.RSAKey).RSA())
}

func short(b []byte) string {
	if len(b) > 48 {
		return fmt.Sprintf("%x… (%d octets)", b[:48], len(b))
	}
	return fmt.Sprintf("%x (%d octets)", b, len(b))
}

func (c Case) describe() string {
	return fmt.Sprintf("dir=%s block=%s transport=%s digest=%q rsa=%s plaintext=%d octets", c.Dir, c.Block, c.Transport, c.Digest, c.RSAKey, c.PlainLen)
}

func fail(c Case, f string, a ...any) pbt.Result {
	return pbt.Result{Err: c.describe() + ": " + fmt.Sprintf(f, a...), NonTrivial: true, Classes: classes(c)}
}

func lenClass(c Case) string {
	bs := 16
	if c.Block == "tripledes-cbc" {
		bs = 8
	}
	n := c.PlainLen
	switch {
	case n == 0:
		return "len:0"
	case n < bs:
		return "len:<block"
	case n > 4*bs+1:
		if n%bs == 0 {
			return "len:long-aligned"
		}
		return "len:long"
	case n%bs == 0:
		return "len:k*block"
	case n%bs == 1:
		return "len:k*block+1"
	case n%bs == bs-1:
		return "len:k*block-1"
	}
	return "len:mid"
}

func classes(c Case) []string {
	cl := []string{"dir:" + c.Dir, "block:" + c.Block, "transport:" + c.Transport}
	if c.Dir == "idp2ref" || c.Dir == "ref2sp" {
		cl = append(cl, "plain:signed-assertion")
	} else {
		cl = append(cl, lenClass(c), "plain:"+c.PlainKind)
	}
	if c.Digest != "" {
		cl = append(cl, "transport:"+c.Transport+"/"+c.Digest)
	}
	if c.Transport != "direct" {
		cl = append(cl, "rsa:"+c.RSAKey)
	}
	if pkgEncrypts(c.Dir) && c.Dir != "idp2ref" {
		switch bs := blockSize(c.Block); {
		case c.NonceNil:
			cl = append(cl, "nonce:library-generated")
		case c.Block == "aes128-gcm":
			cl = append(cl, "nonce:supplied")
		case len(c.Nonce) < bs:
			cl = append(cl, "nonce:supplied", "nonce:cbc-shorter-than-block")
		case len(c.Nonce) == bs:
			cl = append(cl, "nonce:supplied", "nonce:cbc-block-size")
		default:
			cl = append(cl, "nonce:supplied", "nonce:cbc-longer-than-block")
		}
	}
	if len(c.Tail) > 0 && len(c.Tail) <= c.PlainLen {
		cl = append(cl, "plain:chosen-tail")
	}
	if c.Dir == "ref2pkg" || c.Dir == "ref2sp" {
		if c.RefEmbedCert {
			cl = append(cl, "ref:embedded-cert")
		}
		if c.RefWrap > 0 {
			cl = append(cl, "ref:wrapped-base64")
		}
		if c.RefSibling {
			cl = append(cl, "ref:sibling-key")
		}
		if c.RefStdURI {
			cl = append(cl, "ref:w3c-digest-uri(dont-care)")
		}
		if c.Transport == "oaep11" {
			switch {
			case c.RefMGF == "omit" || (c.RefMGF == "" && c.RefDefaultMGF):
				cl = append(cl, "ref:default-mgf")
			case c.RefMGF != "":
				cl = append(cl, "ref:explicit-mgf-"+c.RefMGF)
				if c.Digest == "absent" {
					cl = append(cl, "ref:mgf-without-digestmethod")
				}
			}
		}
		switch {
		case c.labelled():
			cl = append(cl, "ref:oaep-label(dont-care)")
		case c.RefOAEPParams == "empty" && (c.Transport == "oaep-mgf1p" || c.Transport == "oaep11"):
			cl = append(cl, "ref:empty-oaepparams")
		}
		if c.Digest == "absent" {
			cl = append(cl, "ref:no-digestmethod")
		}
		if c.RefPrefix != "" {
			cl = append(cl, "ref:prefix-"+c.RefPrefix)
		}
		if c.RefExtras {
			cl = append(cl, "ref:optional-schema-parts")
		}
		if c.RefIndent {
			cl = append(cl, "ref:indented")
		}
		if c.RefKeyRef && c.RefSibling {
			cl = append(cl, "ref:retrieval-method")
		}
		for _, k := range c.RefKIBefore {
			cl = append(cl, "ref:keyinfo-"+k+"-before-encryptedkey")
		}
		for _, k := range c.RefKIAfter {
			cl = append(cl, "ref:keyinfo-"+k+"-after-encryptedkey")
		}
		if len(c.RefKeyKIBefore)+len(c.RefKeyKIAfter) > 0 {
			cl = append(cl, "ref:extra-children-in-encryptedkey-keyinfo")
		}
	}
	if c.PtrDigest {
		cl = append(cl, "pkg:pointer-digest")
	}
	return cl
}

func wellFormed(c Case) bool {
	if c.Dir == "seq" {
		if len(c.Steps) < 1 || len(c.Steps) > 12 {
			return false
		}
		for _, st := range c.Steps {
			if (st.Dir != "self" && st.Dir != "ref2pkg") || !wellFormed(st) || st.inGCMEncrypt() || st.labelled() || (st.RefStdURI && st.Digest != "sha1" && st.Digest != "absent") {
				return false // steps are restricted to judged, non-known-finding classes
			}
		}
		return true
	}
	if blockURI(c.Block) == "" {
		return false
	}
	s, _ := refenc.Spec(blockURI(c.Block))
	switch c.Dir {
	case "self", "pkg2ref", "ref2pkg":
	case "idp2ref":
		return c.Marker != "" && c.RSAKey != ""
	case "ref2sp":
		if c.Marker == "" || c.Transport == "direct" {
			return false
		}
	default:
		return false
	}
	if c.PlainLen < 0 || c.PlainLen > 1<<20 || len(c.Nonce) > 4096 {
		return false
	}
	switch c.RefPrefix {
	case "", "default", "other", "dsdefault", "bothdefault":
	default:
		return false
	}
	switch c.RefMGF {
	case "", "omit", "sha1", "sha224", "sha256", "sha384", "sha512":
	default:
		return false
	}
	for _, l := range [][]string{c.RefKIBefore, c.RefKIAfter, c.RefKeyKIBefore, c.RefKeyKIAfter} {
		if len(l) > 5 {
			return false
		}
		for _, k := range l {
			if k != "keyname" && k != "retrieval" && k != "x509data" && k != "keyvalue" && k != "foreign" {
				return false
			}
		}
	}
	switch c.RefOAEPParams {
	case "", "empty", "label":
	default:
		return false
	}
	if c.Transport == "direct" || c.Dir == "ref2pkg" || c.Dir == "ref2sp" {
		if len(c.Key) != s.KeyLen {
			return false
		}
	}
	if c.Dir == "ref2pkg" || c.Dir == "ref2sp" {
		if len(c.IV) != s.IVLen {
			return false
		}
	}
	if c.Transport != "direct" {
		ok := false
		for _, k := range []string{"sp", "sp2", "rsa1024", "rsa3072", "rsa4096"} {
			ok = ok || k == c.RSAKey
		}
		if !ok {
			return false
		}
		d := c.Digest
		switch c.Transport {
		case "oaep-mgf1p":
			if d != "sha1" && d != "sha256" && d != "sha512" && d != "ripemd160" && d != "default" && d != "absent" {
				return false
			}
			if (d == "default" && !pkgEncrypts(c.Dir)) || (d == "absent" && pkgEncrypts(c.Dir)) {
				return false
			}
		case "oaep11":
			if d != "sha1" && d != "sha256" && d != "sha512" && d != "absent" {
				return false
			}
			if d == "absent" && pkgEncrypts(c.Dir) {
				return false
			}
		case "pkcs1":
			if d != "" {
				return false
			}
		default:
			return false
		}
		if !fits(c.Transport, d, c.RSAKey, s.KeyLen) {
			return false
		}
	}
	if pkgEncrypts(c.Dir) && !c.NonceNil && s.GCM && len(c.Nonce) != 12 {
		return false // a GCM nonce of another size is outside "supplied nonces" (property silent)
	}
	return true
}

func check(c Case) pbt.Result {
	if !wellFormed(c) || excluded(c) {
		return pbt.Result{Skip: true}
	}
	if c.Dir == "seq" {
		return checkSeq(c)
	}
	xmlenc.RandReader = newStream(c.Seed, "xmlenc")
	saml.RandReader = newStream(c.Seed, "saml")
	plain := c.plaintext()
	ok := pbt.Result{NonTrivial: true, Classes: classes(c)}

	switch c.Dir {
	case "self", "pkg2ref":
		if c.Transport == "direct" {
			// "every key of the right size": the size the W3C identifier prescribes.
			if ks := pkgBlock(c.Block).KeySize(); ks != len(c.Key) {
				return fail(c, "the package declares KeySize()=%d for %s; the algorithm identifier prescribes %d octets", ks, blockURI(c.Block), len(c.Key))
			}
		}
		el, err := c.pkgEncrypt(plain)
		if err != nil {
			return fail(c, "%v", err)
		}
		var out []byte
		who := "package Decrypt"
		if c.Dir == "self" {
			out, err = c.pkgDecrypt(el)
		} else {
			who = "reference decryption of the package's ciphertext"
			out, err = c.refDecrypt(el)
		}
		if err != nil {
			return fail(c, "%s failed: %v", who, err)
		}
		if !bytes.Equal(out, plain) {
			return fail(c, "%s returned %s, want %s", who, short(out), short(plain))
		}
		return ok

	case "ref2pkg":
		o := c.refOptions()
		o.Sibling = false
		rel, err := refenc.EncryptElement(plain, certOf(c), o)
		if err != nil {
			panic("harness: reference encryption failed: " + err.Error())
		}
		el, err := c.wire(rel)
		if err != nil {
			panic("harness: " + err.Error())
		}
		if chk, err := c.refDecrypt(el); err != nil || !bytes.Equal(chk, plain) {
			panic(fmt.Sprintf("harness: reference does not round-trip with itself: %v", err))
		}
		out, err := c.pkgDecrypt(el)
		// An omitted ds:DigestMethod means SHA-1 (xmlenc-core 1.1 section 5.5.2; the package's own
		// RSA.Decrypt says so too): the reference used SHA-1, so the package must open it.
		dontCare := c.labelled() || c.RefStdURI && c.Transport != "pkcs1" && c.Transport != "direct" && c.Digest != "sha1" && c.Digest != "absent"
		if dontCare {
			if err != nil && strings.HasPrefix(err.Error(), "PANIC") {
				return fail(c, "package Decrypt of a reference ciphertext: %v", err)
			}
			if err == nil && !bytes.Equal(out, plain) {
				return fail(c, "package Decrypt returned %s, want %s", short(out), short(plain))
			}
			if err != nil {
				ok.Classes = append(ok.Classes, "dont-care:rejected")
			} else {
				ok.Classes = append(ok.Classes, "dont-care:accepted")
			}
			return ok
		}
		if err != nil {
			return fail(c, "package Decrypt of a reference ciphertext failed: %v", err)
		}
		if !bytes.Equal(out, plain) {
			return fail(c, "package Decrypt of a reference ciphertext returned %s, want %s", short(out), short(plain))
		}
		return ok

	case "idp2ref":
		return checkIDP(c, ok)
	case "ref2sp":
		return checkSP(c, ok)
	}
	return pbt.Result{Skip: true}
}

func clone(b []byte) []byte {
	if b == nil {
		return nil
	}
	return append([]byte{}, b...)
}

func scribble(b []byte) {
	for i := range b {
		b[i] ^= 0xA5
	}
}

// scribbleElement overwrites every CipherValue / X509Certificate text of a tree the
// package has finished with.
func scribbleElement(el *etree.Element) {
	for _, e := range el.FindElements(".//CipherValue") {
		e.SetText("QUFBQUFBQUFBQUFBQUFBQQ==")
	}
}

// checkSeq runs the steps in order on the long-lived package state and judges every
// held result only after the last operation.
func checkSeq(c Case) pbt.Result {
	cl := []string{"dir:seq", fmt.Sprintf("seq:%d-operations", len(c.Steps))}
	type heldT struct {
		out, want []byte
	}
	var held []heldT
	maxLen, laterShorter, mixed := -1, false, false
	for i, st := range c.Steps {
		cl = append(cl, "step:"+st.Dir, "step:block:"+st.Block, "step:transport:"+st.Transport)
		if st.PlainLen <= maxLen {
			laterShorter = true
		}
		if st.PlainLen > maxLen {
			maxLen = st.PlainLen
		}
		if i > 0 && st.Block != c.Steps[i-1].Block {
			mixed = true
		}
	}
	if laterShorter {
		cl = append(cl, "seq:later-not-longer")
	}
	if mixed {
		cl = append(cl, "seq:mixed-ciphers")
	}
	res := pbt.Result{NonTrivial: true, Classes: cl}
	bad := func(i int, f string, a ...any) pbt.Result {
		return pbt.Result{Err: fmt.Sprintf("sequence of %d operations, operation %d (%s): ", len(c.Steps), i+1, c.Steps[i].describe()) + fmt.Sprintf(f, a...), NonTrivial: true, Classes: cl}
	}
	for i, st := range c.Steps {
		xmlenc.RandReader = newStream(st.Seed, "xmlenc")
		plain := st.plaintext()
		want := clone(plain)
		var el *etree.Element
		var err error
		if st.Dir == "self" {
			enc := st
			enc.Key, enc.Nonce = clone(st.Key), clone(st.Nonce)
			buf := clone(plain)
			el, err = enc.pkgEncrypt(buf)
			if err != nil {
				return bad(i, "%v", err)
			}
			scribble(buf)
			scribble(enc.Key)
			scribble(enc.Nonce)
		} else {
			o := st.refOptions()
			o.Sibling = false
			rel, rerr := refenc.EncryptElement(plain, certOf(st), o)
			if rerr != nil {
				panic("harness: reference encryption failed: " + rerr.Error())
			}
			if el, err = st.wire(rel); err != nil {
				panic("harness: " + err.Error())
			}
		}
		dec := st
		dec.Key = clone(st.Key)
		out, err := dec.pkgDecrypt(el)
		if err != nil {
			return bad(i, "package Decrypt failed: %v", err)
		}
		if !bytes.Equal(out, want) {
			return bad(i, "package Decrypt returned %s, want %s", short(out), short(want))
		}
		// the call is over: everything the caller owns may be reused
		scribble(dec.Key)
		scribbleElement(el)
		if !bytes.Equal(out, want) {
			return bad(i, "the returned plaintext changed when the caller overwrote the key buffer / the element after the call: now %s, want %s", short(out), short(want))
		}
		held = append(held, heldT{out, want})
	}
	for i, h := range held {
		if !bytes.Equal(h.out, h.want) {
			return bad(i, "the plaintext returned by this operation was correct when returned but reads %s after the later operations of the sequence, want %s", short(h.out), short(h.want))
		}
	}
	return res
}

func certOf(c Case) *x509.Certificate {
	if c.Transport == "direct" {
		return nil
	}
	return fix.Get(c.RSAKey).Cert
}

// ---------------------------------------------------------------- IdP / SP usage

func mustURL(s string) url.URL {
	u, err := url.Parse(s)
	if err != nil {
		panic(err)
	}
	return *u
}

const (
	idpMetaURL = "https://idp.example.com/metadata"
	idpSSOURL  = "https://idp.example.com/sso"
	spMetaURL  = "https://sp.example.com/saml/metadata"
	spAcsURL   = "https://sp.example.com/saml/acs"
	requestID  = "id-c10-request"
)

func newIDP() *saml.IdentityProvider {
	k := fix.Get("idp")
	return &saml.IdentityProvider{Key: k.Key, Certificate: k.Cert, MetadataURL: mustURL(idpMetaURL), SSOURL: mustURL(idpSSOURL)}
}

func newSP(keyName string) *saml.ServiceProvider {
	k := fix.Get(keyName)
	return &saml.ServiceProvider{Key: k.RSA(), Certificate: k.Cert, MetadataURL: mustURL(spMetaURL), AcsURL: mustURL(spAcsURL), IDPMetadata: newIDP().Metadata()}
}

// idpRequest prepares an IdP-side request for the SP whose key is keyName; the SP
// metadata either publishes its encryption certificate or not.
func idpRequest(keyName, marker string, withEncryption bool) (*saml.IdpAuthnRequest, error) {
	md := newSP(keyName).Metadata()
	if !withEncryption {
		for i := range md.SPSSODescriptors {
			var kds []saml.KeyDescriptor
			for _, kd := range md.SPSSODescriptors[i].KeyDescriptors {
				if kd.Use == "signing" {
					kds = append(kds, kd)
				}
			}
			md.SPSSODescriptors[i].KeyDescriptors = kds
		}
	}
	req := &saml.IdpAuthnRequest{
		IDP: newIDP(), Now: fix.Epoch, HTTPRequest: &http.Request{RemoteAddr: "192.0.2.7:4711"},
		Request: saml.AuthnRequest{ID: requestID, IssueInstant: fix.Epoch, Version: "2.0", Destination: idpSSOURL,
			Issuer: &saml.Issuer{Value: spMetaURL}, AssertionConsumerServiceURL: spAcsURL},
		ServiceProviderMetadata: md, SPSSODescriptor: &md.SPSSODescriptors[0],
		ACSEndpoint: &saml.IndexedEndpoint{Binding: saml.HTTPPostBinding, Location: spAcsURL, Index: 1},
	}
	sess := &saml.Session{ID: "sess-c10", CreateTime: fix.Epoch, ExpireTime: fix.Epoch.Add(3600e9), Index: "idx-c10", NameID: marker, UserName: "user-c10"}
	if err := (saml.DefaultAssertionMaker{}).MakeAssertion(req, sess); err != nil {
		return nil, err
	}
	if err := req.MakeAssertionEl(); err != nil {
		return nil, err
	}
	return req, nil
}

func nameIDOf(assertionXML []byte) (string, string, error) {
	doc := etree.NewDocument()
	if err := doc.ReadFromBytes(assertionXML); err != nil {
		return "", "", err
	}
	root := doc.Root()
	if root == nil {
		return "", "", fmt.Errorf("no root element")
	}
	n := root.FindElement("./Subject/NameID")
	if n == nil {
		return root.Tag, "", fmt.Errorf("no Subject/NameID")
	}
	return root.Tag, n.Text(), nil
}

func checkIDP(c Case, ok pbt.Result) pbt.Result {
	var req *saml.IdpAuthnRequest
	err := guard(func() error {
		var err error
		req, err = idpRequest(c.RSAKey, c.Marker, true)
		return err
	})
	if err != nil {
		return fail(c, "IdP could not build the encrypted assertion for an SP publishing an RSA encryption certificate: %v", err)
	}
	if req.AssertionEl == nil || req.AssertionEl.Tag != "EncryptedAssertion" {
		return fail(c, "IdP did not produce an EncryptedAssertion element")
	}
	el, err := reparse(req.AssertionEl)
	if err != nil {
		return fail(c, "emitted EncryptedAssertion does not reparse: %v", err)
	}
	out, err := refenc.DecryptElement(el, fix.Get(c.RSAKey).RSA())
	if err != nil {
		return fail(c, "reference cannot open the IdP's EncryptedAssertion: %v", err)
	}
	tag, nid, err := nameIDOf(out)
	if err != nil || tag != "Assertion" || nid != c.Marker {
		return fail(c, "reference-decrypted plaintext is not the assertion that went in (root %q, NameID %q, want %q): %v", tag, nid, c.Marker, err)
	}
	// and the package opens its own EncryptedData to the same octets
	var own []byte
	err = guard(func() error {
		var err error
		own, err = xmlenc.Decrypt(fix.Get(c.RSAKey).RSA(), el.ChildElements()[0])
		return err
	})
	if err != nil || !bytes.Equal(own, out) {
		return fail(c, "package Decrypt of the IdP's EncryptedData disagrees with the reference: %v", err)
	}
	return ok
}

func checkSP(c Case, ok pbt.Result) pbt.Result {
	// a signed, valid, unencrypted assertion from the library IdP is the plaintext
	var req *saml.IdpAuthnRequest
	err := guard(func() error {
		var err error
		req, err = idpRequest(c.RSAKey, c.Marker, false)
		return err
	})
	if err != nil || req.AssertionEl == nil || req.AssertionEl.Tag != "Assertion" {
		panic(fmt.Sprintf("harness: cannot obtain a signed plaintext assertion: %v", err))
	}
	doc := etree.NewDocument()
	doc.SetRoot(req.AssertionEl)
	plain, err := doc.WriteToBytes()
	if err != nil {
		panic(err)
	}
	ea, err := refenc.EncryptedAssertion(plain, fix.Get(c.RSAKey).Cert, c.refOptions())
	if err != nil {
		panic("harness: reference encryption failed: " + err.Error())
	}
	resp := etree.NewElement("samlp:Response")
	resp.CreateAttr("xmlns:samlp", "urn:oasis:names:tc:SAML:2.0:protocol")
	resp.CreateAttr("xmlns:saml", refenc.NSSAML)
	resp.CreateAttr("ID", "id-c10-response")
	resp.CreateAttr("InResponseTo", requestID)
	resp.CreateAttr("Version", "2.0")
	resp.CreateAttr("IssueInstant", fix.Epoch.Format("2006-01-02T15:04:05Z"))
	resp.CreateAttr("Destination", spAcsURL)
	resp.CreateElement("saml:Issuer").SetText(idpMetaURL)
	resp.CreateElement("samlp:Status").CreateElement("samlp:StatusCode").CreateAttr("Value", saml.StatusSuccess)
	resp.AddChild(ea)
	rdoc := etree.NewDocument()
	rdoc.SetRoot(resp)
	if c.RefIndent {
		rdoc.Indent(2)
	}
	buf, err := rdoc.WriteToBytes()
	if err != nil {
		panic(err)
	}
	// sanity: the reference opens what it wrapped
	{
		d2 := etree.NewDocument()
		if err := d2.ReadFromBytes(buf); err != nil {
			panic(err)
		}
		chk, err := refenc.DecryptElement(d2.Root().FindElement("./EncryptedAssertion"), fix.Get(c.RSAKey).RSA())
		if err != nil || !bytes.Equal(chk, plain) {
			panic(fmt.Sprintf("harness: reference does not round-trip with itself: %v", err))
		}
	}
	sp := newSP(c.RSAKey)
	var got *saml.Assertion
	err = guard(func() error {
		var err error
		got, err = sp.ParseXMLResponse(buf, []string{requestID}, mustURL(spAcsURL))
		if ire, isIRE := err.(*saml.InvalidResponseError); isIRE {
			return fmt.Errorf("%v (%v)", err, ire.PrivateErr)
		}
		return err
	})
	dontCare := c.labelled() || c.RefStdURI && c.Transport != "pkcs1" && c.Digest != "sha1" && c.Digest != "absent"
	if dontCare {
		if err != nil && strings.HasPrefix(err.Error(), "PANIC") {
			return fail(c, "ParseXMLResponse: %v", err)
		}
		if err != nil {
			ok.Classes = append(ok.Classes, "dont-care:rejected")
		} else {
			ok.Classes = append(ok.Classes, "dont-care:accepted")
		}
		return ok
	}
	if err != nil {
		return fail(c, "ServiceProvider.ParseXMLResponse rejected an IdP-signed assertion encrypted by the reference (sibling=%v): %v", c.RefSibling, err)
	}
	if got == nil || got.Subject == nil || got.Subject.NameID == nil || got.Subject.NameID.Value != c.Marker {
		return fail(c, "ServiceProvider.ParseXMLResponse returned another assertion than the one encrypted")
	}
	return ok
}

// ---------------------------------------------------------------- generator

var kiKindList = []string{"keyname", "retrieval", "x509data", "keyvalue", "foreign"}

func blockSize(b string) int {
	if b == "tripledes-cbc" {
		return 8
	}
	return 16
}

func genBytes(t *rapid.T, n int, label string) []byte {
	switch rapid.IntRange(0, 5).Draw(t, label+"-class") {
	case 0:
		return make([]byte, n)
	case 1:
		return bytes.Repeat([]byte{0xff}, n)
	}
	return rapid.SliceOfN(rapid.Byte(), n, n).Draw(t, label)
}

func gen(t *rapid.T) Case {
	dir := rapid.SampledFrom([]string{"self", "self", "self", "pkg2ref", "pkg2ref", "pkg2ref", "ref2pkg", "ref2pkg", "ref2pkg", "ref2pkg", "idp2ref", "ref2sp", "seq", "seq"}).Draw(t, "dir")
	if dir != "seq" {
		return genOne(t, dir, false)
	}
	c := Case{Dir: "seq"}
	n := rapid.IntRange(2, 6).Draw(t, "steps")
	for i := 0; i < n; i++ {
		st := genOne(t, rapid.SampledFrom([]string{"self", "ref2pkg"}).Draw(t, "step-dir"), true)
		c.Steps = append(c.Steps, st)
	}
	return c
}

// genOne draws one single-direction case; seqStep restricts it to what a step of a
// sequence may be (judged classes only, moderate lengths so that later operations are
// often not longer than earlier ones).
func genOne(t *rapid.T, dir string, seqStep bool) Case {
	var c Case
	c.Dir = dir
	c.Seed = rapid.SliceOfN(rapid.Byte(), 8, 8).Draw(t, "seed")
	if c.Dir == "idp2ref" {
		c.Block, c.Transport, c.Digest = "aes128-cbc", "oaep-mgf1p", "sha1" // what MakeAssertionEl hard-codes (classification only)
		c.RSAKey = rapid.SampledFrom([]string{"sp", "sp2", "rsa1024", "rsa3072", "rsa4096"}).Draw(t, "rsa")
		c.Marker = "nid-" + rapid.StringMatching(`[a-z0-9]{10}`).Draw(t, "marker")
		c.PlainKind = "xml"
		return c
	}
	c.Block = rapid.SampledFrom(blocks).Draw(t, "block")
	if seqStep && c.Dir == "self" && c.Block == "aes128-gcm" {
		c.Block = rapid.SampledFrom(blocks[:4]).Draw(t, "cbc-block") // GCM Encrypt: open known finding
	}
	s, _ := refenc.Spec(blockURI(c.Block))

	// transport / digest / recipient
	for {
		cb := rapid.SampledFrom(pkgCombos).Draw(t, "combo")
		c.Transport, c.Digest = cb.transport, cb.digest
		if c.Dir == "ref2sp" && c.Transport == "direct" {
			c.Transport, c.Digest = "oaep-mgf1p", "sha1"
		}
		if c.Transport == "oaep-mgf1p" || c.Transport == "oaep11" {
			switch rapid.IntRange(0, 7).Draw(t, "digest-variant") {
			case 0:
				if !pkgEncrypts(c.Dir) {
					c.Digest = "absent" // reference: SHA-1, ds:DigestMethod omitted
				} else if c.Transport == "oaep-mgf1p" {
					c.Digest = "default"
				}
			}
		}
		c.RSAKey = ""
		if c.Transport != "direct" {
			c.RSAKey = rapid.SampledFrom([]string{"sp", "sp", "sp", "sp2", "rsa1024", "rsa3072", "rsa4096"}).Draw(t, "rsa")
			if !fits(c.Transport, c.Digest, c.RSAKey, s.KeyLen) {
				c.RSAKey = "sp" // SHA-512 OAEP does not fit a 1024-bit modulus
			}
			if pkgEncrypts(c.Dir) && c.Digest != "default" && c.Transport != "pkcs1" {
				c.PtrDigest = rapid.Bool().Draw(t, "ptr-digest")
			}
		}
		break
	}

	// plaintext
	bs := blockSize(c.Block)
	maxLong := 4096
	if pbt.Thorough() {
		maxLong = 65536
	}
	switch rapid.IntRange(0, 9).Draw(t, "len-class") {
	case 0, 1, 2, 3, 4:
		c.PlainLen = rapid.IntRange(0, 4*bs+1).Draw(t, "len")
	case 5, 6:
		c.PlainLen = rapid.IntRange(1, 80).Draw(t, "k")*bs + rapid.IntRange(-1, 1).Draw(t, "d")
	case 7:
		c.PlainLen = rapid.IntRange(0, 400).Draw(t, "len")
	default:
		c.PlainLen = rapid.IntRange(0, maxLong).Draw(t, "len")
	}
	c.PlainKind = rapid.SampledFrom([]string{"stream", "stream", "stream", "zeros", "ff", "xml", "ascii"}).Draw(t, "plain-kind")
	c.PlainSeed = rapid.SliceOfN(rapid.Byte(), 4, 4).Draw(t, "plain-seed")
	if rapid.IntRange(0, 2).Draw(t, "has-tail") == 0 {
		// final octets that look like padding, or anything
		n := rapid.IntRange(1, bs+1).Draw(t, "tail-len")
		if rapid.Bool().Draw(t, "tail-padlike") {
			v := byte(rapid.IntRange(0, bs+1).Draw(t, "tail-v"))
			c.Tail = bytes.Repeat([]byte{0}, n)
			c.Tail[n-1] = v
		} else {
			c.Tail = rapid.SliceOfN(rapid.Byte(), n, n).Draw(t, "tail")
		}
	}
	if c.Dir == "ref2sp" {
		c.Marker = "nid-" + rapid.StringMatching(`[a-z0-9]{10}`).Draw(t, "marker")
		c.PlainLen, c.PlainKind, c.PlainSeed, c.Tail = 0, "xml", nil, nil // the plaintext is the signed assertion
	}

	// keys and per-side randomness
	if c.Transport == "direct" || c.Dir == "ref2pkg" || c.Dir == "ref2sp" {
		c.Key = genBytes(t, s.KeyLen, "key")
	}
	if c.Dir == "ref2pkg" || c.Dir == "ref2sp" {
		c.IV = genBytes(t, s.IVLen, "iv")
		c.Filler = rapid.SliceOfN(rapid.Byte(), 0, bs-1).Draw(t, "filler")
		if c.Transport != "direct" {
			c.RefEmbedCert = rapid.Bool().Draw(t, "embed-cert")
			if c.Transport == "oaep11" {
				// independent of the digest and of whether ds:DigestMethod is written
				c.RefMGF = rapid.SampledFrom([]string{"", "omit", "omit", "sha1", "sha224", "sha256", "sha256", "sha384", "sha512"}).Draw(t, "mgf")
				if c.RefMGF == "" {
					c.RefDefaultMGF = rapid.Bool().Draw(t, "default-mgf")
				}
			}
			if c.Transport != "pkcs1" {
				c.RefOAEPParams = rapid.SampledFrom([]string{"", "", "", "empty", "empty", "label"}).Draw(t, "oaep-params")
				if seqStep && c.RefOAEPParams == "label" {
					c.RefOAEPParams = "empty"
				}
			}
			if c.Transport != "pkcs1" && c.Digest != "sha1" && c.Digest != "absent" {
				c.RefStdURI = !seqStep && rapid.IntRange(0, 7).Draw(t, "std-uri") == 0
			}
		}
		if rapid.IntRange(0, 3).Draw(t, "wrap") == 0 {
			c.RefWrap = rapid.SampledFrom([]int{64, 76, 4}).Draw(t, "wrap-len")
		}
		c.RefPrefix = rapid.SampledFrom([]string{"", "", "default", "other", "dsdefault", "bothdefault"}).Draw(t, "prefix")
		kiKinds := rapid.SampledFrom(kiKindList)
		if rapid.IntRange(0, 2).Draw(t, "ki-extras") == 0 {
			c.RefKIBefore = rapid.SliceOfN(kiKinds, 0, 2).Draw(t, "ki-before")
			c.RefKIAfter = rapid.SliceOfN(kiKinds, 0, 2).Draw(t, "ki-after")
		}
		if c.Transport != "direct" && rapid.IntRange(0, 3).Draw(t, "key-ki-extras") == 0 {
			c.RefKeyKIBefore = rapid.SliceOfN(kiKinds, 0, 2).Draw(t, "key-ki-before")
			c.RefKeyKIAfter = rapid.SliceOfN(kiKinds, 0, 2).Draw(t, "key-ki-after")
		}
		c.RefExtras = rapid.IntRange(0, 2).Draw(t, "extras") == 0
		c.RefIndent = rapid.IntRange(0, 2).Draw(t, "indent") == 0
		if c.Dir == "ref2sp" {
			c.RefSibling = rapid.Bool().Draw(t, "sibling")
			if c.RefSibling {
				c.RefKeyRef = rapid.Bool().Draw(t, "key-ref")
			}
		}
	} else {
		c.NonceNil = rapid.Bool().Draw(t, "nonce-nil")
		if !c.NonceNil {
			if s.GCM {
				c.Nonce = genBytes(t, 12, "nonce")
			} else {
				// documented as unused by CBC: any length, in particular longer than a block
				var n int
				switch rapid.IntRange(0, 3).Draw(t, "nonce-len-class") {
				case 0:
					n = rapid.IntRange(0, bs-1).Draw(t, "nonce-len")
				case 1:
					n = bs
				case 2:
					n = rapid.SampledFrom([]int{bs + 1, 12, 16, 24, 2 * bs, 2*bs + 1, 32, 33}).Draw(t, "nonce-len")
				default:
					n = rapid.IntRange(bs+1, 5*bs).Draw(t, "nonce-len")
				}
				c.Nonce = genBytes(t, n, "nonce")
			}
		}
	}
	return c
}

// ---------------------------------------------------------------- exhaustive length sweeps

func enumLengths(block string, rsaKeys []string) func(string, func(Case)) {
	return func(_ string, emit func(Case)) {
		s, _ := refenc.Spec(blockURI(block))
		bs := blockSize(block)
		for _, dir := range []string{"self", "pkg2ref", "ref2pkg"} {
			combos := pkgCombos
			if dir == "ref2pkg" {
				// what only a foreign implementation can present: ds:DigestMethod omitted (= SHA-1)
				combos = append(append([]combo{}, pkgCombos...), combo{"oaep-mgf1p", "absent"}, combo{"oaep11", "absent"})
			}
			for _, cb := range combos {
				keys := rsaKeys
				if cb.transport == "direct" {
					keys = []string{""}
				}
				for _, rk := range keys {
					if cb.transport != "direct" && !fits(cb.transport, cb.digest, rk, s.KeyLen) {
						continue
					}
					for n := 0; n <= 4*bs+1; n++ {
						seed := []byte(fmt.Sprintf("%s/%s/%s/%s/%s/%d", block, dir, cb.transport, cb.digest, rk, n))
						c := Case{Dir: dir, Block: block, Transport: cb.transport, Digest: cb.digest, RSAKey: rk,
							PlainLen: n, PlainKind: "stream", PlainSeed: expand(seed, "p", 4), Seed: expand(seed, "s", 8)}
						if cb.transport == "direct" || dir == "ref2pkg" {
							c.Key = expand(seed, "key", s.KeyLen)
						}
						if dir == "ref2pkg" {
							c.IV = expand(seed, "iv", s.IVLen)
							c.Filler = expand(seed, "filler", bs-1)
							c.RefEmbedCert = cb.transport != "direct" && n%2 == 0
							c.RefDefaultMGF = cb.transport == "oaep11" && n%4 >= 2
							if cb.transport == "oaep11" {
								c.RefMGF = []string{"", "omit", "sha1", "sha224", "sha256", "sha384", "sha512"}[n%7]
							}
							if (cb.transport == "oaep11" || cb.transport == "oaep-mgf1p") && n%6 == 3 {
								c.RefOAEPParams = "empty"
							}
							c.RefPrefix = []string{"", "default", "other", "dsdefault", "bothdefault"}[n%5]
							// every kind once before and once after the EncryptedKey (and in its own KeyInfo) per sweep
							switch k := kiKindList[n%5]; (n / 5) % 6 {
							case 1:
								c.RefKIBefore = []string{k}
							case 2:
								c.RefKIAfter = []string{k}
							case 3:
								if cb.transport != "direct" {
									c.RefKeyKIBefore = []string{k}
								}
							case 4:
								if cb.transport != "direct" {
									c.RefKeyKIAfter = []string{k}
								}
							case 5:
								c.RefKIBefore, c.RefKIAfter = []string{k, kiKindList[(n+2)%5]}, []string{kiKindList[(n+1)%5]}
							}
							c.RefExtras = n%5 == 1
							c.RefIndent = n%7 == 2
						} else {
							c.NonceNil = n%2 == 0
							if !c.NonceNil {
								nl := 12
								if !s.GCM {
									nl = []int{12, bs, bs + 1, 2 * bs, 33, 0, bs - 1}[(n/2)%7]
								}
								c.Nonce = expand(seed, "nonce", nl)
							}
						}
						emit(c)
					}
				}
			}
		}
	}
}

// detStep builds one deterministic self / ref2pkg step.
func detStep(dir, block string, cb combo, n int, id string) Case {
	s, _ := refenc.Spec(blockURI(block))
	bs := blockSize(block)
	seed := []byte(id)
	c := Case{Dir: dir, Block: block, Transport: cb.transport, Digest: cb.digest,
		PlainLen: n, PlainKind: "stream", PlainSeed: expand(seed, "p", 4), Seed: expand(seed, "s", 8)}
	if cb.transport != "direct" {
		c.RSAKey = "sp"
	}
	if cb.transport == "direct" || dir == "ref2pkg" {
		c.Key = expand(seed, "key", s.KeyLen)
	}
	if dir == "ref2pkg" {
		c.IV = expand(seed, "iv", s.IVLen)
		c.Filler = expand(seed, "filler", bs-1)
	} else {
		c.NonceNil = n%2 == 0
		if !c.NonceNil {
			c.Nonce = expand(seed, "nonce", 12)
		}
	}
	return c
}

// sequences: same cipher and mixed ciphers, plaintext lengths falling, rising, equal and
// interleaved, package-encrypted and reference-encrypted steps alternating.
func enumSequences(_ string, emit func(Case)) {
	blockSets := [][]string{{"aes128-cbc"}, {"aes192-cbc"}, {"aes256-cbc"}, {"tripledes-cbc"}, {"aes128-gcm"},
		{"aes128-cbc", "tripledes-cbc", "aes256-cbc", "aes192-cbc"}, {"aes256-cbc", "aes128-gcm", "tripledes-cbc"}}
	patterns := [][]int{{40, 8}, {8, 40, 8}, {64, 64}, {0, 33, 16, 64, 1}, {100, 50, 25, 12, 6, 3}, {16, 15}, {4096, 10}, {1, 2, 3, 200, 4}}
	combos := []combo{{"direct", ""}, {"oaep-mgf1p", "sha1"}, {"pkcs1", ""}}
	for bi, bset := range blockSets {
		for pi, pat := range patterns {
			for ci, cb := range combos {
				c := Case{Dir: "seq"}
				for i, n := range pat {
					block := bset[i%len(bset)]
					dir := []string{"self", "ref2pkg"}[(i+bi+pi)%2]
					if block == "aes128-gcm" {
						dir = "ref2pkg"
					}
					c.Steps = append(c.Steps, detStep(dir, block, cb, n, fmt.Sprintf("seq/%d/%d/%d/%d", bi, pi, ci, i)))
				}
				emit(c)
			}
		}
	}
}

func enums() []pbt.Enum[Case] {
	var out []pbt.Enum[Case]
	out = append(out, pbt.Enum[Case]{Name: "operation-sequences-results-compared-at-the-end", Each: enumSequences})
	for _, b := range blocks {
		out = append(out, pbt.Enum[Case]{Name: "lengths-0..4blocks+1:" + b, Each: enumLengths(b, []string{"sp"})})
	}
	for _, b := range blocks {
		out = append(out, pbt.Enum[Case]{Name: "lengths-0..4blocks+1-x-rsa-sizes:" + b, Tiers: "thorough", Each: enumLengths(b, []string{"rsa1024", "rsa3072", "rsa4096"})})
	}
	return out
}

var prop = &pbt.Prop[Case]{
	ID: "C10",
	Rule: "cases: one direction {self, pkg->ref, ref->pkg, IdP->ref, ref->SP}, or a sequence of 2-6 self / ref->pkg operations (same or mixed ciphers, later plaintexts shorter, equal or longer) whose results are ALL held and compared only after the last operation, with the caller-owned key / nonce / plaintext buffers and the element overwritten after every call; x block cipher {AES-128/192/256-CBC, 3DES-CBC, AES-128-GCM} x key transport {direct, rsa-oaep-mgf1p with SHA-1/256/512/RIPEMD-160/constructor default, xmlenc11 rsa-oaep via OAEP_SHA256/OAEP_SHA512/SHA-1, PKCS#1 v1.5} x recipient RSA-1024/2048/3072/4096 x plaintext (length 0..4 blocks+1 exhaustively for every combination and direction, block multiples +-1 up to 80 blocks, random up to 4 KiB quick / 64 KiB thorough; zero, 0xFF, pseudo-random, XML and ASCII contents, padding-lookalike tails) x supplied (GCM: 12 octets; CBC: 0..5 blocks, in particular longer than a block) or library-generated nonce; reference side with arbitrary padding filler, optional embedded certificate, omitted ds:DigestMethod (= SHA-1), wrapped base64, pretty printing, other namespace prefixes / default namespace, the optional schema parts without key material (KeySize, Recipient, KeyName, CarriedKeyName, EncryptionProperties), other legal ds:KeyInfo children (KeyName, RetrievalMethod, X509Data, KeyValue, foreign elements) before and after the EncryptedKey and inside the EncryptedKey's own KeyInfo, nested/sibling EncryptedKey with or without RetrievalMethod. " +
		"non-trivial: every judged case (each is a distinct (direction, algorithm, transport, digest, key, length, contents) tuple). distinct: sha256 of the JSON case.",
	Gen:   gen,
	Check: check,
	Reset: fix.Reset,
	Enums: enums(),
	Known: map[string]func(Case, pbt.Result) bool{
		// AES-GCM Encrypt is pinned by xmlenc/testdata/ciphertext_gcm.xml; nothing behind it is observable.
		"C10-gcm-encrypt": func(c Case, _ pbt.Result) bool { return c.inGCMEncrypt() },
		// rsa-oaep-mgf1p *encryption* with a non-SHA-1 digest uses MGF1 with that digest (rsa.EncryptOAEP has
		// no separate MGF hash); repairing it needs an own OAEP encoder, which is not a small safe patch.
		"C10-mgf1p-encrypt-digest": func(c Case, _ pbt.Result) bool {
			return c.Transport == "oaep-mgf1p" && pkgEncrypts(c.Dir) && c.Dir != "self" && c.Digest != "sha1" && c.Digest != "absent"
		},
	},
	Assumptions: []string{
		"'key of the right size' = the size the W3C algorithm identifier prescribes (AES 16/24/32, 3DES 24 octets); the RSA modulus must be able to carry the content key under the chosen padding (SHA-512 OAEP needs more than 1024 bits)",
		"digest identifiers are taken as the package's registry spells them (xmldsig#sha256 etc.); the W3C spellings (xmlenc#sha256 …) are exercised but not judged (don't-care, only a panic or a wrong plaintext counts); an omitted ds:DigestMethod means SHA-1 (xmlenc-core 1.1 section 5.5.2, and the package's own RSA.Decrypt) and IS judged: a reference ciphertext made with SHA-1 and no DigestMethod element must open",
		"the reference links its own non-registering copy of RIPEMD-160 (internal/refenc/rmd160): nothing in the harness makes crypto.RIPEMD160 available on the library's behalf",
		"rsa-oaep-mgf1p uses MGF1-SHA-1 whatever the DigestMethod (xmlenc-core §5.4.2); xmlenc11 rsa-oaep: the reference names the mask function the package's constructor uses in an explicit xenc11:MGF element when it encrypts, and follows the W3C default (mgf1sha1) for a ciphertext without one",
		"a supplied GCM nonce has 12 octets; for CBC the nonce argument is documented as unused and may be anything",
		"the optional children of the reference EncryptedKey's EncryptionMethod are varied independently and judged by the XML-Encryption defaults: ds:DigestMethod omitted = SHA-1, xenc11:MGF omitted = mgf1sha1, explicit xenc11:MGF mgf1sha1/224/256/384/512 with or without a DigestMethod, an empty OAEPparams = the null label; a NON-empty OAEP label is exercised but not judged (the property is silent)",
		"IdP->ref and ref->SP use the library IdP only to obtain a signed assertion for a fixed benign session; clock pinned at fix.Epoch",
	},
}

func TestCheck(t *testing.T) { pbt.Run(t, prop) }

// FuzzCheck drives the same generator and oracle from Go's coverage-guided fuzzer.
// rapid reads the fuzz input as its bit stream and discards inputs that run dry, so
// a few long deterministic seeds are added to let mutation start from usable inputs.
func FuzzCheck(f *testing.F) {
	for i := 0; i < 16; i++ {
		f.Add(expand([]byte{byte(i)}, "fuzz-seed", 2048+512*i))
	}
	pbt.Fuzz(f, prop)
}
