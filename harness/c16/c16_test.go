// Package c16: only session tokens minted by this SP, unexpired, authenticate a
// request; the subject and attributes the application sees are exactly those of
// the assertion; attribute-gated handlers admit only on the required value.
//
// Method: a deployment (samlsp.New + custom lifetime / cookie name) mints a
// session token (through CookieSessionProvider.CreateSession) or a tracking
// token (through CookieRequestTracker.TrackRequest).  The case then applies ONE
// named mutation to it, moves the controlled clock and presents the result in a
// cookie to RequireAccount (optionally wrapped around RequireAttribute) in front
// of a sentinel application handler.  The verdict is decided by construction:
// the oracle only looks at the *name* of the mutation and the clock offset it
// was told to use, never at the token text.
package c16

import (
	"crypto"
	"crypto/ecdsa"
	"crypto/hmac"
	"crypto/rand"
	"crypto/rsa"
	"crypto/sha256"
	"crypto/sha512"
	"crypto/x509"
	"encoding/base64"
	"encoding/json"
	"encoding/pem"
	"encoding/xml"
	"fmt"
	"hash"
	"io"
	"log"
	"net/http"
	"net/http/httptest"
	"net/url"
	"os"
	"sort"
	"strings"
	"testing"
	"time"

	"github.com/crewjam/saml"
	"github.com/crewjam/saml/samlsp"
	"github.com/golang-jwt/jwt/v4"
	"pgregory.net/rapid"

	"verif/harness/internal/fix"
	"verif/harness/internal/pbt"
	"verif/harness/internal/xgen"
)

// ---------------------------------------------------------------- case

// Attr is one saml:Attribute of the assertion that creates the session.
type Attr struct {
	Name     string   `json:"name"`
	Friendly string   `json:"friendly,omitempty"`
	Values   []string `json:"values"`
}

// AssertionSpec is the assertion the session is minted from.
type AssertionSpec struct {
	Subject        string   `json:"subject"` // absent | nonameid | nameid
	NameID         string   `json:"name_id,omitempty"`
	Statements     [][]Attr `json:"statements"`
	SessionIndexes []string `json:"session_indexes"`

	// optional parts real IdPs send; none of them is the subject, an attribute or the session lifetime
	SNOA        []string `json:"snoa,omitempty"`          // per AuthnStatement: SessionNotOnOrAfter "" | earlier | later | past (relative to mint + lifetime)
	AuthnAgoS   []int64  `json:"authn_ago_s,omitempty"`   // per AuthnStatement: AuthnInstant = mint - n s
	ConfNameIDs []string `json:"conf_name_ids,omitempty"` // one SubjectConfirmation per entry with that NameID (the CONFIRMING entity); needs a Subject
	Qualifiers  bool     `json:"qualifiers,omitempty"`    // NameQualifier / SPNameQualifier / SPProvidedID / Format on the NameIDs, Issuer with its own NameQualifier
	Conditions  string   `json:"conditions,omitempty"`    // "" | short (NotOnOrAfter = mint+90s) | long (mint + 10 lifetimes) | past
}

// Conf holds the public configuration fields of Options, CookieSessionProvider and
// the JWT codecs.  The zero value is what samlsp.New sets up by itself.  Fields the
// property's clauses do not mention are varied and must not change any verdict;
// SigAlg / Aud / Iss ARE "this SP's session codec": expectations follow them.
type Conf struct {
	SigAlg string `json:"sig_alg,omitempty"` // JWTSessionCodec.SigningMethod (also given to the tracking codec); "" = default for the key
	Aud    string `json:"aud,omitempty"`     // JWTSessionCodec.Audience (and tracking codec); "" = root URL
	Iss    string `json:"iss,omitempty"`     // JWTSessionCodec.Issuer (and tracking codec); "" = root URL

	CookieMaxAgeMs int64 `json:"cookie_max_age_ms,omitempty"` // CookieSessionProvider.MaxAge when it differs from the codec's (browser side)

	EntityID       string `json:"entity_id,omitempty"`
	SameSite       int    `json:"same_site,omitempty"`
	ForceAuthn     bool   `json:"force_authn,omitempty"`
	Artifact       bool   `json:"artifact,omitempty"`
	AllowIDPInit   bool   `json:"allow_idp_initiated,omitempty"`
	SignReq        bool   `json:"sign_request,omitempty"`
	LogoutRedirect bool   `json:"logout_redirect,omitempty"`
	DefaultURI     string `json:"default_uri,omitempty"`
	Domain         string `json:"domain,omitempty"`        // CookieSessionProvider.Domain
	Path           string `json:"path,omitempty"`          // CookieSessionProvider.Path
	HTTPOnlyOff    bool   `json:"http_only_off,omitempty"` // CookieSessionProvider.HTTPOnly = false
	SecureFlip     bool   `json:"secure_flip,omitempty"`   // CookieSessionProvider.Secure negated

	// CustomCodec installs an application-defined SessionCodec whose session type does NOT
	// implement SessionWithAttributes (the Session interface is public): tokens are the same
	// JWTs, but an attribute gate has nothing to read and must not let the request through.
	CustomCodec bool `json:"custom_codec,omitempty"`

	// requests served by the SAME Middleware / handler value before the judged one
	// (other-legit | garbage | tracking | nocookie), and whether another user's valid
	// token is presented afterwards: verdicts must not depend on earlier calls.
	Warm  []string `json:"warm,omitempty"`
	After bool     `json:"after,omitempty"`
}

// Case is one presentation of one (possibly mutated) token.
type Case struct {
	Conf Conf `json:"conf"`

	Key        string `json:"key"`         // sp | spec
	URL        string `json:"url"`         // root URL of the deployment
	CookieName string `json:"cookie_name"` // "" = library default
	MaxAgeMs   int64  `json:"max_age_ms"`  // session lifetime
	ArrayAud   bool   `json:"array_aud"`   // jwt.MarshalSingleStringAsArray
	MintSec    int64  `json:"mint_sec"`    // mint instant = Epoch + MintSec s + MintMs ms
	MintMs     int64  `json:"mint_ms"`

	Base   string `json:"base"`              // session | tracking : which codec minted the token
	Mut    string `json:"mut"`               // mutation name (see catalogue)
	MutArg string `json:"mut_arg,omitempty"` // its parameter
	MutN   int    `json:"mut_n,omitempty"`   // numeric parameter

	Clock string `json:"clock"`  // class of the presentation instant
	OffMs int64  `json:"off_ms"` // presentation instant = mint instant + OffMs

	Gate      string `json:"gate,omitempty"` // "" | attr : RequireAttribute(GateName, GateValue) in front of the sentinel
	GateName  string `json:"gate_name,omitempty"`
	GateValue string `json:"gate_value,omitempty"`

	Assertion AssertionSpec `json:"assertion"`

	// Seq: earlier presentations to the SAME long-lived Middleware / codec / handler,
	// in this order, each at its own clock position (the clock may also go back), each
	// judged on its own; then the presentation described by Mut / OffMs follows.
	Seq []Pres `json:"seq,omitempty"`
}

// Pres is one earlier presentation: the unmodified minted token ("original") or
// the very string that is presented in the end ("same"), at mint instant + OffMs.
type Pres struct {
	What  string `json:"what"`
	OffMs int64  `json:"off_ms"`
}

// timeRelative mutations embed instants relative to the final presentation; for
// them an earlier "same" presentation is replaced by the original token.
var timeRelative = map[string]bool{"claim-exp": true, "claim-nbf": true, "claim-window": true, "open-window": true, "open-iat-future": true, "open-exp": true}

type verdict int

const (
	dontCare verdict = iota
	mustAdmit
	mustRefuse
)

func (v verdict) String() string { return [...]string{"dont-care", "must-admit", "must-refuse"}[v] }

// ---------------------------------------------------------------- mutation catalogue

// mutVerdict classifies a mutation by construction.  "legit" mutations leave a token
// this deployment's session codec issued (or one indistinguishable from it);
// "refuse" ones change key, algorithm, audience, issuer, marker, signed bytes
// without re-signing, segment structure, or make it expired / not yet valid at the
// presentation instant whatever the clock class; "open" ones are outside what the
// property pins down.
type mutInfo struct {
	kind string   // legit | refuse | open
	keys string   // "" both | rsa | ec
	args []string // admissible MutArg values ("" when none)
}

// near misses of the configured audience / issuer; the last five are OTHER identifiers
// of the same deployment (the issuer where the audience belongs and vice versa, the
// root URL, the entity ID, the ACS and metadata URLs).
var nearKinds = []string{"other", "trailing-slash", "query", "fragment", "suffix-x", "userinfo", "prefix", "suffix", "upper", "scheme-case", "empty", "absent",
	"own-other", "root-url", "entity-id", "acs-url", "metadata-url"}

var catalogue = map[string]mutInfo{
	"none":        {kind: "legit"},
	"resign-same": {kind: "legit"},

	"sig-empty":        {kind: "refuse"},
	"sig-flip":         {kind: "refuse"},
	"sig-trunc":        {kind: "refuse"},
	"sig-other-token":  {kind: "refuse"},
	"hdr-alg-keep-sig": {kind: "refuse", args: []string{"none", "RS384", "PS256", "ES384", "HS256", "XS256"}},
	"claims-keep-sig":  {kind: "refuse", args: []string{"sub", "exp", "attr", "marker"}},
	"alg-none":         {kind: "refuse", args: []string{"none", "None", "NONE", "nOnE"}},
	"hmac": {kind: "refuse", args: []string{
		"HS256:pkix-pem", "HS256:pkix-der", "HS256:cert-pem", "HS256:cert-der", "HS256:raw", "HS256:pkcs1-pem", "HS256:pkcs1-der",
		"HS384:pkix-pem", "HS384:pkix-der", "HS384:raw", "HS512:pkix-pem", "HS512:pkix-der", "HS512:cert-pem", "HS512:raw", "HS256:empty"}},
	"swap-rsa":     {kind: "refuse", keys: "rsa", args: []string{"RS256", "RS384", "RS512", "PS256", "PS384", "PS512"}},
	"swap-ec":      {kind: "refuse", keys: "ec", args: []string{"ES384", "ES512"}},
	"alg-foreign":  {kind: "refuse", args: []string{"other-family"}},
	"alg-unknown":  {kind: "refuse", args: []string{"XS256", "", "rs256", "RS256 ", "RS25", "RS2566", "es256", "HS256"}},
	"alg-missing":  {kind: "refuse"},
	"alg-nonstr":   {kind: "refuse", args: []string{"5", "null", "[\"RS256\"]", "true"}},
	"other-key":    {kind: "refuse", args: []string{"plain", "jwk", "x5c"}},
	"other-url":    {kind: "refuse", args: []string{"other", "trailing-slash", "suffix-x", "prefix", "upper", "scheme-flip", "port", "path"}},
	"claim-aud":    {kind: "refuse", args: append(append([]string{}, nearKinds...), "array-wrong")},
	"claim-iss":    {kind: "refuse", args: nearKinds},
	"claim-marker": {kind: "refuse", args: []string{"false", "absent"}},
	"claim-exp":    {kind: "refuse", args: []string{"past"}},
	"claim-nbf":    {kind: "refuse", args: []string{"future"}},
	// nbf, iat and exp all DIFFERENT: the clock is after iat but before nbf, or after exp
	"claim-window": {kind: "refuse", args: []string{"before-nbf", "before-nbf-no-iat", "after-exp"}},
	"extra-seg":    {kind: "refuse", args: []string{"append", "prepend", "double", "dot", "middle"}},
	"struct":       {kind: "refuse", args: []string{"empty", "two-seg", "one-seg", "dots", "garbage"}},
	"trunc":        {kind: "refuse"},
	"wrong-cookie": {kind: "refuse", args: []string{"token", "session", "saml_x", "Token", "tokenx"}},

	"open-aud-array":  {kind: "open"},
	"open-marker":     {kind: "open", args: []string{"\"true\"", "1", "null"}},
	"open-exp":        {kind: "open", args: []string{"absent", "extended", "float", "string"}},
	"open-iat-future": {kind: "open"},
	"open-window":     {kind: "open", args: []string{"inside"}}, // iat < nbf < now < exp, re-signed: only the key holder can make it
}

var mutNames = func() []string {
	var out []string
	for k := range catalogue {
		out = append(out, k)
	}
	sort.Strings(out)
	return out
}()

// weighted list for the random generator: the classes whose ONLY barrier is one
// specific check in the codec are drawn more often.
var mutWeighted = func() []string {
	w := map[string]int{"claim-window": 3, "swap-rsa": 6, "swap-ec": 6, "claim-marker": 4, "claim-aud": 3, "claim-iss": 3, "other-url": 4, "other-key": 3, "claim-exp": 2, "claim-nbf": 2, "hmac": 2, "alg-none": 2}
	var out []string
	for _, k := range mutNames {
		n := w[k]
		if n == 0 {
			n = 1
		}
		for i := 0; i < n; i++ {
			out = append(out, k)
		}
	}
	return out
}()

func keyKind(name string) string {
	if fix.Get(name).EC() != nil {
		return "ec"
	}
	return "rsa"
}

// ---------------------------------------------------------------- generator

var rootURLs = []string{"https://sp.example.com/", "http://sp.example.com/", "https://sp.example.com:8443/", "https://sp.example.com/app/", "https://15661444.ngrok.io/", "http://localhost:8000/"}

var cookieNames = []string{"", "", "token", "sess", "X-My_Session.1", "saml_session", "__Host-s"}

var attrNamePool = []string{"uid", "mail", "eduPersonAffiliation", "urn:oid:0.9.2342.19200300.100.1.1", "urn:oid:1.3.6.1.4.1.5923.1.1.1.1", "groups", "SessionIndex", "cn", "givenName", "attr", "sub"}

func genAssertion(t *rapid.T) AssertionSpec {
	var a AssertionSpec
	a.Subject = rapid.SampledFrom([]string{"nameid", "nameid", "nameid", "nonameid", "absent"}).Draw(t, "subject")
	if a.Subject == "nameid" {
		a.NameID = xgen.Text().Draw(t, "nameid")
	}
	str := rapid.OneOf(rapid.SampledFrom(attrNamePool), xgen.TextNonEmpty())
	nst := rapid.IntRange(0, 3).Draw(t, "nstatements")
	a.Statements = make([][]Attr, nst)
	for i := range a.Statements {
		na := rapid.IntRange(0, 4).Draw(t, "nattrs")
		st := make([]Attr, na)
		for j := range st {
			st[j].Name = str.Draw(t, "aname")
			if rapid.IntRange(0, 2).Draw(t, "hasfriendly") > 0 {
				st[j].Friendly = str.Draw(t, "afriendly")
			}
			st[j].Values = rapid.SliceOfN(rapid.OneOf(xgen.Text(), rapid.SampledFrom([]string{"admin", "staff", "Admin", "admin ", "user", "mallory, admin", "staff;admin", "CN=mallory,OU=admin,DC=example", "admin staff", "user|admin", "admin,"})), 0, 3).Draw(t, "avalues")
			if st[j].Values == nil {
				st[j].Values = []string{}
			}
		}
		a.Statements[i] = st
	}
	a.SessionIndexes = rapid.SliceOfN(rapid.OneOf(xgen.Text(), rapid.StringMatching(`[a-f0-9]{8}`)), 0, 3).Draw(t, "sessionindexes")
	if a.SessionIndexes == nil {
		a.SessionIndexes = []string{}
	}
	if rapid.Bool().Draw(t, "idp-extras") {
		for range a.SessionIndexes {
			a.SNOA = append(a.SNOA, rapid.SampledFrom([]string{"", "later", "later", "earlier", "past"}).Draw(t, "snoa"))
			a.AuthnAgoS = append(a.AuthnAgoS, rapid.SampledFrom([]int64{0, 5, 3600, 86400 * 30}).Draw(t, "authnago"))
		}
		if a.Subject != "absent" {
			a.ConfNameIDs = rapid.SliceOfN(rapid.SampledFrom([]string{"https://idp.example.org/metadata", "confirming-entity", "mallory", "admin@example.com", ""}), 0, 2).Draw(t, "confnameids")
		}
		a.Qualifiers = rapid.Bool().Draw(t, "qualifiers")
		a.Conditions = rapid.SampledFrom([]string{"", "long", "long", "short", "past"}).Draw(t, "conditions")
	}
	return a
}

var rsaAlgs = []string{"RS256", "RS384", "RS512", "PS256", "PS384", "PS512"}

func genConf(t *rapid.T, key string) Conf {
	var f Conf
	if rapid.IntRange(0, 2).Draw(t, "conf-codec") == 0 {
		if keyKind(key) == "rsa" {
			f.SigAlg = rapid.SampledFrom(append([]string{""}, rsaAlgs...)).Draw(t, "sigalg")
		}
		f.Aud = rapid.SampledFrom([]string{"", "", "urn:example:audience", "https://sp.example.com/saml/metadata"}).Draw(t, "confaud")
		f.Iss = rapid.SampledFrom([]string{"", "", "urn:example:issuer", "sp"}).Draw(t, "confiss")
		f.CookieMaxAgeMs = rapid.SampledFrom([]int64{0, 0, 4_000, 7_200_000}).Draw(t, "cookiemaxage")
	}
	if rapid.IntRange(0, 1).Draw(t, "conf-unmentioned") == 0 {
		f.EntityID = rapid.SampledFrom([]string{"", "urn:example:sp", "https://sp.example.com/entity"}).Draw(t, "entityid")
		f.SameSite = rapid.IntRange(0, 4).Draw(t, "samesite")
		f.ForceAuthn = rapid.Bool().Draw(t, "forceauthn")
		f.Artifact = rapid.Bool().Draw(t, "artifact")
		f.AllowIDPInit = rapid.Bool().Draw(t, "allowidp")
		f.SignReq = rapid.Bool().Draw(t, "signreq")
		f.LogoutRedirect = rapid.Bool().Draw(t, "logoutredirect")
		f.DefaultURI = rapid.SampledFrom([]string{"", "/home", "https://portal.example.net/"}).Draw(t, "defaulturi")
		f.Domain = rapid.SampledFrom([]string{"", "", "example.com", "other.example.net"}).Draw(t, "domain")
		f.Path = rapid.SampledFrom([]string{"", "", "/app", "/protected/"}).Draw(t, "path")
		f.HTTPOnlyOff = rapid.Bool().Draw(t, "httponlyoff")
		f.SecureFlip = rapid.Bool().Draw(t, "secureflip")
	}
	f.CustomCodec = rapid.IntRange(0, 7).Draw(t, "customcodec") == 0
	if rapid.IntRange(0, 2).Draw(t, "conf-warm") == 0 {
		f.Warm = rapid.SliceOfN(rapid.SampledFrom([]string{"other-legit", "other-legit", "garbage", "tracking", "nocookie"}), 1, 4).Draw(t, "warm")
		f.After = rapid.Bool().Draw(t, "after")
	}
	return f
}

var clockClasses = []string{"before-far", "before-2s", "iat-boundary", "inside-early", "inside-mid", "inside-late", "exp-boundary", "after-2s", "after-far"}

func genClock(t *rapid.T, maxAgeMs int64, cls string) int64 {
	ms := func(lo, hi int64) int64 { return rapid.Int64Range(lo, hi).Draw(t, "offms") }
	switch cls {
	case "before-far":
		return -ms(10_000, 400*24*3600*1000)
	case "before-2s":
		return -ms(2_000, 3_000)
	case "iat-boundary":
		return ms(-1_000, 1_000)
	case "inside-early":
		return ms(1_001, 2_000)
	case "inside-mid":
		return ms(2_000, maxAgeMs-2_000)
	case "inside-late":
		return maxAgeMs - ms(1_001, 2_000)
	case "exp-boundary":
		return maxAgeMs + ms(-1_000, 1_000)
	case "after-2s":
		return maxAgeMs + ms(2_000, 3_000)
	default:
		return maxAgeMs + ms(10_000, 400*24*3600*1000)
	}
}

func gen(t *rapid.T) Case {
	var c Case
	c.Key = rapid.SampledFrom([]string{"sp", "spec"}).Draw(t, "key")
	c.URL = rapid.SampledFrom(rootURLs).Draw(t, "url")
	c.CookieName = rapid.SampledFrom(cookieNames).Draw(t, "cookie")
	c.MaxAgeMs = rapid.SampledFrom([]int64{3_600_000, 3_600_000, 5_000, 5_500, 60_000, 90_250, 86_400_000, 30 * 86_400_000}).Draw(t, "maxage")
	c.ArrayAud = rapid.Bool().Draw(t, "arrayaud")
	c.MintSec = rapid.Int64Range(0, 100_000_000).Draw(t, "mintsec")
	c.MintMs = rapid.SampledFrom([]int64{0, 0, 1, 250, 500, 700, 999}).Draw(t, "mintms")
	c.Assertion = genAssertion(t)
	c.Conf = genConf(t, c.Key)

	// which token, which fault
	switch rapid.IntRange(0, 9).Draw(t, "plan") {
	case 0, 1: // legitimate token, all clock classes
		c.Base = "session"
		c.Mut = rapid.SampledFrom([]string{"none", "none", "resign-same"}).Draw(t, "legit")
		c.Clock = rapid.SampledFrom(clockClasses).Draw(t, "clock")
	case 2: // tracking token presented as session (sometimes itself mutated: no catalogue mutation adds a true session marker)
		c.Base = "tracking"
		c.Mut = "none"
		if rapid.IntRange(0, 3).Draw(t, "trackmut") == 0 {
			for {
				c.Mut = rapid.SampledFrom(mutNames).Draw(t, "mut")
				inf := catalogue[c.Mut]
				if inf.keys != "" && inf.keys != keyKind(c.Key) {
					continue
				}
				if len(inf.args) > 0 {
					c.MutArg = rapid.SampledFrom(inf.args).Draw(t, "mutarg")
				}
				break
			}
			c.MutN = rapid.IntRange(0, 1000).Draw(t, "mutn")
		}
		c.Clock = rapid.SampledFrom([]string{"inside-early", "inside-mid", "inside-mid", "inside-late", "after-far"}).Draw(t, "clock")
	default: // single-fault mutants of a session token, clock inside unless drawn otherwise
		c.Base = "session"
		for {
			c.Mut = rapid.SampledFrom(mutWeighted).Draw(t, "mut")
			inf := catalogue[c.Mut]
			if inf.kind == "legit" || (inf.keys != "" && inf.keys != keyKind(c.Key)) {
				continue
			}
			if len(inf.args) > 0 {
				c.MutArg = rapid.SampledFrom(inf.args).Draw(t, "mutarg")
			}
			break
		}
		c.MutN = rapid.IntRange(0, 1000).Draw(t, "mutn")
		if rapid.IntRange(0, 7).Draw(t, "offclock") == 0 {
			c.Clock = rapid.SampledFrom(clockClasses).Draw(t, "clock")
		} else {
			c.Clock = rapid.SampledFrom([]string{"inside-early", "inside-mid", "inside-mid", "inside-late"}).Draw(t, "clock")
		}
	}
	c.OffMs = genClock(t, c.MaxAgeMs, c.Clock)
	if rapid.IntRange(0, 2).Draw(t, "withseq") == 0 {
		n := rapid.IntRange(1, 3).Draw(t, "nseq")
		for i := 0; i < n; i++ {
			cls := rapid.SampledFrom([]string{"inside-early", "inside-mid", "inside-mid", "inside-late", "before-2s", "before-far", "after-2s", "after-far", "iat-boundary", "exp-boundary"}).Draw(t, "seqclock")
			c.Seq = append(c.Seq, Pres{What: rapid.SampledFrom([]string{"original", "original", "same"}).Draw(t, "seqwhat"), OffMs: genClock(t, c.MaxAgeMs, cls)})
		}
	}

	// attribute gate
	if rapid.IntRange(0, 2).Draw(t, "gated") == 0 {
		c.Gate = "attr"
		ref := refAttributes(c.Assertion)
		var names []string
		for k := range ref {
			names = append(names, k)
		}
		sort.Strings(names)
		switch k := rapid.IntRange(0, 5).Draw(t, "gatekind"); {
		case k <= 2 && len(names) > 0: // a value the attribute carries
			c.GateName = rapid.SampledFrom(names).Draw(t, "gname")
			c.GateValue = rapid.SampledFrom(ref[c.GateName]).Draw(t, "gvalue")
		case k == 3 && len(names) > 0: // value of ANOTHER attribute, or a near miss of an own one
			c.GateName = rapid.SampledFrom(names).Draw(t, "gname")
			other := rapid.SampledFrom(names).Draw(t, "gother")
			v := rapid.SampledFrom(ref[other]).Draw(t, "gvalue")
			cands := []string{v, v + " ", strings.ToUpper(v), v + "x", "x" + v, ""}
			// a piece of a carried value that is a list in disguise ("mallory, admin", a DN, ...)
			for _, piece := range strings.FieldsFunc(v, func(r rune) bool { return strings.ContainsRune(",;|= ", r) }) {
				if piece != v {
					cands = append(cands, piece, piece, strings.TrimSpace(piece))
				}
			}
			c.GateValue = rapid.SampledFrom(cands).Draw(t, "gnear")
		case k == 4 && len(names) > 0: // near-miss of the NAME
			n := rapid.SampledFrom(names).Draw(t, "gname")
			c.GateValue = rapid.SampledFrom(ref[n]).Draw(t, "gvalue")
			c.GateName = rapid.SampledFrom([]string{n + "x", strings.ToUpper(n), " " + n, "", n + " "}).Draw(t, "gnamenear")
		default:
			c.GateName = rapid.SampledFrom(attrNamePool).Draw(t, "gname")
			c.GateValue = rapid.SampledFrom([]string{"admin", "staff", "", "user"}).Draw(t, "gvalue")
		}
	}
	return c
}

// ---------------------------------------------------------------- reference (written from the property text)

// refAttributes: for every attribute of every statement, in document order, the
// values are listed under the friendly name if there is one, else the name; the
// session indexes of the authentication statements are appended under "SessionIndex".
func refAttributes(a AssertionSpec) map[string][]string {
	out := map[string][]string{}
	for _, st := range a.Statements {
		for _, at := range st {
			k := at.Friendly
			if k == "" {
				k = at.Name
			}
			for _, v := range at.Values {
				out[k] = append(out[k], v)
			}
		}
	}
	for _, si := range a.SessionIndexes {
		out["SessionIndex"] = append(out["SessionIndex"], si)
	}
	return out
}

func refSubject(a AssertionSpec) string {
	if a.Subject == "nameid" {
		return a.NameID
	}
	return ""
}

func buildAssertion(a AssertionSpec) *saml.Assertion {
	return buildAssertionAt(a, fix.Epoch, time.Hour)
}

// capOffset is the earliest instant (ms after minting, 0 = none) at which the assertion
// itself says the session or the assertion ends: an implementation may honour it by
// ending the session EARLIER than its lifetime, never later.
func capOffset(a AssertionSpec, lifetimeMs int64) int64 {
	capMs := int64(0)
	lower := func(x int64) {
		if capMs == 0 || x < capMs {
			capMs = x
		}
	}
	for _, s := range a.SNOA {
		switch s {
		case "earlier":
			lower(lifetimeMs / 2)
		case "past":
			lower(1)
		}
	}
	switch a.Conditions {
	case "short":
		lower(90_000)
	case "past":
		lower(1)
	}
	return capMs
}

func buildAssertionAt(a AssertionSpec, mint time.Time, lifetime time.Duration) *saml.Assertion {
	as := &saml.Assertion{ID: "id-assertion", Version: "2.0", IssueInstant: mint, Issuer: saml.Issuer{Value: "https://idp.example.org/metadata"}}
	qual := func(n *saml.NameID, tag string) *saml.NameID {
		if a.Qualifiers {
			n.NameQualifier, n.SPNameQualifier, n.SPProvidedID, n.Format = "nq-"+tag, "spnq-"+tag, "provided-"+tag, "urn:oasis:names:tc:SAML:2.0:nameid-format:persistent"
		}
		return n
	}
	if a.Qualifiers {
		as.Issuer.NameQualifier, as.Issuer.SPProvidedID = "issuer-qualifier", "issuer-provided"
	}
	switch a.Subject {
	case "nameid":
		as.Subject = &saml.Subject{NameID: qual(&saml.NameID{Value: a.NameID}, "subject")}
	case "nonameid":
		as.Subject = &saml.Subject{}
	}
	if as.Subject != nil {
		for i, v := range a.ConfNameIDs {
			sc := saml.SubjectConfirmation{Method: "urn:oasis:names:tc:SAML:2.0:cm:bearer", NameID: qual(&saml.NameID{Value: v}, fmt.Sprint("conf", i)),
				SubjectConfirmationData: &saml.SubjectConfirmationData{NotOnOrAfter: mint.Add(90 * time.Second), Recipient: "https://sp.example.com/saml/acs"}}
			as.Subject.SubjectConfirmations = append(as.Subject.SubjectConfirmations, sc)
		}
	}
	switch a.Conditions {
	case "short":
		as.Conditions = &saml.Conditions{NotBefore: mint.Add(-time.Minute), NotOnOrAfter: mint.Add(90 * time.Second)}
	case "long":
		as.Conditions = &saml.Conditions{NotBefore: mint.Add(-time.Minute), NotOnOrAfter: mint.Add(10 * lifetime)}
	case "past":
		as.Conditions = &saml.Conditions{NotBefore: mint.Add(-2 * time.Hour), NotOnOrAfter: mint.Add(-time.Hour)}
	}
	for _, st := range a.Statements {
		var s saml.AttributeStatement
		for _, at := range st {
			x := saml.Attribute{Name: at.Name, FriendlyName: at.Friendly}
			for _, v := range at.Values {
				x.Values = append(x.Values, saml.AttributeValue{Type: "xs:string", Value: v})
			}
			s.Attributes = append(s.Attributes, x)
		}
		as.AttributeStatements = append(as.AttributeStatements, s)
	}
	for i, si := range a.SessionIndexes {
		st := saml.AuthnStatement{SessionIndex: si, AuthnInstant: mint}
		if i < len(a.AuthnAgoS) {
			st.AuthnInstant = mint.Add(-time.Duration(a.AuthnAgoS[i]) * time.Second)
		}
		if i < len(a.SNOA) {
			var at time.Time
			switch a.SNOA[i] {
			case "earlier":
				at = mint.Add(lifetime / 2)
			case "later":
				at = mint.Add(10 * lifetime)
			case "past":
				at = mint.Add(-time.Hour)
			}
			if !at.IsZero() {
				st.SessionNotOnOrAfter = &at
			}
		}
		as.AuthnStatements = append(as.AuthnStatements, st)
	}
	return as
}

// ---------------------------------------------------------------- deployment

var idpMeta = func() *saml.EntityDescriptor {
	k := fix.Get("idp")
	idp := saml.IdentityProvider{Key: k.Key, Certificate: k.Cert,
		MetadataURL: url.URL{Scheme: "https", Host: "idp.example.org", Path: "/metadata"},
		SSOURL:      url.URL{Scheme: "https", Host: "idp.example.org", Path: "/sso"}}
	saved := saml.TimeNow
	saml.TimeNow = func() time.Time { return fix.Epoch }
	buf, err := xml.Marshal(idp.Metadata())
	saml.TimeNow = saved
	if err != nil {
		panic(err)
	}
	var ed saml.EntityDescriptor
	if err := xml.Unmarshal(buf, &ed); err != nil {
		panic(err)
	}
	return &ed
}()

type deployment struct {
	m      *samlsp.Middleware
	name   string // effective session cookie name
	aud    string // the CONFIGURED audience, issuer and algorithm
	iss    string
	alg    string
	root   string
	entity string
}

func deploy(rootURL string, key *fix.KeyPair, cookieName string, maxAge time.Duration, f Conf) deployment {
	u, err := url.Parse(rootURL)
	if err != nil {
		panic(err)
	}
	opts := samlsp.Options{URL: *u, Key: key.Key, Certificate: key.Cert, IDPMetadata: idpMeta, CookieName: cookieName,
		EntityID: f.EntityID, CookieSameSite: http.SameSite(f.SameSite), ForceAuthn: f.ForceAuthn, UseArtifactResponse: f.Artifact,
		AllowIDPInitiated: f.AllowIDPInit, SignRequest: f.SignReq, DefaultRedirectURI: f.DefaultURI}
	if f.LogoutRedirect {
		opts.LogoutBindings = []string{saml.HTTPRedirectBinding}
	}
	m, err := samlsp.New(opts)
	if err != nil {
		panic(err)
	}
	d := deployment{m: m, name: cookieName, aud: u.String(), iss: u.String(), alg: nativeAlg(key.Key), root: u.String(), entity: f.EntityID}
	if d.name == "" {
		d.name = "token"
	}
	if d.entity == "" {
		d.entity = m.ServiceProvider.MetadataURL.String()
	}
	sess := samlsp.DefaultSessionProvider(opts)
	codec := samlsp.DefaultSessionCodec(opts)
	tracker := samlsp.DefaultRequestTracker(opts, &m.ServiceProvider)
	tcodec := samlsp.DefaultTrackedRequestCodec(opts)
	codec.MaxAge = maxAge
	sess.MaxAge = maxAge
	if f.CookieMaxAgeMs > 0 {
		sess.MaxAge = time.Duration(f.CookieMaxAgeMs) * time.Millisecond
	}
	if f.SigAlg != "" {
		d.alg = f.SigAlg
		codec.SigningMethod = jwt.GetSigningMethod(f.SigAlg)
		tcodec.SigningMethod = codec.SigningMethod
	}
	if f.Aud != "" {
		d.aud = f.Aud
		codec.Audience, tcodec.Audience = f.Aud, f.Aud
	}
	if f.Iss != "" {
		d.iss = f.Iss
		codec.Issuer, tcodec.Issuer = f.Iss, f.Iss
	}
	if f.Domain != "" {
		sess.Domain = f.Domain
	}
	sess.Path = f.Path
	sess.HTTPOnly = !f.HTTPOnlyOff
	if f.SecureFlip {
		sess.Secure = !sess.Secure
	}
	sess.Codec = codec
	if f.CustomCodec {
		sess.Codec = plainCodec{inner: codec}
	}
	tracker.Codec = tcodec
	m.Session = sess
	m.RequestTracker = tracker
	return d
}

func (d deployment) mintSession(a *saml.Assertion) (string, error) {
	rec := httptest.NewRecorder()
	req := httptest.NewRequest("POST", "/saml/acs", nil)
	if err := d.m.Session.CreateSession(rec, req, a); err != nil {
		return "", err
	}
	for _, ck := range rec.Result().Cookies() {
		if ck.Name == d.name {
			return ck.Value, nil
		}
	}
	return "", fmt.Errorf("CreateSession set no cookie named %q (Set-Cookie: %q)", d.name, rec.Header().Values("Set-Cookie"))
}

func (d deployment) mintTracking() (string, error) {
	rec := httptest.NewRecorder()
	req := httptest.NewRequest("GET", "/protected?x=1", nil)
	idx, err := d.m.RequestTracker.TrackRequest(rec, req, "id-00112233445566778899aabbccddeeff00112233")
	if err != nil {
		return "", err
	}
	for _, ck := range rec.Result().Cookies() {
		if ck.Name == "saml_"+idx {
			return ck.Value, nil
		}
	}
	return "", fmt.Errorf("TrackRequest set no cookie saml_%s", idx)
}

// plainSession / plainCodec: an application's own SessionCodec.  The session value
// deliberately has no GetAttributes method.
type plainSession struct{ claims samlsp.JWTSessionClaims }

type plainCodec struct{ inner samlsp.JWTSessionCodec }

func (p plainCodec) New(a *saml.Assertion) (samlsp.Session, error) {
	s, err := p.inner.New(a)
	if err != nil {
		return nil, err
	}
	return plainSession{claims: s.(samlsp.JWTSessionClaims)}, nil
}

func (p plainCodec) Encode(s samlsp.Session) (string, error) {
	return p.inner.Encode(s.(plainSession).claims)
}

func (p plainCodec) Decode(tok string) (samlsp.Session, error) {
	s, err := p.inner.Decode(tok)
	if err != nil {
		return nil, err
	}
	return plainSession{claims: s.(samlsp.JWTSessionClaims)}, nil
}

// ---------------------------------------------------------------- token surgery (stdlib only)

var b64 = base64.RawURLEncoding

func splitTok(tok string) (h, c, s string, ok bool) {
	p := strings.Split(tok, ".")
	if len(p) != 3 {
		return "", "", "", false
	}
	return p[0], p[1], p[2], true
}

func decodeClaims(seg string) (map[string]any, error) {
	raw, err := b64.DecodeString(seg)
	if err != nil {
		return nil, err
	}
	dec := json.NewDecoder(strings.NewReader(string(raw)))
	dec.UseNumber()
	m := map[string]any{}
	if err := dec.Decode(&m); err != nil {
		return nil, err
	}
	return m, nil
}

func encodeJSON(v any) string {
	buf, err := json.Marshal(v)
	if err != nil {
		panic(err)
	}
	return b64.EncodeToString(buf)
}

func header(alg string, extra map[string]any) string {
	h := map[string]any{"alg": alg, "typ": "JWT"}
	for k, v := range extra {
		h[k] = v
	}
	return encodeJSON(h)
}

func hashFor(alg string) (crypto.Hash, func() hash.Hash) {
	switch {
	case strings.HasSuffix(alg, "384"):
		return crypto.SHA384, sha512.New384
	case strings.HasSuffix(alg, "512"):
		return crypto.SHA512, sha512.New
	default:
		return crypto.SHA256, sha256.New
	}
}

// signWith signs "h.c" as the named JWS algorithm would, with stdlib primitives only,
// never refusing a key/curve combination the jwt library would refuse to *sign* with.
func signWith(alg string, key crypto.Signer, signing string) (string, error) {
	ch, newH := hashFor(alg)
	hh := newH()
	hh.Write([]byte(signing))
	digest := hh.Sum(nil)
	switch k := key.(type) {
	case *rsa.PrivateKey:
		if strings.HasPrefix(alg, "PS") {
			sig, err := rsa.SignPSS(rand.Reader, k, ch, digest, &rsa.PSSOptions{SaltLength: rsa.PSSSaltLengthEqualsHash})
			return b64.EncodeToString(sig), err
		}
		sig, err := rsa.SignPKCS1v15(rand.Reader, k, ch, digest)
		return b64.EncodeToString(sig), err
	case *ecdsa.PrivateKey:
		r, s, err := ecdsa.Sign(rand.Reader, k, digest)
		if err != nil {
			return "", err
		}
		size := map[string]int{"ES256": 32, "ES384": 48, "ES512": 66}[alg]
		if size == 0 {
			size = 32
		}
		out := make([]byte, 2*size)
		r.FillBytes(out[:size])
		s.FillBytes(out[size:])
		return b64.EncodeToString(out), nil
	}
	return "", fmt.Errorf("unsupported key %T", key)
}

func nativeAlg(key crypto.Signer) string {
	if _, ok := key.(*ecdsa.PrivateKey); ok {
		return "ES256"
	}
	return "RS256"
}

func hmacKey(form string, kp *fix.KeyPair) []byte {
	pkix, err := x509.MarshalPKIXPublicKey(kp.Key.Public())
	if err != nil {
		panic(err)
	}
	switch form {
	case "pkix-der":
		return pkix
	case "pkix-pem":
		return pem.EncodeToMemory(&pem.Block{Type: "PUBLIC KEY", Bytes: pkix})
	case "cert-der":
		return kp.Cert.Raw
	case "cert-pem":
		return pem.EncodeToMemory(&pem.Block{Type: "CERTIFICATE", Bytes: kp.Cert.Raw})
	case "pkcs1-der", "pkcs1-pem":
		if r := kp.RSA(); r != nil {
			der := x509.MarshalPKCS1PublicKey(&r.PublicKey)
			if form == "pkcs1-der" {
				return der
			}
			return pem.EncodeToMemory(&pem.Block{Type: "RSA PUBLIC KEY", Bytes: der})
		}
		return pkix
	case "raw":
		if r := kp.RSA(); r != nil {
			return r.N.Bytes()
		}
		e := kp.EC()
		return append(append([]byte{4}, e.X.Bytes()...), e.Y.Bytes()...)
	default:
		return []byte{}
	}
}

func nearMiss(kind, v string) (string, bool) {
	switch kind {
	case "other":
		return "https://other.example.net/", true
	case "empty":
		return "", true
	case "absent":
		return "", false
	}
	if x, ok := xgen.NearMiss(v)[kind]; ok {
		return x, true
	}
	return v + "x", true
}

func otherRoot(kind, root string) string {
	u, _ := url.Parse(root)
	switch kind {
	case "other":
		return "https://other.example.net/"
	case "trailing-slash":
		return root + "/"
	case "suffix-x":
		return root + "x"
	case "prefix":
		return strings.TrimSuffix(root, "/")
	case "upper":
		return u.Scheme + "://" + strings.ToUpper(u.Host) + u.Path
	case "scheme-flip":
		if u.Scheme == "https" {
			u.Scheme = "http"
		} else {
			u.Scheme = "https"
		}
		return u.String()
	case "port":
		if u.Port() == "" {
			u.Host += ":444"
		} else {
			u.Host = u.Hostname()
		}
		return u.String()
	default: // path
		if u.Path == "/" {
			u.Path = "/app/"
		} else {
			u.Path = "/"
		}
		return u.String()
	}
}

// ---------------------------------------------------------------- check

type observed struct {
	plain   bool              // the session is the application's own type (no attributes exposed)
	first   map[string]string // AttributeFromContext(ctx, name) for every name of the reference
	ran     bool
	subject string
	attrs   map[string][]string
	typeOK  bool
	status  int
	panicV  any
}

func check(c Case) (res pbt.Result) {
	inf, okMut := catalogue[c.Mut]
	if !okMut || (c.Key != "sp" && c.Key != "spec") || c.MaxAgeMs < 4_000 || (c.Base != "session" && c.Base != "tracking") {
		return pbt.Result{Skip: true}
	}
	if inf.keys != "" && inf.keys != keyKind(c.Key) {
		return pbt.Result{Skip: true}
	}
	if f := c.Conf; f.SigAlg != "" {
		okAlg := false
		for _, a := range rsaAlgs {
			okAlg = okAlg || a == f.SigAlg
		}
		if !okAlg || keyKind(c.Key) != "rsa" {
			return pbt.Result{Skip: true}
		}
	}
	if c.Conf.CookieMaxAgeMs != 0 && c.Conf.CookieMaxAgeMs < 4_000 || c.Conf.SameSite < 0 || c.Conf.SameSite > 4 || len(c.Conf.Warm) > 8 {
		return pbt.Result{Skip: true}
	}
	if c.Base == "tracking" && c.Mut == "open-marker" {
		return pbt.Result{Skip: true} // would be the only way to give a tracking token a session marker
	}
	key := fix.Get(c.Key)
	maxAge := time.Duration(c.MaxAgeMs) * time.Millisecond
	t0 := fix.Epoch.Add(time.Duration(c.MintSec)*time.Second + time.Duration(c.MintMs)*time.Millisecond)
	present := t0.Add(time.Duration(c.OffMs) * time.Millisecond)

	// ---- mint
	fix.SetNow(t0)
	jwt.MarshalSingleStringAsArray = c.ArrayAud
	d := deploy(c.URL, key, c.CookieName, maxAge, c.Conf)
	assertion := buildAssertionAt(c.Assertion, t0, maxAge)
	var tok string
	var err error
	if c.Base == "session" {
		tok, err = d.mintSession(assertion)
	} else {
		tok, err = d.mintTracking()
	}
	if err != nil {
		res.Err = "minting failed: " + err.Error()
		return res
	}
	origTok := tok
	h, cl, sg, ok := splitTok(tok)
	if !ok {
		res.Err = fmt.Sprintf("minted token does not have three segments: %q", tok)
		return res
	}
	claims, err := decodeClaims(cl)
	if err != nil {
		res.Err = "minted claims do not decode: " + err.Error()
		return res
	}
	alg := d.alg // the CONFIGURED algorithm
	presentName := d.name
	resign := func(algName string, hdr string, cm map[string]any, k crypto.Signer) string {
		seg := encodeJSON(cm)
		s, err := signWith(algName, k, hdr+"."+seg)
		if err != nil {
			panic(err)
		}
		return hdr + "." + seg + "." + s
	}

	// ---- mutate (exactly one named fault)
	v := dontCare
	switch inf.kind {
	case "legit":
		v = mustAdmit
	case "refuse":
		v = mustRefuse
	}
	switch c.Mut {
	case "none":
	case "resign-same":
		tok = resign(alg, header(alg, nil), claims, key.Key)
	case "sig-empty":
		tok = h + "." + cl + "."
	case "sig-flip":
		pos := 0
		if len(sg) > 8 {
			pos = c.MutN % (len(sg) - 4) // never the last characters (unused trailing bits)
		}
		repl := byte('A')
		if sg[pos] == 'A' {
			repl = 'B'
		}
		tok = h + "." + cl + "." + sg[:pos] + string(repl) + sg[pos+1:]
	case "sig-trunc":
		n := 1 + c.MutN%(len(sg)-1)
		tok = h + "." + cl + "." + sg[:len(sg)-n]
	case "sig-other-token":
		other := buildAssertion(AssertionSpec{Subject: "nameid", NameID: "someone-else-" + fmt.Sprint(c.MutN), Statements: nil})
		t2, err := d.mintSession(other)
		if err != nil {
			res.Err = "minting failed: " + err.Error()
			return res
		}
		_, c2, s2, _ := splitTok(t2)
		if c2 == cl {
			return pbt.Result{Skip: true}
		}
		tok = h + "." + cl + "." + s2
	case "hdr-alg-keep-sig":
		if c.MutArg == alg {
			return pbt.Result{Skip: true}
		}
		tok = header(c.MutArg, nil) + "." + cl + "." + sg
	case "claims-keep-sig":
		cm := cloneMap(claims)
		switch c.MutArg {
		case "sub":
			cm["sub"] = fmt.Sprint(cm["sub"]) + "x"
		case "exp":
			cm["exp"] = json.Number(fmt.Sprint(t0.Add(1000 * maxAge).Unix()))
		case "attr":
			cm["attr"] = map[string]any{"groups": []string{"admin"}}
		default:
			cm["saml-session"] = "yes"
		}
		tok = h + "." + encodeJSON(cm) + "." + sg
	case "alg-none":
		tok = header(c.MutArg, nil) + "." + cl + "."
	case "hmac":
		parts := strings.SplitN(c.MutArg, ":", 2)
		hdr := header(parts[0], nil)
		_, newH := hashFor(parts[0])
		mac := hmac.New(newH, hmacKey(parts[1], key))
		mac.Write([]byte(hdr + "." + cl))
		tok = hdr + "." + cl + "." + b64.EncodeToString(mac.Sum(nil))
	case "swap-rsa", "swap-ec":
		if c.MutArg == alg {
			return pbt.Result{Skip: true}
		}
		hdr := header(c.MutArg, nil)
		s, err := signWith(c.MutArg, key.Key, hdr+"."+cl)
		if err != nil {
			panic(err)
		}
		tok = hdr + "." + cl + "." + s
	case "alg-foreign":
		// header names the other family's default algorithm, signature made with the SP key
		other := "ES256"
		if alg == "ES256" {
			other = "RS256"
		}
		hdr := header(other, nil)
		s, _ := signWith(alg, key.Key, hdr+"."+cl)
		tok = hdr + "." + cl + "." + s
	case "alg-unknown":
		if c.MutArg == alg {
			return pbt.Result{Skip: true}
		}
		hdr := header(c.MutArg, nil)
		s, _ := signWith(alg, key.Key, hdr+"."+cl)
		tok = hdr + "." + cl + "." + s
	case "alg-missing":
		hdr := encodeJSON(map[string]any{"typ": "JWT"})
		s, _ := signWith(alg, key.Key, hdr+"."+cl)
		tok = hdr + "." + cl + "." + s
	case "alg-nonstr":
		hdr := b64.EncodeToString([]byte(`{"alg":` + c.MutArg + `,"typ":"JWT"}`))
		s, _ := signWith(alg, key.Key, hdr+"."+cl)
		tok = hdr + "." + cl + "." + s
	case "other-key":
		// another deployment: same URL, same algorithm, its own key -> minted through ITS codec
		okName := "sp2"
		if keyKind(c.Key) == "ec" {
			okName = "idpec"
		}
		ok2 := fix.Get(okName)
		d2 := deploy(c.URL, ok2, c.CookieName, maxAge, c.Conf)
		t2, err := d2.mintSession(assertion)
		if err != nil {
			res.Err = "minting failed: " + err.Error()
			return res
		}
		tok = t2
		if c.MutArg != "plain" {
			// re-sign with the foreign key, advertising that key in the header
			_, c2, _, _ := splitTok(t2)
			extra := map[string]any{}
			if c.MutArg == "x5c" {
				extra["x5c"] = []string{base64.StdEncoding.EncodeToString(ok2.Cert.Raw)}
			} else {
				extra["jwk"] = jwkOf(ok2)
			}
			hdr := header(alg, extra)
			s, _ := signWith(alg, ok2.Key, hdr+"."+c2)
			tok = hdr + "." + c2 + "." + s
		}
	case "other-url":
		r2 := otherRoot(c.MutArg, c.URL)
		if u2, err := url.Parse(r2); err != nil || u2.String() == d.root || (c.Conf.Aud != "" && c.Conf.Iss != "") {
			return pbt.Result{Skip: true} // with audience AND issuer configured explicitly the URL no longer tells deployments apart
		}
		d2 := deploy(r2, key, c.CookieName, maxAge, c.Conf)
		t2, err := d2.mintSession(assertion)
		if err != nil {
			res.Err = "minting failed: " + err.Error()
			return res
		}
		tok = t2
	case "claim-aud", "claim-iss":
		name := strings.TrimPrefix(c.Mut, "claim-")
		cm := cloneMap(claims)
		right, otherOwn := d.aud, d.iss
		if name == "iss" {
			right, otherOwn = d.iss, d.aud
		}
		if c.MutArg == "array-wrong" {
			cm[name] = []string{"https://other.example.net/"}
		} else {
			nv, keep := nearMiss(c.MutArg, right)
			switch c.MutArg { // another identifier of the SAME deployment
			case "own-other":
				nv, keep = otherOwn, true
			case "root-url":
				nv, keep = d.root, true
			case "entity-id":
				nv, keep = d.entity, true
			case "acs-url":
				nv, keep = d.m.ServiceProvider.AcsURL.String(), true
			case "metadata-url":
				nv, keep = d.m.ServiceProvider.MetadataURL.String(), true
			}
			if keep && nv == right {
				return pbt.Result{Skip: true}
			}
			if keep {
				cm[name] = nv
			} else {
				delete(cm, name)
			}
		}
		tok = resign(alg, header(alg, nil), cm, key.Key)
	case "claim-marker":
		cm := cloneMap(claims)
		if c.MutArg == "false" {
			cm["saml-session"] = false
		} else {
			delete(cm, "saml-session")
		}
		tok = resign(alg, header(alg, nil), cm, key.Key)
	case "claim-exp":
		// expired at the presentation instant, whatever the clock class: exp <= present-10s
		cm := cloneMap(claims)
		e := present.Add(-10 * time.Second).Unix()
		cm["exp"] = json.Number(fmt.Sprint(e))
		for _, k := range []string{"iat", "nbf"} {
			cm[k] = json.Number(fmt.Sprint(e - 100))
		}
		tok = resign(alg, header(alg, nil), cm, key.Key)
	case "claim-nbf":
		cm := cloneMap(claims)
		n := present.Add(10 * time.Second).Unix()
		cm["nbf"] = json.Number(fmt.Sprint(n))
		cm["iat"] = json.Number(fmt.Sprint(n))
		cm["exp"] = json.Number(fmt.Sprint(n + 3600))
		tok = resign(alg, header(alg, nil), cm, key.Key)
	case "claim-window", "open-window":
		cm := cloneMap(claims)
		p := present.Unix()
		set := func(iat, nbf, exp int64) {
			cm["iat"], cm["nbf"], cm["exp"] = json.Number(fmt.Sprint(iat)), json.Number(fmt.Sprint(nbf)), json.Number(fmt.Sprint(exp))
		}
		switch c.MutArg {
		case "before-nbf":
			set(p-100, p+50, p+500)
		case "before-nbf-no-iat":
			set(p-100, p+50, p+500)
			delete(cm, "iat")
		case "after-exp":
			set(p-500, p-400, p-50)
		default: // inside
			set(p-100, p-50, p+50)
		}
		tok = resign(alg, header(alg, nil), cm, key.Key)
	case "extra-seg":
		switch c.MutArg {
		case "append":
			tok = tok + ".AAAA"
		case "prepend":
			tok = "AAAA." + tok
		case "double":
			tok = tok + "." + tok
		case "dot":
			tok = tok + "."
		default:
			tok = h + "." + cl + ".AAAA." + sg
		}
	case "struct":
		switch c.MutArg {
		case "empty":
			tok = ""
		case "two-seg":
			tok = h + "." + cl
		case "one-seg":
			tok = cl
		case "dots":
			tok = ".."
		default:
			tok = strings.Repeat("QUJD", 1+c.MutN%40)
		}
	case "trunc":
		n := 1 + c.MutN*(len(tok)-1)/1001
		tok = tok[:len(tok)-n]
	case "wrong-cookie":
		if c.MutArg == d.name {
			return pbt.Result{Skip: true}
		}
		presentName = c.MutArg
	case "open-aud-array":
		cm := cloneMap(claims)
		cm["aud"] = []string{d.aud}
		tok = resign(alg, header(alg, nil), cm, key.Key)
	case "open-marker":
		cm := cloneMap(claims)
		cm["saml-session"] = json.RawMessage(c.MutArg)
		tok = resign(alg, header(alg, nil), cm, key.Key)
	case "open-exp":
		cm := cloneMap(claims)
		switch c.MutArg {
		case "absent":
			delete(cm, "exp")
		case "extended":
			cm["exp"] = json.Number(fmt.Sprint(t0.Add(1000 * maxAge).Unix()))
		case "float":
			cm["exp"] = json.Number(fmt.Sprint(cm["exp"]) + ".5")
		default:
			cm["exp"] = fmt.Sprint(cm["exp"])
		}
		tok = resign(alg, header(alg, nil), cm, key.Key)
	case "open-iat-future":
		cm := cloneMap(claims)
		cm["iat"] = json.Number(fmt.Sprint(present.Add(3600 * time.Second).Unix()))
		tok = resign(alg, header(alg, nil), cm, key.Key)
	}
	if c.Base == "tracking" {
		v = mustRefuse // a request-tracking token of the same SP is never a session
	}

	// ---- clock: a legitimate token authenticates strictly inside (iat, exp) only
	// (a token is expired after the CODEC's lifetime; when the cookie's own Max-Age is
	// shorter, the span between the two is left open: the browser should have dropped it)
	admitUntil := c.MaxAgeMs
	if m := c.Conf.CookieMaxAgeMs; m > 0 && m < admitUntil {
		admitUntil = m
	}
	// ... and an IdP-stated earlier end (SessionNotOnOrAfter, Conditions) may be honoured: not judged after it;
	// a LATER one never extends the configured lifetime
	if m := capOffset(c.Assertion, c.MaxAgeMs); m > 0 && m < admitUntil {
		admitUntil = m
	}
	clockVerdict := func(v0 verdict, off int64, timeOpen bool) verdict {
		inside := off > 1_000 && off < admitUntil-1_000
		outside := off < -1_000 || off > c.MaxAgeMs+1_000
		switch {
		case v0 == mustAdmit && outside:
			return mustRefuse
		case v0 == mustAdmit && !inside:
			return dontCare
		case v0 == dontCare && outside && !timeOpen:
			return mustRefuse
		}
		return v0
	}
	vBase := v
	v = clockVerdict(vBase, c.OffMs, c.Mut == "open-exp" || c.Mut == "open-iat-future" || c.Mut == "open-window")
	vOrig := mustAdmit
	if c.Base == "tracking" {
		vOrig = mustRefuse
	}

	// ---- present, on ONE long-lived handler value: earlier presentations of the same
	// token strings at other clock positions first, each judged on its own
	dr := newDriver(d, c)
	type seqObs struct {
		p    Pres
		v    verdict
		ob   observed
		open bool
	}
	var seq []seqObs
	for _, p := range c.Seq {
		so := seqObs{p: p}
		fix.SetNow(t0.Add(time.Duration(p.OffMs) * time.Millisecond))
		if p.What == "same" && !timeRelative[c.Mut] {
			so.v, so.open = clockVerdict(vBase, p.OffMs, false), inf.kind == "open"
			so.ob = dr.present(presentName, tok, c.Assertion)
		} else {
			so.p.What = "original"
			so.v = clockVerdict(vOrig, p.OffMs, false)
			so.ob = dr.present(d.name, origTok, c.Assertion)
		}
		seq = append(seq, so)
	}
	warmSpec := AssertionSpec{Subject: "nameid", NameID: "warm-user", Statements: [][]Attr{{{Name: "groups", Values: []string{"admin", "root"}}}}, SessionIndexes: []string{"warm-idx"}}
	if c.Gate == "attr" {
		warmSpec.Statements = append(warmSpec.Statements, []Attr{{Name: c.GateName, Values: []string{c.GateValue}}})
	}
	var warmTok, warmTrack string
	if len(c.Conf.Warm) > 0 || c.Conf.After {
		fix.SetNow(present.Add(-2 * time.Second))
		var e1, e2 error
		warmTok, e1 = d.mintSession(buildAssertion(warmSpec))
		warmTrack, e2 = d.mintTracking()
		if e1 != nil || e2 != nil {
			res.Err = fmt.Sprintf("minting failed: %v %v", e1, e2)
			return res
		}
	}
	fix.SetNow(present)
	presentWarm := func(when string) string {
		o := dr.present(d.name, warmTok, warmSpec)
		if c.Conf.CustomCodec && c.Gate == "attr" {
			if o.ran {
				return fmt.Sprintf("RequireAttribute let a session without attributes through (%s the judged request)", when)
			}
			return ""
		}
		if o.panicV != nil {
			return fmt.Sprintf("middleware panicked on another user's valid token (%s): %v", when, o.panicV)
		}
		if !o.ran {
			return fmt.Sprintf("another user's valid 2-second-old session token was not admitted %s the judged request (status %d)", when, o.status)
		}
		if o.subject != "warm-user" {
			return fmt.Sprintf("%s the judged request another user's valid token showed subject %q instead of its own", when, o.subject)
		}
		if df := diffAttrs(refAttributes(warmSpec), o.attrs); df != "" && !c.Conf.CustomCodec {
			return fmt.Sprintf("%s the judged request another user's valid token showed foreign attributes: %s", when, df)
		}
		return ""
	}
	for _, wop := range c.Conf.Warm {
		switch wop {
		case "other-legit":
			if msg := presentWarm("before"); msg != "" {
				res.Err = msg
				return res
			}
		case "garbage":
			dr.present(d.name, "AAAA.BBBB.CCCC", AssertionSpec{})
		case "tracking":
			if o := dr.present(d.name, warmTrack, AssertionSpec{}); o.ran {
				res.Err = "a tracking token presented as session cookie (warm-up) reached the application"
				return res
			}
		default:
			dr.present("unrelated", "x", AssertionSpec{})
		}
	}
	ob := dr.present(presentName, tok, c.Assertion)
	afterMsg := ""
	if c.Conf.After {
		afterMsg = presentWarm("after")
	}

	// ---- classes
	res.Classes = []string{"mut:" + c.Mut, "base:" + c.Base, "clock:" + c.Clock, "key:" + c.Key, "expect:" + v.String()}
	if c.MutArg != "" && (c.Mut == "hmac" || strings.HasPrefix(c.Mut, "swap") || c.Mut == "alg-none") {
		res.Classes = append(res.Classes, "mut:"+c.Mut+":"+c.MutArg)
	}
	if c.Base == "tracking" {
		res.Classes = append(res.Classes, fmt.Sprintf("cross:tracking-as-session:arrayaud=%v", c.ArrayAud))
	}
	if c.Gate != "" {
		res.Classes = append(res.Classes, "gate:attr")
	}
	if c.CookieName != "" {
		res.Classes = append(res.Classes, "cookie:custom")
	}
	if c.MaxAgeMs != 3_600_000 {
		res.Classes = append(res.Classes, "lifetime:custom")
	}
	if c.Conf.SigAlg != "" {
		res.Classes = append(res.Classes, "conf:alg="+c.Conf.SigAlg)
	}
	if c.Conf.Aud != "" || c.Conf.Iss != "" {
		res.Classes = append(res.Classes, "conf:custom-aud-iss")
	}
	if c.Conf.CookieMaxAgeMs != 0 {
		res.Classes = append(res.Classes, "conf:cookie-maxage!=codec")
	}
	if f := c.Conf; f.EntityID != "" || f.SameSite != 0 || f.ForceAuthn || f.Artifact || f.AllowIDPInit || f.SignReq || f.LogoutRedirect || f.DefaultURI != "" || f.Domain != "" || f.Path != "" || f.HTTPOnlyOff || f.SecureFlip {
		res.Classes = append(res.Classes, "conf:unmentioned-fields-varied")
	}
	if len(c.Conf.Warm) > 0 || c.Conf.After {
		res.Classes = append(res.Classes, "sequence:warm-or-after")
	}
	if c.Conf.CustomCodec {
		res.Classes = append(res.Classes, "conf:custom-session-codec")
	}
	if a := c.Assertion; len(a.SNOA) > 0 || len(a.ConfNameIDs) > 0 || a.Qualifiers || a.Conditions != "" {
		res.Classes = append(res.Classes, "assertion:idp-optional-parts")
		for _, x := range a.SNOA {
			if x != "" {
				res.Classes = append(res.Classes, "assertion:SessionNotOnOrAfter-"+x)
			}
		}
		if len(a.ConfNameIDs) > 0 && a.Subject == "nonameid" {
			res.Classes = append(res.Classes, "assertion:confirmation-nameid-without-subject-nameid")
		}
	}
	for _, so := range seq {
		res.Classes = append(res.Classes, "sequence:earlier-"+so.p.What+":"+so.v.String())
		if so.v == mustAdmit && v == mustRefuse && so.p.What == "original" && c.Mut == "none" {
			res.Classes = append(res.Classes, "sequence:same-string-valid-then-refused")
		}
	}
	if strings.HasPrefix(c.Mut, "claim-") && (c.MutArg == "own-other" || c.MutArg == "root-url" || c.MutArg == "entity-id" || c.MutArg == "acs-url" || c.MutArg == "metadata-url") {
		res.Classes = append(res.Classes, "near:other-identifier-of-same-deployment")
	}
	if ob.ran {
		res.Classes = append(res.Classes, "observed:admitted")
	} else {
		res.Classes = append(res.Classes, fmt.Sprintf("observed:refused:%d", ob.status))
	}
	ref := refAttributes(c.Assertion)
	repeated, friendless := false, false
	seen := map[string]bool{}
	for _, st := range c.Assertion.Statements {
		for _, at := range st {
			k := at.Friendly
			if k == "" {
				k = at.Name
				friendless = true
			}
			if seen[k] {
				repeated = true
			}
			seen[k] = true
		}
	}
	if repeated {
		res.Classes = append(res.Classes, "assertion:repeated-attr")
	}
	if friendless {
		res.Classes = append(res.Classes, "assertion:friendless-attr")
	}
	if c.Assertion.Subject != "nameid" {
		res.Classes = append(res.Classes, "assertion:no-subject")
	}
	if len(c.Assertion.Statements) > 1 {
		res.Classes = append(res.Classes, "assertion:multi-statement")
	}
	nearBoundary := abs64(c.OffMs) <= 2_000 || abs64(c.OffMs-c.MaxAgeMs) <= 2_000
	res.NonTrivial = (c.Mut != "none" || c.Base == "tracking") || nearBoundary || repeated || friendless

	// ---- judge
	if afterMsg != "" {
		res.Err = afterMsg
		return res
	}
	gateOpen := true
	if c.Gate == "attr" {
		gateOpen = false
		for _, x := range ref[c.GateName] {
			if x == c.GateValue {
				gateOpen = true
			}
		}
		if c.Conf.CustomCodec {
			gateOpen = false // a session that exposes no attributes cannot carry the required value
			res.Classes = append(res.Classes, "gate:custom-session-without-attributes")
		}
		if gateOpen {
			res.Classes = append(res.Classes, "gate:open")
		} else {
			res.Classes = append(res.Classes, "gate:closed")
		}
	}
	judgeOne := func(v verdict, ob observed, open bool, what string, off int64) string {
		desc := fmt.Sprintf("base=%s mutation=%s(%q) presented=%s at offset %d ms (lifetime %d ms)", c.Base, c.Mut, c.MutArg, what, off, c.MaxAgeMs)
		if ob.panicV != nil && !(c.Conf.CustomCodec && c.Gate == "attr") {
			// (RequireAttribute documents that it panics on a session type without attributes: that is a refusal)
			return fmt.Sprintf("middleware panicked: %s: %v", desc, ob.panicV)
		}
		switch v {
		case mustRefuse:
			if ob.ran {
				return fmt.Sprintf("application handler ran for a request that must not be authenticated: %s clock=%s; it saw subject %q", desc, c.Clock, ob.subject)
			}
			return ""
		case mustAdmit:
			if c.Gate == "attr" && !gateOpen {
				if ob.ran {
					return fmt.Sprintf("RequireAttribute(%q,%q) admitted a session whose assertion gives %q = %q", c.GateName, c.GateValue, c.GateName, ref[c.GateName])
				}
				return ""
			}
			if !ob.ran {
				return fmt.Sprintf("a legitimate session token was not admitted: %s: status %d", desc, ob.status)
			}
		default:
			if !ob.ran {
				return ""
			}
			if c.Gate == "attr" && !gateOpen && !open {
				return fmt.Sprintf("RequireAttribute(%q,%q) admitted a session whose assertion gives %q = %q", c.GateName, c.GateValue, c.GateName, ref[c.GateName])
			}
			if open {
				return ""
			}
		}
		// admitted with a token of this assertion: what the application sees must be the assertion's
		if c.Conf.CustomCodec {
			if !ob.plain {
				return "SessionFromContext did not return the custom codec's session value"
			}
			if ob.subject != refSubject(c.Assertion) {
				return fmt.Sprintf("application saw subject %q, assertion says %q (%s)", ob.subject, refSubject(c.Assertion), desc)
			}
			return ""
		}
		if !ob.typeOK {
			return "SessionFromContext did not return a session with attributes"
		}
		if ob.subject != refSubject(c.Assertion) {
			return fmt.Sprintf("application saw subject %q, assertion says %q (%s)", ob.subject, refSubject(c.Assertion), desc)
		}
		if d := diffAttrs(ref, ob.attrs); d != "" {
			return "attributes seen by the application differ from the assertion's: " + d
		}
		var names []string
		for k := range ref {
			names = append(names, k)
		}
		sort.Strings(names)
		for _, k := range names {
			if ob.first[k] != ref[k][0] {
				return fmt.Sprintf("AttributeFromContext(%q) = %q, the assertion's first value is %q", k, ob.first[k], ref[k][0])
			}
		}
		return ""
	}
	for i, so := range seq {
		if msg := judgeOne(so.v, so.ob, so.open, so.p.What, so.p.OffMs); msg != "" {
			res.Err = fmt.Sprintf("earlier presentation %d of %d on the same middleware: %s", i+1, len(seq), msg)
			return res
		}
	}
	res.Err = judgeOne(v, ob, inf.kind == "open", "final", c.OffMs)
	if res.Err != "" && len(seq) > 0 {
		res.Err = fmt.Sprintf("after %d earlier presentation(s) on the same middleware: %s", len(seq), res.Err)
	}
	return res
}

func abs64(x int64) int64 {
	if x < 0 {
		return -x
	}
	return x
}

func cloneMap(m map[string]any) map[string]any {
	out := make(map[string]any, len(m))
	for k, v := range m {
		out[k] = v
	}
	return out
}

func jwkOf(k *fix.KeyPair) map[string]any {
	if r := k.RSA(); r != nil {
		e := []byte{byte(r.E >> 16), byte(r.E >> 8), byte(r.E)}
		return map[string]any{"kty": "RSA", "n": b64.EncodeToString(r.N.Bytes()), "e": b64.EncodeToString(e)}
	}
	e := k.EC()
	return map[string]any{"kty": "EC", "crv": "P-256", "x": b64.EncodeToString(e.X.Bytes()), "y": b64.EncodeToString(e.Y.Bytes())}
}

func diffAttrs(want, got map[string][]string) string {
	keys := map[string]bool{}
	for k := range want {
		keys[k] = true
	}
	for k := range got {
		keys[k] = true
	}
	var ks []string
	for k := range keys {
		ks = append(ks, k)
	}
	sort.Strings(ks)
	for _, k := range ks {
		w, g := want[k], got[k]
		if len(w) != len(g) {
			return fmt.Sprintf("%q: want %q, got %q", k, w, g)
		}
		for i := range w {
			if w[i] != g[i] {
				return fmt.Sprintf("%q: want %q, got %q", k, w, g)
			}
		}
	}
	return ""
}

// driver is ONE handler value (RequireAccount [+ RequireAttribute] + sentinel) that
// serves every request of a case: warm-ups, the judged request, the after-request.
type driver struct {
	d       deployment
	c       Case
	handler http.Handler
	cur     *observed
	spec    AssertionSpec
}

func newDriver(d deployment, c Case) *driver {
	dr := &driver{d: d, c: c}
	sentinel := http.HandlerFunc(func(w http.ResponseWriter, r *http.Request) {
		ob := dr.cur
		ob.ran = true
		s := samlsp.SessionFromContext(r.Context())
		if jc, ok := s.(samlsp.JWTSessionClaims); ok {
			ob.subject = jc.Subject
		}
		if ps, ok := s.(plainSession); ok {
			ob.subject, ob.plain = ps.claims.Subject, true
		}
		if sa, ok := s.(samlsp.SessionWithAttributes); ok {
			ob.typeOK = true
			ob.attrs = map[string][]string{}
			for k, v := range sa.GetAttributes() {
				ob.attrs[k] = v
			}
			ob.first = map[string]string{}
			for k := range refAttributes(dr.spec) {
				ob.first[k] = samlsp.AttributeFromContext(r.Context(), k)
			}
		}
		w.WriteHeader(http.StatusOK)
	})
	var app http.Handler = sentinel
	if c.Gate == "attr" {
		app = samlsp.RequireAttribute(c.GateName, c.GateValue)(app)
	}
	dr.handler = d.m.RequireAccount(app)
	return dr
}

// present sends one request with the cookie and reports what the sentinel saw.
func (dr *driver) present(cookieName, tok string, spec AssertionSpec) observed {
	var ob observed
	dr.cur, dr.spec = &ob, spec
	req := httptest.NewRequest("GET", "/protected/page?x=1", nil)
	u, _ := url.Parse(dr.c.URL)
	req.Host = u.Host
	req.Header.Set("Cookie", cookieName+"="+tok)
	rec := httptest.NewRecorder()
	func() {
		defer func() {
			if e := recover(); e != nil {
				ob.panicV = e
			}
		}()
		dr.handler.ServeHTTP(rec, req)
	}()
	ob.status = rec.Code
	return ob
}

// ---------------------------------------------------------------- exhaustive part

// enumMutants: every catalogue mutation x every admissible argument x both key
// kinds x both aud encodings x the three inside clock classes, and the legitimate
// token at every clock class x lifetime; one fixed assertion.
func enumMutants(_ string, emit func(Case)) {
	as := AssertionSpec{Subject: "nameid", NameID: "alice@example.com",
		Statements:     [][]Attr{{{Name: "urn:oid:0.9.2342.19200300.100.1.1", Friendly: "uid", Values: []string{"alice"}}, {Name: "groups", Values: []string{"staff", "admin"}}, {Name: "memberOf", Values: []string{"mallory, root", "CN=x,OU=wheel,DC=example", "a;sudo", "ops users"}}}, {{Name: "groups", Values: []string{"ops"}}}},
		SessionIndexes: []string{"idx-1"}}
	off := func(cls string, maxAge int64) int64 {
		switch cls {
		case "before-far":
			return -86_400_000
		case "before-2s":
			return -2_000
		case "iat-boundary":
			return 0
		case "inside-early":
			return 1_500
		case "inside-mid":
			return maxAge / 2
		case "inside-late":
			return maxAge - 1_500
		case "exp-boundary":
			return maxAge
		case "after-2s":
			return maxAge + 2_000
		default:
			return maxAge + 86_400_000
		}
	}
	for _, key := range []string{"sp", "spec"} {
		for _, arr := range []bool{true, false} {
			base := Case{Key: key, URL: rootURLs[0], MaxAgeMs: 3_600_000, ArrayAud: arr, MintSec: 12345, MintMs: 250, Assertion: as}
			for _, maxAge := range []int64{3_600_000, 5_000, 90_250} {
				for _, cls := range clockClasses {
					for _, mut := range []string{"none", "resign-same"} {
						c := base
						c.Base, c.Mut, c.MaxAgeMs, c.Clock, c.OffMs = "session", mut, maxAge, cls, off(cls, maxAge)
						emit(c)
						c.Gate, c.GateName, c.GateValue = "attr", "groups", "admin"
						emit(c)
						c.GateValue = "root"
						emit(c)
						c.GateValue = "adm" // proper prefix of a carried value
						emit(c)
						for _, piece := range []string{"root", "mallory", "wheel", "OU=wheel", "sudo", "a", "users", "ops"} {
							c.GateName, c.GateValue = "memberOf", piece // a delimited piece of a carried value is not the value
							emit(c)
						}
						c.GateName, c.GateValue = "memberOf", "mallory, root" // ... the whole value is
						emit(c)
					}
					c := base
					c.Base, c.Mut, c.MaxAgeMs, c.Clock, c.OffMs = "tracking", "none", maxAge, cls, off(cls, maxAge)
					emit(c)
				}
			}
			// ---- configured codec fields: the expectation follows the CONFIGURATION
			if keyKind(key) == "rsa" {
				for _, conf := range []string{"RS512", "PS256", "RS384"} {
					c := base
					c.Conf.SigAlg = conf
					c.Base, c.Mut, c.Clock, c.OffMs = "session", "none", "inside-mid", off("inside-mid", base.MaxAgeMs)
					emit(c)
					c.Mut = "resign-same"
					emit(c)
					c.Base, c.Mut = "tracking", "none"
					emit(c)
					for _, a := range rsaAlgs { // incl. the library default RS256
						c := base
						c.Conf.SigAlg = conf
						c.Base, c.Mut, c.MutArg, c.Clock, c.OffMs = "session", "swap-rsa", a, "inside-mid", off("inside-mid", base.MaxAgeMs)
						emit(c)
					}
				}
			}
			for _, conf := range []Conf{{Aud: "urn:example:audience", Iss: "urn:example:issuer"}, {Aud: "urn:example:audience"}, {Iss: "sp"}, {EntityID: "urn:example:sp"}} {
				c := base
				c.Conf = conf
				c.Base, c.Mut, c.Clock, c.OffMs = "session", "none", "inside-mid", off("inside-mid", base.MaxAgeMs)
				emit(c)
				c.Base = "tracking"
				emit(c)
				for _, mut := range []string{"claim-aud", "claim-iss"} {
					for _, a := range catalogue[mut].args {
						c := base
						c.Conf = conf
						c.Base, c.Mut, c.MutArg, c.Clock, c.OffMs = "session", mut, a, "inside-mid", off("inside-mid", base.MaxAgeMs)
						emit(c)
					}
				}
				for _, a := range catalogue["other-url"].args {
					c := base
					c.Conf = conf
					c.Base, c.Mut, c.MutArg, c.Clock, c.OffMs = "session", "other-url", a, "inside-mid", off("inside-mid", base.MaxAgeMs)
					emit(c)
				}
			}
			// cookie Max-Age different from the codec's lifetime
			for _, x := range []struct{ codec, cookie, off int64 }{{3_600_000, 4_000, 2_000}, {3_600_000, 4_000, 10_000}, {3_600_000, 4_000, 3_602_500}, {5_000, 7_200_000, 3_000}, {5_000, 7_200_000, 8_000}, {5_000, 7_200_000, 7_190_000}} {
				c := base
				c.Conf.CookieMaxAgeMs, c.MaxAgeMs, c.OffMs = x.cookie, x.codec, x.off
				c.Base, c.Mut, c.Clock = "session", "none", "inside-mid"
				emit(c)
			}
			// ---- assertions with the optional parts real IdPs send
			for _, sub := range []string{"nameid", "nonameid"} {
				for _, snoa := range [][]string{{"later"}, {"earlier"}, {"past"}, {"", "later"}, {"later", "earlier"}} {
					for _, cond := range []string{"", "long", "short"} {
						as2 := as
						as2.Subject, as2.Qualifiers, as2.Conditions = sub, true, cond
						if sub == "nonameid" {
							as2.NameID = ""
						}
						as2.ConfNameIDs = []string{"https://idp.example.org/metadata", "mallory"}
						as2.SessionIndexes = []string{"idx-1", "idx-2"}[:len(snoa)]
						as2.SNOA = snoa
						as2.AuthnAgoS = []int64{5, 86400}[:len(snoa)]
						for _, maxAge := range []int64{3_600_000, 5_000} {
							for _, cls := range []string{"inside-early", "inside-mid", "inside-late", "after-2s", "after-far", "before-2s"} {
								c := base
								c.Assertion = as2
								c.Base, c.Mut, c.MaxAgeMs, c.Clock, c.OffMs = "session", "none", maxAge, cls, off(cls, maxAge)
								emit(c)
							}
						}
					}
				}
			}
			// ---- an application's own session type without attributes behind the attribute gate
			for _, cls := range []string{"inside-mid", "after-2s"} {
				for _, gate := range []string{"", "admin", "nobody"} {
					c := base
					c.Conf.CustomCodec = true
					c.Base, c.Mut, c.Clock, c.OffMs = "session", "none", cls, off(cls, base.MaxAgeMs)
					if gate != "" {
						c.Gate, c.GateName, c.GateValue = "attr", "groups", gate
					}
					emit(c)
					c.Conf.Warm, c.Conf.After = []string{"other-legit"}, true
					emit(c)
					c.Conf.Warm, c.Conf.After = nil, false
					c.Mut, c.MutArg = "claim-marker", "absent"
					emit(c)
					c.Base, c.Mut, c.MutArg = "tracking", "none", ""
					emit(c)
				}
			}
			// ---- the SAME token string at several clock positions on one long-lived middleware
			for _, maxAge := range []int64{3_600_000, 5_000} {
				o := func(cls string) int64 { return off(cls, maxAge) }
				for _, sq := range []struct {
					seq  []string
					last string
				}{
					{[]string{"inside-mid"}, "after-2s"}, {[]string{"inside-mid"}, "after-far"}, {[]string{"inside-early", "inside-late"}, "after-2s"},
					{[]string{"before-2s", "inside-mid"}, "after-far"}, {[]string{"inside-mid"}, "before-2s"}, {[]string{"inside-mid", "after-far"}, "before-far"},
					{[]string{"after-far"}, "inside-mid"}, {[]string{"before-far"}, "inside-mid"}, {[]string{"after-2s", "inside-mid", "after-2s"}, "inside-late"},
					{[]string{"inside-mid", "inside-mid"}, "inside-mid"}, {[]string{"inside-mid", "exp-boundary"}, "after-2s"},
				} {
					for _, mut := range []string{"none", "resign-same"} {
						c := base
						c.Base, c.Mut, c.MaxAgeMs, c.Clock, c.OffMs = "session", mut, maxAge, sq.last, o(sq.last)
						for _, cls := range sq.seq {
							c.Seq = append(c.Seq, Pres{What: "same", OffMs: o(cls)})
						}
						emit(c)
						c.Gate, c.GateName, c.GateValue = "attr", "groups", "admin"
						emit(c)
					}
				}
			}
			// ---- every mutant presented after its valid original (and the original again after it)
			for _, mut := range mutNames {
				inf := catalogue[mut]
				if inf.kind == "legit" || (inf.keys != "" && inf.keys != keyKind(key)) {
					continue
				}
				c := base
				c.Base, c.Mut, c.Clock, c.OffMs = "session", mut, "inside-mid", off("inside-mid", base.MaxAgeMs)
				if len(inf.args) > 0 {
					c.MutArg = inf.args[len(inf.args)-1]
				}
				c.Seq = []Pres{{What: "original", OffMs: off("inside-early", base.MaxAgeMs)}, {What: "same", OffMs: off("inside-mid", base.MaxAgeMs)}, {What: "original", OffMs: off("after-2s", base.MaxAgeMs)}}
				emit(c)
			}
			// ---- one long-lived middleware: another user's valid session before and after
			for _, cls := range clockClasses {
				c := base
				c.Conf.Warm, c.Conf.After = []string{"other-legit"}, true
				c.Base, c.Mut, c.Clock, c.OffMs = "session", "none", cls, off(cls, base.MaxAgeMs)
				emit(c)
				c.Gate, c.GateName, c.GateValue = "attr", "groups", "nobody" // the warm user carries it, alice does not
				emit(c)
			}
			for _, mut := range mutNames {
				inf := catalogue[mut]
				if inf.kind == "legit" || (inf.keys != "" && inf.keys != keyKind(key)) {
					continue
				}
				c := base
				c.Conf.Warm, c.Conf.After = []string{"other-legit", "garbage", "tracking", "other-legit"}, true
				c.Base, c.Mut, c.Clock, c.OffMs = "session", mut, "inside-mid", off("inside-mid", base.MaxAgeMs)
				if len(inf.args) > 0 {
					c.MutArg = inf.args[0]
					if c.MutArg == "RS256" {
						c.MutArg = inf.args[1]
					}
				}
				emit(c)
			}
			for _, mut := range mutNames {
				inf := catalogue[mut]
				if inf.kind == "legit" || (inf.keys != "" && inf.keys != keyKind(key)) {
					continue
				}
				args := inf.args
				if len(args) == 0 {
					args = []string{""}
				}
				for _, a := range args {
					for _, cls := range []string{"inside-early", "inside-mid", "inside-late"} {
						for _, n := range []int{0, 7, 500, 999} {
							c := base
							c.Base, c.Mut, c.MutArg, c.MutN, c.Clock, c.OffMs = "session", mut, a, n, cls, off(cls, base.MaxAgeMs)
							emit(c)
							if mut != "sig-flip" && mut != "sig-trunc" && mut != "trunc" && mut != "struct" && mut != "sig-other-token" {
								break
							}
						}
					}
				}
			}
		}
	}
}

var prop = &pbt.Prop[Case]{
	ID: "C16",
	Rule: "cases: one deployment (RSA or ECDSA SP key, root URL, custom cookie name, custom lifetime, aud-as-array switch; configured signing method / audience / issuer of both codecs, cookie Max-Age different from the codec lifetime, and every other public Options / CookieSessionProvider field varied) mints a session or tracking token through its codecs; " +
		"exactly one named mutation from the catalogue is applied (signature/claims/header edits, alg none/HMAC-with-public-key/family swap/unknown, other key, other URL, single-claim edits re-signed with the SP key, segment structure, wrong cookie name); " +
		"the clock is moved to a class around iat/exp and the token is presented to RequireAccount (optionally RequireAttribute) before a sentinel handler. " +
		"non-trivial: the token differs from a legitimate one in exactly one aspect (any mutation, or a tracking token), or the clock is within 2 s of iat/exp, or the assertion has a repeated or friendly-name-less attribute. " +
		"distinct: sha256 of the JSON case.",
	Gen:   gen,
	Check: check,
	Reset: fix.Reset,
	Enums: []pbt.Enum[Case]{{Name: "mutation-catalogue-x-keys-x-clock", Each: enumMutants}},
	Assumptions: []string{
		"verdicts are by construction: the oracle reads only the mutation name and clock offset of the case, never the token",
		"instants within 1 s of iat or exp are not judged (token times are whole seconds); session lifetimes are >= 5 s",
		"a token re-signed with the SP's own key and algorithm with unchanged claims counts as legitimate; tokens only the key holder could make and the codec never issues (exp absent/extended, iat alone in the future, aud as one-element array, non-boolean marker) are not judged",
		"assertion strings are XML-1.0 representable valid UTF-8 (an assertion is always parsed from XML)",
		"an attribute without values is equivalent to an absent attribute",
		"'this SP's session codec' is the CONFIGURED one: tokens under the library-default algorithm, or carrying the root URL / entity ID / ACS URL / the deployment's issuer where its configured audience belongs, are foreign; with audience and issuer both configured explicitly a second deployment at another URL is indistinguishable and not generated",
		"a token is expired after the codec's MaxAge; if the cookie provider's MaxAge is shorter, instants between the two are not judged",
		"every case may serve warm-up requests (another user's valid token, garbage, a tracking token, no cookie) on the same Middleware and handler value before the judged request and another user's token after it; those must see their own identity and must not change the judged verdict",
		"assertions may carry the optional parts real IdPs send (SessionNotOnOrAfter, AuthnInstant, several AuthnStatements, SubjectConfirmation NameIDs, NameID qualifiers, Issuer qualifiers, Conditions): the subject is the Subject's own NameID value or empty, a stated LATER end never extends the configured lifetime, after a stated EARLIER end nothing is judged on the admit side",
		"with an application-defined SessionCodec whose session type has no attributes, RequireAttribute must not let a request through (its documented panic counts as a refusal); without the gate only the subject is compared",
		"a case may present the same token string (or the unmodified original) several times to one Middleware / codec / handler at different clock positions, also going back in time; every presentation is judged on its own by the same rules",
		"a re-signed token whose nbf/iat/exp all differ is refused while now < nbf or now > exp; strictly inside it is not judged (only the key holder can make it)",
	},
}

func TestCheck(t *testing.T) { pbt.Run(t, prop) }

func FuzzCheck(f *testing.F) { pbt.Fuzz(f, prop) }

func TestMain(m *testing.M) {
	// the middleware logs refused requests through the standard logger
	log.SetOutput(io.Discard)
	os.Exit(m.Run())
}
